import PrioProofs.Props.C03
import Mathlib.Algebra.Field.ZMod

/-! # Poplar1 end to end on the executable model

Composition of the IDPF theorems (C06), cache transparency and the sketch algebra (C03) through the
executable protocol functions `shard`, `verifyInit`, `sharesToMessage`, `verifyNext`. -/

/-! ## Part A — cache transparency for an arbitrary seed type

The statements of `PrioProofs/IdpfEval.lean` carry a `[LawfulXor S]` argument that their proofs never use;
`LawfulXor (List Nat)` is false for the model's `List.zipWith Nat.xor` (lists of different lengths), so the
chain is replayed here without that argument (same definitions `specEval`, `nodeAt`, `CInv`, `CacheSound`). -/
namespace Prio.Poplar1.E2E.NoLaw
open Prio.Idpf

variable {S VI VL : Type} [XorLike S] [AddCommGroup VI] [AddCommGroup VL]

theorem evalPath_cons {V : Type} [AddCommGroup V] (g : Prg S V) (isL : Bool) (cw : CW S V) (cws : List (CW S V)) (b : Bool) (bs : List Bool)
    (n : Node S) :
    evalPath g isL (cw :: cws) (b :: bs) n =
      ((evalLevel g isL cw b n).1 :: (evalPath g isL cws bs (evalLevel g isL cw b n).2).1,
       (evalPath g isL cws bs (evalLevel g isL cw b n).2).2) := rfl

theorem evalPath_length {V : Type} [AddCommGroup V] (g : Prg S V) : ∀ (cws : List (CW S V)) (bs : List Bool) (isL : Bool) (n : Node S),
    (evalPath g isL cws bs n).1.length = min cws.length bs.length := by
  intro cws
  induction cws with
  | nil => intro bs isL n; simp [evalPath]
  | cons c cs ih =>
    intro bs isL n
    cases bs with
    | nil => simp [evalPath]
    | cons b bs => rw [evalPath_cons]; simp [ih]

/-- walking `q ++ r` = walking `q`, then `r` from the node reached (when enough levels exist) -/
theorem evalPath_append {V : Type} [AddCommGroup V] (g : Prg S V) (isL : Bool) :
    ∀ (cws : List (CW S V)) (q r : List Bool) (n : Node S), q.length ≤ cws.length →
      evalPath g isL cws (q ++ r) n =
        ((evalPath g isL (cws.take q.length) q n).1 ++
            (evalPath g isL (cws.drop q.length) r (evalPath g isL (cws.take q.length) q n).2).1,
         (evalPath g isL (cws.drop q.length) r (evalPath g isL (cws.take q.length) q n).2).2) := by
  intro cws
  induction cws with
  | nil =>
    intro q r n h
    have : q = [] := List.eq_nil_of_length_eq_zero (by simpa using h)
    subst this; simp [evalPath]
  | cons cw cws ih =>
    intro q r n h
    cases q with
    | nil => simp [evalPath]
    | cons b q =>
      simp only [List.cons_append, List.length_cons, List.take_succ_cons, List.drop_succ_cons]
      rw [evalPath_cons, evalPath_cons, ih q r _ (by simpa using h)]
      simp

/-- taking fewer levels than the path is long does not matter: only `|bs|` correction words are used -/
theorem evalPath_take {V : Type} [AddCommGroup V] (g : Prg S V) (isL : Bool) :
    ∀ (cws : List (CW S V)) (bs : List Bool) (n : Node S),
      evalPath g isL (cws.take bs.length) bs n = evalPath g isL cws bs n := by
  intro cws
  induction cws with
  | nil => intro bs n; simp
  | cons cw cws ih =>
    intro bs n
    cases bs with
    | nil => simp [evalPath]
    | cons b bs => simp only [List.length_cons, List.take_succ_cons]; rw [evalPath_cons, evalPath_cons, ih]

omit [AddCommGroup VL] in
/-- the loop of `eval_from_node` against the plain walk -/
theorem innerLoop_spec {C : Type} (cache : Cache C S) (hs : CacheSound cache) (gI : Prg S VI) (isLeader : Bool)
    (ps : PublicShare S VI VL) (key : S) (pfx : List Bool) :
    ∀ (cws : List (CW S VI)) (bs : List Bool) (level : Nat) (n : Node S) (last : Option VI) (c : C),
      level + bs.length = pfx.length → pfx.drop level = bs → ps.inner.drop level = cws →
      n = nodeAt gI isLeader ps key (pfx.take level) →
      CInv cache gI isLeader ps key c →
      let r := evalInnerLoop cache gI isLeader pfx cws bs level n last c
      let e := evalPath gI isLeader cws bs n
      r.1 = (match e.1.getLast? with | some v => some v | none => last) ∧ r.2.1 = e.2 ∧
        CInv cache gI isLeader ps key r.2.2 := by
  intro cws
  induction cws with
  | nil => intro bs level n last c _ _ _ _ hinv; simp [evalInnerLoop, evalPath, hinv]
  | cons cw cws ih =>
    intro bs level n last c hlen hdrop hcws hn hinv
    cases bs with
    | nil => simp [evalInnerLoop, evalPath, hinv]
    | cons b bs =>
      simp only [evalInnerLoop]
      rw [evalPath_cons]
      have hlt : level < pfx.length := by simp at hlen; omega
      have hlt2 : level < ps.inner.length := by
        have : (ps.inner.drop level).length = (cw :: cws).length := by rw [hcws]
        simp at this; omega
      have hb : pfx.take (level + 1) = pfx.take level ++ [b] := by
        have h1 : pfx[level]? = some b := by
          have : (pfx.drop level)[0]? = some b := by rw [hdrop]; rfl
          simpa using this
        rw [List.take_add_one, h1]; rfl
      have hcw : ps.inner[level]? = some cw := by
        have : (ps.inner.drop level)[0]? = some cw := by rw [hcws]; rfl
        simpa using this
      -- the node reached is the true node of `pfx.take (level+1)`
      have hnode : (evalLevel gI isLeader cw b n).2 = nodeAt gI isLeader ps key (pfx.take (level + 1)) := by
        have hL : (pfx.take level).length = level := by simp; omega
        have e1 := evalPath_append gI isLeader ps.inner (pfx.take level) [b] (key, !isLeader) (by rw [hL]; omega)
        have e2 := evalPath_take gI isLeader ps.inner (pfx.take level) (key, !isLeader)
        rw [hL] at e1 e2
        have e3 : (evalPath gI isLeader (ps.inner.take level) (pfx.take level) (key, !isLeader)).2 = n := by
          rw [e2, hn]; rfl
        unfold nodeAt
        rw [hb, e1, e3, hcws, evalPath_cons]
        simp [evalPath]
      have hinv' : CInv cache gI isLeader ps key (cache.insert c (pfx.take (level + 1)) (evalLevel gI isLeader cw b n).2) := by
        intro q m hq
        rcases hs c _ _ q m hq with h | ⟨rfl, rfl⟩
        · exact hinv q m h
        · exact hnode
      have := ih bs (level + 1) (evalLevel gI isLeader cw b n).2 (some (evalLevel gI isLeader cw b n).1)
        (cache.insert c (pfx.take (level + 1)) (evalLevel gI isLeader cw b n).2)
        (by simp at hlen ⊢; omega)
        (by rw [← List.drop_drop, hdrop]; rfl)
        (by rw [← List.drop_drop, hcws]; rfl)
        hnode hinv'
      obtain ⟨h1, h2, h3⟩ := this
      refine ⟨?_, h2, h3⟩
      rw [h1]
      cases hgl : (evalPath gI isLeader cws bs (evalLevel gI isLeader cw b n).2).1.getLast? with
      | none =>
        have : (evalPath gI isLeader cws bs (evalLevel gI isLeader cw b n).2).1 = [] := List.getLast?_eq_none_iff.mp hgl
        simp [this]
      | some v =>
        simp only
        rw [List.getLast?_cons]
        simp [hgl]

/-- extra path bits beyond the available levels are ignored by the inner walk -/
theorem evalPath_take_levels {V : Type} [AddCommGroup V] (g : Prg S V) (isL : Bool) :
    ∀ (cws : List (CW S V)) (bs : List Bool) (n : Node S),
      evalPath g isL cws (bs.take cws.length) n = evalPath g isL cws bs n := by
  intro cws
  induction cws with
  | nil => intro bs n; cases bs <;> simp [evalPath]
  | cons cw cws ih =>
    intro bs n
    cases bs with
    | nil => simp [evalPath]
    | cons b bs => simp only [List.length_cons, List.take_succ_cons]; rw [evalPath_cons, evalPath_cons, ih]

omit [XorLike S] in
theorem probe_spec {C : Type} (cache : Cache C S) (c : C) (pfx : List Bool) :
    ∀ (len : Nat) (L : Nat) (n : Node S), probe cache c pfx len = some (L, n) →
      1 ≤ L ∧ L ≤ len ∧ cache.get c (pfx.take L) = some n := by
  intro len
  induction len with
  | zero => intro L n h; simp [probe] at h
  | succ len ih =>
    intro L n h
    simp only [probe] at h
    cases hg : cache.get c (pfx.take (len + 1)) with
    | some m =>
      simp only [hg, Option.some.injEq, Prod.mk.injEq] at h
      obtain ⟨rfl, rfl⟩ := h
      exact ⟨by omega, le_refl _, hg⟩
    | none =>
      simp only [hg] at h
      obtain ⟨h1, h2, h3⟩ := ih L n h
      exact ⟨h1, by omega, h3⟩

/-- `eval_from_node` started at the true node of `pfx.take L` computes the specification -/
theorem evalFromNode_spec {C : Type} (cache : Cache C S) (hs : CacheSound cache) (gI : Prg S VI) (gL : Prg S VL)
    (isLeader : Bool) (ps : PublicShare S VI VL) (key : S) (pfx : List Bool) (L : Nat) (c : C)
    (hp1 : 1 ≤ pfx.length) (hp2 : pfx.length ≤ ps.inner.length + 1) (hL : L + 1 ≤ pfx.length)
    (hinv : CInv cache gI isLeader ps key c) :
    (evalFromNode cache gI gL isLeader ps L (nodeAt gI isLeader ps key (pfx.take L)) pfx c).1
        = specEval gI gL isLeader ps key pfx ∧
      CInv cache gI isLeader ps key
        (evalFromNode cache gI gL isLeader ps L (nodeAt gI isLeader ps key (pfx.take L)) pfx c).2 := by
  have hlen : L + (pfx.drop L).length = pfx.length := by simp; omega
  obtain ⟨h1, h2, h3⟩ := innerLoop_spec cache hs gI isLeader ps key pfx (ps.inner.drop L) (pfx.drop L) L
    (nodeAt gI isLeader ps key (pfx.take L)) none c hlen rfl rfl rfl hinv
  -- the root walk splits at L
  have hLlen : (pfx.take L).length = L := by simp; omega
  have hsplit := evalPath_append gI isLeader ps.inner (pfx.take L) (pfx.drop L) (key, !isLeader)
    (by rw [hLlen]; omega)
  rw [List.take_append_drop, hLlen] at hsplit
  have hroot : (evalPath gI isLeader (ps.inner.take L) (pfx.take L) (key, !isLeader)).2
      = nodeAt gI isLeader ps key (pfx.take L) := by
    have := evalPath_take gI isLeader ps.inner (pfx.take L) (key, !isLeader)
    rw [hLlen] at this; rw [this]; rfl
  rw [hroot] at hsplit
  unfold evalFromNode specEval
  by_cases hleaf : pfx.length = ps.inner.length + 1
  · simp only [hleaf, if_true]
    refine ⟨?_, h3⟩
    rw [h2]
    -- node reached = true node of pfx.dropLast
    have e1 : (evalPath gI isLeader (ps.inner.drop L) (pfx.drop L) (nodeAt gI isLeader ps key (pfx.take L))).2
        = (evalPath gI isLeader ps.inner pfx (key, !isLeader)).2 := by rw [hsplit]
    have e2 : pfx.dropLast = pfx.take ps.inner.length := by
      rw [List.dropLast_eq_take]; congr 1; omega
    have e3 : nodeAt gI isLeader ps key pfx.dropLast = (evalPath gI isLeader ps.inner pfx (key, !isLeader)).2 := by
      unfold nodeAt; rw [e2, evalPath_take_levels]
    rw [e1, e3]
  · simp only [hleaf, if_false]
    refine ⟨?_, h3⟩
    rw [h1, hsplit]
    have hne : (evalPath gI isLeader (ps.inner.drop L) (pfx.drop L) (nodeAt gI isLeader ps key (pfx.take L))).1 ≠ [] := by
      intro h
      have := evalPath_length gI (ps.inner.drop L) (pfx.drop L) isLeader (nodeAt gI isLeader ps key (pfx.take L))
      rw [h] at this
      simp at this
      omega
    rw [List.getLast?_append_of_ne_nil _ hne]
    cases hg : (evalPath gI isLeader (ps.inner.drop L) (pfx.drop L) (nodeAt gI isLeader ps key (pfx.take L))).1.getLast? with
    | none => exact absurd (List.getLast?_eq_none_iff.mp hg) hne
    | some v => rfl

/-- **cache transparency**: with any sound cache in any state satisfying the invariant (in particular
    any state reached by earlier evaluations of the same key), `eval` returns what the cache-free
    specification returns, and re-establishes the invariant -/
theorem eval_transparent {C : Type} (cache : Cache C S) (hs : CacheSound cache) (gI : Prg S VI) (gL : Prg S VL)
    (aggId : Nat) (ps : PublicShare S VI VL) (key : S) (pfx : List Bool) (c : C)
    (ha : aggId ≤ 1) (hp1 : 1 ≤ pfx.length) (hp2 : pfx.length ≤ ps.inner.length + 1)
    (hinv : CInv cache gI (aggId == 0) ps key c) :
    (eval cache gI gL aggId ps key pfx c).1 =
        (match specEval gI gL (aggId == 0) ps key pfx with | some o => .ok o | none => .panic) ∧
      CInv cache gI (aggId == 0) ps key (eval cache gI gL aggId ps key pfx c).2 := by
  unfold eval
  have h1 : ¬ aggId > 1 := by omega
  have h2 : pfx.isEmpty = false := by cases pfx <;> simp_all
  have h3 : ¬ pfx.length > ps.inner.length + 1 := by omega
  simp only [h1, if_false, h2, Bool.false_eq_true, h3]
  cases hp : probe cache c pfx (pfx.length - 1) with
  | none =>
    simp only
    have hroot : (key, !(aggId == 0)) = nodeAt gI (aggId == 0) ps key (pfx.take 0) := by
      simp [nodeAt, evalPath]
    rw [hroot]
    obtain ⟨e1, e2⟩ := evalFromNode_spec cache hs gI gL (aggId == 0) ps key pfx 0 c hp1 hp2 (by omega) hinv
    generalize evalFromNode cache gI gL (aggId == 0) ps 0 (nodeAt gI (aggId == 0) ps key (pfx.take 0)) pfx c = r at *
    obtain ⟨o, c'⟩ := r
    simp only at e1 e2
    subst e1
    cases specEval gI gL (aggId == 0) ps key pfx <;> exact ⟨rfl, e2⟩
  | some hit =>
    obtain ⟨L, n⟩ := hit
    obtain ⟨hL1, hL2, hget⟩ := probe_spec cache c pfx _ L n hp
    have hn : n = nodeAt gI (aggId == 0) ps key (pfx.take L) := hinv _ _ hget
    simp only
    rw [hn]
    obtain ⟨e1, e2⟩ := evalFromNode_spec cache hs gI gL (aggId == 0) ps key pfx L c hp1 hp2 (by omega) hinv
    generalize evalFromNode cache gI gL (aggId == 0) ps L (nodeAt gI (aggId == 0) ps key (pfx.take L)) pfx c = r at *
    obtain ⟨o, c'⟩ := r
    simp only at e1 e2
    subst e1
    cases specEval gI gL (aggId == 0) ps key pfx <;> exact ⟨rfl, e2⟩

omit [XorLike S] in
theorem ringBufferCache_sound (cap : Nat) :
    CacheSound (ringBufferCache cap : Cache (List (List Bool × Node S)) S) := by
  intro c k v k' n h
  simp only [ringBufferCache] at h ⊢
  rw [List.reverse_append, List.reverse_singleton, List.singleton_append, List.find?] at h
  split at h
  · rename_i hk
    simp only [Option.map_some, Option.some.injEq] at h
    right; exact ⟨(by simpa using hk : k = k').symm, h.symm⟩
  · left
    split at h
    · -- the oldest entry was evicted: a hit among the rest is the newest-first hit of the full list
      cases c with
      | nil => simp at h
      | cons e es =>
        simp only [List.drop_succ_cons, List.drop_zero] at h
        simp only [List.reverse_cons]
        rw [find_append_single]
        cases hf : es.reverse.find? (fun e => e.1 == k') with
        | some e' => simpa [hf] using h
        | none => simp [hf] at h
    · exact h

end Prio.Poplar1.E2E.NoLaw

/-! ## Part B — IDPF correctness for byte-string seeds of a fixed length

The model's seeds are `List Nat` with `List.zipWith Nat.xor`, which is a lawful xor only on lists of one
common length.  The IDPF theorems of C06 are instantiated at the subtype of length-`n` seeds and carried
back along the inclusion, for PRGs that map length-`n` seeds to length-`n` seeds. -/
namespace Prio.Poplar1.E2E
open Prio.Idpf

theorem zipxor_cancel : ∀ a b : List Nat, a.length = b.length →
    List.zipWith Nat.xor a (List.zipWith Nat.xor a b) = b := by
  intro a
  induction a with
  | nil => intro b h; cases b with
    | nil => rfl
    | cons _ _ => simp at h
  | cons x xs ih =>
    intro b h
    cases b with
    | nil => simp at h
    | cons y ys =>
      simp only [List.zipWith_cons_cons, List.cons.injEq]
      refine ⟨?_, ih ys (by simpa using h)⟩
      show x ^^^ (x ^^^ y) = y
      rw [← Nat.xor_assoc, Nat.xor_self, Nat.zero_xor]

theorem zipxor_comm : ∀ a b : List Nat, List.zipWith Nat.xor a b = List.zipWith Nat.xor b a := by
  intro a
  induction a with
  | nil => intro b; cases b <;> rfl
  | cons x xs ih =>
    intro b
    cases b with
    | nil => rfl
    | cons y ys =>
      simp only [List.zipWith_cons_cons, List.cons.injEq]
      exact ⟨Nat.xor_comm x y, ih ys⟩

/-- seeds of length `n` -/
def Seed (n : Nat) : Type := {l : List Nat // l.length = n}

instance (n : Nat) : XorLike (Seed n) :=
  ⟨fun a b => ⟨List.zipWith Nat.xor a.1 b.1, by rw [List.length_zipWith, a.2, b.2, Nat.min_self]⟩⟩

instance (n : Nat) : LawfulXor (Seed n) where
  xor_cancel_left a b := Subtype.ext (zipxor_cancel a.1 b.1 (by rw [a.2, b.2]))
  xor_comm a b := Subtype.ext (zipxor_comm a.1 b.1)

/-- the PRG maps seeds of length `n` to seeds of length `n` (in the library: `[u8; 16]`) -/
structure SeedPres (n : Nat) {V : Type} (g : Prg Bytes V) : Prop where
  extL : ∀ s : Bytes, s.length = n → (g.extend s).1.1.length = n
  extR : ∀ s : Bytes, s.length = n → (g.extend s).2.1.length = n
  conv : ∀ s : Bytes, s.length = n → (g.convert s).1.length = n

section transport
variable {n : Nat} {V VI VL : Type}

/-- the PRG restricted to length-`n` seeds -/
def restrict (g : Prg Bytes V) (h : SeedPres n g) : Prg (Seed n) V where
  extend s := ((⟨(g.extend s.1).1.1, h.extL _ s.2⟩, (g.extend s.1).1.2),
               (⟨(g.extend s.1).2.1, h.extR _ s.2⟩, (g.extend s.1).2.2))
  convert s := (⟨(g.convert s.1).1, h.conv _ s.2⟩, (g.convert s.1).2)

def nv (x : Node (Seed n)) : Node Bytes := (x.1.1, x.2)
def cwv (c : CW (Seed n) V) : CW Bytes V := ⟨c.seed.1, c.cbL, c.cbR, c.value⟩
def psv (p : PublicShare (Seed n) VI VL) : PublicShare Bytes VI VL := ⟨p.inner.map cwv, cwv p.leaf⟩

variable [AddCommGroup V] [AddCommGroup VI] [AddCommGroup VL]

theorem genLevel_val (g : Prg Bytes V) (h : SeedPres n g) (bit : Bool) (v : V) (n0 n1 : Node (Seed n)) :
    genLevel g bit v (nv n0) (nv n1) =
      (cwv (genLevel (restrict g h) bit v n0 n1).1, nv (genLevel (restrict g h) bit v n0 n1).2.1,
        nv (genLevel (restrict g h) bit v n0 n1).2.2) := by
  obtain ⟨k0, t0⟩ := n0
  obtain ⟨k1, t1⟩ := n1
  cases bit <;> cases t0 <;> cases t1 <;> rfl

theorem evalLevel_val (g : Prg Bytes V) (h : SeedPres n g) (isL : Bool) (cw : CW (Seed n) V) (b : Bool)
    (m : Node (Seed n)) :
    evalLevel g isL (cwv cw) b (nv m) =
      ((evalLevel (restrict g h) isL cw b m).1, nv (evalLevel (restrict g h) isL cw b m).2) := by
  obtain ⟨k, t⟩ := m
  cases b <;> cases t <;> rfl

theorem genLevels_cons' {S : Type} [XorLike S] (g : Prg S V) (a : Bool) (as : List Bool) (v : V) (vs : List V)
    (n0 n1 : Node S) :
    genLevels g (a :: as) (v :: vs) n0 n1 =
      ((genLevel g a v n0 n1).1 :: (genLevels g as vs (genLevel g a v n0 n1).2.1 (genLevel g a v n0 n1).2.2).1,
       (genLevels g as vs (genLevel g a v n0 n1).2.1 (genLevel g a v n0 n1).2.2).2) := rfl

theorem genLevels_val (g : Prg Bytes V) (h : SeedPres n g) :
    ∀ (al : List Bool) (vs : List V) (n0 n1 : Node (Seed n)),
      genLevels g al vs (nv n0) (nv n1) =
        ((genLevels (restrict g h) al vs n0 n1).1.map cwv, nv (genLevels (restrict g h) al vs n0 n1).2.1,
          nv (genLevels (restrict g h) al vs n0 n1).2.2) := by
  intro al
  induction al with
  | nil => intro vs n0 n1; simp [genLevels]
  | cons a al ih =>
    intro vs n0 n1
    cases vs with
    | nil => simp [genLevels]
    | cons v vs =>
      rw [genLevels_cons', genLevels_cons', genLevel_val g h]
      simp only [ih, List.map_cons]

theorem evalPath_val (g : Prg Bytes V) (h : SeedPres n g) (isL : Bool) :
    ∀ (cws : List (CW (Seed n) V)) (bs : List Bool) (m : Node (Seed n)),
      evalPath g isL (cws.map cwv) bs (nv m) =
        ((evalPath (restrict g h) isL cws bs m).1, nv (evalPath (restrict g h) isL cws bs m).2) := by
  intro cws
  induction cws with
  | nil => intro bs m; simp [evalPath]
  | cons cw cws ih =>
    intro bs m
    cases bs with
    | nil => simp [evalPath]
    | cons b bs =>
      rw [List.map_cons, NoLaw.evalPath_cons, evalPath_cons, evalLevel_val g h]
      simp only [ih]

theorem gen_val (gI : Prg Bytes VI) (gL : Prg Bytes VL) (hI : SeedPres n gI) (hL : SeedPres n gL)
    (alpha : List Bool) (iv : List VI) (lv : VL) (k0 k1 : Seed n) :
    gen gI gL alpha iv lv k0.1 k1.1 = (gen (restrict gI hI) (restrict gL hL) alpha iv lv k0 k1).map psv := by
  unfold gen
  cases alpha.getLast? with
  | none => rfl
  | some lastBit =>
    simp only
    split
    · rfl
    · have e0 : ((k0.1, false) : Node Bytes) = nv (k0, false) := rfl
      have e1 : ((k1.1, true) : Node Bytes) = nv (k1, true) := rfl
      rw [e0, e1, genLevels_val gI hI]
      simp only [genLevel_val gL hL, Option.map_some, psv]

theorem specEval_val (gI : Prg Bytes VI) (gL : Prg Bytes VL) (hI : SeedPres n gI) (hL : SeedPres n gL)
    (isL : Bool) (ps : PublicShare (Seed n) VI VL) (k : Seed n) (pfx : List Bool) :
    specEval gI gL isL (psv ps) k.1 pfx = specEval (restrict gI hI) (restrict gL hL) isL ps k pfx := by
  unfold specEval nodeAt
  have e : ∀ t, ((k.1, t) : Node Bytes) = nv (k, t) := fun _ => rfl
  simp only [psv, List.length_map, e, evalPath_val gI hI, evalLevel_val gL hL]

/-- C06 `idpf_correct_inner` for the model's byte-string seeds -/
theorem idpf_inner_bytes (gI : Prg Bytes VI) (gL : Prg Bytes VL) (hI : SeedPres n gI) (hL : SeedPres n gL)
    (alpha : List Bool) (iv : List VI) (lv : VL) (k0 k1 : Bytes) (hk0 : k0.length = n) (hk1 : k1.length = n)
    (ps : PublicShare Bytes VI VL) (hg : gen gI gL alpha iv lv k0 k1 = some ps)
    (pfx : List Bool) (hp1 : 1 ≤ pfx.length) (hp2 : pfx.length < alpha.length) :
    ∃ a b, specEval gI gL true ps k0 pfx = some (.inner a) ∧ specEval gI gL false ps k1 pfx = some (.inner b) ∧
      a + b = if pfx = alpha.take pfx.length then iv.getD (pfx.length - 1) 0 else 0 := by
  have hg' := gen_val gI gL hI hL alpha iv lv ⟨k0, hk0⟩ ⟨k1, hk1⟩
  rw [hg] at hg'
  obtain ⟨ps', hps, rfl⟩ := Option.map_eq_some_iff.mp hg'.symm
  have s0 := specEval_val gI gL hI hL true ps' ⟨k0, hk0⟩ pfx
  have s1 := specEval_val gI gL hI hL false ps' ⟨k1, hk1⟩ pfx
  simp only at s0 s1
  rw [s0, s1]
  exact Props.C06.idpf_correct_inner _ _ alpha iv lv _ _ ps' hps pfx hp1 hp2

/-- C06 `idpf_correct_leaf` for the model's byte-string seeds -/
theorem idpf_leaf_bytes (gI : Prg Bytes VI) (gL : Prg Bytes VL) (hI : SeedPres n gI) (hL : SeedPres n gL)
    (alpha : List Bool) (iv : List VI) (lv : VL) (k0 k1 : Bytes) (hk0 : k0.length = n) (hk1 : k1.length = n)
    (ps : PublicShare Bytes VI VL) (hg : gen gI gL alpha iv lv k0 k1 = some ps)
    (pfx : List Bool) (hp : pfx.length = alpha.length) :
    ∃ a b, specEval gI gL true ps k0 pfx = some (.leaf a) ∧ specEval gI gL false ps k1 pfx = some (.leaf b) ∧
      a + b = if pfx = alpha then lv else 0 := by
  have hg' := gen_val gI gL hI hL alpha iv lv ⟨k0, hk0⟩ ⟨k1, hk1⟩
  rw [hg] at hg'
  obtain ⟨ps', hps, rfl⟩ := Option.map_eq_some_iff.mp hg'.symm
  have s0 := specEval_val gI gL hI hL true ps' ⟨k0, hk0⟩ pfx
  have s1 := specEval_val gI gL hI hL false ps' ⟨k1, hk1⟩ pfx
  simp only at s0 s1
  rw [s0, s1]
  exact Props.C06.idpf_correct_leaf _ _ alpha iv lv _ _ ps' hps pfx hp

end transport
end Prio.Poplar1.E2E

/-! ## Part C — `evalPrefixes` computes `specEval` on every prefix (sub-step (a)) -/
namespace Prio.Poplar1.E2E
open Prio.Idpf

/-- payload pairs form a commutative group under the model's componentwise operations -/
instance pairGroup {F : Type} [AddCommGroup F] : AddCommGroup (Pair F) where
  add := (· + ·)
  zero := 0
  neg := Neg.neg
  sub := (· - ·)
  add_assoc x y z := by
    show (⟨x.a + y.a + z.a, x.b + y.b + z.b⟩ : Pair F) = ⟨x.a + (y.a + z.a), x.b + (y.b + z.b)⟩
    rw [add_assoc, add_assoc]
  zero_add x := by
    show (⟨0 + x.a, 0 + x.b⟩ : Pair F) = x
    rw [zero_add, zero_add]
  add_zero x := by
    show (⟨x.a + 0, x.b + 0⟩ : Pair F) = x
    rw [add_zero, add_zero]
  nsmul := nsmulRec
  zsmul := zsmulRec
  neg_add_cancel x := by
    show (⟨-x.a + x.a, -x.b + x.b⟩ : Pair F) = ⟨0, 0⟩
    rw [neg_add_cancel, neg_add_cancel]
  add_comm x y := by
    show (⟨x.a + y.a, x.b + y.b⟩ : Pair F) = ⟨y.a + x.a, y.b + x.b⟩
    rw [add_comm x.a, add_comm x.b]
  sub_eq_add_neg x y := by
    show (⟨x.a - y.a, x.b - y.b⟩ : Pair F) = ⟨x.a + -y.a, x.b + -y.b⟩
    rw [sub_eq_add_neg, sub_eq_add_neg]

section evalp
variable {FI FL : Type} [Field FI] [Field FL]

theorem evalPrefixes_spec (gI : Prg Bytes (Pair FI)) (gL : Prg Bytes (Pair FL)) (aggId : Nat) (ha : aggId ≤ 1)
    (pub : PubShare FI FL) (key : Bytes) (cap : Nat) (f : List Bool → Output (Pair FI) (Pair FL)) :
    ∀ (ps : List (List Bool)) (c : List (List Bool × Node Bytes)),
      (∀ p ∈ ps, 1 ≤ p.length ∧ p.length ≤ pub.inner.length + 1) →
      (∀ p ∈ ps, specEval gI gL (aggId == 0) pub key p = some (f p)) →
      CInv (ringBufferCache cap) gI (aggId == 0) pub key c →
      evalPrefixes gI gL aggId pub key cap ps c = .ok (ps.map f) := by
  intro ps
  induction ps with
  | nil => intro c _ _ _; rfl
  | cons p rest ih =>
    intro c hlen hspec hinv
    obtain ⟨hp1, hp2⟩ := hlen p (by simp)
    obtain ⟨e1, e2⟩ := NoLaw.eval_transparent (ringBufferCache cap) (NoLaw.ringBufferCache_sound cap) gI gL aggId
      pub key p c ha hp1 hp2 hinv
    rw [hspec p (by simp)] at e1
    have ih' := ih (eval (ringBufferCache cap) gI gL aggId pub key p c).2
      (fun q hq => hlen q (by simp [hq])) (fun q hq => hspec q (by simp [hq])) e2
    unfold evalPrefixes
    generalize eval (ringBufferCache cap) gI gL aggId pub key p c = r at e1 ih'
    obtain ⟨o, c'⟩ := r
    simp only at e1 ih'
    subst e1
    simp only [ih', List.map_cons]

end evalp
end Prio.Poplar1.E2E

/-! ## Part D — the correlated-randomness bookkeeping (sub-step (c)) -/
namespace Prio.Poplar1.E2E
open Prio.Idpf

theorem take_succ (g : Rng) (fp : FieldP) (n : Nat) :
    g.take fp (n + 1) =
      (g.get fp).bind fun r => (r.2.take fp n).map fun r' => (r.1 :: r'.1, r'.2) := by
  rw [Rng.take]
  cases g.get fp with
  | none => rfl
  | some r =>
    obtain ⟨x, g'⟩ := r
    simp only [Option.bind_some]
    cases Rng.take g' fp n with
    | none => rfl
    | some r' => rfl

theorem take_length (fp : FieldP) : ∀ (n : Nat) (g : Rng) (xs : List Nat) (g' : Rng),
    g.take fp n = some (xs, g') → xs.length = n := by
  intro n
  induction n with
  | zero => intro g xs g' h; simp only [Rng.take, Option.some.injEq, Prod.mk.injEq] at h; rw [← h.1]; rfl
  | succ n ih =>
    intro g xs g' h
    rw [take_succ] at h
    simp only [Option.bind_eq_some_iff, Option.map_eq_some_iff, Prod.mk.injEq, Prod.exists] at h
    obtain ⟨x, g1, _, ys, g2, h2, rfl, _⟩ := h
    simp [ih g1 ys g2 h2]

/-- `take (m + n)` is `take m` followed by `take n` -/
theorem take_add (fp : FieldP) : ∀ (m n : Nat) (g : Rng),
    g.take fp (m + n) =
      (g.take fp m).bind fun r => (r.2.take fp n).map fun r' => (r.1 ++ r'.1, r'.2) := by
  intro m
  induction m with
  | zero =>
    intro n g
    simp only [Nat.zero_add, Rng.take, Option.bind_some, List.nil_append]
    cases g.take fp n <;> rfl
  | succ m ih =>
    intro n g
    rw [Nat.succ_add, take_succ, take_succ]
    cases g.get fp with
    | none => rfl
    | some r =>
      obtain ⟨x, g1⟩ := r
      simp only [Option.bind_some, ih n g1]
      cases g1.take fp m with
      | none => rfl
      | some r1 =>
        simp only [Option.bind_some, Option.map_some]
        cases r1.2.take fp n <;> rfl

theorem take_add_some (fp : FieldP) (m n : Nat) (g g1 g2 : Rng) (xs ys : List Nat)
    (h1 : g.take fp m = some (xs, g1)) (h2 : g1.take fp n = some (ys, g2)) :
    g.take fp (m + n) = some (xs ++ ys, g2) := by
  rw [take_add, h1]; simp only [Option.bind_some, h2, Option.map_some]

theorem take_three (fp : FieldP) (g g1 g2 g3 : Rng) (a b c : Nat)
    (h1 : g.get fp = some (a, g1)) (h2 : g1.get fp = some (b, g2)) (h3 : g2.get fp = some (c, g3)) :
    g.take fp 3 = some ([a, b, c], g3) := by
  simp only [Rng.take, h1, h2, h3]

section corr
variable {F : Type} [Field F]

/-- the mask equations of one level, in terms of the two parties' offset triples -/
def MaskEq (ofNat : Nat → F) (auth : F) (x0 x1 : F × F) (a0 b0 d0 a1 b1 d1 : Nat) : Prop :=
  x0.1 + x1.1 = -(1 + 1) * (ofNat a0 + ofNat a1) + auth ∧
  x0.2 + x1.2 = (ofNat a0 + ofNat a1) * (ofNat a0 + ofNat a1) + (ofNat b0 + ofNat b1)
      - (ofNat a0 + ofNat a1) * auth + (ofNat d0 + ofNat d1)

/-- `compute_next_corr_shares` draws exactly three elements from each of `c0`, `c1`; the mask shares it
    returns satisfy the mask equations for these two triples -/
theorem nextCorr_spec (ofNat : Nat → F) (fp : FieldP) (prng c0 c1 : Rng) (auth : F)
    (x0 x1 : F × F) (g g0 g1 : Rng)
    (h : nextCorrShares ofNat fp prng c0 c1 auth = some (x0, x1, g, g0, g1)) :
    ∃ a0 b0 d0 a1 b1 d1, c0.take fp 3 = some ([a0, b0, d0], g0) ∧ c1.take fp 3 = some ([a1, b1, d1], g1) ∧
      MaskEq ofNat auth x0 x1 a0 b0 d0 a1 b1 d1 := by
  unfold nextCorrShares at h
  simp only [Option.bind_eq_bind, Option.bind_eq_some_iff, Option.pure_def, Option.some.injEq, Prod.mk.injEq,
    Prod.exists] at h
  obtain ⟨a0, p1, ha0, a1, q1, ha1, b0, p2, hb0, b1, q2, hb1, d0, p3, hd0, d1, q3, hd1, x, _, _, y, _, _,
    e1, e2, _, e3, e4⟩ := h
  subst e3 e4
  refine ⟨a0, b0, d0, a1, b1, d1, take_three fp _ _ _ _ _ _ _ ha0 hb0 hd0, take_three fp _ _ _ _ _ _ _ ha1 hb1 hd1, ?_, ?_⟩
  · rw [← e1, ← e2]; simp only; ring
  · rw [← e1, ← e2]; simp only; ring

/-- level `l` of the inner correlated randomness: party `j`'s generator, after `3 * l` draws, yields the
    triple `(aⱼ, bⱼ, dⱼ)`, and the stored mask shares satisfy the mask equations for the two triples -/
def LevelOK (ofNat : Nat → F) (fp : FieldP) (c0 c1 : Rng) (l : Nat) (auth : F) (x0 x1 : F × F) : Prop :=
  ∃ pre0 g0 a0 b0 d0 g0' pre1 g1 a1 b1 d1 g1',
    c0.take fp (3 * l) = some (pre0, g0) ∧ g0.take fp 3 = some ([a0, b0, d0], g0') ∧
    c1.take fp (3 * l) = some (pre1, g1) ∧ g1.take fp 3 = some ([a1, b1, d1], g1') ∧
    MaskEq ofNat auth x0 x1 a0 b0 d0 a1 b1 d1

theorem corrLoop_spec (ofNat : Nat → F) (fp : FieldP) :
    ∀ (auths : List F) (prng c0 c1 : Rng) (l0 l1 : List (F × F)) (g : Rng),
      corrInnerLoop ofNat fp auths prng c0 c1 = some (l0, l1, g) →
      l0.length = auths.length ∧ l1.length = auths.length ∧
      ∀ l auth, auths[l]? = some auth → ∃ x0 x1, l0[l]? = some x0 ∧ l1[l]? = some x1 ∧
        LevelOK ofNat fp c0 c1 l auth x0 x1 := by
  intro auths
  induction auths with
  | nil =>
    intro prng c0 c1 l0 l1 g h
    simp only [corrInnerLoop, Option.some.injEq, Prod.mk.injEq] at h
    obtain ⟨rfl, rfl, _⟩ := h
    simp
  | cons auth rest ih =>
    intro prng c0 c1 l0 l1 g h
    simp only [corrInnerLoop] at h
    cases hn : nextCorrShares ofNat fp prng c0 c1 auth with
    | none => rw [hn] at h; cases h
    | some r =>
      obtain ⟨x0, x1, prng', c0', c1'⟩ := r
      rw [hn] at h
      simp only at h
      cases hr : corrInnerLoop ofNat fp rest prng' c0' c1' with
      | none => rw [hr] at h; cases h
      | some r' =>
        obtain ⟨m0, m1, g'⟩ := r'
        rw [hr] at h
        simp only [Option.some.injEq, Prod.mk.injEq] at h
        obtain ⟨rfl, rfl, _⟩ := h
        obtain ⟨hl0, hl1, hlev⟩ := ih prng' c0' c1' m0 m1 g' hr
        obtain ⟨a0, b0, d0, a1, b1, d1, t0, t1, hm⟩ := nextCorr_spec ofNat fp prng c0 c1 auth x0 x1 prng' c0' c1' hn
        refine ⟨by simp [hl0], by simp [hl1], ?_⟩
        intro l au hau
        cases l with
        | zero =>
          simp only [List.getElem?_cons_zero, Option.some.injEq] at hau
          subst hau
          exact ⟨x0, x1, rfl, rfl, [], c0, a0, b0, d0, c0', [], c1, a1, b1, d1, c1', rfl, t0, rfl, t1, hm⟩
        | succ l =>
          simp only [List.getElem?_cons_succ] at hau
          obtain ⟨y0, y1, e0, e1, pre0, g0, a0', b0', d0', g0', pre1, g1, a1', b1', d1', g1', u0, v0, u1, v1, hm'⟩ :=
            hlev l au hau
          refine ⟨y0, y1, by simpa using e0, by simpa using e1, [a0, b0, d0] ++ pre0, g0, a0', b0', d0', g0',
            [a1, b1, d1] ++ pre1, g1, a1', b1', d1', g1', ?_, v0, ?_, v1, hm'⟩
          · have : 3 * (l + 1) = 3 + 3 * l := by ring
            rw [this]; exact take_add_some fp 3 (3 * l) c0 c0' g0 _ _ t0 u0
          · have : 3 * (l + 1) = 3 + 3 * l := by ring
            rw [this]; exact take_add_some fp 3 (3 * l) c1 c1' g1 _ _ t1 u1

end corr
end Prio.Poplar1.E2E

/-! ## Part E — one-hot share sums, the two sketch rounds -/
namespace Prio.Poplar1.E2E
open Prio.Idpf Props.C03

section sketch
variable {F : Type} [Field F]

/-- distinct candidates: the vector "`(1, κ)` at the candidate equal to `target`, zero elsewhere" is
    one-hot or zero -/
theorem onehot_of_nodup (κ : F) (target : List Bool) : ∀ (ps : List (List Bool)), ps.Nodup →
    (∃ t m, ps.map (fun p => if p = target then (⟨1, κ⟩ : Pair F) else ⟨0, 0⟩) = oneHot t m ⟨1, κ⟩ ∧ t < ps.length) ∨
    ps.map (fun p => if p = target then (⟨1, κ⟩ : Pair F) else ⟨0, 0⟩) = List.replicate ps.length ⟨0, 0⟩ := by
  intro ps
  induction ps with
  | nil => intro _; right; rfl
  | cons p rest ih =>
    intro hnd
    obtain ⟨hp, hrest⟩ := List.nodup_cons.mp hnd
    by_cases hpt : p = target
    · left
      refine ⟨0, rest.length, ?_, by simp⟩
      have hz : rest.map (fun p => if p = target then (⟨1, κ⟩ : Pair F) else ⟨0, 0⟩) = List.replicate rest.length ⟨0, 0⟩ := by
        rw [List.eq_replicate_iff]
        refine ⟨by simp, ?_⟩
        intro y hy
        obtain ⟨q, hq, rfl⟩ := List.mem_map.mp hy
        have : q ≠ target := by intro h; apply hp; rw [hpt, ← h]; exact hq
        simp [this]
      simp only [List.map_cons, hpt, if_true, hz, oneHot, List.replicate_zero, List.nil_append, List.singleton_append]
    · rcases ih hrest with ⟨t, m, h1, h2⟩ | h1
      · left
        refine ⟨t + 1, m, ?_, by simpa using h2⟩
        simp only [List.map_cons, hpt, if_false, h1, oneHot, List.replicate_succ, List.cons_append]
      · right
        simp only [List.map_cons, hpt, if_false, h1, List.length_cons, List.replicate_succ]

variable [BEq F] [LawfulBEq F]

/-- both sketch rounds, on the level of `nextMessage` / `finishSketch` -/
theorem sketch_rounds (ys0 ys1 : List (Pair F)) (rs : List F) (hlen : ys0.length = ys1.length)
    (a0 b0 c0 a1 b1 c1 A0 B0 A1 B1 κ : F)
    (hA : A0 + A1 = -(1 + 1) * (a0 + a1) + κ)
    (hB : B0 + B1 = (a0 + a1) * (a0 + a1) + (b0 + b1) - (a0 + a1) * κ + (c0 + c1))
    (hy : (∃ t m, List.zipWith padd ys0 ys1 = oneHot t m ⟨1, κ⟩ ∧ t < rs.length) ∨
          (∃ n, List.zipWith padd ys0 ys1 = List.replicate n ⟨0, 0⟩)) :
    ∃ z : F × F × F,
      nextMessage [(sketchLoop (a0, b0, c0) ys0 rs).1, (sketchLoop (a0, b0, c0) ys0 rs).2.1, (sketchLoop (a0, b0, c0) ys0 rs).2.2]
        [(sketchLoop (a1, b1, c1) ys1 rs).1, (sketchLoop (a1, b1, c1) ys1 rs).2.1, (sketchLoop (a1, b1, c1) ys1 rs).2.2]
        = .ok (some z) ∧
      nextMessage [finishSketch z A0 B0 true] [finishSketch z A1 B1 false] = .ok none := by
  refine ⟨_, round1_combines _ _ _ _ _ _, ?_⟩
  apply round2_accepts
  exact honest_sketch_accepts ys0 ys1 rs hlen a0 b0 c0 a1 b1 c1 A0 B0 A1 B1 κ hA hB hy

end sketch
end Prio.Poplar1.E2E

/-! ## Part F — `shard` and `verifyInit` unfolded -/
namespace Prio.Poplar1.E2E
open Prio.Idpf Props.C03

theorem genLevels_length' {S V : Type} [XorLike S] [AddCommGroup V] (g : Prg S V) :
    ∀ (al : List Bool) (vl : List V) (m0 m1 : Node S),
      al.length = vl.length → (genLevels g al vl m0 m1).1.length = al.length := by
  intro al
  induction al with
  | nil => intro vl m0 m1 _; simp [genLevels]
  | cons x xs ih =>
    intro vl m0 m1 h
    cases vl with
    | nil => simp at h
    | cons y ys => rw [genLevels_cons']; simp [ih ys _ _ (by simpa using h)]

theorem gen_inner_length {S VI VL : Type} [XorLike S] [AddCommGroup VI] [AddCommGroup VL]
    (gI : Prg S VI) (gL : Prg S VL) (alpha : List Bool) (iv : List VI) (lv : VL) (k0 k1 : S)
    (ps : PublicShare S VI VL) (hg : gen gI gL alpha iv lv k0 k1 = some ps) :
    ps.inner.length + 1 = alpha.length ∧ iv.length + 1 = alpha.length := by
  unfold gen at hg
  cases hl : alpha.getLast? with
  | none => simp [hl] at hg
  | some lastBit =>
    simp only [hl] at hg
    split at hg
    · cases hg
    · rename_i hlen
      simp only [ne_eq, Decidable.not_not] at hlen
      simp only [Option.some.injEq] at hg
      subst hg
      have hpos : 1 ≤ alpha.length := by
        cases alpha with
        | nil => simp at hl
        | cons a l => simp
      have hal : alpha.dropLast.length = iv.length := by simp [hlen]
      simp only
      rw [genLevels_length' gI _ _ _ _ hal]
      simp only [List.length_dropLast]
      omega

theorem innerOnly_map {FI FL : Type} (vals : List (Pair FI)) :
    innerOnly (vals.map (Output.inner : Pair FI → Output (Pair FI) (Pair FL))) = some vals := by
  induction vals with
  | nil => rfl
  | cons v vs ih => simp only [List.map_cons, innerOnly, ih, Option.map_some]

theorem leafOnly_map {FI FL : Type} (vals : List (Pair FL)) :
    leafOnly (vals.map (Output.leaf : Pair FL → Output (Pair FI) (Pair FL))) = some vals := by
  induction vals with
  | nil => rfl
  | cons v vs ih => simp only [List.map_cons, leafOnly, ih, Option.map_some]

section proto
variable {FI FL : Type} [Field FI] [Field FL]

theorem shard_ok_spec (cfg : Cfg) (ofI : Nat → FI) (ofL : Nat → FL) (xof : Xof)
    (gI : Prg Bytes (Pair FI)) (gL : Prg Bytes (Pair FL))
    (ctx : Bytes) (input : List Bool) (nonce k0 k1 pr0 pr1 pr2 : Bytes)
    (pub : PubShare FI FL) (s0 s1 : InputShare FI FL)
    (h : shard cfg ofI ofL xof gI gL ctx input nonce k0 k1 pr0 pr1 pr2 = .ok (pub, s0, s1)) :
    input.length = cfg.bits ∧ cfg.bits ≠ 0 ∧
    ∃ (authsN : List Nat) (prng1 : Rng) (authLeafN : Nat) (prng2 : Rng) (ci0 ci1 : List (FI × FI)) (prng3 : Rng)
      (cl0 cl1 : FL × FL) (q0 q1 q2 : Rng),
      (Rng.init xof pr2 usageShard ctx nonce cfg.fi.sz).take cfg.fi (cfg.bits - 1) = some (authsN, prng1) ∧
      prng1.get cfg.fl = some (authLeafN, prng2) ∧
      gen gI gL input ((authsN.map ofI).map fun a => (⟨1, a⟩ : Pair FI)) ⟨1, ofL authLeafN⟩ k0 k1 = some pub ∧
      corrInnerLoop ofI cfg.fi (authsN.map ofI) prng2
        (Rng.init xof pr0 usageCorrInner ctx ([0] ++ nonce) cfg.fi.sz)
        (Rng.init xof pr1 usageCorrInner ctx ([1] ++ nonce) cfg.fi.sz) = some (ci0, ci1, prng3) ∧
      nextCorrShares ofL cfg.fl prng3
        (Rng.init xof pr0 usageCorrLeaf ctx ([0] ++ nonce) cfg.fl.sz)
        (Rng.init xof pr1 usageCorrLeaf ctx ([1] ++ nonce) cfg.fl.sz) (ofL authLeafN) = some (cl0, cl1, q0, q1, q2) ∧
      s0 = ⟨k0, pr0, ci0, cl0⟩ ∧ s1 = ⟨k1, pr1, ci1, cl1⟩ := by
  unfold shard at h
  by_cases e1 : input.length ≠ cfg.bits
  · rw [if_pos e1] at h; cases h
  rw [if_neg e1] at h
  by_cases e2 : cfg.bits = 0
  · rw [if_pos e2] at h; cases h
  rw [if_neg e2] at h
  simp only at h
  refine ⟨not_not.mp e1, e2, ?_⟩
  cases ht : (Rng.init xof pr2 usageShard ctx nonce cfg.fi.sz).take cfg.fi (cfg.bits - 1) with
  | none => rw [ht] at h; cases h
  | some r1 =>
    obtain ⟨authsN, prng1⟩ := r1
    rw [ht] at h
    simp only at h
    cases hg : prng1.get cfg.fl with
    | none => rw [hg] at h; cases h
    | some r2 =>
      obtain ⟨authLeafN, prng2⟩ := r2
      rw [hg] at h
      simp only at h
      cases hgen : gen gI gL input ((authsN.map ofI).map fun a => (⟨1, a⟩ : Pair FI)) ⟨1, ofL authLeafN⟩ k0 k1 with
      | none => rw [hgen] at h; cases h
      | some p =>
        rw [hgen] at h
        simp only at h
        cases hc : corrInnerLoop ofI cfg.fi (authsN.map ofI) prng2
            (Rng.init xof pr0 usageCorrInner ctx ([0] ++ nonce) cfg.fi.sz)
            (Rng.init xof pr1 usageCorrInner ctx ([1] ++ nonce) cfg.fi.sz) with
        | none => rw [hc] at h; cases h
        | some r3 =>
          obtain ⟨ci0, ci1, prng3⟩ := r3
          rw [hc] at h
          simp only at h
          cases hl : nextCorrShares ofL cfg.fl prng3
              (Rng.init xof pr0 usageCorrLeaf ctx ([0] ++ nonce) cfg.fl.sz)
              (Rng.init xof pr1 usageCorrLeaf ctx ([1] ++ nonce) cfg.fl.sz) (ofL authLeafN) with
          | none => rw [hl] at h; cases h
          | some r4 =>
            obtain ⟨cl0, cl1, q0, q1, q2⟩ := r4
            rw [hl] at h
            simp only [Res.ok.injEq, Prod.mk.injEq] at h
            obtain ⟨rfl, rfl, rfl⟩ := h
            exact ⟨authsN, prng1, authLeafN, prng2, ci0, ci1, prng3, cl0, cl1, q0, q1, q2, rfl, hg, hgen, hc, hl, rfl, rfl⟩

/-- `verify_init` at an inner level, once the correlated-randomness draws, the IDPF evaluation and the
    stored mask shares are known: the only remaining failure is the verification-randomness PRNG -/
theorem verifyInit_inner_eq (cfg : Cfg) (ofI : Nat → FI) (ofL : Nat → FL) (xof : Xof)
    (gI : Prg Bytes (Pair FI)) (gL : Prg Bytes (Pair FL)) (verifyKey ctx : Bytes) (j : Nat) (hj : j ≤ 1)
    (ap : AggParam) (nonce : Bytes) (pub : PubShare FI FL) (share : InputShare FI FL)
    (hlen : pub.inner.length + 1 = cfg.bits) (hci : share.corrInner.length + 1 = cfg.bits)
    (hlev : ap.level + 1 < cfg.bits)
    (pre : List Nat) (g0 g0' : Rng) (a b c : Nat)
    (h1 : (Rng.init xof share.corrSeed usageCorrInner ctx ([j] ++ nonce) cfg.fi.sz).take cfg.fi (3 * ap.level)
      = some (pre, g0))
    (h2 : g0.take cfg.fi 3 = some ([a, b, c], g0'))
    (vals : List (Pair FI))
    (hev : evalPrefixes gI gL j pub share.idpfKey ap.prefixes.length ap.prefixes [] = .ok (vals.map .inner))
    (aS bS : FI) (hc : share.corrInner[ap.level]? = some (aS, bS)) :
    verifyInit cfg ofI ofL xof gI gL verifyKey ctx j ap nonce pub share =
      match (Rng.init xof verifyKey usageVerify ctx (nonce ++ beBytes ap.level 2) cfg.fi.sz).take cfg.fi vals.length with
      | none => .panic
      | some (rs, _) =>
        .ok (.inner (.roundOne aS bS (j == 0)) (vals.map (·.a)),
          .inner [(sketchLoop (ofI a, ofI b, ofI c) vals (rs.map ofI)).1,
                  (sketchLoop (ofI a, ofI b, ofI c) vals (rs.map ofI)).2.1,
                  (sketchLoop (ofI a, ofI b, ofI c) vals (rs.map ofI)).2.2]) := by
  unfold verifyInit
  have e1 : ¬ j > 1 := by omega
  have e2 : ¬ (pub.inner.length + 1 ≠ cfg.bits ∨ share.corrInner.length + 1 ≠ cfg.bits) := by
    rw [hlen, hci]; simp
  rw [if_neg e1, if_neg e2]
  simp only [hlev, if_true, h1, h2, hev, innerOnly_map, hc]
  cases (Rng.init xof verifyKey usageVerify ctx (nonce ++ beBytes ap.level 2) cfg.fi.sz).take cfg.fi vals.length with
  | none => rfl
  | some r => rfl

/-- `verify_init` at the leaf level -/
theorem verifyInit_leaf_eq (cfg : Cfg) (ofI : Nat → FI) (ofL : Nat → FL) (xof : Xof)
    (gI : Prg Bytes (Pair FI)) (gL : Prg Bytes (Pair FL)) (verifyKey ctx : Bytes) (j : Nat) (hj : j ≤ 1)
    (ap : AggParam) (nonce : Bytes) (pub : PubShare FI FL) (share : InputShare FI FL)
    (hlen : pub.inner.length + 1 = cfg.bits) (hci : share.corrInner.length + 1 = cfg.bits)
    (hlev : ¬ ap.level + 1 < cfg.bits)
    (g0' : Rng) (a b c : Nat)
    (h2 : (Rng.init xof share.corrSeed usageCorrLeaf ctx ([j] ++ nonce) cfg.fl.sz).take cfg.fl 3
      = some ([a, b, c], g0'))
    (vals : List (Pair FL))
    (hev : evalPrefixes gI gL j pub share.idpfKey ap.prefixes.length ap.prefixes [] = .ok (vals.map .leaf)) :
    verifyInit cfg ofI ofL xof gI gL verifyKey ctx j ap nonce pub share =
      match (Rng.init xof verifyKey usageVerify ctx (nonce ++ beBytes ap.level 2) cfg.fl.sz).take cfg.fl vals.length with
      | none => .panic
      | some (rs, _) =>
        .ok (.leaf (.roundOne share.corrLeaf.1 share.corrLeaf.2 (j == 0)) (vals.map (·.a)),
          .leaf [(sketchLoop (ofL a, ofL b, ofL c) vals (rs.map ofL)).1,
                 (sketchLoop (ofL a, ofL b, ofL c) vals (rs.map ofL)).2.1,
                 (sketchLoop (ofL a, ofL b, ofL c) vals (rs.map ofL)).2.2]) := by
  unfold verifyInit
  have e1 : ¬ j > 1 := by omega
  have e2 : ¬ (pub.inner.length + 1 ≠ cfg.bits ∨ share.corrInner.length + 1 ≠ cfg.bits) := by
    rw [hlen, hci]; simp
  rw [if_neg e1, if_neg e2]
  simp only [hlev, if_false, h2, hev, leafOnly_map]
  cases (Rng.init xof verifyKey usageVerify ctx (nonce ++ beBytes ap.level 2) cfg.fl.sz).take cfg.fl vals.length with
  | none => rfl
  | some r => rfl

end proto
end Prio.Poplar1.E2E

/-! ## Part G — assembly -/
namespace Prio.Poplar1.E2E
open Prio.Idpf Props.C03

theorem zipWith_map_same {α β γ δ : Type} (h : β → γ → δ) (f : α → β) (g : α → γ) (l : List α) :
    List.zipWith h (l.map f) (l.map g) = l.map (fun x => h (f x) (g x)) := by
  induction l with
  | nil => rfl
  | cons x xs ih => simp only [List.map_cons, List.zipWith_cons_cons, ih]

theorem emptyCache_inv {VI VL : Type} [AddCommGroup VI] (gI : Prg Bytes VI) (isL : Bool)
    (ps : PublicShare Bytes VI VL) (key : Bytes) (cap : Nat) :
    CInv (ringBufferCache cap : Cache _ Bytes) gI isL ps key [] := by
  intro q m h; simp [ringBufferCache] at h

section main
variable {FI FL : Type} [Field FI] [BEq FI] [LawfulBEq FI] [Field FL] [BEq FL] [LawfulBEq FL]

/-- the run after `verify_init` at an inner level: round-one shares combine to a sketch message, both
    aggregators continue, the round-two shares combine to `done`, both finish, and the output shares add
    up to the indicator vector of "the candidate is a prefix of the input" -/
def AcceptedInner (input : List Bool) (ap : AggParam) (x0 x1 : State FI FL × FieldVec FI FL) : Prop :=
  ∃ (s : FI × FI × FI) (st0' : State FI FL) (r0 : FieldVec FI FL) (st1' : State FI FL) (r1 : FieldVec FI FL)
    (o0 o1 : List FI),
    sharesToMessage [x0.2, x1.2] = .ok (.sketchInner s) ∧
    verifyNext x0.1 (.sketchInner s) = .ok (.continue st0' r0) ∧
    verifyNext x1.1 (.sketchInner s) = .ok (.continue st1' r1) ∧
    sharesToMessage [r0, r1] = .ok .done ∧
    verifyNext st0' .done = .ok (.finish (.inner o0)) ∧
    verifyNext st1' .done = .ok (.finish (.inner o1)) ∧
    List.zipWith (· + ·) o0 o1 = ap.prefixes.map (fun p => if p <+: input then (1 : FI) else 0)

/-- the same at the leaf level -/
def AcceptedLeaf (input : List Bool) (ap : AggParam) (x0 x1 : State FI FL × FieldVec FI FL) : Prop :=
  ∃ (s : FL × FL × FL) (st0' : State FI FL) (r0 : FieldVec FI FL) (st1' : State FI FL) (r1 : FieldVec FI FL)
    (o0 o1 : List FL),
    sharesToMessage [x0.2, x1.2] = .ok (.sketchLeaf s) ∧
    verifyNext x0.1 (.sketchLeaf s) = .ok (.continue st0' r0) ∧
    verifyNext x1.1 (.sketchLeaf s) = .ok (.continue st1' r1) ∧
    sharesToMessage [r0, r1] = .ok .done ∧
    verifyNext st0' .done = .ok (.finish (.leaf o0)) ∧
    verifyNext st1' .done = .ok (.finish (.leaf o1)) ∧
    List.zipWith (· + ·) o0 o1 = ap.prefixes.map (fun p => if p <+: input then (1 : FL) else 0)

omit [LawfulBEq FL] in
theorem accepted_inner (input : List Bool) (ap : AggParam) (ys0 ys1 : List (Pair FI)) (rs : List FI)
    (hlen : ys0.length = ys1.length) (a0 b0 c0 a1 b1 c1 A0 B0 A1 B1 κ : FI)
    (hA : A0 + A1 = -(1 + 1) * (a0 + a1) + κ)
    (hB : B0 + B1 = (a0 + a1) * (a0 + a1) + (b0 + b1) - (a0 + a1) * κ + (c0 + c1))
    (hy : (∃ t m, List.zipWith padd ys0 ys1 = oneHot t m ⟨1, κ⟩ ∧ t < rs.length) ∨
          (∃ n, List.zipWith padd ys0 ys1 = List.replicate n ⟨0, 0⟩))
    (hout : (List.zipWith padd ys0 ys1).map (·.a) = ap.prefixes.map (fun p => if p <+: input then (1 : FI) else 0)) :
    AcceptedInner (FL := FL) input ap
      (.inner (.roundOne A0 B0 true) (ys0.map (·.a)),
        .inner [(sketchLoop (a0, b0, c0) ys0 rs).1, (sketchLoop (a0, b0, c0) ys0 rs).2.1, (sketchLoop (a0, b0, c0) ys0 rs).2.2])
      (.inner (.roundOne A1 B1 false) (ys1.map (·.a)),
        .inner [(sketchLoop (a1, b1, c1) ys1 rs).1, (sketchLoop (a1, b1, c1) ys1 rs).2.1, (sketchLoop (a1, b1, c1) ys1 rs).2.2]) := by
  obtain ⟨z, h1, h2⟩ := sketch_rounds ys0 ys1 rs hlen a0 b0 c0 a1 b1 c1 A0 B0 A1 B1 κ hA hB hy
  refine ⟨z, .inner .roundTwo (ys0.map (·.a)), .inner [finishSketch z A0 B0 true],
    .inner .roundTwo (ys1.map (·.a)), .inner [finishSketch z A1 B1 false], ys0.map (·.a), ys1.map (·.a),
    ?_, rfl, rfl, ?_, rfl, rfl, ?_⟩
  · simp only [sharesToMessage, h1]
  · simp only [sharesToMessage, h2]
  · rw [outputs_add_to_indicator, hout]

omit [LawfulBEq FI] in
theorem accepted_leaf (input : List Bool) (ap : AggParam) (ys0 ys1 : List (Pair FL)) (rs : List FL)
    (hlen : ys0.length = ys1.length) (a0 b0 c0 a1 b1 c1 A0 B0 A1 B1 κ : FL)
    (hA : A0 + A1 = -(1 + 1) * (a0 + a1) + κ)
    (hB : B0 + B1 = (a0 + a1) * (a0 + a1) + (b0 + b1) - (a0 + a1) * κ + (c0 + c1))
    (hy : (∃ t m, List.zipWith padd ys0 ys1 = oneHot t m ⟨1, κ⟩ ∧ t < rs.length) ∨
          (∃ n, List.zipWith padd ys0 ys1 = List.replicate n ⟨0, 0⟩))
    (hout : (List.zipWith padd ys0 ys1).map (·.a) = ap.prefixes.map (fun p => if p <+: input then (1 : FL) else 0)) :
    AcceptedLeaf (FI := FI) input ap
      (.leaf (.roundOne A0 B0 true) (ys0.map (·.a)),
        .leaf [(sketchLoop (a0, b0, c0) ys0 rs).1, (sketchLoop (a0, b0, c0) ys0 rs).2.1, (sketchLoop (a0, b0, c0) ys0 rs).2.2])
      (.leaf (.roundOne A1 B1 false) (ys1.map (·.a)),
        .leaf [(sketchLoop (a1, b1, c1) ys1 rs).1, (sketchLoop (a1, b1, c1) ys1 rs).2.1, (sketchLoop (a1, b1, c1) ys1 rs).2.2]) := by
  obtain ⟨z, h1, h2⟩ := sketch_rounds ys0 ys1 rs hlen a0 b0 c0 a1 b1 c1 A0 B0 A1 B1 κ hA hB hy
  refine ⟨z, .leaf .roundTwo (ys0.map (·.a)), .leaf [finishSketch z A0 B0 true],
    .leaf .roundTwo (ys1.map (·.a)), .leaf [finishSketch z A1 B1 false], ys0.map (·.a), ys1.map (·.a),
    ?_, rfl, rfl, ?_, rfl, rfl, ?_⟩
  · simp only [sharesToMessage, h1]
  · simp only [sharesToMessage, h2]
  · rw [outputs_add_to_indicator, hout]

omit [LawfulBEq FL] in
/-- **inner levels, core**: for an honestly sharded report and an admissible aggregation parameter of an
    inner level, each aggregator's `verify_init` is: draw the verification randomness (the same draw for
    both), panic if the PRNG gives up, else return `Fⱼ rs`; and for every `rs` of the right length the run
    from `F₀ rs`, `F₁ rs` is accepted with outputs adding up to the indicator vector -/
theorem poplar1_inner_core (n : Nat) (cfg : Cfg) (ofI : Nat → FI) (ofL : Nat → FL) (xof : Xof)
    (gI : Prg Bytes (Pair FI)) (gL : Prg Bytes (Pair FL)) (hI : SeedPres n gI) (hL : SeedPres n gL)
    (ctx : Bytes) (input : List Bool) (nonce k0 k1 pr0 pr1 pr2 : Bytes) (hk0 : k0.length = n) (hk1 : k1.length = n)
    (pub : PubShare FI FL) (s0 s1 : InputShare FI FL)
    (hshard : shard cfg ofI ofL xof gI gL ctx input nonce k0 k1 pr0 pr1 pr2 = .ok (pub, s0, s1))
    (ap : AggParam) (hlev : ap.level + 1 < cfg.bits)
    (hpl : ∀ p ∈ ap.prefixes, p.length = ap.level + 1) (hnd : ap.prefixes.Nodup) :
    ∃ F0 F1 : List Nat → State FI FL × FieldVec FI FL,
      (∀ verifyKey : Bytes, verifyInit cfg ofI ofL xof gI gL verifyKey ctx 0 ap nonce pub s0 =
        match (Rng.init xof verifyKey usageVerify ctx (nonce ++ beBytes ap.level 2) cfg.fi.sz).take cfg.fi
            ap.prefixes.length with
        | none => .panic
        | some (rs, _) => .ok (F0 rs)) ∧
      (∀ verifyKey : Bytes, verifyInit cfg ofI ofL xof gI gL verifyKey ctx 1 ap nonce pub s1 =
        match (Rng.init xof verifyKey usageVerify ctx (nonce ++ beBytes ap.level 2) cfg.fi.sz).take cfg.fi
            ap.prefixes.length with
        | none => .panic
        | some (rs, _) => .ok (F1 rs)) ∧
      ∀ rs : List Nat, rs.length = ap.prefixes.length → AcceptedInner input ap (F0 rs) (F1 rs) := by
  obtain ⟨hin, hb0, authsN, prng1, authLeafN, prng2, ci0, ci1, prng3, cl0, cl1, q0, q1, q2, ht, hg, hgen, hc, hl,
    rfl, rfl⟩ := shard_ok_spec cfg ofI ofL xof gI gL ctx input nonce k0 k1 pr0 pr1 pr2 pub s0 s1 hshard
  have hauth : authsN.length = cfg.bits - 1 := take_length _ _ _ _ _ ht
  obtain ⟨hpi, _⟩ := gen_inner_length gI gL input _ _ k0 k1 pub hgen
  obtain ⟨hl0, hl1, hlevs⟩ := corrLoop_spec ofI cfg.fi (authsN.map ofI) prng2 _ _ ci0 ci1 prng3 hc
  have hlt : ap.level < (authsN.map ofI).length := by rw [List.length_map]; omega
  have hκ : (authsN.map ofI)[ap.level]? = some ((authsN.map ofI)[ap.level]) := List.getElem?_eq_getElem hlt
  generalize (authsN.map ofI)[ap.level] = κ at hκ
  obtain ⟨x0, x1, hx0, hx1, pre0, g0, a0, b0, d0, g0', pre1, g1, a1, b1, d1, g1', u0, v0, u1, v1, hA, hB⟩ :=
    hlevs ap.level κ hκ
  -- the IDPF shares of every candidate
  have hidpf : ∀ p : List Bool, ∃ a b : Pair FI, p.length = ap.level + 1 →
      (specEval gI gL true pub k0 p = some (.inner a) ∧ specEval gI gL false pub k1 p = some (.inner b) ∧
        padd a b = if p = input.take (ap.level + 1) then (⟨1, κ⟩ : Pair FI) else ⟨0, 0⟩) := by
    intro p
    by_cases hp : p.length = ap.level + 1
    · obtain ⟨a, b, ha, hb, hab⟩ := idpf_inner_bytes gI gL hI hL input _ _ k0 k1 hk0 hk1 pub hgen p
        (by omega) (by omega)
      refine ⟨a, b, fun _ => ⟨ha, hb, ?_⟩⟩
      have hv : ((authsN.map ofI).map fun a => (⟨1, a⟩ : Pair FI)).getD (p.length - 1) 0 = ⟨1, κ⟩ := by
        rw [hp, Nat.add_sub_cancel, List.getD_eq_getElem?_getD, List.getElem?_map, hκ]; rfl
      rw [hv, hp] at hab
      exact hab
    · exact ⟨⟨0, 0⟩, ⟨0, 0⟩, fun h => absurd h hp⟩
  choose f0 f1 hf using hidpf
  have hlens : ∀ p ∈ ap.prefixes, 1 ≤ p.length ∧ p.length ≤ pub.inner.length + 1 := by
    intro p hp; rw [hpl p hp]; omega
  have hev0 := evalPrefixes_spec gI gL 0 (by omega) pub k0 ap.prefixes.length (fun p => .inner (f0 p)) ap.prefixes []
    hlens (fun p hp => (hf p (hpl p hp)).1) (emptyCache_inv gI _ pub k0 _)
  have hev1 := evalPrefixes_spec gI gL 1 (by omega) pub k1 ap.prefixes.length (fun p => .inner (f1 p)) ap.prefixes []
    hlens (fun p hp => (hf p (hpl p hp)).2.1) (emptyCache_inv gI _ pub k1 _)
  have m0 : ap.prefixes.map (fun p => (Output.inner (f0 p) : Output (Pair FI) (Pair FL)))
      = (ap.prefixes.map f0).map .inner := by rw [List.map_map]; rfl
  have m1 : ap.prefixes.map (fun p => (Output.inner (f1 p) : Output (Pair FI) (Pair FL)))
      = (ap.prefixes.map f1).map .inner := by rw [List.map_map]; rfl
  rw [m0] at hev0
  rw [m1] at hev1
  have hci0 : ci0.length + 1 = cfg.bits := by rw [hl0, List.length_map]; omega
  have hci1 : ci1.length + 1 = cfg.bits := by rw [hl1, List.length_map]; omega
  have hpub : pub.inner.length + 1 = cfg.bits := by omega
  refine ⟨fun rs => (.inner (.roundOne x0.1 x0.2 true) ((ap.prefixes.map f0).map (·.a)),
      .inner [(sketchLoop (ofI a0, ofI b0, ofI d0) (ap.prefixes.map f0) (rs.map ofI)).1,
              (sketchLoop (ofI a0, ofI b0, ofI d0) (ap.prefixes.map f0) (rs.map ofI)).2.1,
              (sketchLoop (ofI a0, ofI b0, ofI d0) (ap.prefixes.map f0) (rs.map ofI)).2.2]),
    fun rs => (.inner (.roundOne x1.1 x1.2 false) ((ap.prefixes.map f1).map (·.a)),
      .inner [(sketchLoop (ofI a1, ofI b1, ofI d1) (ap.prefixes.map f1) (rs.map ofI)).1,
              (sketchLoop (ofI a1, ofI b1, ofI d1) (ap.prefixes.map f1) (rs.map ofI)).2.1,
              (sketchLoop (ofI a1, ofI b1, ofI d1) (ap.prefixes.map f1) (rs.map ofI)).2.2]), ?_, ?_, ?_⟩
  · intro verifyKey
    have := verifyInit_inner_eq cfg ofI ofL xof gI gL verifyKey ctx 0 (by omega) ap nonce pub ⟨k0, pr0, ci0, cl0⟩
      hpub hci0 hlev pre0 g0 g0' a0 b0 d0 u0 v0 (ap.prefixes.map f0) hev0 x0.1 x0.2 hx0
    rw [List.length_map] at this
    exact this
  · intro verifyKey
    have := verifyInit_inner_eq cfg ofI ofL xof gI gL verifyKey ctx 1 (by omega) ap nonce pub ⟨k1, pr1, ci1, cl1⟩
      hpub hci1 hlev pre1 g1 g1' a1 b1 d1 u1 v1 (ap.prefixes.map f1) hev1 x1.1 x1.2 hx1
    rw [List.length_map] at this
    exact this
  · intro rs hrs
    have hzip : List.zipWith padd (ap.prefixes.map f0) (ap.prefixes.map f1) =
        ap.prefixes.map (fun p => if p = input.take (ap.level + 1) then (⟨1, κ⟩ : Pair FI) else ⟨0, 0⟩) := by
      rw [zipWith_map_same]
      exact List.map_congr_left (fun p hp => (hf p (hpl p hp)).2.2)
    apply accepted_inner input ap (ap.prefixes.map f0) (ap.prefixes.map f1) (rs.map ofI) (by simp)
      (ofI a0) (ofI b0) (ofI d0) (ofI a1) (ofI b1) (ofI d1) x0.1 x0.2 x1.1 x1.2 κ hA hB
    · rw [hzip]
      rcases onehot_of_nodup κ (input.take (ap.level + 1)) ap.prefixes hnd with ⟨t, m, h1, h2⟩ | h1
      · exact Or.inl ⟨t, m, h1, by rw [List.length_map, hrs]; exact h2⟩
      · exact Or.inr ⟨_, h1⟩
    · rw [hzip, List.map_map]
      apply List.map_congr_left
      intro p hp
      have hpre : p <+: input ↔ p = input.take (ap.level + 1) := by
        rw [List.prefix_iff_eq_take, hpl p hp]
      by_cases h : p = input.take (ap.level + 1)
      · simp only [Function.comp, if_pos h, if_pos (hpre.mpr h)]
      · simp only [Function.comp, if_neg h, if_neg (fun h' => h (hpre.mp h'))]

omit [LawfulBEq FI] in
/-- **leaf level, core** (`ap.level + 1 = cfg.bits`) -/
theorem poplar1_leaf_core (n : Nat) (cfg : Cfg) (ofI : Nat → FI) (ofL : Nat → FL) (xof : Xof)
    (gI : Prg Bytes (Pair FI)) (gL : Prg Bytes (Pair FL)) (hI : SeedPres n gI) (hL : SeedPres n gL)
    (ctx : Bytes) (input : List Bool) (nonce k0 k1 pr0 pr1 pr2 : Bytes) (hk0 : k0.length = n) (hk1 : k1.length = n)
    (pub : PubShare FI FL) (s0 s1 : InputShare FI FL)
    (hshard : shard cfg ofI ofL xof gI gL ctx input nonce k0 k1 pr0 pr1 pr2 = .ok (pub, s0, s1))
    (ap : AggParam) (hlev : ap.level + 1 = cfg.bits)
    (hpl : ∀ p ∈ ap.prefixes, p.length = ap.level + 1) (hnd : ap.prefixes.Nodup) :
    ∃ F0 F1 : List Nat → State FI FL × FieldVec FI FL,
      (∀ verifyKey : Bytes, verifyInit cfg ofI ofL xof gI gL verifyKey ctx 0 ap nonce pub s0 =
        match (Rng.init xof verifyKey usageVerify ctx (nonce ++ beBytes ap.level 2) cfg.fl.sz).take cfg.fl
            ap.prefixes.length with
        | none => .panic
        | some (rs, _) => .ok (F0 rs)) ∧
      (∀ verifyKey : Bytes, verifyInit cfg ofI ofL xof gI gL verifyKey ctx 1 ap nonce pub s1 =
        match (Rng.init xof verifyKey usageVerify ctx (nonce ++ beBytes ap.level 2) cfg.fl.sz).take cfg.fl
            ap.prefixes.length with
        | none => .panic
        | some (rs, _) => .ok (F1 rs)) ∧
      ∀ rs : List Nat, rs.length = ap.prefixes.length → AcceptedLeaf input ap (F0 rs) (F1 rs) := by
  obtain ⟨hin, hb0, authsN, prng1, authLeafN, prng2, ci0, ci1, prng3, cl0, cl1, q0, q1, q2, ht, hg, hgen, hc, hl,
    rfl, rfl⟩ := shard_ok_spec cfg ofI ofL xof gI gL ctx input nonce k0 k1 pr0 pr1 pr2 pub s0 s1 hshard
  have hauth : authsN.length = cfg.bits - 1 := take_length _ _ _ _ _ ht
  obtain ⟨hpi, _⟩ := gen_inner_length gI gL input _ _ k0 k1 pub hgen
  obtain ⟨hl0, hl1, _⟩ := corrLoop_spec ofI cfg.fi (authsN.map ofI) prng2 _ _ ci0 ci1 prng3 hc
  obtain ⟨a0, b0, d0, a1, b1, d1, v0, v1, hA, hB⟩ := nextCorr_spec ofL cfg.fl prng3 _ _ _ cl0 cl1 q0 q1 q2 hl
  generalize ofL authLeafN = κ at hgen hA hB
  have hidpf : ∀ p : List Bool, ∃ a b : Pair FL, p.length = ap.level + 1 →
      (specEval gI gL true pub k0 p = some (.leaf a) ∧ specEval gI gL false pub k1 p = some (.leaf b) ∧
        padd a b = if p = input then (⟨1, κ⟩ : Pair FL) else ⟨0, 0⟩) := by
    intro p
    by_cases hp : p.length = ap.level + 1
    · obtain ⟨a, b, ha, hb, hab⟩ := idpf_leaf_bytes gI gL hI hL input _ _ k0 k1 hk0 hk1 pub hgen p (by omega)
      exact ⟨a, b, fun _ => ⟨ha, hb, hab⟩⟩
    · exact ⟨⟨0, 0⟩, ⟨0, 0⟩, fun h => absurd h hp⟩
  choose f0 f1 hf using hidpf
  have hlens : ∀ p ∈ ap.prefixes, 1 ≤ p.length ∧ p.length ≤ pub.inner.length + 1 := by
    intro p hp; rw [hpl p hp]; omega
  have hev0 := evalPrefixes_spec gI gL 0 (by omega) pub k0 ap.prefixes.length (fun p => .leaf (f0 p)) ap.prefixes []
    hlens (fun p hp => (hf p (hpl p hp)).1) (emptyCache_inv gI _ pub k0 _)
  have hev1 := evalPrefixes_spec gI gL 1 (by omega) pub k1 ap.prefixes.length (fun p => .leaf (f1 p)) ap.prefixes []
    hlens (fun p hp => (hf p (hpl p hp)).2.1) (emptyCache_inv gI _ pub k1 _)
  have m0 : ap.prefixes.map (fun p => (Output.leaf (f0 p) : Output (Pair FI) (Pair FL)))
      = (ap.prefixes.map f0).map .leaf := by rw [List.map_map]; rfl
  have m1 : ap.prefixes.map (fun p => (Output.leaf (f1 p) : Output (Pair FI) (Pair FL)))
      = (ap.prefixes.map f1).map .leaf := by rw [List.map_map]; rfl
  rw [m0] at hev0
  rw [m1] at hev1
  have hci0 : ci0.length + 1 = cfg.bits := by rw [hl0, List.length_map]; omega
  have hci1 : ci1.length + 1 = cfg.bits := by rw [hl1, List.length_map]; omega
  have hpub : pub.inner.length + 1 = cfg.bits := by omega
  have hnl : ¬ ap.level + 1 < cfg.bits := by omega
  refine ⟨fun rs => (.leaf (.roundOne cl0.1 cl0.2 true) ((ap.prefixes.map f0).map (·.a)),
      .leaf [(sketchLoop (ofL a0, ofL b0, ofL d0) (ap.prefixes.map f0) (rs.map ofL)).1,
             (sketchLoop (ofL a0, ofL b0, ofL d0) (ap.prefixes.map f0) (rs.map ofL)).2.1,
             (sketchLoop (ofL a0, ofL b0, ofL d0) (ap.prefixes.map f0) (rs.map ofL)).2.2]),
    fun rs => (.leaf (.roundOne cl1.1 cl1.2 false) ((ap.prefixes.map f1).map (·.a)),
      .leaf [(sketchLoop (ofL a1, ofL b1, ofL d1) (ap.prefixes.map f1) (rs.map ofL)).1,
             (sketchLoop (ofL a1, ofL b1, ofL d1) (ap.prefixes.map f1) (rs.map ofL)).2.1,
             (sketchLoop (ofL a1, ofL b1, ofL d1) (ap.prefixes.map f1) (rs.map ofL)).2.2]), ?_, ?_, ?_⟩
  · intro verifyKey
    have := verifyInit_leaf_eq cfg ofI ofL xof gI gL verifyKey ctx 0 (by omega) ap nonce pub ⟨k0, pr0, ci0, cl0⟩
      hpub hci0 hnl q1 a0 b0 d0 v0 (ap.prefixes.map f0) hev0
    rw [List.length_map] at this
    exact this
  · intro verifyKey
    have := verifyInit_leaf_eq cfg ofI ofL xof gI gL verifyKey ctx 1 (by omega) ap nonce pub ⟨k1, pr1, ci1, cl1⟩
      hpub hci1 hnl q2 a1 b1 d1 v1 (ap.prefixes.map f1) hev1
    rw [List.length_map] at this
    exact this
  · intro rs hrs
    have hzip : List.zipWith padd (ap.prefixes.map f0) (ap.prefixes.map f1) =
        ap.prefixes.map (fun p => if p = input then (⟨1, κ⟩ : Pair FL) else ⟨0, 0⟩) := by
      rw [zipWith_map_same]
      exact List.map_congr_left (fun p hp => (hf p (hpl p hp)).2.2)
    apply accepted_leaf input ap (ap.prefixes.map f0) (ap.prefixes.map f1) (rs.map ofL) (by simp)
      (ofL a0) (ofL b0) (ofL d0) (ofL a1) (ofL b1) (ofL d1) cl0.1 cl0.2 cl1.1 cl1.2 κ hA hB
    · rw [hzip]
      rcases onehot_of_nodup κ input ap.prefixes hnd with ⟨t, m, h1, h2⟩ | h1
      · exact Or.inl ⟨t, m, h1, by rw [List.length_map, hrs]; exact h2⟩
      · exact Or.inr ⟨_, h1⟩
    · rw [hzip, List.map_map]
      apply List.map_congr_left
      intro p hp
      have hpre : p <+: input ↔ p = input := by
        rw [List.prefix_iff_eq_take, hpl p hp, List.take_of_length_le (by omega)]
      by_cases h : p = input
      · simp only [Function.comp, if_pos h, if_pos (hpre.mpr h)]
      · simp only [Function.comp, if_neg h, if_neg (fun h' => h (hpre.mp h'))]

omit [LawfulBEq FL] in
/-- **Poplar1 end to end, inner levels**: an honestly sharded report, an admissible aggregation parameter, and a
    verification-randomness PRNG that delivers `|prefixes|` elements: both `verify_init`s succeed, the two
    rounds accept, and the output shares add up to the indicator vector -/
theorem poplar1_inner_e2e (n : Nat) (cfg : Cfg) (ofI : Nat → FI) (ofL : Nat → FL) (xof : Xof)
    (gI : Prg Bytes (Pair FI)) (gL : Prg Bytes (Pair FL)) (hI : SeedPres n gI) (hL : SeedPres n gL)
    (ctx : Bytes) (input : List Bool) (nonce k0 k1 pr0 pr1 pr2 : Bytes) (hk0 : k0.length = n) (hk1 : k1.length = n)
    (pub : PubShare FI FL) (s0 s1 : InputShare FI FL)
    (hshard : shard cfg ofI ofL xof gI gL ctx input nonce k0 k1 pr0 pr1 pr2 = .ok (pub, s0, s1))
    (ap : AggParam) (hlev : ap.level + 1 < cfg.bits)
    (hpl : ∀ p ∈ ap.prefixes, p.length = ap.level + 1) (hnd : ap.prefixes.Nodup)
    (verifyKey : Bytes)
    (rs : List Nat) (g : Rng)
    (hrs : (Rng.init xof verifyKey usageVerify ctx (nonce ++ beBytes ap.level 2) cfg.fi.sz).take cfg.fi
      ap.prefixes.length = some (rs, g)) :
    ∃ (st0 : State FI FL) (sh0 : FieldVec FI FL) (st1 : State FI FL) (sh1 : FieldVec FI FL)
      (s : FI × FI × FI) (st0' : State FI FL) (r0 : FieldVec FI FL) (st1' : State FI FL) (r1 : FieldVec FI FL)
      (o0 o1 : List FI),
      verifyInit cfg ofI ofL xof gI gL verifyKey ctx 0 ap nonce pub s0 = .ok (st0, sh0) ∧
      verifyInit cfg ofI ofL xof gI gL verifyKey ctx 1 ap nonce pub s1 = .ok (st1, sh1) ∧
      sharesToMessage [sh0, sh1] = .ok (.sketchInner s) ∧
      verifyNext st0 (.sketchInner s) = .ok (.continue st0' r0) ∧
      verifyNext st1 (.sketchInner s) = .ok (.continue st1' r1) ∧
      sharesToMessage [r0, r1] = .ok .done ∧
      verifyNext st0' .done = .ok (.finish (.inner o0)) ∧
      verifyNext st1' .done = .ok (.finish (.inner o1)) ∧
      List.zipWith (· + ·) o0 o1 = ap.prefixes.map (fun p => if p <+: input then (1 : FI) else 0) := by
  obtain ⟨F0, F1, h0, h1, hacc⟩ := poplar1_inner_core n cfg ofI ofL xof gI gL hI hL ctx input nonce k0 k1 pr0 pr1 pr2
    hk0 hk1 pub s0 s1 hshard ap hlev hpl hnd
  obtain ⟨s, st0', r0, st1', r1, o0, o1, hh⟩ := hacc rs (take_length _ _ _ _ _ hrs)
  refine ⟨(F0 rs).1, (F0 rs).2, (F1 rs).1, (F1 rs).2, s, st0', r0, st1', r1, o0, o1, ?_, ?_, hh⟩
  · rw [h0 verifyKey, hrs]
  · rw [h1 verifyKey, hrs]

omit [LawfulBEq FL] in
/-- the same, assuming only that both `verify_init`s returned `ok` -/
theorem poplar1_inner_e2e_of_ok (n : Nat) (cfg : Cfg) (ofI : Nat → FI) (ofL : Nat → FL) (xof : Xof)
    (gI : Prg Bytes (Pair FI)) (gL : Prg Bytes (Pair FL)) (hI : SeedPres n gI) (hL : SeedPres n gL)
    (ctx : Bytes) (input : List Bool) (nonce k0 k1 pr0 pr1 pr2 : Bytes) (hk0 : k0.length = n) (hk1 : k1.length = n)
    (pub : PubShare FI FL) (s0 s1 : InputShare FI FL)
    (hshard : shard cfg ofI ofL xof gI gL ctx input nonce k0 k1 pr0 pr1 pr2 = .ok (pub, s0, s1))
    (ap : AggParam) (hlev : ap.level + 1 < cfg.bits)
    (hpl : ∀ p ∈ ap.prefixes, p.length = ap.level + 1) (hnd : ap.prefixes.Nodup)
    (verifyKey : Bytes)
    (st0 st1 : State FI FL) (sh0 sh1 : FieldVec FI FL)
    (hv0 : verifyInit cfg ofI ofL xof gI gL verifyKey ctx 0 ap nonce pub s0 = .ok (st0, sh0))
    (hv1 : verifyInit cfg ofI ofL xof gI gL verifyKey ctx 1 ap nonce pub s1 = .ok (st1, sh1)) :
    ∃ (s : FI × FI × FI) (st0' : State FI FL) (r0 : FieldVec FI FL) (st1' : State FI FL) (r1 : FieldVec FI FL)
      (o0 o1 : List FI),
      sharesToMessage [sh0, sh1] = .ok (.sketchInner s) ∧
      verifyNext st0 (.sketchInner s) = .ok (.continue st0' r0) ∧
      verifyNext st1 (.sketchInner s) = .ok (.continue st1' r1) ∧
      sharesToMessage [r0, r1] = .ok .done ∧
      verifyNext st0' .done = .ok (.finish (.inner o0)) ∧
      verifyNext st1' .done = .ok (.finish (.inner o1)) ∧
      List.zipWith (· + ·) o0 o1 = ap.prefixes.map (fun p => if p <+: input then (1 : FI) else 0) := by
  obtain ⟨F0, F1, h0, h1, hacc⟩ := poplar1_inner_core n cfg ofI ofL xof gI gL hI hL ctx input nonce k0 k1 pr0 pr1 pr2
    hk0 hk1 pub s0 s1 hshard ap hlev hpl hnd
  rw [h0 verifyKey] at hv0
  rw [h1 verifyKey] at hv1
  cases hrs : (Rng.init xof verifyKey usageVerify ctx (nonce ++ beBytes ap.level 2) cfg.fi.sz).take cfg.fi
      ap.prefixes.length with
  | none => rw [hrs] at hv0; cases hv0
  | some r =>
    obtain ⟨rs, g⟩ := r
    rw [hrs] at hv0 hv1
    simp only [Res.ok.injEq] at hv0 hv1
    have hh := hacc rs (take_length _ _ _ _ _ hrs)
    rw [hv0, hv1] at hh
    exact hh

omit [LawfulBEq FI] in
/-- **Poplar1 end to end, leaf level**: an honestly sharded report, an admissible aggregation parameter, and a
    verification-randomness PRNG that delivers `|prefixes|` elements: both `verify_init`s succeed, the two
    rounds accept, and the output shares add up to the indicator vector -/
theorem poplar1_leaf_e2e (n : Nat) (cfg : Cfg) (ofI : Nat → FI) (ofL : Nat → FL) (xof : Xof)
    (gI : Prg Bytes (Pair FI)) (gL : Prg Bytes (Pair FL)) (hI : SeedPres n gI) (hL : SeedPres n gL)
    (ctx : Bytes) (input : List Bool) (nonce k0 k1 pr0 pr1 pr2 : Bytes) (hk0 : k0.length = n) (hk1 : k1.length = n)
    (pub : PubShare FI FL) (s0 s1 : InputShare FI FL)
    (hshard : shard cfg ofI ofL xof gI gL ctx input nonce k0 k1 pr0 pr1 pr2 = .ok (pub, s0, s1))
    (ap : AggParam) (hlev : ap.level + 1 = cfg.bits)
    (hpl : ∀ p ∈ ap.prefixes, p.length = ap.level + 1) (hnd : ap.prefixes.Nodup)
    (verifyKey : Bytes)
    (rs : List Nat) (g : Rng)
    (hrs : (Rng.init xof verifyKey usageVerify ctx (nonce ++ beBytes ap.level 2) cfg.fl.sz).take cfg.fl
      ap.prefixes.length = some (rs, g)) :
    ∃ (st0 : State FI FL) (sh0 : FieldVec FI FL) (st1 : State FI FL) (sh1 : FieldVec FI FL)
      (s : FL × FL × FL) (st0' : State FI FL) (r0 : FieldVec FI FL) (st1' : State FI FL) (r1 : FieldVec FI FL)
      (o0 o1 : List FL),
      verifyInit cfg ofI ofL xof gI gL verifyKey ctx 0 ap nonce pub s0 = .ok (st0, sh0) ∧
      verifyInit cfg ofI ofL xof gI gL verifyKey ctx 1 ap nonce pub s1 = .ok (st1, sh1) ∧
      sharesToMessage [sh0, sh1] = .ok (.sketchLeaf s) ∧
      verifyNext st0 (.sketchLeaf s) = .ok (.continue st0' r0) ∧
      verifyNext st1 (.sketchLeaf s) = .ok (.continue st1' r1) ∧
      sharesToMessage [r0, r1] = .ok .done ∧
      verifyNext st0' .done = .ok (.finish (.leaf o0)) ∧
      verifyNext st1' .done = .ok (.finish (.leaf o1)) ∧
      List.zipWith (· + ·) o0 o1 = ap.prefixes.map (fun p => if p <+: input then (1 : FL) else 0) := by
  obtain ⟨F0, F1, h0, h1, hacc⟩ := poplar1_leaf_core n cfg ofI ofL xof gI gL hI hL ctx input nonce k0 k1 pr0 pr1 pr2
    hk0 hk1 pub s0 s1 hshard ap hlev hpl hnd
  obtain ⟨s, st0', r0, st1', r1, o0, o1, hh⟩ := hacc rs (take_length _ _ _ _ _ hrs)
  refine ⟨(F0 rs).1, (F0 rs).2, (F1 rs).1, (F1 rs).2, s, st0', r0, st1', r1, o0, o1, ?_, ?_, hh⟩
  · rw [h0 verifyKey, hrs]
  · rw [h1 verifyKey, hrs]

omit [LawfulBEq FI] in
/-- the same, assuming only that both `verify_init`s returned `ok` -/
theorem poplar1_leaf_e2e_of_ok (n : Nat) (cfg : Cfg) (ofI : Nat → FI) (ofL : Nat → FL) (xof : Xof)
    (gI : Prg Bytes (Pair FI)) (gL : Prg Bytes (Pair FL)) (hI : SeedPres n gI) (hL : SeedPres n gL)
    (ctx : Bytes) (input : List Bool) (nonce k0 k1 pr0 pr1 pr2 : Bytes) (hk0 : k0.length = n) (hk1 : k1.length = n)
    (pub : PubShare FI FL) (s0 s1 : InputShare FI FL)
    (hshard : shard cfg ofI ofL xof gI gL ctx input nonce k0 k1 pr0 pr1 pr2 = .ok (pub, s0, s1))
    (ap : AggParam) (hlev : ap.level + 1 = cfg.bits)
    (hpl : ∀ p ∈ ap.prefixes, p.length = ap.level + 1) (hnd : ap.prefixes.Nodup)
    (verifyKey : Bytes)
    (st0 st1 : State FI FL) (sh0 sh1 : FieldVec FI FL)
    (hv0 : verifyInit cfg ofI ofL xof gI gL verifyKey ctx 0 ap nonce pub s0 = .ok (st0, sh0))
    (hv1 : verifyInit cfg ofI ofL xof gI gL verifyKey ctx 1 ap nonce pub s1 = .ok (st1, sh1)) :
    ∃ (s : FL × FL × FL) (st0' : State FI FL) (r0 : FieldVec FI FL) (st1' : State FI FL) (r1 : FieldVec FI FL)
      (o0 o1 : List FL),
      sharesToMessage [sh0, sh1] = .ok (.sketchLeaf s) ∧
      verifyNext st0 (.sketchLeaf s) = .ok (.continue st0' r0) ∧
      verifyNext st1 (.sketchLeaf s) = .ok (.continue st1' r1) ∧
      sharesToMessage [r0, r1] = .ok .done ∧
      verifyNext st0' .done = .ok (.finish (.leaf o0)) ∧
      verifyNext st1' .done = .ok (.finish (.leaf o1)) ∧
      List.zipWith (· + ·) o0 o1 = ap.prefixes.map (fun p => if p <+: input then (1 : FL) else 0) := by
  obtain ⟨F0, F1, h0, h1, hacc⟩ := poplar1_leaf_core n cfg ofI ofL xof gI gL hI hL ctx input nonce k0 k1 pr0 pr1 pr2
    hk0 hk1 pub s0 s1 hshard ap hlev hpl hnd
  rw [h0 verifyKey] at hv0
  rw [h1 verifyKey] at hv1
  cases hrs : (Rng.init xof verifyKey usageVerify ctx (nonce ++ beBytes ap.level 2) cfg.fl.sz).take cfg.fl
      ap.prefixes.length with
  | none => rw [hrs] at hv0; cases hv0
  | some r =>
    obtain ⟨rs, g⟩ := r
    rw [hrs] at hv0 hv1
    simp only [Res.ok.injEq] at hv0 hv1
    have hh := hacc rs (take_length _ _ _ _ _ hrs)
    rw [hv0, hv1] at hh
    exact hh

/-- **`verify_init` never returns `err` on an honest report** (all levels): it is `panic` exactly when the
    verification-randomness PRNG gives up, `ok` otherwise — so after a successful `shard` the PRNG fuel is
    the only source of failure -/
theorem verifyInit_honest_ok_iff (n : Nat) (cfg : Cfg) (ofI : Nat → FI) (ofL : Nat → FL) (xof : Xof)
    (gI : Prg Bytes (Pair FI)) (gL : Prg Bytes (Pair FL)) (hI : SeedPres n gI) (hL : SeedPres n gL)
    (ctx : Bytes) (input : List Bool) (nonce k0 k1 pr0 pr1 pr2 : Bytes) (hk0 : k0.length = n) (hk1 : k1.length = n)
    (pub : PubShare FI FL) (s0 s1 : InputShare FI FL)
    (hshard : shard cfg ofI ofL xof gI gL ctx input nonce k0 k1 pr0 pr1 pr2 = .ok (pub, s0, s1))
    (ap : AggParam) (hlev : ap.level + 1 ≤ cfg.bits)
    (hpl : ∀ p ∈ ap.prefixes, p.length = ap.level + 1) (hnd : ap.prefixes.Nodup)
    (verifyKey : Bytes) :
    let fp := if ap.level + 1 < cfg.bits then cfg.fi else cfg.fl
    let draw := (Rng.init xof verifyKey usageVerify ctx (nonce ++ beBytes ap.level 2) fp.sz).take fp ap.prefixes.length
    (draw = none → verifyInit cfg ofI ofL xof gI gL verifyKey ctx 0 ap nonce pub s0 = .panic ∧
                   verifyInit cfg ofI ofL xof gI gL verifyKey ctx 1 ap nonce pub s1 = .panic) ∧
    (draw ≠ none → ∃ x0 x1, verifyInit cfg ofI ofL xof gI gL verifyKey ctx 0 ap nonce pub s0 = .ok x0 ∧
                   verifyInit cfg ofI ofL xof gI gL verifyKey ctx 1 ap nonce pub s1 = .ok x1) := by
  intro fp draw
  by_cases hl : ap.level + 1 < cfg.bits
  · obtain ⟨F0, F1, h0, h1, _⟩ := poplar1_inner_core n cfg ofI ofL xof gI gL hI hL ctx input nonce k0 k1 pr0 pr1 pr2
      hk0 hk1 pub s0 s1 hshard ap hl hpl hnd
    have hfp : fp = cfg.fi := if_pos hl
    rw [h0 verifyKey, h1 verifyKey]
    show (draw = none → _) ∧ (draw ≠ none → _)
    have hd : draw = (Rng.init xof verifyKey usageVerify ctx (nonce ++ beBytes ap.level 2) cfg.fi.sz).take cfg.fi
        ap.prefixes.length := by simp only [draw, hfp]
    rw [hd]
    cases (Rng.init xof verifyKey usageVerify ctx (nonce ++ beBytes ap.level 2) cfg.fi.sz).take cfg.fi
        ap.prefixes.length with
    | none => exact ⟨fun _ => ⟨rfl, rfl⟩, fun h => absurd rfl h⟩
    | some r => exact ⟨fun h => (by cases h), fun _ => ⟨_, _, rfl, rfl⟩⟩
  · obtain ⟨F0, F1, h0, h1, _⟩ := poplar1_leaf_core n cfg ofI ofL xof gI gL hI hL ctx input nonce k0 k1 pr0 pr1 pr2
      hk0 hk1 pub s0 s1 hshard ap (by omega) hpl hnd
    have hfp : fp = cfg.fl := if_neg hl
    rw [h0 verifyKey, h1 verifyKey]
    show (draw = none → _) ∧ (draw ≠ none → _)
    have hd : draw = (Rng.init xof verifyKey usageVerify ctx (nonce ++ beBytes ap.level 2) cfg.fl.sz).take cfg.fl
        ap.prefixes.length := by simp only [draw, hfp]
    rw [hd]
    cases (Rng.init xof verifyKey usageVerify ctx (nonce ++ beBytes ap.level 2) cfg.fl.sz).take cfg.fl
        ap.prefixes.length with
    | none => exact ⟨fun _ => ⟨rfl, rfl⟩, fun h => absurd rfl h⟩
    | some r => exact ⟨fun h => (by cases h), fun _ => ⟨_, _, rfl, rfl⟩⟩

/-- **all levels at once**: if both `verify_init`s return `ok`, the run is accepted at the level's field -/
theorem poplar1_e2e_of_ok (n : Nat) (cfg : Cfg) (ofI : Nat → FI) (ofL : Nat → FL) (xof : Xof)
    (gI : Prg Bytes (Pair FI)) (gL : Prg Bytes (Pair FL)) (hI : SeedPres n gI) (hL : SeedPres n gL)
    (ctx : Bytes) (input : List Bool) (nonce k0 k1 pr0 pr1 pr2 : Bytes) (hk0 : k0.length = n) (hk1 : k1.length = n)
    (pub : PubShare FI FL) (s0 s1 : InputShare FI FL)
    (hshard : shard cfg ofI ofL xof gI gL ctx input nonce k0 k1 pr0 pr1 pr2 = .ok (pub, s0, s1))
    (ap : AggParam) (hlev : ap.level + 1 ≤ cfg.bits)
    (hpl : ∀ p ∈ ap.prefixes, p.length = ap.level + 1) (hnd : ap.prefixes.Nodup)
    (verifyKey : Bytes) (st0 st1 : State FI FL) (sh0 sh1 : FieldVec FI FL)
    (hv0 : verifyInit cfg ofI ofL xof gI gL verifyKey ctx 0 ap nonce pub s0 = .ok (st0, sh0))
    (hv1 : verifyInit cfg ofI ofL xof gI gL verifyKey ctx 1 ap nonce pub s1 = .ok (st1, sh1)) :
    (ap.level + 1 < cfg.bits ∧ AcceptedInner input ap (st0, sh0) (st1, sh1)) ∨
    (ap.level + 1 = cfg.bits ∧ AcceptedLeaf input ap (st0, sh0) (st1, sh1)) := by
  by_cases hl : ap.level + 1 < cfg.bits
  · exact Or.inl ⟨hl, poplar1_inner_e2e_of_ok n cfg ofI ofL xof gI gL hI hL ctx input nonce k0 k1 pr0 pr1 pr2 hk0 hk1
      pub s0 s1 hshard ap hl hpl hnd verifyKey st0 st1 sh0 sh1 hv0 hv1⟩
  · exact Or.inr ⟨by omega, poplar1_leaf_e2e_of_ok n cfg ofI ofL xof gI gL hI hL ctx input nonce k0 k1 pr0 pr1 pr2 hk0 hk1
      pub s0 s1 hshard ap (by omega) hpl hnd verifyKey st0 st1 sh0 sh1 hv0 hv1⟩

end main
end Prio.Poplar1.E2E

/-! ## Non-vacuity: a concrete instance meeting every hypothesis (field `ZMod 7`, two-bit inputs, a zero
    seed stream, identity PRGs, one-byte seeds), checked by kernel evaluation -/
namespace Prio.Poplar1.E2E.NonVacuous
open Prio.Idpf

local instance : Fact (Nat.Prime 7) := ⟨by decide⟩

def isOk {α : Type} : Res α → Bool
  | .ok _ => true
  | _ => false

theorem exists_of_isOk {α : Type} (r : Res α) (h : isOk r = true) : ∃ x, r = .ok x := by
  cases r with
  | ok a => exact ⟨a, rfl⟩
  | err => cases h
  | panic => cases h

/-- `ZMod 7` behind a definition, so that its operations are found through `Field` only -/
def F7 : Type := ZMod 7
instance : Field F7 := inferInstanceAs (Field (ZMod 7))
instance : DecidableEq F7 := inferInstanceAs (DecidableEq (ZMod 7))

def cfgX : Cfg := ⟨2, ⟨7, 7, 1⟩, ⟨7, 7, 1⟩⟩
def xofX : Xof := fun _ _ _ _ => 0
def ofX : Nat → F7 := fun n => (n : F7)
def gX : Prg Bytes (Pair F7) := ⟨fun s => ((s, false), (s, true)), fun s => (s, ⟨0, 0⟩)⟩
def apInner : AggParam := ⟨0, [[false], [true]]⟩
def apLeaf : AggParam := ⟨1, [[false, true], [true, false], [true, true]]⟩

theorem gX_seedPres : SeedPres 1 gX := ⟨fun _ h => h, fun _ h => h, fun _ h => h⟩

theorem shardX_ok : ∃ x, shard cfgX ofX ofX xofX gX gX [] [true, false] [] [1] [2] [] [] [] = .ok x :=
  exists_of_isOk _ (by decide +kernel)

theorem drawInner_ok : ((Rng.init xofX [] usageVerify [] ([] ++ beBytes apInner.level 2) cfgX.fi.sz).take cfgX.fi
    apInner.prefixes.length).isSome = true := by decide +kernel

theorem drawLeaf_ok : ((Rng.init xofX [] usageVerify [] ([] ++ beBytes apLeaf.level 2) cfgX.fl.sz).take cfgX.fl
    apLeaf.prefixes.length).isSome = true := by decide +kernel

/-- an inner-level instance (input `10`, level 0, both one-bit candidates) of `poplar1_inner_e2e`, every
    hypothesis discharged: the outputs add up to `[0, 1]` -/
example : ∃ (pub : PubShare F7 F7) (s0 s1 : InputShare F7 F7),
    shard cfgX ofX ofX xofX gX gX [] [true, false] [] [1] [2] [] [] [] = .ok (pub, s0, s1) ∧
    ∃ (st0 : State F7 F7) (sh0 : FieldVec F7 F7) (st1 : State F7 F7) (sh1 : FieldVec F7 F7) (s : F7 × F7 × F7)
      (st0' : State F7 F7) (r0 : FieldVec F7 F7) (st1' : State F7 F7) (r1 : FieldVec F7 F7) (o0 o1 : List F7),
      verifyInit cfgX ofX ofX xofX gX gX [] [] 0 apInner [] pub s0 = .ok (st0, sh0) ∧
      verifyInit cfgX ofX ofX xofX gX gX [] [] 1 apInner [] pub s1 = .ok (st1, sh1) ∧
      sharesToMessage [sh0, sh1] = .ok (.sketchInner s) ∧
      verifyNext st0 (.sketchInner s) = .ok (.continue st0' r0) ∧
      verifyNext st1 (.sketchInner s) = .ok (.continue st1' r1) ∧
      sharesToMessage [r0, r1] = .ok .done ∧
      verifyNext st0' .done = .ok (.finish (.inner o0)) ∧
      verifyNext st1' .done = .ok (.finish (.inner o1)) ∧
      List.zipWith (· + ·) o0 o1 = [0, 1] := by
  obtain ⟨⟨pub, s0, s1⟩, hs⟩ := shardX_ok
  refine ⟨pub, s0, s1, hs, ?_⟩
  obtain ⟨⟨rs, g⟩, hrs⟩ := Option.isSome_iff_exists.mp drawInner_ok
  obtain ⟨st0, sh0, st1, sh1, s, st0', r0, st1', r1, o0, o1, h1, h2, h3, h4, h5, h6, h7, h8, h9⟩ :=
    poplar1_inner_e2e 1 cfgX ofX ofX xofX gX gX gX_seedPres gX_seedPres [] [true, false] [] [1] [2] [] [] []
      rfl rfl pub s0 s1 hs apInner (by decide) (by decide) (by decide) [] rs g hrs
  exact ⟨st0, sh0, st1, sh1, s, st0', r0, st1', r1, o0, o1, h1, h2, h3, h4, h5, h6, h7, h8, h9.trans (by decide)⟩

/-- a leaf-level instance (level 1, three of the four two-bit candidates) of `poplar1_leaf_e2e` -/
example : ∃ (pub : PubShare F7 F7) (s0 s1 : InputShare F7 F7),
    shard cfgX ofX ofX xofX gX gX [] [true, false] [] [1] [2] [] [] [] = .ok (pub, s0, s1) ∧
    ∃ (st0 : State F7 F7) (sh0 : FieldVec F7 F7) (st1 : State F7 F7) (sh1 : FieldVec F7 F7) (s : F7 × F7 × F7)
      (st0' : State F7 F7) (r0 : FieldVec F7 F7) (st1' : State F7 F7) (r1 : FieldVec F7 F7) (o0 o1 : List F7),
      verifyInit cfgX ofX ofX xofX gX gX [] [] 0 apLeaf [] pub s0 = .ok (st0, sh0) ∧
      verifyInit cfgX ofX ofX xofX gX gX [] [] 1 apLeaf [] pub s1 = .ok (st1, sh1) ∧
      sharesToMessage [sh0, sh1] = .ok (.sketchLeaf s) ∧
      verifyNext st0 (.sketchLeaf s) = .ok (.continue st0' r0) ∧
      verifyNext st1 (.sketchLeaf s) = .ok (.continue st1' r1) ∧
      sharesToMessage [r0, r1] = .ok .done ∧
      verifyNext st0' .done = .ok (.finish (.leaf o0)) ∧
      verifyNext st1' .done = .ok (.finish (.leaf o1)) ∧
      List.zipWith (· + ·) o0 o1 = [0, 1, 0] := by
  obtain ⟨⟨pub, s0, s1⟩, hs⟩ := shardX_ok
  refine ⟨pub, s0, s1, hs, ?_⟩
  obtain ⟨⟨rs, g⟩, hrs⟩ := Option.isSome_iff_exists.mp drawLeaf_ok
  obtain ⟨st0, sh0, st1, sh1, s, st0', r0, st1', r1, o0, o1, h1, h2, h3, h4, h5, h6, h7, h8, h9⟩ :=
    poplar1_leaf_e2e 1 cfgX ofX ofX xofX gX gX gX_seedPres gX_seedPres [] [true, false] [] [1] [2] [] [] []
      rfl rfl pub s0 s1 hs apLeaf (by decide) (by decide) (by decide) [] rs g hrs
  exact ⟨st0, sh0, st1, sh1, s, st0', r0, st1', r1, o0, o1, h1, h2, h3, h4, h5, h6, h7, h8, h9.trans (by decide)⟩

end Prio.Poplar1.E2E.NonVacuous

-- #print axioms Prio.Poplar1.E2E.poplar1_inner_e2e          -- [propext, Classical.choice, Quot.sound]
-- #print axioms Prio.Poplar1.E2E.poplar1_inner_e2e_of_ok
-- #print axioms Prio.Poplar1.E2E.poplar1_leaf_e2e
-- #print axioms Prio.Poplar1.E2E.poplar1_leaf_e2e_of_ok
-- #print axioms Prio.Poplar1.E2E.poplar1_e2e_of_ok
-- #print axioms Prio.Poplar1.E2E.verifyInit_honest_ok_iff
