import PrioProofs.Codec.Prims

/-! Generic theorems about `encode`/`decode` for every wire format. -/
namespace Prio

/-- `v` is a value of format `f` -/
def Conforms : Fmt → Val → Prop
  | .unit, v => v = .unit
  | .bytes n, v => ∃ b, v = .bytes b ∧ b.length = n ∧ BytesOK b
  | .uint n, v => ∃ x, v = .num x ∧ x < 256 ^ n
  | .felem p _, v => ∃ x, v = .num x ∧ x < p
  | .bitsLsb n, v => ∃ b, v = .bits b ∧ b.length = n
  | .bitsMsb n, v => ∃ b, v = .bits b ∧ b.length = n
  | .pair a b, v => ∃ va vb, v = .pair va vb ∧ Conforms a va ∧ Conforms b vb
  | .dep a k, v => ∃ va vb, v = .pair va vb ∧ Conforms a va ∧ Conforms (k va) vb
  | .refine a ok, v => Conforms a v ∧ ok v = true
  | .fail, _ => False
  | .panic, _ => False

/-- side condition on a format: a field element fits its byte width -/
def Fmt.WF : Fmt → Prop
  | .felem p sz => p ≤ 256 ^ sz
  | .pair a b => a.WF ∧ b.WF
  | .dep a k => a.WF ∧ ∀ v, (k v).WF
  | .refine a _ => a.WF
  | _ => True

/-- the format contains no point at which the Rust code panics -/
def Fmt.NoPanic : Fmt → Prop
  | .pair a b => a.NoPanic ∧ b.NoPanic
  | .dep a k => a.NoPanic ∧ ∀ v, (k v).NoPanic
  | .refine a _ => a.NoPanic
  | .panic => False
  | _ => True

theorem bits_roundtrip (msb : Bool) (n : Nat) (b : List Bool) (hb : b.length = n) (rest : List Nat) :
    let m := (n + 7) / 8
    let enc := packBits msb m b
    (enc ++ rest).length ≥ m ∧
    ((unpackBits msb ((enc ++ rest).take m)).drop n).any id = false ∧
    (unpackBits msb ((enc ++ rest).take m)).take n = b ∧ (enc ++ rest).drop m = rest := by
  intro m enc
  have hl : enc.length = m := packBits_length _ _ _
  have ht : (enc ++ rest).take m = enc := by rw [List.take_left' hl]
  have hd : (enc ++ rest).drop m = rest := by rw [List.drop_left' hl]
  have hle : b.length ≤ 8 * m := by omega
  have hu := unpack_pack msb m b hle
  refine ⟨by simp [hl], ?_, ?_, hd⟩
  · rw [ht, hu, ← hb, List.drop_left]
    simp
  · rw [ht, hu, ← hb, List.take_left]

/-- **round trip**: decoding the encoding of a value (followed by anything) gives the value back and
    consumes exactly the encoding -/
theorem decode_encode (f : Fmt) : f.WF → ∀ v, Conforms f v → ∀ rest,
    decode f (encode f v ++ rest) = .ok (v, rest) := by
  induction f with
  | unit => intro _ v hv rest; simp only [Conforms] at hv; subst hv; simp [encode, decode]
  | bytes n =>
    intro _ v hv rest
    obtain ⟨b, rfl, hl, _⟩ := hv
    simp only [encode, decode, List.length_append, hl]
    rw [if_neg (by omega), ← hl, List.take_left, List.drop_left]
  | uint n =>
    intro _ v hv rest
    obtain ⟨x, rfl, hx⟩ := hv
    have hl := beBytes_length x n
    simp only [encode, decode, List.length_append, hl]
    rw [if_neg (by omega), List.take_left' hl, List.drop_left' hl, beNat_beBytes, Nat.mod_eq_of_lt hx]
  | felem p sz =>
    intro hwf v hv rest
    obtain ⟨x, rfl, hx⟩ := hv
    simp only [Fmt.WF] at hwf
    have hl := leBytesC_length x sz
    have e : leNatC (List.take sz (leBytesC x sz ++ rest)) = x := by
      rw [List.take_left' hl, leNatC_leBytesC, Nat.mod_eq_of_lt (by omega)]
    have hlen : ¬ (leBytesC x sz ++ rest).length < sz := by simp [hl]
    simp only [encode, decode, hlen, if_false, e, hx, if_true, List.drop_left' hl]
  | bitsLsb n =>
    intro _ v hv rest
    obtain ⟨b, rfl, hl⟩ := hv
    obtain ⟨h1, h2, h3, h4⟩ := bits_roundtrip false n b hl rest
    have hlen : ¬ (packBits false ((n + 7) / 8) b ++ rest).length < (n + 7) / 8 := Nat.not_lt.mpr h1
    simp only [encode, decode, hlen, if_false, h2, h3, h4]
    simp
  | bitsMsb n =>
    intro _ v hv rest
    obtain ⟨b, rfl, hl⟩ := hv
    obtain ⟨h1, h2, h3, h4⟩ := bits_roundtrip true n b hl rest
    have hlen : ¬ (packBits true ((n + 7) / 8) b ++ rest).length < (n + 7) / 8 := Nat.not_lt.mpr h1
    simp only [encode, decode, hlen, if_false, h2, h3, h4]
    simp
  | pair a b iha ihb =>
    intro hwf v hv rest
    obtain ⟨va, vb, rfl, ha, hb⟩ := hv
    simp only [encode, decode, List.append_assoc]
    rw [iha hwf.1 va ha]; simp only []
    rw [ihb hwf.2 vb hb]
  | dep a k iha ihk =>
    intro hwf v hv rest
    obtain ⟨va, vb, rfl, ha, hb⟩ := hv
    simp only [encode, decode, List.append_assoc]
    rw [iha hwf.1 va ha]; simp only []
    rw [ihk va (hwf.2 va) vb hb]
  | refine a ok iha =>
    intro hwf v hv rest
    simp only [encode, decode]
    rw [iha hwf v hv.1]; simp [hv.2]
  | fail => intro _ v hv; exact hv.elim
  | panic => intro _ v hv; exact hv.elim

theorem bits_canon (msb : Bool) (n : Nat) (bs : List Nat) (hb : BytesOK bs)
    (hlen : ¬ bs.length < (n + 7) / 8)
    (hpad : ((unpackBits msb (bs.take ((n + 7) / 8))).drop n).any id = false) :
    ((unpackBits msb (bs.take ((n + 7) / 8))).take n).length = n ∧
    packBits msb ((n + 7) / 8) ((unpackBits msb (bs.take ((n + 7) / 8))).take n) ++ bs.drop ((n + 7) / 8) = bs := by
  set m := (n + 7) / 8 with hm
  have htl : (bs.take m).length = m := by simp; omega
  have hul : (unpackBits msb (bs.take m)).length = 8 * m := by rw [unpackBits_length, htl]
  have hpad' : (unpackBits msb (bs.take m)).drop n = List.replicate (8 * m - n) false := by
    apply List.eq_replicate_iff.mpr
    refine ⟨by simp [hul], ?_⟩
    intro b hbm
    have := List.any_eq_false.mp hpad b hbm
    simpa using this
  refine ⟨by simp [hul]; omega, ?_⟩
  have key : packBits msb m ((unpackBits msb (bs.take m)).take n) = bs.take m := by
    have hp := pack_unpack msb (bs.take m) (hb.take m)
    rw [htl] at hp
    -- packing ignores trailing `false` bits: compare through `unpack_pack`
    have h1 := unpack_pack msb m ((unpackBits msb (bs.take m)).take n) (by simp [hul])
    have hlen2 : ((unpackBits msb (bs.take m)).take n).length = n := by simp [hul]; omega
    rw [hlen2, ← hpad', List.take_append_drop] at h1
    -- both byte strings unpack to the same bits and are BytesOK of length m
    have h2 := pack_unpack msb (packBits msb m ((unpackBits msb (bs.take m)).take n)) (packBits_ok _ _ _)
    rw [packBits_length, h1] at h2
    rw [← h2, hp]
  rw [key, List.take_append_drop]

/-- **canonicity**: an accepted byte string is exactly the encoding of the decoded value followed by
    the unconsumed rest; hence no value has two accepted encodings -/
theorem encode_decode (f : Fmt) : ∀ bs, BytesOK bs → ∀ v rest, decode f bs = .ok (v, rest) →
    Conforms f v ∧ encode f v ++ rest = bs ∧ BytesOK rest := by
  induction f with
  | unit =>
    intro bs hb v rest h
    simp only [decode, Res.ok.injEq, Prod.mk.injEq] at h
    obtain ⟨rfl, rfl⟩ := h
    exact ⟨rfl, by simp [encode], hb⟩
  | bytes n =>
    intro bs hb v rest h
    simp only [decode] at h
    split at h
    · cases h
    · simp only [Res.ok.injEq, Prod.mk.injEq] at h
      obtain ⟨rfl, rfl⟩ := h
      exact ⟨⟨_, rfl, by simp; omega, hb.take n⟩, by simp [encode], hb.drop n⟩
  | uint n =>
    intro bs hb v rest h
    simp only [decode] at h
    split at h
    · cases h
    · simp only [Res.ok.injEq, Prod.mk.injEq] at h
      obtain ⟨rfl, rfl⟩ := h
      have hl : (bs.take n).length = n := by simp; omega
      refine ⟨⟨_, rfl, ?_⟩, ?_, hb.drop n⟩
      · have := beNat_lt _ (hb.take n); rwa [hl] at this
      · simp only [encode]
        have := beBytes_beNat _ (hb.take n)
        rw [hl] at this; rw [this, List.take_append_drop]
  | felem p sz =>
    intro bs hb v rest h
    simp only [decode] at h
    split at h
    · cases h
    · split at h
      · simp only [Res.ok.injEq, Prod.mk.injEq] at h
        obtain ⟨rfl, rfl⟩ := h
        rename_i hlt
        have hl : (bs.take sz).length = sz := by simp; omega
        refine ⟨⟨_, rfl, hlt⟩, ?_, hb.drop sz⟩
        simp only [encode]
        have := leBytesC_leNatC _ (hb.take sz)
        rw [hl] at this; rw [this, List.take_append_drop]
      · cases h
  | bitsLsb n =>
    intro bs hb v rest h
    simp only [decode] at h
    split at h
    · cases h
    · rename_i hlen
      split at h
      · cases h
      · rename_i hpad
        simp only [Res.ok.injEq, Prod.mk.injEq] at h
        obtain ⟨rfl, rfl⟩ := h
        obtain ⟨h1, h2⟩ := bits_canon false n bs hb hlen (by simpa using hpad)
        exact ⟨⟨_, rfl, h1⟩, by simpa [encode] using h2, hb.drop _⟩
  | bitsMsb n =>
    intro bs hb v rest h
    simp only [decode] at h
    split at h
    · cases h
    · rename_i hlen
      split at h
      · cases h
      · rename_i hpad
        simp only [Res.ok.injEq, Prod.mk.injEq] at h
        obtain ⟨rfl, rfl⟩ := h
        obtain ⟨h1, h2⟩ := bits_canon true n bs hb hlen (by simpa using hpad)
        exact ⟨⟨_, rfl, h1⟩, by simpa [encode] using h2, hb.drop _⟩
  | pair a b iha ihb =>
    intro bs hb v rest h
    simp only [decode] at h
    split at h
    · rename_i va r ha
      split at h
      · rename_i vb r' hb'
        simp only [Res.ok.injEq, Prod.mk.injEq] at h
        obtain ⟨rfl, rfl⟩ := h
        obtain ⟨c1, e1, o1⟩ := iha bs hb va r ha
        obtain ⟨c2, e2, o2⟩ := ihb r o1 vb r' hb'
        exact ⟨⟨va, vb, rfl, c1, c2⟩, by simp only [encode, List.append_assoc]; rw [e2, e1], o2⟩
      · cases h
      · cases h
    · cases h
    · cases h
  | dep a k iha ihk =>
    intro bs hb v rest h
    simp only [decode] at h
    split at h
    · rename_i va r ha
      split at h
      · rename_i vb r' hb'
        simp only [Res.ok.injEq, Prod.mk.injEq] at h
        obtain ⟨rfl, rfl⟩ := h
        obtain ⟨c1, e1, o1⟩ := iha bs hb va r ha
        obtain ⟨c2, e2, o2⟩ := ihk va r o1 vb r' hb'
        exact ⟨⟨va, vb, rfl, c1, c2⟩, by simp only [encode, List.append_assoc]; rw [e2, e1], o2⟩
      · cases h
      · cases h
    · cases h
    · cases h
  | refine a ok iha =>
    intro bs hb v rest h
    simp only [decode] at h
    split at h
    · rename_i v' r ha
      split at h
      · rename_i hok
        simp only [Res.ok.injEq, Prod.mk.injEq] at h
        obtain ⟨rfl, rfl⟩ := h
        obtain ⟨c1, e1, o1⟩ := iha bs hb _ _ ha
        exact ⟨⟨c1, hok⟩, by simpa [encode] using e1, o1⟩
      · cases h
    · cases h
    · cases h
  | fail => intro bs hb v rest h; simp [decode] at h
  | panic => intro bs hb v rest h; simp [decode] at h

/-- **totality**: a format without panic points never panics, whatever the bytes -/
theorem decode_no_panic (f : Fmt) : f.NoPanic → ∀ bs, decode f bs ≠ .panic := by
  induction f with
  | pair a b iha ihb =>
    intro hn bs h
    simp only [decode] at h
    split at h
    · split at h
      · cases h
      · cases h
      · rename_i _ _ _ hp; exact ihb hn.2 _ hp
    · cases h
    · rename_i hp; exact iha hn.1 _ hp
  | dep a k iha ihk =>
    intro hn bs h
    simp only [decode] at h
    split at h
    · split at h
      · cases h
      · cases h
      · rename_i va _ _ _ hp; exact ihk va (hn.2 va) _ hp
    · cases h
    · rename_i hp; exact iha hn.1 _ hp
  | refine a ok iha =>
    intro hn bs h
    simp only [decode] at h
    split at h
    · split at h <;> cases h
    · cases h
    · rename_i hp; exact iha hn _ hp
  | panic => intro hn; exact hn.elim
  | unit => intro _ bs h; simp [decode] at h
  | bytes n => intro _ bs h; simp only [decode] at h; split at h <;> cases h
  | uint n => intro _ bs h; simp only [decode] at h; split at h <;> cases h
  | felem p sz =>
    intro _ bs h; simp only [decode] at h
    split at h
    · cases h
    · split at h <;> cases h
  | bitsLsb n =>
    intro _ bs h; simp only [decode] at h
    split at h
    · cases h
    · split at h <;> cases h
  | bitsMsb n =>
    intro _ bs h; simp only [decode] at h
    split at h
    · cases h
    · split at h <;> cases h
  | fail => intro _ bs h; simp [decode] at h

/-- the encoding of a conforming value consists of bytes -/
theorem encode_ok (f : Fmt) : ∀ v, Conforms f v → BytesOK (encode f v) := by
  induction f with
  | unit => intro v _; simp [encode]; exact BytesOK.nil
  | bytes n => intro v hv; obtain ⟨b, rfl, _, hb⟩ := hv; exact hb
  | uint n => intro v hv; obtain ⟨x, rfl, _⟩ := hv; exact beBytes_ok _ _
  | felem p sz => intro v hv; obtain ⟨x, rfl, _⟩ := hv; exact leBytesC_ok _ _
  | bitsLsb n => intro v hv; obtain ⟨b, rfl, _⟩ := hv; exact packBits_ok _ _ _
  | bitsMsb n => intro v hv; obtain ⟨b, rfl, _⟩ := hv; exact packBits_ok _ _ _
  | pair a b iha ihb =>
    intro v hv; obtain ⟨va, vb, rfl, ha, hb⟩ := hv
    exact (iha va ha).append (ihb vb hb)
  | dep a k iha ihk =>
    intro v hv; obtain ⟨va, vb, rfl, ha, hb⟩ := hv
    exact (iha va ha).append (ihk va vb hb)
  | refine a ok iha => intro v hv; exact iha v hv.1
  | fail => intro v hv; exact hv.elim
  | panic => intro v hv; exact hv.elim

/-- `get_decoded ∘ get_encoded = id` -/
theorem getDecoded_encode (f : Fmt) (hwf : f.WF) (v : Val) (hv : Conforms f v) :
    getDecoded f (encode f v) = .ok v := by
  have := decode_encode f hwf v hv []
  simp only [List.append_nil] at this
  simp [getDecoded, this]

/-- accepted ⇒ re-encodes to exactly the same bytes -/
theorem encode_getDecoded (f : Fmt) (bs : List Nat) (hb : BytesOK bs) (v : Val)
    (h : getDecoded f bs = .ok v) : Conforms f v ∧ encode f v = bs := by
  unfold getDecoded at h
  split at h
  · rename_i v' hd
    simp only [Res.ok.injEq] at h; subst h
    obtain ⟨c, e, _⟩ := encode_decode f bs hb _ _ hd
    exact ⟨c, by simpa using e⟩
  all_goals cases h

/-- no value has two accepted encodings -/
theorem accepted_encoding_unique (f : Fmt) (b1 b2 : List Nat) (h1 : BytesOK b1) (h2 : BytesOK b2) (v : Val)
    (d1 : getDecoded f b1 = .ok v) (d2 : getDecoded f b2 = .ok v) : b1 = b2 := by
  rw [← (encode_getDecoded f b1 h1 v d1).2, ← (encode_getDecoded f b2 h2 v d2).2]

theorem getDecoded_no_panic (f : Fmt) (hn : f.NoPanic) (bs : List Nat) : getDecoded f bs ≠ .panic := by
  unfold getDecoded
  intro h
  split at h
  · cases h
  · cases h
  · cases h
  · rename_i hp; exact decode_no_panic f hn bs hp

end Prio
