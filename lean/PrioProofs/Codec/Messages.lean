import PrioProofs.Codec.Generic
import PrioModel.Messages

/-! Every message format of `PrioModel/Messages.lean` is well-formed and panic-free for all decoding
    parameters, and the `encoded_len()` formulas are exact. -/
namespace Prio
open Msg

theorem rep_wf (n : Nat) (f : Fmt) (h : f.WF) : (Fmt.rep n f).WF := by
  induction n with
  | zero => simp [Fmt.rep, Fmt.WF]
  | succ n ih => simp only [Fmt.rep, Fmt.WF]; exact ⟨h, trivial, fun _ => ih⟩

theorem rep_noPanic (n : Nat) (f : Fmt) (h : f.NoPanic) : (Fmt.rep n f).NoPanic := by
  induction n with
  | zero => simp [Fmt.rep, Fmt.NoPanic]
  | succ n ih => simp only [Fmt.rep, Fmt.NoPanic]; exact ⟨h, trivial, fun _ => ih⟩

/-- a field spec whose modulus fits its encoded size -/
def Msg.FieldSpec.Ok (F : FieldSpec) : Prop := F.p ≤ 256 ^ F.sz

theorem fieldSpec_ok (name : String) (F : FieldSpec) (h : fieldSpec name = some F) : F.Ok := by
  unfold fieldSpec at h
  split at h <;> simp only [Option.some.injEq, reduceCtorEq] at h <;> subst h <;>
    simp only [Msg.FieldSpec.Ok, P255] <;> decide +kernel

theorem felem_wf {F : FieldSpec} (h : F.Ok) : (felem F).WF := h
theorem fvec_wf {F : FieldSpec} (h : F.Ok) (n : Nat) : (fvec F n).WF := rep_wf n _ (felem_wf h)
theorem fvec_noPanic (F : FieldSpec) (n : Nat) : (fvec F n).NoPanic := rep_noPanic n _ trivial
theorem optSeed_wf (b : Bool) (n : Nat) : (optSeed b n).WF := by unfold optSeed seed; split <;> trivial
theorem optSeed_noPanic (b : Bool) (n : Nat) : (optSeed b n).NoPanic := by unfold optSeed seed; split <;> trivial

theorem share_wf {F : FieldSpec} (h : F.Ok) (ss : Nat) (l : Option Nat) : (share F ss l).WF := by
  unfold share; split
  · exact fvec_wf h _
  · trivial
theorem share_noPanic (F : FieldSpec) (ss : Nat) (l : Option Nat) : (share F ss l).NoPanic := by
  unfold share; split
  · exact fvec_noPanic F _
  · trivial

theorem prio3PublicShare_ok (ss na jr : Nat) :
    (prio3PublicShare ss na jr).WF ∧ (prio3PublicShare ss na jr).NoPanic := by
  unfold prio3PublicShare; split
  · exact ⟨rep_wf _ _ trivial, rep_noPanic _ _ trivial⟩
  · exact ⟨trivial, trivial⟩

theorem prio3InputShare_ok {F : FieldSpec} (h : F.Ok) (ss na id il pl jr : Nat) :
    (prio3InputShare F ss na id il pl jr).WF ∧ (prio3InputShare F ss na id il pl jr).NoPanic := by
  unfold prio3InputShare
  split
  · exact ⟨trivial, trivial⟩
  · (try dsimp only)
    split
    · exact ⟨⟨fvec_wf h _, fvec_wf h _, optSeed_wf _ _⟩, ⟨fvec_noPanic _ _, fvec_noPanic _ _, optSeed_noPanic _ _⟩⟩
    · exact ⟨⟨trivial, optSeed_wf _ _⟩, ⟨trivial, optSeed_noPanic _ _⟩⟩

theorem prio3VerifierShare_ok {F : FieldSpec} (h : F.Ok) (ss vl : Nat) (hj : Bool) :
    (prio3VerifierShare F ss vl hj).WF ∧ (prio3VerifierShare F ss vl hj).NoPanic :=
  ⟨⟨fvec_wf h _, optSeed_wf _ _⟩, ⟨fvec_noPanic _ _, optSeed_noPanic _ _⟩⟩

theorem prio3VerifierMessage_ok (ss : Nat) (hj : Bool) :
    (prio3VerifierMessage ss hj).WF ∧ (prio3VerifierMessage ss hj).NoPanic :=
  ⟨optSeed_wf _ _, optSeed_noPanic _ _⟩

theorem prio3VerifyState_ok {F : FieldSpec} (h : F.Ok) (ss na id ol jr : Nat) :
    (prio3VerifyState F ss na id ol jr).WF ∧ (prio3VerifyState F ss na id ol jr).NoPanic := by
  unfold prio3VerifyState
  split
  · exact ⟨trivial, trivial⟩
  · exact ⟨⟨share_wf h _ _, optSeed_wf _ _⟩, ⟨share_noPanic _ _ _, optSeed_noPanic _ _⟩⟩

theorem fieldVecMsg_ok {F : FieldSpec} (h : F.Ok) (n : Nat) :
    (fieldVecMsg F n).WF ∧ (fieldVecMsg F n).NoPanic := ⟨fvec_wf h _, fvec_noPanic _ _⟩

theorem prio2VerifyState_ok {F : FieldSpec} (h : F.Ok) (id il : Nat) :
    (prio2VerifyState F id il).WF ∧ (prio2VerifyState F id il).NoPanic :=
  ⟨share_wf h _ _, share_noPanic _ _ _⟩

theorem prio2InputShare_ok {F : FieldSpec} (h : F.Ok) (id pl : Nat) :
    (prio2InputShare F id pl).WF ∧ (prio2InputShare F id pl).NoPanic := by
  unfold prio2InputShare
  split
  · exact ⟨fvec_wf h _, fvec_noPanic _ _⟩
  · split <;> exact ⟨trivial, trivial⟩

theorem prio2VerifierShare_ok {F : FieldSpec} (h : F.Ok) :
    (prio2VerifierShare F).WF ∧ (prio2VerifierShare F).NoPanic := ⟨fvec_wf h _, fvec_noPanic _ _⟩

/-- with the `bits = 0` guard in place (`zeroBitsPanics = false`) the public-share decoder is total -/
theorem idpfPublicShare_ok {FI FL : FieldSpec} (hi : FI.Ok) (hl : FL.Ok) (bits : Nat) :
    (idpfPublicShare FI FL bits false).WF ∧ (idpfPublicShare FI FL bits false).NoPanic := by
  unfold idpfPublicShare
  split
  · simp only [Bool.false_eq_true, if_false]; exact ⟨trivial, trivial⟩
  · exact ⟨⟨trivial, rep_wf _ _ trivial, rep_wf _ _ (fvec_wf hi _), fvec_wf hl _⟩,
      ⟨trivial, rep_noPanic _ _ trivial, rep_noPanic _ _ (fvec_noPanic _ _), fvec_noPanic _ _⟩⟩

/-- the unrepaired decoder does panic: `bits = 0`, any input -/
theorem idpfPublicShare_zero_bits_panics (FI FL : FieldSpec) (bs : List Nat) :
    decode (idpfPublicShare FI FL 0 true) bs = .panic := by
  simp [idpfPublicShare, decode]

theorem poplar1InputShare_ok {FI FL : FieldSpec} (hi : FI.Ok) (hl : FL.Ok) (ss bits : Nat) :
    (poplar1InputShare FI FL ss bits false).WF ∧ (poplar1InputShare FI FL ss bits false).NoPanic := by
  unfold poplar1InputShare
  split
  · simp only [Bool.false_eq_true, if_false]; exact ⟨⟨trivial, trivial, trivial⟩, ⟨trivial, trivial, trivial⟩⟩
  · exact ⟨⟨trivial, trivial, rep_wf _ _ (fvec_wf hi _), fvec_wf hl _⟩,
      ⟨trivial, trivial, rep_noPanic _ _ (fvec_noPanic _ _), fvec_noPanic _ _⟩⟩

theorem sketchState_ok {F : FieldSpec} (h : F.Ok) : (sketchState F).WF ∧ (sketchState F).NoPanic := by
  unfold sketchState
  refine ⟨⟨trivial, fun v => ?_⟩, ⟨trivial, fun v => ?_⟩⟩
  · (try dsimp only)
    split
    · exact fvec_wf h _
    · split <;> trivial
  · (try dsimp only)
    split
    · exact fvec_noPanic _ _
    · split <;> trivial

theorem verifierStateF_ok {F : FieldSpec} (h : F.Ok) : (verifierStateF F).WF ∧ (verifierStateF F).NoPanic :=
  ⟨⟨(sketchState_ok h).1, trivial, fun _ => fvec_wf h _⟩, ⟨(sketchState_ok h).2, trivial, fun _ => fvec_noPanic _ _⟩⟩

theorem poplar1VerifyState_ok {FI FL : FieldSpec} (hi : FI.Ok) (hl : FL.Ok) :
    (poplar1VerifyState FI FL).WF ∧ (poplar1VerifyState FI FL).NoPanic := by
  unfold poplar1VerifyState
  refine ⟨⟨trivial, fun v => ?_⟩, ⟨trivial, fun v => ?_⟩⟩
  · (try dsimp only)
    split
    · exact (verifierStateF_ok hi).1
    · split
      · exact (verifierStateF_ok hl).1
      · trivial
  · (try dsimp only)
    split
    · exact (verifierStateF_ok hi).2
    · split
      · exact (verifierStateF_ok hl).2
      · trivial

theorem poplar1VerifierMessage_ok {FI FL : FieldSpec} (hi : FI.Ok) (hl : FL.Ok) (leaf r2 : Bool) :
    (poplar1VerifierMessage FI FL leaf r2).WF ∧ (poplar1VerifierMessage FI FL leaf r2).NoPanic := by
  unfold poplar1VerifierMessage
  split
  · exact ⟨trivial, trivial⟩
  · cases leaf
    · exact ⟨fvec_wf hi _, fvec_noPanic _ _⟩
    · exact ⟨fvec_wf hl _, fvec_noPanic _ _⟩

theorem poplar1VerifierShare_ok {FI FL : FieldSpec} (hi : FI.Ok) (hl : FL.Ok) (leaf r2 : Bool) :
    (poplar1VerifierShare FI FL leaf r2).WF ∧ (poplar1VerifierShare FI FL leaf r2).NoPanic := by
  unfold poplar1VerifierShare
  cases leaf
  · exact ⟨fvec_wf hi _, fvec_noPanic _ _⟩
  · exact ⟨fvec_wf hl _, fvec_noPanic _ _⟩

theorem poplar1Continuation_ok {FI FL : FieldSpec} (hi : FI.Ok) (hl : FL.Ok) :
    (poplar1Continuation FI FL).WF ∧ (poplar1Continuation FI FL).NoPanic :=
  ⟨⟨(poplar1VerifyState_ok hi hl).1, fun _ => (poplar1VerifierMessage_ok hi hl _ _).1⟩,
   ⟨(poplar1VerifyState_ok hi hl).2, fun _ => (poplar1VerifierMessage_ok hi hl _ _).2⟩⟩

/-- with `level + 1` evaluated without overflow the aggregation-parameter decoder is total -/
theorem poplar1AggParam_ok : (poplar1AggParam false).WF ∧ (poplar1AggParam false).NoPanic := by
  unfold poplar1AggParam
  refine ⟨⟨trivial, fun l => ?_⟩, ⟨trivial, fun l => ?_⟩⟩
  · simp only [Bool.false_eq_true, and_false, if_false]
    exact ⟨trivial, fun n => rep_wf _ _ trivial⟩
  · simp only [Bool.false_eq_true, and_false, if_false]
    exact ⟨trivial, fun n => rep_noPanic _ _ trivial⟩

/-- the unrepaired decoder panics on a level field of 0xFFFF followed by any four bytes -/
theorem poplar1AggParam_overflow_panics :
    getDecoded (poplar1AggParam true) [0xff, 0xff, 0, 0, 0, 1, 0x80] = .panic := by
  decide +kernel

theorem opaque32_ok : opaque32.WF ∧ opaque32.NoPanic :=
  ⟨⟨trivial, fun _ => trivial⟩, ⟨trivial, fun _ => trivial⟩⟩

theorem pingPongMessage_ok : pingPongMessage.WF ∧ pingPongMessage.NoPanic := by
  unfold pingPongMessage
  refine ⟨⟨trivial, fun t => ?_⟩, ⟨trivial, fun t => ?_⟩⟩
  · (try dsimp only)
    split
    · exact opaque32_ok.1
    · split
      · exact ⟨opaque32_ok.1, opaque32_ok.1⟩
      · split
        · exact opaque32_ok.1
        · trivial
  · (try dsimp only)
    split
    · exact opaque32_ok.2
    · split
      · exact ⟨opaque32_ok.2, opaque32_ok.2⟩
      · split
        · exact opaque32_ok.2
        · trivial

/-! ### lengths -/

/-- every value of the format encodes to exactly `k` bytes -/
def FixedSize (f : Fmt) (k : Nat) : Prop := ∀ v, Conforms f v → (encode f v).length = k

theorem fixed_unit : FixedSize .unit 0 := by intro v _; simp [encode]
theorem fixed_bytes (n : Nat) : FixedSize (.bytes n) n := by
  intro v hv; obtain ⟨b, rfl, hl, _⟩ := hv; simpa [encode] using hl
theorem fixed_uint (n : Nat) : FixedSize (.uint n) n := by
  intro v hv; obtain ⟨x, rfl, _⟩ := hv; simp [encode, beBytes_length]
theorem fixed_felem (p sz : Nat) : FixedSize (.felem p sz) sz := by
  intro v hv; obtain ⟨x, rfl, _⟩ := hv; simp [encode, leBytesC_length]
theorem fixed_bitsLsb (n : Nat) : FixedSize (.bitsLsb n) ((n + 7) / 8) := by
  intro v hv; obtain ⟨b, rfl, _⟩ := hv; simp [encode, packBits_length]
theorem fixed_bitsMsb (n : Nat) : FixedSize (.bitsMsb n) ((n + 7) / 8) := by
  intro v hv; obtain ⟨b, rfl, _⟩ := hv; simp [encode, packBits_length]
theorem fixed_pair {a b : Fmt} {ka kb : Nat} (ha : FixedSize a ka) (hb : FixedSize b kb) :
    FixedSize (.pair a b) (ka + kb) := by
  intro v hv; obtain ⟨va, vb, rfl, ca, cb⟩ := hv
  simp [encode, ha va ca, hb vb cb]
theorem fixed_rep {f : Fmt} {k : Nat} (h : FixedSize f k) (n : Nat) : FixedSize (Fmt.rep n f) (n * k) := by
  induction n with
  | zero => intro v _; simp [Fmt.rep, encode]
  | succ n ih =>
    intro v hv
    obtain ⟨va, vb, rfl, ca, cb⟩ := hv
    obtain ⟨vu, vr, rfl, _, cr⟩ := cb
    simp only [Fmt.rep, encode, List.length_append, h va ca]
    have := ih vr cr
    simp only [List.length_nil, this]; ring

/-- `Poplar1InputShare::encoded_len` is exact when the 16-byte IDPF key is counted as 16 bytes -/
theorem poplar1InputShare_len (FI FL : FieldSpec) (hi : FI.sz = 8) (hl : FL.sz = 32) (ss bits : Nat)
    (hb : bits ≠ 0) (v : Val) (hv : Conforms (poplar1InputShare FI FL ss bits false) v) :
    (encode (poplar1InputShare FI FL ss bits false) v).length = poplar1InputShareLen 16 ss (bits - 1) := by
  have hf : FixedSize (poplar1InputShare FI FL ss bits false)
      (16 + (ss + ((bits - 1) * (2 * FI.sz) + 2 * FL.sz))) := by
    unfold poplar1InputShare; simp only [hb, if_false]
    exact fixed_pair (fixed_bytes _) (fixed_pair (fixed_bytes _)
      (fixed_pair (fixed_rep (fixed_rep (fixed_felem _ _) 2) _) (fixed_rep (fixed_felem _ _) 2)))
  rw [hf v hv, hi, hl]; unfold poplar1InputShareLen; ring

/-- the formula in the unrepaired code (the key counted as `SEED_SIZE`) is wrong whenever `SEED_SIZE ≠ 16` -/
theorem poplar1InputShare_len_overcount (ss inner : Nat) (h : ss ≠ 16) :
    poplar1InputShareLen ss ss inner ≠ poplar1InputShareLen 16 ss inner := by
  unfold poplar1InputShareLen; omega

theorem idpfPublicShare_len (FI FL : FieldSpec) (hi : FI.sz = 8) (hl : FL.sz = 32) (bits : Nat)
    (hb : bits ≠ 0) (v : Val) (hv : Conforms (idpfPublicShare FI FL bits false) v) :
    (encode (idpfPublicShare FI FL bits false) v).length = idpfPublicShareLen bits := by
  have hf : FixedSize (idpfPublicShare FI FL bits false)
      ((2 * bits + 7) / 8 + (bits * 16 + ((bits - 1) * (2 * FI.sz) + 2 * FL.sz))) := by
    unfold idpfPublicShare; simp only [hb, if_false]
    exact fixed_pair (fixed_bitsLsb _) (fixed_pair (fixed_rep (fixed_bytes _) _)
      (fixed_pair (fixed_rep (fixed_rep (fixed_felem _ _) 2) _) (fixed_rep (fixed_felem _ _) 2)))
  rw [hf v hv, hi, hl]; unfold idpfPublicShareLen
  have : 2 * bits = bits * 2 := by ring
  rw [this]; ring

theorem poplar1AggParam_len (v : Val) (hv : Conforms (poplar1AggParam false) v) :
    ∃ level n rest, v = .pair (.num level) (.pair (.num n) rest) ∧
      (encode (poplar1AggParam false) v).length = poplar1AggParamLen level n := by
  unfold poplar1AggParam at hv ⊢
  obtain ⟨vl, v2, rfl, ⟨level, rfl, _⟩, h2⟩ := hv
  simp only [Bool.false_eq_true, and_false, if_false] at h2 ⊢
  obtain ⟨vn, vr, rfl, ⟨n, rfl, _⟩, h3⟩ := h2
  refine ⟨level, n, vr, rfl, ?_⟩
  have hf := fixed_rep (fixed_bitsMsb (tagOf (.num level) + 1)) (tagOf (.num n)) vr h3.1
  simp only [tagOf] at hf
  simp only [encode, List.length_append, beBytes_length, tagOf, poplar1AggParamLen]
  rw [hf]; ring

end Prio
