import PrioModel.Codec
import Mathlib.Tactic.Ring
import Mathlib.Tactic.Linarith

/-! Round-trip lemmas for the primitive encodings: big/little-endian integers and bit packing. -/
namespace Prio

def BytesOK (bs : List Nat) : Prop := ∀ x ∈ bs, x < 256

theorem BytesOK.nil : BytesOK [] := by intro x hx; cases hx
theorem BytesOK.cons {b : Nat} {bs : List Nat} (hb : b < 256) (h : BytesOK bs) : BytesOK (b :: bs) := by
  intro x hx; rcases List.mem_cons.mp hx with h1 | h1
  · omega
  · exact h x h1
theorem BytesOK.append {a b : List Nat} (ha : BytesOK a) (hb : BytesOK b) : BytesOK (a ++ b) := by
  intro x hx; rcases List.mem_append.mp hx with h | h
  · exact ha x h
  · exact hb x h
theorem BytesOK.take {a : List Nat} (h : BytesOK a) (n : Nat) : BytesOK (a.take n) :=
  fun x hx => h x (List.mem_of_mem_take hx)
theorem BytesOK.drop {a : List Nat} (h : BytesOK a) (n : Nat) : BytesOK (a.drop n) :=
  fun x hx => h x (List.mem_of_mem_drop hx)
theorem BytesOK.tail {b : Nat} {bs : List Nat} (h : BytesOK (b :: bs)) : BytesOK bs :=
  fun x hx => h x (List.mem_cons_of_mem _ hx)
theorem BytesOK.head {b : Nat} {bs : List Nat} (h : BytesOK (b :: bs)) : b < 256 := h b (by simp)

/-! ### big endian -/

theorem beBytes_length (x n : Nat) : (beBytes x n).length = n := by
  induction n with
  | zero => rfl
  | succ n ih => simp [beBytes, ih]

theorem beBytes_ok (x n : Nat) : BytesOK (beBytes x n) := by
  induction n with
  | zero => exact BytesOK.nil
  | succ n ih => exact BytesOK.cons (Nat.mod_lt _ (by norm_num)) ih

theorem beNat_beBytes (x n : Nat) : beNat (beBytes x n) = x % 256 ^ n := by
  induction n with
  | zero => simp [beBytes, beNat, Nat.mod_one]
  | succ n ih =>
    simp only [beBytes, beNat, beBytes_length, ih]
    rw [Nat.mod_pow_succ]; ring

theorem beNat_lt (bs : List Nat) (h : BytesOK bs) : beNat bs < 256 ^ bs.length := by
  induction bs with
  | nil => simp [beNat]
  | cons b bs ih =>
    have hb := h.head
    have := ih h.tail
    simp only [beNat, List.length_cons, Nat.pow_succ]
    nlinarith

theorem beBytes_mod (x m : Nat) : ∀ k, k ≤ m → beBytes (x % 256 ^ m) k = beBytes x k := by
  intro k
  induction k with
  | zero => intro _; rfl
  | succ k ih =>
    intro hk
    simp only [beBytes]
    rw [ih (by omega)]
    congr 1
    have e : 256 ^ m = 256 ^ k * 256 ^ (m - k) := by rw [← Nat.pow_add]; congr 1; omega
    rw [e, Nat.mod_mul_right_div_self]
    have hd : 256 ∣ 256 ^ (m - k) := dvd_pow_self 256 (by omega)
    exact Nat.mod_mod_of_dvd _ hd

theorem beBytes_beNat (bs : List Nat) (h : BytesOK bs) : beBytes (beNat bs) bs.length = bs := by
  induction bs with
  | nil => rfl
  | cons b bs ih =>
    have hb := h.head
    have hlt := beNat_lt bs h.tail
    simp only [beNat, List.length_cons, beBytes]
    have hpos : 0 < 256 ^ bs.length := Nat.pow_pos (by norm_num)
    have e1 : (b * 256 ^ bs.length + beNat bs) / 256 ^ bs.length % 256 = b := by
      rw [Nat.add_comm, Nat.add_mul_div_right _ _ hpos, Nat.div_eq_of_lt hlt]
      simp; omega
    have e2 : beBytes (b * 256 ^ bs.length + beNat bs) bs.length = beBytes (beNat bs) bs.length := by
      rw [← beBytes_mod _ bs.length bs.length (le_refl _)]
      congr 1
      rw [Nat.add_comm, Nat.add_mul_mod_self_right, Nat.mod_eq_of_lt hlt]
    rw [e1, e2, ih h.tail]

/-! ### little endian -/

theorem leBytesC_length (x n : Nat) : (leBytesC x n).length = n := by
  induction n generalizing x with
  | zero => rfl
  | succ n ih => simp [leBytesC, ih]

theorem leBytesC_ok (x n : Nat) : BytesOK (leBytesC x n) := by
  induction n generalizing x with
  | zero => exact BytesOK.nil
  | succ n ih => exact BytesOK.cons (Nat.mod_lt _ (by norm_num)) (ih _)

theorem leNatC_leBytesC (x n : Nat) : leNatC (leBytesC x n) = x % 256 ^ n := by
  induction n generalizing x with
  | zero => simp [leBytesC, leNatC, Nat.mod_one]
  | succ n ih =>
    simp only [leBytesC, leNatC, ih]
    rw [Nat.pow_succ, Nat.mul_comm (256 ^ n) 256, Nat.mod_mul]

theorem leNatC_lt (bs : List Nat) (h : BytesOK bs) : leNatC bs < 256 ^ bs.length := by
  induction bs with
  | nil => simp [leNatC]
  | cons b bs ih =>
    have hb := h.head
    have := ih h.tail
    simp only [leNatC, List.length_cons, Nat.pow_succ]
    omega

theorem leBytesC_leNatC (bs : List Nat) (h : BytesOK bs) : leBytesC (leNatC bs) bs.length = bs := by
  induction bs with
  | nil => rfl
  | cons b bs ih =>
    have hb := h.head
    simp only [leNatC, List.length_cons, leBytesC]
    have e1 : (b + 256 * leNatC bs) % 256 = b := by omega
    have e2 : (b + 256 * leNatC bs) / 256 = leNatC bs := by omega
    rw [e1, e2, ih h.tail]

/-! ### bits -/

theorem bitsOfByte_length (x k : Nat) : (bitsOfByte x k).length = k := by
  induction k generalizing x with
  | zero => rfl
  | succ k ih => simp [bitsOfByte, ih]

theorem byteOfBits_bitsOfByte (x k : Nat) : byteOfBits (bitsOfByte x k) = x % 2 ^ k := by
  induction k generalizing x with
  | zero => simp [bitsOfByte, byteOfBits, Nat.mod_one]
  | succ k ih =>
    simp only [bitsOfByte, byteOfBits, ih]
    rw [Nat.pow_succ, Nat.mul_comm (2 ^ k) 2, Nat.mod_mul]
    have : x % 2 = 0 ∨ x % 2 = 1 := by omega
    rcases this with h | h <;> simp [h]

theorem bitsOfByte_byteOfBits (l : List Bool) : bitsOfByte (byteOfBits l) l.length = l := by
  induction l with
  | nil => rfl
  | cons b l ih =>
    simp only [byteOfBits, List.length_cons, bitsOfByte]
    have e1 : (((if b = true then 1 else 0) + 2 * byteOfBits l) % 2 == 1) = b := by
      cases b <;> simp <;> omega
    have e2 : ((if b = true then 1 else 0) + 2 * byteOfBits l) / 2 = byteOfBits l := by
      cases b <;> simp <;> omega
    rw [e1, e2, ih]

theorem byteOfBits_lt (l : List Bool) : byteOfBits l < 2 ^ l.length := by
  induction l with
  | nil => simp [byteOfBits]
  | cons b l ih =>
    simp only [byteOfBits, List.length_cons, Nat.pow_succ]
    cases b <;> simp <;> omega

theorem pad8_length (l : List Bool) (h : l.length ≤ 8) : (pad8 l).length = 8 := by
  simp [pad8]; omega

theorem packBits_length (msb : Bool) (m : Nat) (bits : List Bool) : (packBits msb m bits).length = m := by
  induction m generalizing bits with
  | zero => rfl
  | succ m ih => simp [packBits, ih]

theorem packBits_ok (msb : Bool) (m : Nat) (bits : List Bool) : BytesOK (packBits msb m bits) := by
  induction m generalizing bits with
  | zero => exact BytesOK.nil
  | succ m ih =>
    simp only [packBits]
    apply BytesOK.cons _ (ih _)
    have hl : (pad8 (bits.take 8)).length = 8 := pad8_length _ (by simp)
    split
    · have := byteOfBits_lt (pad8 (List.take 8 bits)).reverse
      rw [List.length_reverse, hl] at this; simpa using this
    · have := byteOfBits_lt (pad8 (List.take 8 bits))
      rw [hl] at this; simpa using this

theorem unpackBits_length (msb : Bool) (bs : List Nat) : (unpackBits msb bs).length = 8 * bs.length := by
  induction bs with
  | nil => rfl
  | cons b bs ih =>
    simp only [unpackBits, List.length_append, ih, List.length_cons]
    split <;> simp [bitsOfByte_length] <;> omega

/-- unpacking what was packed gives the bits back, followed by `false` padding -/
theorem unpack_pack (msb : Bool) (m : Nat) (bits : List Bool) (h : bits.length ≤ 8 * m) :
    unpackBits msb (packBits msb m bits) = bits ++ List.replicate (8 * m - bits.length) false := by
  induction m generalizing bits with
  | zero =>
    have : bits = [] := List.eq_nil_of_length_eq_zero (by omega)
    subst this; rfl
  | succ m ih =>
    simp only [packBits, unpackBits]
    have hl : (pad8 (bits.take 8)).length = 8 := pad8_length _ (by simp)
    have hchunk : (if msb = true then
          (bitsOfByte (byteOfBits (if msb = true then (pad8 (List.take 8 bits)).reverse else pad8 (List.take 8 bits))) 8).reverse
        else bitsOfByte (byteOfBits (if msb = true then (pad8 (List.take 8 bits)).reverse else pad8 (List.take 8 bits))) 8)
        = pad8 (bits.take 8) := by
      cases msb
      · simp only [Bool.false_eq_true, if_false]
        have := bitsOfByte_byteOfBits (pad8 (List.take 8 bits))
        rw [hl] at this; exact this
      · simp only [if_true]
        have := bitsOfByte_byteOfBits (pad8 (List.take 8 bits)).reverse
        rw [List.length_reverse, hl] at this
        rw [this, List.reverse_reverse]
    rw [hchunk, ih (bits.drop 8) (by simp; omega)]
    simp only [pad8, List.length_take, List.length_drop]
    by_cases h8 : 8 ≤ bits.length
    · have e1 : min 8 bits.length = 8 := by omega
      rw [e1]; simp only [Nat.sub_self, List.replicate_zero, List.append_nil]
      rw [← List.append_assoc, List.take_append_drop]
      congr 2; omega
    · have e1 : min 8 bits.length = bits.length := by omega
      have e2 : bits.take 8 = bits := List.take_of_length_le (by omega)
      have e3 : bits.drop 8 = [] := List.drop_of_length_le (by omega)
      rw [e1, e2, e3]
      simp only [packBits_length, List.length_nil, List.append_assoc, List.nil_append,
        List.replicate_append_replicate]
      congr 2; omega

/-- packing what was unpacked gives the bytes back -/
theorem pack_unpack (msb : Bool) (bs : List Nat) (h : BytesOK bs) :
    packBits msb bs.length (unpackBits msb bs) = bs := by
  induction bs with
  | nil => rfl
  | cons b bs ih =>
    have hb := h.head
    simp only [unpackBits, List.length_cons, packBits]
    have hc : ((if msb = true then (bitsOfByte b 8).reverse else bitsOfByte b 8)).length = 8 := by
      split <;> simp [bitsOfByte_length]
    rw [List.take_left' hc, List.drop_left' hc, ih h.tail]
    congr 1
    have hp : pad8 (if msb = true then (bitsOfByte b 8).reverse else bitsOfByte b 8)
        = (if msb = true then (bitsOfByte b 8).reverse else bitsOfByte b 8) := by
      simp [pad8, hc]
    rw [hp]
    cases msb
    · simp only [Bool.false_eq_true, if_false]
      rw [byteOfBits_bitsOfByte]; exact Nat.mod_eq_of_lt (by norm_num; omega)
    · simp only [if_true, List.reverse_reverse]
      rw [byteOfBits_bitsOfByte]; exact Nat.mod_eq_of_lt (by norm_num; omega)

end Prio
