import PrioModel.Prng
import Mathlib.Tactic.Ring
import Mathlib.Tactic.Linarith
import Mathlib.Data.List.Basic

/-! Refinement of the buffered `Prng` to "accepted chunks of the stream, in order". -/
namespace Prio

theorem read_length (S : Stream) (pos n : Nat) : (S.read pos n).length = n := by simp [Stream.read]

theorem read_append (S : Stream) (pos a b : Nat) :
    S.read pos (a + b) = S.read pos a ++ S.read (pos + a) b := by
  simp only [Stream.read, List.range_add, List.map_append, List.map_map]
  congr 1
  apply List.map_congr_left; intro i _; simp [Nat.add_assoc]

theorem read_drop (S : Stream) (pos n k : Nat) : (S.read pos n).drop k = S.read (pos + k) (n - k) := by
  by_cases h : k ≤ n
  · have : n = k + (n - k) := by omega
    rw [this, read_append, List.drop_left' (read_length _ _ _)]
    congr 1; omega
  · have h1 : n - k = 0 := by omega
    rw [h1]; simp [Stream.read]; omega

theorem read_take (S : Stream) (pos n k : Nat) (h : k ≤ n) : (S.read pos n).take k = S.read pos k := by
  have : n = k + (n - k) := by omega
  rw [this, read_append, List.take_left' (read_length _ _ _)]

/-- the unread part of the buffer followed by the unread stream is the stream from `c` -/
structure PInv (S : Stream) (st : PrngState) (c : Nat) : Prop where
  idx_le : st.idx ≤ st.buf.length
  content : st.buf.drop st.idx = S.read c (st.buf.length - st.idx)
  pos_eq : st.pos = c + (st.buf.length - st.idx)

/-- chunks `0..k-1` from `c` are rejected and chunk `k` is accepted with value `x` -/
def FirstAccepted (S : Stream) (p mask sz c k x : Nat) : Prop :=
  (∀ i < k, fromRandom p mask (S.read (c + i * sz) sz) = none) ∧
  fromRandom p mask (S.read (c + k * sz) sz) = some x

theorem chunk_of_content (S : Stream) (buf : List Nat) (idx0 c i sz : Nat)
    (hc : buf.drop idx0 = S.read c (buf.length - idx0)) (hle : idx0 + i + sz ≤ buf.length) :
    (buf.drop (idx0 + i)).take sz = S.read (c + i) sz := by
  have : buf.drop (idx0 + i) = (buf.drop idx0).drop i := by rw [List.drop_drop]
  rw [this, hc, read_drop, read_take]; omega

/-- the scan loop: either the first accepted chunk, or every whole chunk of the buffer rejected -/
theorem scanBuffer_spec (S : Stream) (p mask sz : Nat) (hsz : 0 < sz) (buf : List Nat) (idx0 c : Nat)
    (hc : buf.drop idx0 = S.read c (buf.length - idx0)) :
    ∀ (fuel m : Nat), idx0 + m * sz ≤ buf.length → buf.length + 1 ≤ idx0 + m * sz + fuel →
      (∀ i < m, fromRandom p mask (S.read (c + i * sz) sz) = none) →
      (∃ k x, scanBuffer p mask sz buf fuel (idx0 + m * sz) = (some x, idx0 + (k + 1) * sz) ∧
          idx0 + (k + 1) * sz ≤ buf.length ∧ FirstAccepted S p mask sz c k x) ∨
      (∃ k, scanBuffer p mask sz buf fuel (idx0 + m * sz) = (none, idx0 + k * sz) ∧
          idx0 + k * sz ≤ buf.length ∧ buf.length < idx0 + k * sz + sz ∧
          ∀ i < k, fromRandom p mask (S.read (c + i * sz) sz) = none) := by
  intro fuel
  induction fuel with
  | zero => intro m h1 h2; omega
  | succ fuel ih =>
    intro m h1 h2 hrej
    simp only [scanBuffer]
    by_cases hj : idx0 + m * sz + sz > buf.length
    · right
      refine ⟨m, by simp [hj], h1, by omega, hrej⟩
    · simp only [hj, if_false]
      have hchunk := chunk_of_content S buf idx0 c (m * sz) sz hc (by omega)
      cases hr : fromRandom p mask ((buf.drop (idx0 + m * sz)).take sz) with
      | some x =>
        left
        refine ⟨m, x, ?_, by rw [Nat.add_mul]; omega, hrej, by rw [← hchunk]; exact hr⟩
        simp only [Nat.add_mul, one_mul, Nat.add_assoc]
      | none =>
        simp only
        have e : idx0 + m * sz + sz = idx0 + (m + 1) * sz := by rw [Nat.add_mul]; omega
        rw [e]
        apply ih (m + 1) (by rw [← e]; omega) (by rw [← e]; omega)
        intro i hi
        rcases Nat.lt_succ_iff_lt_or_eq.mp hi with h | h
        · exact hrej i h
        · subst h; rw [← hchunk]; exact hr

/-- **`Prng::get` refines the specification**: it returns the first accepted chunk of the stream
    from `c`, and re-establishes the invariant just behind that chunk -/
theorem get_spec (S : Stream) (p mask sz : Nat) (hsz : 0 < sz) :
    ∀ (fuel : Nat) (st : PrngState) (c : Nat), PInv S st c →
      ∀ x st', st.get S p mask sz fuel = some (x, st') →
        ∃ k, FirstAccepted S p mask sz c k x ∧ PInv S st' (c + (k + 1) * sz) ∧ st'.buf.length = st.buf.length := by
  intro fuel
  induction fuel with
  | zero => intro st c _ x st' h; simp [PrngState.get] at h
  | succ fuel ih =>
    intro st c inv x st' h
    simp only [PrngState.get] at h
    have hscan := scanBuffer_spec S p mask sz hsz st.buf st.idx c inv.content (st.buf.length + 1) 0
      (by simpa using inv.idx_le) (by omega) (by intro i hi; omega)
    simp only [Nat.zero_mul, Nat.add_zero] at hscan
    rcases hscan with ⟨k, y, hs, hle, hfa⟩ | ⟨k, hs, hle, hlt, hrej⟩
    · rw [hs] at h
      simp only [Option.some.injEq, Prod.mk.injEq] at h
      obtain ⟨rfl, rfl⟩ := h
      refine ⟨k, hfa, ⟨hle, ?_, ?_⟩, rfl⟩
      · show st.buf.drop (st.idx + (k + 1) * sz) = _
        have : st.buf.drop (st.idx + (k + 1) * sz) = (st.buf.drop st.idx).drop ((k + 1) * sz) := by
          rw [List.drop_drop]
        rw [this, inv.content, read_drop]; congr 1; dsimp only; omega
      · show st.pos = _
        rw [inv.pos_eq]; dsimp only; omega
    · rw [hs] at h
      simp only at h
      have hlen : (st.buf.drop (st.idx + k * sz) ++ S.read st.pos (st.buf.length - (st.buf.length - (st.idx + k * sz)))).length
          = st.buf.length := by
        simp [read_length]
      have inv' : PInv S ⟨st.buf.drop (st.idx + k * sz) ++ S.read st.pos (st.buf.length - (st.buf.length - (st.idx + k * sz))),
          0, st.pos + (st.buf.length - (st.buf.length - (st.idx + k * sz)))⟩ (c + k * sz) := by
        refine ⟨by simp, ?_, ?_⟩
        · simp only [List.drop_zero, Nat.sub_zero, hlen]
          have e1 : st.buf.drop (st.idx + k * sz) = S.read (c + k * sz) (st.buf.length - st.idx - k * sz) := by
            have : st.buf.drop (st.idx + k * sz) = (st.buf.drop st.idx).drop (k * sz) := by rw [List.drop_drop]
            rw [this, inv.content, read_drop]
          rw [e1, inv.pos_eq]
          have e2 : st.buf.length = (st.buf.length - st.idx - k * sz) + (st.buf.length - (st.buf.length - (st.idx + k * sz))) := by omega
          conv_rhs => rw [e2, read_append]
          congr 2; omega
        · simp only [hlen, Nat.sub_zero]; rw [inv.pos_eq]; omega
      obtain ⟨k2, hfa2, inv2, hl2⟩ := ih _ (c + k * sz) inv' x st' h
      refine ⟨k + k2, ⟨?_, ?_⟩, ?_, by rw [hl2, hlen]⟩
      · intro i hi
        by_cases hik : i < k
        · exact hrej i hik
        · have := hfa2.1 (i - k) (by omega)
          have e : c + k * sz + (i - k) * sz = c + i * sz := by
            rw [Nat.add_assoc, ← Nat.add_mul]; congr 2; omega
          rwa [e] at this
      · have := hfa2.2
        have e : c + k * sz + k2 * sz = c + (k + k2) * sz := by rw [Nat.add_assoc, ← Nat.add_mul]
        rwa [e] at this
      · have e : c + k * sz + (k2 + 1) * sz = c + (k + k2 + 1) * sz := by
          rw [Nat.add_assoc, ← Nat.add_mul]; congr 2
        rwa [e] at inv2

theorem init_inv (S : Stream) (sz pos : Nat) : PInv S (PrngState.init S sz pos) pos := by
  refine ⟨by simp [PrngState.init], ?_, ?_⟩
  · simp [PrngState.init, read_length]
  · simp [PrngState.init, read_length]

/-- the sequence specification: successive accepted chunks -/
def AcceptedSeq (S : Stream) (p mask sz : Nat) : Nat → List Nat → Nat → Prop
  | c, [], c' => c' = c
  | c, x :: xs, c' => ∃ k, FirstAccepted S p mask sz c k x ∧ AcceptedSeq S p mask sz (c + (k + 1) * sz) xs c'

theorem take_spec (S : Stream) (p mask sz fuel : Nat) (hsz : 0 < sz) :
    ∀ (n : Nat) (st : PrngState) (c : Nat), PInv S st c →
      ∀ xs st', st.take S p mask sz fuel n = some (xs, st') →
        xs.length = n ∧ ∃ c', AcceptedSeq S p mask sz c xs c' ∧ PInv S st' c' := by
  intro n
  induction n with
  | zero =>
    intro st c inv xs st' h
    simp only [PrngState.take, Option.some.injEq, Prod.mk.injEq] at h
    obtain ⟨rfl, rfl⟩ := h
    exact ⟨rfl, c, rfl, inv⟩
  | succ n ih =>
    intro st c inv xs st' h
    simp only [PrngState.take] at h
    cases hg : st.get S p mask sz fuel with
    | none => simp [hg] at h
    | some r =>
      obtain ⟨x, st1⟩ := r
      simp only [hg] at h
      cases ht : PrngState.take S p mask sz fuel n st1 with
      | none => simp [ht] at h
      | some r2 =>
        obtain ⟨ys, st2⟩ := r2
        simp only [ht, Option.some.injEq, Prod.mk.injEq] at h
        obtain ⟨rfl, rfl⟩ := h
        obtain ⟨k, hfa, inv1, _⟩ := get_spec S p mask sz hsz fuel st c inv x st1 hg
        obtain ⟨hl, c', hseq, inv2⟩ := ih st1 _ inv1 ys st2 ht
        exact ⟨by simp [hl], c', ⟨k, hfa, hseq⟩, inv2⟩

/-- `generate_random` (no buffer) returns the first accepted chunk from the current position -/
theorem generateRandom_spec (S : Stream) (p mask sz : Nat) :
    ∀ (fuel pos x pos' : Nat), generateRandom S p mask sz fuel pos = some (x, pos') →
      ∃ k, FirstAccepted S p mask sz pos k x ∧ pos' = pos + (k + 1) * sz := by
  intro fuel
  induction fuel with
  | zero => intro pos x pos' h; simp [generateRandom] at h
  | succ fuel ih =>
    intro pos x pos' h
    simp only [generateRandom] at h
    cases hr : fromRandom p mask (S.read pos sz) with
    | some y =>
      simp only [hr, Option.some.injEq, Prod.mk.injEq] at h
      obtain ⟨rfl, rfl⟩ := h
      exact ⟨0, ⟨by intro i hi; omega, by simpa using hr⟩, by simp⟩
    | none =>
      simp only [hr] at h
      obtain ⟨k, hfa, hp⟩ := ih (pos + sz) x pos' h
      refine ⟨k + 1, ⟨?_, ?_⟩, by rw [hp]; ring⟩
      · intro i hi
        cases i with
        | zero => simpa using hr
        | succ i =>
          have := hfa.1 i (by omega)
          have e : pos + sz + i * sz = pos + (i + 1) * sz := by ring
          rwa [e] at this
      · have := hfa.2
        have e : pos + sz + k * sz = pos + (k + 1) * sz := by ring
        rwa [e] at this

end Prio
