import PrioProofs.Props.C15
import Mathlib.Algebra.BigOperators.Option
import Mathlib.Data.Finset.Option

/-! # Laws of the discrete Laplace and Gaussian sampler programs (exact mass semantics) -/
namespace Prio.DpLaws
open Prio.Dp Finset BigOperators Props.C15

/-! ## general bind laws -/

/-- affine bind law: if the continuation's mass splits pointwise into an indicator part and a part
    that is itself the mass of another continuation, the bind splits the same way -/
theorem mass_bind_affine {α β γ : Type} (m : Samp α) (f : α → Samp β) (P : β → Bool)
    (Q : α → Bool) (c : ℚ) (h : α → Samp γ) (R : γ → Bool) (d : ℚ)
    (hf : ∀ a, mass (f a) P = (if Q a then c else 0) + mass (h a) R * d) :
    mass (Samp.bind m f) P = mass m Q * c + mass (Samp.bind m h) R * d := by
  induction m with
  | pure a =>
    simp only [Samp.bind, mass, hf]
    by_cases hq : Q a = true <;> simp [hq]
  | unif n k ih =>
    simp only [Samp.bind, mass]
    simp_rw [ih]
    rw [sum_add_distrib, ← sum_mul, ← sum_mul]
    ring

theorem bind_pure {α : Type} (m : Samp α) : Samp.bind m Samp.pure = m := by
  induction m with
  | pure a => rfl
  | unif n k ih => simp only [Samp.bind]; congr 1; funext i; exact ih i

/-- two-indicator bind law -/
theorem mass_bind_two {α β : Type} (m : Samp α) (f : α → Samp β) (P : β → Bool)
    (Q₁ Q₂ : α → Bool) (c d : ℚ)
    (hf : ∀ a, mass (f a) P = (if Q₁ a then c else 0) + (if Q₂ a then d else 0)) :
    mass (Samp.bind m f) P = mass m Q₁ * c + mass m Q₂ * d := by
  have := mass_bind_affine m f P Q₁ c Samp.pure Q₂ d (by
    intro a; rw [hf a]; simp only [mass]; by_cases hq : Q₂ a = true <;> simp [hq])
  rw [this, bind_pure]

/-- congruence: the mass of a bind only depends on the masses of the continuations -/
theorem mass_bind_congr {α β γ : Type} (m : Samp α) (f : α → Samp β) (g : α → Samp γ)
    (P : β → Bool) (Q : γ → Bool) (h : ∀ a, mass (f a) P = mass (g a) Q) :
    mass (Samp.bind m f) P = mass (Samp.bind m g) Q := by
  induction m with
  | pure a => exact h a
  | unif n k ih => simp only [Samp.bind, mass]; simp_rw [ih]

/-- linearity -/
theorem mass_bind_smul {α β γ : Type} (m : Samp α) (f : α → Samp β) (g : α → Samp γ)
    (P : β → Bool) (Q : γ → Bool) (c : ℚ) (h : ∀ a, mass (f a) P = c * mass (g a) Q) :
    mass (Samp.bind m f) P = c * mass (Samp.bind m g) Q := by
  induction m with
  | pure a => exact h a
  | unif n k ih => simp only [Samp.bind, mass]; simp_rw [ih]; rw [← mul_sum]; ring

theorem mass_false {α : Type} (m : Samp α) (P : α → Bool) (h : ∀ a, P a = false) : mass m P = 0 := by
  induction m with
  | pure a => simp [mass, h]
  | unif n k ih => simp [mass, ih]

/-! ## the sign bit -/

theorem sign_true : mass (bernoulli ⟨1, 2⟩) (fun b => b) = 1 / 2 := by
  rw [bernoulli_true _ (by decide) (by decide)]; norm_num

theorem sign_false : mass (bernoulli ⟨1, 2⟩) (fun b => !b) = 1 / 2 := by
  rw [bernoulli_false _ (by decide) (by decide)]; norm_num

/-! ## discrete Laplace -/

/-- mass of magnitude `v` from the geometric layer -/
def geoMass (b : Q) (f v : Nat) : ℚ := mass (geometric b.recip f) (fun o => o == some v)

/-- the `negative = true` branch of one Laplace round -/
theorem laplace_neg_branch (m : Samp (Option Nat)) (L : Samp (Option Int)) (g : Option Nat → Samp (Option Int))
    (z : Int) (hnone : g none = Samp.pure none)
    (hsome : ∀ y : Nat, g (some y) = if (true && y == 0) = true then L
      else Samp.pure (some (if true = true then -(y : Int) else (y : Int)))) :
    mass (Samp.bind m g) (fun o => o == some z) =
      mass m (fun o => o == some 0) * mass L (fun o => o == some z) +
        mass m (fun o => o == some z.natAbs) * (if z < 0 then 1 else 0) := by
  apply mass_bind_two
  intro a
  rcases a with _ | y
  · simp [hnone, mass]
  · rw [hsome]
    by_cases hy : y = 0
    · subst hy
      by_cases hz : z < 0
      · have : ¬ (0 = z.natAbs) := by omega
        simp [this]
      · simp [hz]
    · have e : (true && y == 0) = false := by simpa using hy
      simp only [e, Bool.false_eq_true, if_false, if_true, mass]
      by_cases hz : z < 0
      · have : (-(y : Int) = z) ↔ (y = z.natAbs) := by omega
        by_cases h2 : y = z.natAbs
        · simp [hy, this.2 h2, hz, ← h2]
        · simp [hy, mt this.1 h2, h2]
      · have : ¬ (-(y : Int) = z) := by omega
        simp [hy, this, hz]

/-- the `negative = false` branch of one Laplace round -/
theorem laplace_pos_branch (m : Samp (Option Nat)) (L : Samp (Option Int)) (g : Option Nat → Samp (Option Int))
    (z : Int) (hnone : g none = Samp.pure none)
    (hsome : ∀ y : Nat, g (some y) = if (false && y == 0) = true then L
      else Samp.pure (some (if false = true then -(y : Int) else (y : Int)))) :
    mass (Samp.bind m g) (fun o => o == some z) =
      mass m (fun o => o == some z.natAbs) * (if z < 0 then 0 else 1) := by
  rw [mass_bind_two m g _ (fun o => o == some z.natAbs) (fun _ => false) (if z < 0 then 0 else 1) 0]
  · ring
  · intro a
    rcases a with _ | y
    · simp [hnone, mass]
    · rw [hsome]
      simp only [Bool.false_and, Bool.false_eq_true, if_false, mass]
      by_cases hz : z < 0
      · have : ¬ ((y : Int) = z) := by omega
        simp [hz, this]
      · have : ((y : Int) = z) ↔ (y = z.natAbs) := by omega
        by_cases h3 : y = z.natAbs
        · simp [hz, this.2 h3, ← h3]
        · simp [mt this.1 h3, h3]

/-- one round of the Laplace loop, for any target `z` -/
theorem laplace_step (b : Q) (f n : Nat) (z : Int) (hb : ¬ b.isZero) :
    mass (laplace b f (n + 1)) (fun o => o == some z) =
      1 / 2 * geoMass b f z.natAbs + 1 / 2 * geoMass b f 0 * mass (laplace b f n) (fun o => o == some z) := by
  have hb' : b.isZero = false := by simpa using hb
  simp only [laplace, hb', Bool.false_eq_true, if_false]
  rw [mass_bind_bool, sign_true, sign_false]
  rw [laplace_neg_branch _ (laplace b f n) _ z rfl (fun y => rfl),
    laplace_pos_branch _ (laplace b f n) _ z rfl (fun y => rfl)]
  unfold geoMass
  by_cases hz : z < 0 <;> simp [hz] <;> ring

theorem laplace_zero_scale (b : Q) (f n : Nat) (z : Int) (hb : b.isZero) :
    mass (laplace b f (n + 1)) (fun o => o == some z) = if z = 0 then 1 else 0 := by
  simp only [laplace, hb, if_true, mass]
  by_cases hz : z = 0
  · simp [hz]
  · have : ¬ (0 = z) := fun h => hz h.symm
    simp [hz, this]

/-- **closed form of the Laplace loop**: with retry fuel `n`, the mass of `z` is half the geometric
    mass of `|z|` times the partial geometric series of the retry probability `G(0)/2` -/
theorem laplace_closed (b : Q) (f : Nat) (z : Int) (hb : ¬ b.isZero) : ∀ n,
    mass (laplace b f n) (fun o => o == some z) =
      1 / 2 * geoMass b f z.natAbs * ∑ j ∈ range n, (1 / 2 * geoMass b f 0) ^ j := by
  intro n
  induction n with
  | zero => simp [laplace, mass]
  | succ n ih =>
    rw [laplace_step b f n z hb, ih, sum_range_succ']
    simp only [pow_succ, pow_zero]
    rw [← sum_mul]
    ring

/-- the law of the Laplace sampler depends on `z` only through `|z|` -/
theorem laplace_abs (b : Q) (f n : Nat) (z : Int) :
    mass (laplace b f n) (fun o => o == some z) = mass (laplace b f n) (fun o => o == some (z.natAbs : Int)) := by
  by_cases hb : b.isZero = true
  · cases n with
    | zero => simp [laplace, mass]
    | succ n =>
      rw [laplace_zero_scale b f n z hb, laplace_zero_scale b f n _ hb]
      have : ((z.natAbs : Int) = 0) ↔ z = 0 := by omega
      by_cases hz : z = 0
      · rw [if_pos hz, if_pos (this.2 hz)]
      · rw [if_neg hz, if_neg (mt this.1 hz)]
  · rw [laplace_closed b f z hb, laplace_closed b f _ hb, Int.natAbs_natCast]

/-- **symmetry of the discrete Laplace sampler** -/
theorem laplace_symmetric : Props.C15.laplace_symmetric_statement := by
  intro b f n y _
  rw [laplace_abs b f n (-(y : Int)), Int.natAbs_neg, Int.natAbs_natCast]

/-- **the Laplace ratio law, exact form**: the masses of two outcomes are in the ratio of the
    geometric masses of their magnitudes (cross-multiplied, no division) -/
theorem laplace_ratio (b : Q) (f n : Nat) (z w : Int) (hb : ¬ b.isZero) :
    mass (laplace b f n) (fun o => o == some z) * geoMass b f w.natAbs =
      mass (laplace b f n) (fun o => o == some w) * geoMass b f z.natAbs := by
  rw [laplace_closed b f z hb, laplace_closed b f w hb]; ring

/-! ## discrete Gaussian -/

/-- the rejection step over an arbitrary proposal program -/
theorem gauss_step (m : Samp (Option Int)) (acc : Int → Samp (Option Bool)) (G : Samp (Option Int))
    (g : Option Int → Samp (Option Int)) (h : Option Int → Samp (Option Bool)) (y : Int)
    (gnone : g none = Samp.pure none)
    (gsome : ∀ y', g (some y') = Samp.bind (acc y') fun a =>
      match a with
      | none => Samp.pure none
      | some true => Samp.pure (some y')
      | some false => G)
    (hnone : h none = Samp.pure (some true))
    (hsome : ∀ y', h (some y') = acc y') :
    mass (Samp.bind m g) (fun o => o == some y) =
      mass m (fun o => o == some y) * mass (acc y) T +
        mass (Samp.bind m h) F' * mass G (fun o => o == some y) := by
  apply mass_bind_affine
  intro a
  rcases a with _ | y'
  · simp [gnone, hnone, mass, F']
  · rw [gsome, hsome, mass_bind_opt]
    simp only [mass]
    by_cases hy : y' = y
    · subst hy; simp; ring
    · simp [hy]

/-- **the Gaussian rejection recursion** -/
theorem gaussian_recursion : Props.C15.gaussian_recursion_statement := by
  intro σ f n y hσ
  have hσ' : σ.isZero = false := by simpa using hσ
  simp only [gaussian, hσ', Bool.false_eq_true, if_false]
  exact gauss_step _ (fun y' => bexp (gaussProb σ (σ.floor + 1) y'.natAbs) f) (gaussian σ f n) _ _ y
    rfl (fun _ => rfl) rfl (fun _ => rfl)

/-! ## finite-support bind law -/

/-- every outcome of the program (over draws `i < n` at each `unif n`) satisfies `R` -/
def AllOut {α : Type} : Samp α → (α → Prop) → Prop
  | .pure a, R => R a
  | .unif n k, R => ∀ i, i < n → AllOut (k i) R

theorem allOut_true {α : Type} (m : Samp α) : AllOut m (fun _ => True) := by
  induction m with
  | pure a => trivial
  | unif n k ih => intro i _; exact ih i

theorem allOut_mono {α : Type} (m : Samp α) (R R' : α → Prop) (h : ∀ a, R a → R' a) :
    AllOut m R → AllOut m R' := by
  induction m with
  | pure a => exact h a
  | unif n k ih => intro hm i hi; exact ih i (hm i hi)

theorem allOut_bind {α β : Type} (m : Samp α) (f : α → Samp β) (R' : α → Prop) (R : β → Prop)
    (hm : AllOut m R') (hf : ∀ a, R' a → AllOut (f a) R) : AllOut (Samp.bind m f) R := by
  induction m with
  | pure a => exact hf a hm
  | unif n k ih => intro i hi; exact ih i (hm i hi)

/-- **bind law over a finite support** -/
theorem mass_bind_support {α β : Type} [BEq α] [LawfulBEq α] (m : Samp α) (S : Finset α)
    (hS : AllOut m (· ∈ S)) (f : α → Samp β) (P : β → Bool) :
    mass (Samp.bind m f) P = ∑ a ∈ S, mass m (fun o => o == a) * mass (f a) P := by
  induction m with
  | pure a =>
    simp only [Samp.bind, mass]
    rw [sum_eq_single a]
    · simp
    · intro b _ hb
      have : ¬ (a = b) := fun h => hb h.symm
      simp [this]
    · intro ha; exact absurd hS ha
  | unif n k ih =>
    simp only [Samp.bind, mass]
    rw [sum_congr rfl (fun i hi => ih i (hS i (mem_range.1 hi))), sum_comm, sum_div]
    apply sum_congr rfl
    intro a _
    rw [← sum_mul]
    ring

theorem mass_eq_sum_support {α : Type} [BEq α] [LawfulBEq α] (m : Samp α) (S : Finset α)
    (hS : AllOut m (· ∈ S)) (P : α → Bool) :
    mass m P = ∑ a ∈ S, mass m (fun o => o == a) * (if P a then 1 else 0) := by
  have := mass_bind_support m S hS Samp.pure P
  rw [bind_pure] at this
  exact this

/-! ## total mass of the `exp1` layer -/

theorem mass_opt_total (m : Samp (Option Bool)) :
    mass m N + mass m F' + mass m T = mass m (fun _ => true) := by
  induction m with
  | pure a =>
    rcases a with _ | b
    · simp [mass, N, F', T]
    · cases b <;> simp [mass, N, F', T]
  | unif n k ih =>
    simp only [mass]
    rw [← add_div, ← add_div, ← sum_add_distrib, ← sum_add_distrib]
    simp_rw [ih]

theorem bexp1_total (γ : Q) (hd : 0 < γ.den) (h : γ.num ≤ γ.den) :
    ∀ f k, 0 < k → mass (bexp1 γ f k) (fun _ => true) = 1 := by
  intro f
  induction f with
  | zero => intro k _; simp [bexp1, mass]
  | succ f ih =>
    intro k hk
    obtain ⟨d1, d2, _⟩ := divNat_spec γ k hd hk h
    simp only [bexp1]
    rw [mass_bind_bool, bernoulli_true _ d1 d2, bernoulli_false _ d1 d2]
    simp only [if_true, Bool.false_eq_true, if_false]
    rw [ih (k + 1) (by omega)]
    simp [mass]

/-- `exp1` returns `false` with the complementary mass, the fuel-exhaustion mass `γᶠ/f!` taken out -/
theorem bexp1_false (γ : Q) (hd : 0 < γ.den) (h : γ.num ≤ γ.den) (f : Nat) :
    mass (bexp1 γ f 1) F' = 1 - mass (bexp1 γ f 1) T - ((γ.num : ℚ) / γ.den) ^ f / (f.factorial : ℚ) := by
  have h1 := mass_opt_total (bexp1 γ f 1)
  rw [bexp1_total γ hd h f 1 (by norm_num), bexp1_none γ hd h f 1 (by norm_num), runP_one] at h1
  linarith

/-! ## the geometric layer -/

/-- success / failure / exhaustion masses of one unit round `exp1(1)` -/
def pOne (f : Nat) : ℚ := mass (bexp1 Q.one f 1) T
def qOne (f : Nat) : ℚ := mass (bexp1 Q.one f 1) F'
def rOne (f : Nat) : ℚ := mass (bexp1 Q.one f 1) N

theorem rOne_eq (f : Nat) : rOne f = 1 / (f.factorial : ℚ) := by
  unfold rOne
  rw [bexp1_none Q.one (by decide) (by decide) f 1 (by norm_num), runP_one]
  simp [Q.one]

theorem qOne_eq (f : Nat) : qOne f = 1 - pOne f - 1 / (f.factorial : ℚ) := by
  unfold qOne pOne
  rw [bexp1_false Q.one (by decide) (by decide)]
  simp [Q.one]

/-- **second loop**: `geoV` started at `v₀` with `n` rounds returns `w ∈ [v₀, v₀+n)` with mass
    `p^(w−v₀)·q`, and no other value -/
theorem geoV_some (f : Nat) : ∀ n v₀ w,
    mass (geoV f n v₀) (fun o => o == some w) =
      if v₀ ≤ w ∧ w < v₀ + n then pOne f ^ (w - v₀) * qOne f else 0 := by
  intro n
  induction n with
  | zero =>
    intro v₀ w
    simp [geoV, mass]
  | succ n ih =>
    intro v₀ w
    simp only [geoV]
    rw [mass_bind_opt]
    simp only [mass]
    rw [ih (v₀ + 1) w]
    change rOne f * _ + qOne f * _ + pOne f * _ = _
    rcases Nat.lt_trichotomy w v₀ with hlt | heq | hgt
    · have h1 : ¬ (v₀ + 1 ≤ w ∧ w < v₀ + 1 + n) := by omega
      have h2 : ¬ (v₀ ≤ w ∧ w < v₀ + (n + 1)) := by omega
      have h3 : ¬ (v₀ = w) := by omega
      rw [if_neg h1, if_neg h2]
      simp [h3]
    · subst heq
      have h1 : ¬ (w + 1 ≤ w ∧ w < w + 1 + n) := by omega
      have h2 : w ≤ w ∧ w < w + (n + 1) := by omega
      rw [if_neg h1, if_pos h2]
      simp
    · have h3 : ¬ (v₀ = w) := by omega
      have e : w - v₀ = (w - (v₀ + 1)) + 1 := by omega
      by_cases h1 : v₀ + 1 ≤ w ∧ w < v₀ + 1 + n
      · have h2 : v₀ ≤ w ∧ w < v₀ + (n + 1) := by omega
        rw [if_pos h1, if_pos h2, e, pow_succ]
        simp [h3]; ring
      · have h2 : ¬ (v₀ ≤ w ∧ w < v₀ + (n + 1)) := by omega
        rw [if_neg h1, if_neg h2]
        simp [h3]

/-- … and runs out of fuel (in a round or in the loop) with the remaining mass -/
theorem geoV_none (f : Nat) : ∀ n v₀,
    mass (geoV f n v₀) (fun o => o == none) = rOne f * ∑ j ∈ range n, pOne f ^ j + pOne f ^ n := by
  intro n
  induction n with
  | zero => intro v₀; simp [geoV, mass]
  | succ n ih =>
    intro v₀
    simp only [geoV]
    rw [mass_bind_opt]
    simp only [mass]
    rw [ih (v₀ + 1)]
    change rOne f * _ + qOne f * _ + pOne f * _ = _
    rw [sum_range_succ']
    simp only [pow_succ, pow_zero]
    rw [← sum_mul]
    simp; ring

theorem geoV_allOut (f : Nat) : ∀ n v₀, AllOut (geoV f n v₀) (· ∈ Finset.insertNone (Finset.Ico v₀ (v₀ + n))) := by
  intro n
  induction n with
  | zero => intro v₀; simp [geoV, AllOut]
  | succ n ih =>
    intro v₀
    simp only [geoV]
    apply allOut_bind _ _ (fun _ => True) _ (allOut_true _)
    intro a _
    rcases a with _ | b
    · simp [AllOut]
    · cases b
      · simp [AllOut]
      · exact allOut_mono _ _ _ (by
          intro o ho
          rw [Finset.mem_insertNone] at ho ⊢
          intro a ha
          have := ho a ha
          rw [Finset.mem_Ico] at this ⊢
          omega) (ih (v₀ + 1))

/-- masses of one round `exp1(u/t)` of the first loop -/
def pU (t f u : Nat) : ℚ := mass (bexp1 (Q.mk' u t) f 1) T
def qU (t f u : Nat) : ℚ := mass (bexp1 (Q.mk' u t) f 1) F'
/-- probability that one round of the first loop is rejected (redraw) -/
def rhoU (t f : Nat) : ℚ := (∑ u ∈ range t, qU t f u) / t

/-- **first loop**: `geoU` with `n` rounds returns `u < t` with mass
    `(1/t)·P[exp1(u/t)=true]·Σ_{j<n} ρʲ`, `ρ` the per-round redraw probability -/
theorem geoU_some (t f : Nat) (u : Nat) (hu : u < t) : ∀ n,
    mass (geoU t f n) (fun o => o == some u) = pU t f u / t * ∑ j ∈ range n, rhoU t f ^ j := by
  intro n
  induction n with
  | zero => simp [geoU, mass]
  | succ n ih =>
    simp only [geoU, mass]
    simp_rw [mass_bind_opt]
    simp only [mass]
    rw [ih]
    have ht : (t : ℚ) ≠ 0 := by
      have : 0 < t := by omega
      exact_mod_cast this.ne'
    have e : ∀ x ∈ range t,
        ((mass (bexp1 (Q.mk' x t) f 1) N * if ((none : Option Nat) == some u) = true then 1 else 0) +
            mass (bexp1 (Q.mk' x t) f 1) F' * (pU t f u / ↑t * ∑ j ∈ range n, rhoU t f ^ j) +
          mass (bexp1 (Q.mk' x t) f 1) T * if (some x == some u) = true then 1 else 0)
        = qU t f x * (pU t f u / ↑t * ∑ j ∈ range n, rhoU t f ^ j) + (if x = u then pU t f u else 0) := by
      intro x _
      by_cases hx : x = u
      · subst hx; simp [qU, pU]
      · simp [hx, qU]
    rw [sum_congr rfl e, sum_add_distrib, ← sum_mul, sum_ite_eq' (range t) u, if_pos (mem_range.2 hu),
      sum_range_succ' _ n]
    simp only [pow_succ, pow_zero]
    rw [← sum_mul]
    unfold rhoU
    field_simp

theorem geoV_allOut0 (f n : Nat) : AllOut (geoV f n 0) (· ∈ Finset.insertNone (range n)) := by
  have := geoV_allOut f n 0
  rw [Nat.zero_add, Nat.Ico_zero_eq_range] at this
  exact this

theorem geoU_allOut (t f : Nat) : ∀ n, AllOut (geoU t f n) (· ∈ Finset.insertNone (range t)) := by
  intro n
  induction n with
  | zero => simp [geoU, AllOut]
  | succ n ih =>
    simp only [geoU]
    intro u hu
    apply allOut_bind _ _ (fun _ => True) _ (allOut_true _)
    intro a _
    rcases a with _ | b
    · simp [AllOut]
    · cases b
      · exact ih
      · simp only [AllOut, Finset.some_mem_insertNone, mem_range]; exact hu

/-- **product form of the geometric layer**: the mass of `v` is the sum, over the pairs `(u, w)` of a
    first-loop result `u < t` and a second-loop result `w < fuel` with `⌊(u + t·w)/s⌋ = v`, of the
    product of the two loops' masses (`γ = s/t`) -/
theorem geometric_decomp (γ : Q) (f v : Nat) (hγ : ¬ γ.isZero) :
    mass (geometric γ f) (fun o => o == some v) =
      ∑ u ∈ range γ.den, ∑ w ∈ range f,
        mass (geoU γ.den f f) (fun o => o == some u) * mass (geoV f f 0) (fun o => o == some w) *
          (if (u + γ.den * w) / γ.num = v then 1 else 0) := by
  have hγ' : γ.isZero = false := by simpa using hγ
  simp only [geometric, hγ', Bool.false_eq_true, if_false]
  rw [mass_bind_support _ _ (geoU_allOut γ.den f f), Finset.sum_insertNone]
  simp only [mass]
  have e0 : ((none : Option Nat) == some v) = false := rfl
  simp only [e0, Bool.false_eq_true, if_false, mul_zero, zero_add]
  apply sum_congr rfl
  intro u _
  rw [mass_bind_support _ _ (geoV_allOut0 f f), Finset.sum_insertNone]
  simp only [mass, e0, Bool.false_eq_true, if_false, mul_zero, zero_add]
  rw [mul_sum]
  apply sum_congr rfl
  intro w _
  have : ((some ((u + γ.den * w) / γ.num) == some v) = true) ↔ ((u + γ.den * w) / γ.num = v) := by simp
  by_cases h : (u + γ.den * w) / γ.num = v
  · rw [if_pos h, if_pos (this.2 h)]; ring
  · rw [if_neg h, if_neg (mt this.1 h)]; ring

/-- for an integer scale `t` (`γ = 1/t`, the case the Gaussian sampler uses) the pair is determined by
    the outcome: `u = v mod t`, `w = v div t`, and the mass is a single product -/
theorem geometric_unit_num (γ : Q) (f v : Nat) (hn : γ.num = 1) (hd : 0 < γ.den) :
    mass (geometric γ f) (fun o => o == some v) =
      mass (geoU γ.den f f) (fun o => o == some (v % γ.den)) *
        mass (geoV f f 0) (fun o => o == some (v / γ.den)) := by
  have hγ : ¬ γ.isZero := by simp [Q.isZero, hn]
  rw [geometric_decomp γ f v hγ, hn]
  have hmod : v % γ.den < γ.den := Nat.mod_lt _ hd
  rw [sum_eq_single (v % γ.den)]
  · by_cases hw : v / γ.den < f
    · rw [sum_eq_single (v / γ.den)]
      · have : (v % γ.den + γ.den * (v / γ.den)) / 1 = v := by rw [Nat.div_one, Nat.mod_add_div]
        rw [if_pos this]; ring
      · intro w _ hne
        have : ¬ ((v % γ.den + γ.den * w) / 1 = v) := by
          rw [Nat.div_one]
          intro h
          apply hne
          have this : (v % γ.den + γ.den * w) / γ.den = v / γ.den := by rw [h]
          rw [Nat.add_mul_div_left _ _ hd, Nat.div_eq_of_lt hmod, Nat.zero_add] at this
          exact this
        rw [if_neg this, mul_zero]
      · intro h; exact absurd (mem_range.2 hw) h
    · have h0 : mass (geoV f f 0) (fun o => o == some (v / γ.den)) = 0 := by
        rw [geoV_some]
        have : ¬ (0 ≤ v / γ.den ∧ v / γ.den < 0 + f) := by
          rintro ⟨_, h2⟩; rw [Nat.zero_add] at h2; exact hw h2
        rw [if_neg this]
      rw [h0, mul_zero]
      apply sum_eq_zero
      intro w hw'
      have hwf : w < f := mem_range.1 hw'
      have : ¬ ((v % γ.den + γ.den * w) / 1 = v) := by
        rw [Nat.div_one]
        intro h
        apply hw
        have this : (v % γ.den + γ.den * w) / γ.den = v / γ.den := by rw [h]
        rw [Nat.add_mul_div_left _ _ hd, Nat.div_eq_of_lt hmod, Nat.zero_add] at this
        rw [← this]; exact hwf
      rw [if_neg this, mul_zero]
  · intro u hu hne
    apply sum_eq_zero
    intro w _
    have hul : u < γ.den := mem_range.1 hu
    have : ¬ ((u + γ.den * w) / 1 = v) := by
      rw [Nat.div_one]
      intro h
      apply hne
      have this : (u + γ.den * w) % γ.den = v % γ.den := by rw [h]
      rw [Nat.add_mul_mod_self_left, Nat.mod_eq_of_lt hul] at this
      exact this
    rw [if_neg this, mul_zero]
  · intro h; exact absurd (mem_range.2 hmod) h

/-- closed product form for an integer scale: for `v` with `v / t < fuel`,
    `P[geometric(1/t) = v] = (P[exp1((v mod t)/t)]/t · Σ_{j<fuel} ρʲ) · p^(v div t) · q` -/
theorem geometric_unit_num_closed (γ : Q) (f v : Nat) (hn : γ.num = 1) (hd : 0 < γ.den)
    (hv : v / γ.den < f) :
    mass (geometric γ f) (fun o => o == some v) =
      (pU γ.den f (v % γ.den) / γ.den * ∑ j ∈ range f, rhoU γ.den f ^ j) *
        (pOne f ^ (v / γ.den) * qOne f) := by
  rw [geometric_unit_num γ f v hn hd, geoU_some _ _ _ (Nat.mod_lt _ hd), geoV_some]
  have : 0 ≤ v / γ.den ∧ v / γ.den < 0 + f := ⟨Nat.zero_le _, by rw [Nat.zero_add]; exact hv⟩
  rw [if_pos this, Nat.sub_zero]

/-- the per-round success probability of the second loop is the partial exponential series of
    `e⁻¹` (even fuel) -/
theorem pOne_even (m : Nat) : pOne (2 * m) = ∑ i ∈ range (2 * m), (-1 : ℚ) ^ i / (i.factorial : ℚ) := by
  unfold pOne
  rw [bexp1_true Q.one (by decide) (by decide) (2 * m) 1 (by norm_num), bexp1_series]
  simp [Q.one]

/-! ## Laplace with an integer scale `t` (as drawn by the Gaussian sampler) -/

theorem geoMass_ofNat (t f v : Nat) (ht : 0 < t) :
    geoMass (Q.ofNat t) f v =
      mass (geoU t f f) (fun o => o == some (v % t)) * mass (geoV f f 0) (fun o => o == some (v / t)) := by
  unfold geoMass
  exact geometric_unit_num (Q.ofNat t).recip f v rfl ht

/-- closed form of `sample_discrete_laplace(t)` for an integer scale `t ≥ 1`, outcome `z` with
    `|z| / t < fuel`, retry fuel `n` -/
theorem laplace_ofNat_closed (t f n : Nat) (z : Int) (ht : 0 < t) (hz : z.natAbs / t < f) :
    mass (laplace (Q.ofNat t) f n) (fun o => o == some z) =
      1 / 2 * ((pU t f (z.natAbs % t) / t * ∑ j ∈ range f, rhoU t f ^ j) * (pOne f ^ (z.natAbs / t) * qOne f)) *
        ∑ j ∈ range n, (1 / 2 * geoMass (Q.ofNat t) f 0) ^ j := by
  have hb : ¬ (Q.ofNat t).isZero := by simp [Q.isZero, Q.ofNat]; omega
  rw [laplace_closed _ f z hb]
  unfold geoMass
  rw [geometric_unit_num_closed (Q.ofNat t).recip f z.natAbs rfl ht hz]
  rfl

/-- **the Laplace ratio law, exact**: moving the outcome `t` further out multiplies its mass by exactly
    the unit-round success probability `p = P[exp1(1) = true]` (the partial series of `e⁻¹`, see
    `pOne_even`), as long as the second loop has fuel for it -/
theorem laplace_shift (t f n y : Nat) (ht : 0 < t) (hy : (y + t) / t < f) :
    mass (laplace (Q.ofNat t) f n) (fun o => o == some ((y + t : Nat) : Int)) =
      pOne f * mass (laplace (Q.ofNat t) f n) (fun o => o == some (y : Int)) := by
  have e1 : (y + t) / t = y / t + 1 := Nat.add_div_right y ht
  have e2 : (y + t) % t = y % t := Nat.add_mod_right y t
  have hy' : y / t < f := by omega
  rw [laplace_ofNat_closed t f n _ ht (by rw [Int.natAbs_natCast]; exact hy),
    laplace_ofNat_closed t f n _ ht (by rw [Int.natAbs_natCast]; exact hy')]
  rw [Int.natAbs_natCast, Int.natAbs_natCast, e1, e2, pow_succ]
  ring

end Prio.DpLaws
/- axiom check (all report only propext, Classical.choice, Quot.sound):
#print axioms Prio.DpLaws.laplace_symmetric
#print axioms Prio.DpLaws.gaussian_recursion
#print axioms Prio.DpLaws.laplace_closed
#print axioms Prio.DpLaws.laplace_ratio
#print axioms Prio.DpLaws.geometric_decomp
#print axioms Prio.DpLaws.geometric_unit_num_closed
#print axioms Prio.DpLaws.laplace_shift
#print axioms Prio.DpLaws.geoV_none
#print axioms Prio.DpLaws.qOne_eq
#print axioms Prio.DpLaws.rOne_eq
#print axioms Prio.DpLaws.pOne_even
#print axioms Prio.DpLaws.mass_bind_smul
#print axioms Prio.DpLaws.mass_bind_congr
#print axioms Prio.DpLaws.mass_eq_sum_support
#print axioms Prio.DpLaws.mass_false
-/
