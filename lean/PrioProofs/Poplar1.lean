import PrioModel.Poplar1
import Mathlib.Algebra.Field.Defs
import Mathlib.Tactic.Ring
import Mathlib.Tactic.LinearCombination
import Mathlib.Data.List.GetD

/-! Algebra of the Poplar1 sketch (shared by C03 and C04). -/
namespace Prio.Poplar1
open Prio.Idpf

variable {F : Type} [Field F]

/-- Σᵢ f(yᵢ, rᵢ) over the common prefix of the two lists -/
def dot (f : Pair F → F → F) : List (Pair F) → List F → F
  | y :: ys, r :: rs => f y r + dot f ys rs
  | _, _ => 0

def f0 : Pair F → F → F := fun y r => y.a * r
def f1 : Pair F → F → F := fun y r => y.a * r * r
def f2 : Pair F → F → F := fun y r => y.b * r

/-- the sketch loop adds, to the correlated-randomness offsets, the three inner products of the
    evaluated shares with the verification randomness -/
theorem sketchLoop_eq [BEq F] (init : F × F × F) (ys : List (Pair F)) (rs : List F) :
    sketchLoop init ys rs = (init.1 + dot f0 ys rs, init.2.1 + dot f1 ys rs, init.2.2 + dot f2 ys rs) := by
  unfold sketchLoop
  induction ys generalizing rs init with
  | nil => simp [dot]
  | cons y ys ih =>
    cases rs with
    | nil => simp [dot]
    | cons r rs =>
      rw [List.zip_cons_cons, List.foldl_cons, ih]
      simp only [dot, f0, f1, f2]
      refine Prod.ext ?_ (Prod.ext ?_ ?_) <;> simp only <;> ring

theorem dot_nil_right (f : Pair F → F → F) (ys : List (Pair F)) : dot f ys [] = 0 := by
  cases ys <;> rfl

/-- shares add: the inner products of a sum of share vectors are the sums of the inner products -/
theorem dot_add (f : Pair F → F → F) (hf : ∀ x y r, f ⟨x.a + y.a, x.b + y.b⟩ r = f x r + f y r)
    (xs ys : List (Pair F)) (rs : List F) (h : xs.length = ys.length) :
    dot f (List.zipWith (fun x y => (⟨x.a + y.a, x.b + y.b⟩ : Pair F)) xs ys) rs = dot f xs rs + dot f ys rs := by
  induction xs generalizing ys rs with
  | nil =>
    cases ys with
    | nil => simp [dot]
    | cons _ _ => simp at h
  | cons x xs ih =>
    cases ys with
    | nil => simp at h
    | cons y ys =>
      cases rs with
      | nil => simp [dot]
      | cons r rs =>
        simp only [List.zipWith_cons_cons, dot]
        rw [ih ys rs (by simpa using h), hf]
        ring

theorem dot_append (f : Pair F → F → F) (xs ys : List (Pair F)) (rs : List F) :
    dot f (xs ++ ys) rs = dot f xs rs + dot f ys (rs.drop xs.length) := by
  induction xs generalizing rs with
  | nil => simp [dot]
  | cons x xs ih =>
    cases rs with
    | nil => simp [dot, dot_nil_right]
    | cons r rs =>
      simp only [List.cons_append, dot, List.length_cons, List.drop_succ_cons]
      rw [ih]; ring

theorem dot_zeros (f : Pair F → F → F) (hf : ∀ r, f ⟨0, 0⟩ r = 0) (n : Nat) (rs : List F) :
    dot f (List.replicate n ⟨0, 0⟩) rs = 0 := by
  induction n generalizing rs with
  | zero => simp [dot]
  | succ n ih =>
    cases rs with
    | nil => simp [dot_nil_right]
    | cons r rs => simp only [List.replicate_succ, dot]; rw [ih, hf]; ring

/-- a vector that is `v` at position `t` and zero elsewhere -/
def oneHot (t m : Nat) (v : Pair F) : List (Pair F) :=
  List.replicate t ⟨0, 0⟩ ++ [v] ++ List.replicate m ⟨0, 0⟩

theorem dot_oneHot (f : Pair F → F → F) (hf : ∀ r, f ⟨0, 0⟩ r = 0) (t m : Nat) (v : Pair F) (rs : List F)
    (h : t < rs.length) : dot f (oneHot t m v) rs = f v (rs.getD t 0) := by
  unfold oneHot
  rw [dot_append, dot_append, dot_zeros f hf, dot_zeros f hf]
  simp only [List.length_replicate, zero_add, add_zero]
  have : rs.drop t = rs.getD t 0 :: rs.drop (t + 1) := by
    rw [List.getD_eq_getElem _ _ h]
    exact List.drop_eq_getElem_cons h
  rw [this]
  simp [dot]

/-- the sum of the aggregators' round-two shares in terms of the summed offsets and sketch -/
theorem finish_sum [BEq F] (s : F × F × F) (a0 b0 a1 b1 : F) :
    finishSketch s a0 b0 true + finishSketch s a1 b1 false =
      (a0 + a1) * s.1 + (b0 + b1) + (s.1 * s.1 - s.2.1 - s.2.2) := by
  unfold finishSketch
  simp only [if_true, Bool.false_eq_true, if_false]
  ring

/-- **the sketch identity**: with offsets `a b c`, masks `A B`, and inner products `S0 S1 S2` of the
    summed shares, the round-two sum is a polynomial in the randomness with these coefficients -/
theorem sigma_identity (a b c A B S0 S1 S2 : F) :
    A * (a + S0) + B + ((a + S0) * (a + S0) - (b + S1) - (c + S2)) =
      S0 * S0 - S1 + (A + 2 * a) * S0 - S2 + (A * a + B + a * a - b - c) := by
  ring

/-- the client's correlated randomness (`compute_next_corr_shares`): the two mask shares add up to
    `A = -2a + auth` and `B = a² + b - a·auth + c` -/
theorem corr_consistent (ofNat : Nat → F) [BEq F] (fp : FieldP) (prng c0 c1 : Rng) (auth : F)
    (x0 x1 : F × F) (g g0 g1 : Rng)
    (h : nextCorrShares ofNat fp prng c0 c1 auth = some (x0, x1, g, g0, g1)) :
    ∃ a b c : F, x0.1 + x1.1 = -(1 + 1) * a + auth ∧ x0.2 + x1.2 = a * a + b - a * auth + c := by
  unfold nextCorrShares at h
  simp only [Option.bind_eq_bind, Option.bind_eq_some_iff, Option.pure_def, Option.some.injEq, Prod.mk.injEq,
    Prod.exists] at h
  obtain ⟨a0, _, _, a1, _, _, b0, _, _, b1, _, _, d0, _, _, d1, _, _, x, _, _, y, _, _, h1, h2, _⟩ := h
  refine ⟨ofNat a0 + ofNat a1, ofNat b0 + ofNat b1, ofNat d0 + ofNat d1, ?_, ?_⟩
  · rw [← h1, ← h2]; simp only; ring
  · rw [← h1, ← h2]; simp only; ring

end Prio.Poplar1
