import PrioProofs.Props.C19
import PrioProofs.NttDft

/-! # Prio2: the verification message is additive in the share

Every step of `generateVerificationMessage` (the layout of the points, the inverse NTT, Horner
evaluation) is a linear map of the share.  Linearity of the NTT loops is proved directly by
induction over the loops (`butterfly`, `jLoop`, `iLoop`, `lLoop`, the bit-reversal copy), with no
assumption on the table of roots. -/
namespace Prio.Prio2Linear
open Prio.Ntt Prio.Prio2 Prio

section arrays
variable {F : Type} [CommRing F]

/-- `c = a + b` entrywise, all three of the same size -/
def Lin (a b c : Array F) : Prop :=
  a.size = b.size ∧ c.size = a.size ∧ ∀ i, c.getD i 0 = a.getD i 0 + b.getD i 0

theorem Lin.set {a b c : Array F} (h : Lin a b c) (i : Nat) (u v : F) :
    Lin (a.setIfInBounds i u) (b.setIfInBounds i v) (c.setIfInBounds i (u + v)) := by
  obtain ⟨h1, h2, h3⟩ := h
  refine ⟨by simp [h1], by simp [h2], ?_⟩
  intro j
  rw [getD_set, getD_set, getD_set, h2, ← h1]
  by_cases hc : i = j ∧ i < a.size
  · rw [if_pos hc, if_pos hc, if_pos hc]
  · rw [if_neg hc, if_neg hc, if_neg hc, h3]

theorem Lin.set' {a b c : Array F} (h : Lin a b c) (i : Nat) (u v w : F) (hw : w = u + v) :
    Lin (a.setIfInBounds i u) (b.setIfInBounds i v) (c.setIfInBounds i w) := by
  subst hw; exact h.set i u v

theorem Lin.butterfly {a b c : Array F} (h : Lin a b c) (x y : Nat) (w : F) :
    Lin (butterfly a x y w) (butterfly b x y w) (butterfly c x y w) := by
  unfold Ntt.butterfly
  simp only
  refine (h.set' _ _ _ _ ?_).set' _ _ _ _ ?_
  · rw [h.2.2, h.2.2]; ring
  · rw [h.2.2, h.2.2]; ring

theorem Lin.jLoop (l y i : Nat) (w : F) :
    ∀ n j {a b c : Array F}, Lin a b c → Lin (jLoop l y i w n j a) (jLoop l y i w n j b) (jLoop l y i w n j c) := by
  intro n
  induction n with
  | zero => intro j a b c h; exact h
  | succ n ih => intro j a b c h; simp only [Ntt.jLoop]; exact ih (j + 1) (h.butterfly _ _ _)

theorem Lin.iLoop (l y chunk : Nat) (r : F) :
    ∀ n i (w : F) {a b c : Array F}, Lin a b c →
      Lin (iLoop l y chunk r n i w a) (iLoop l y chunk r n i w b) (iLoop l y chunk r n i w c) := by
  intro n
  induction n with
  | zero => intro i w a b c h; exact h
  | succ n ih => intro i w a b c h; simp only [Ntt.iLoop]; exact ih (i + 1) _ (Lin.jLoop _ _ _ _ _ _ h)

theorem Lin.lLoop (root : Nat → Option F) (size : Nat) (setS : Bool) :
    ∀ n l {a b c ra rb rc : Array F}, Lin a b c →
      lLoop root size setS n l a = some ra → lLoop root size setS n l b = some rb →
      lLoop root size setS n l c = some rc → Lin ra rb rc := by
  intro n
  induction n with
  | zero =>
    intro l a b c ra rb rc h ha hb hc
    simp only [Ntt.lLoop, Option.some.injEq] at ha hb hc
    subst ha hb hc; exact h
  | succ n ih =>
    intro l a b c ra rb rc h ha hb hc
    simp only [Ntt.lLoop] at ha hb hc
    generalize (if setS = true then root (l + 1) else some 1) = w0 at ha hb hc
    cases w0 with
    | none => simp at ha
    | some w =>
      cases hr : root l with
      | none => rw [hr] at ha; simp at ha
      | some r =>
        rw [hr] at ha hb hc
        simp only at ha hb hc
        exact ih (l + 1) (Lin.iLoop _ _ _ _ _ _ _ (Lin.jLoop _ _ _ _ _ _ h)) ha hb hc

theorem Lin.initFold (d : Nat) {ia ib ic : Array F} (hi : Lin ia ib ic) :
    ∀ n {oa ob oc : Array F}, Lin oa ob oc →
      Lin ((List.range n).foldl (fun (o : Array F) i =>
            o.setIfInBounds i (if bitrev d i < ia.size then ia.getD (bitrev d i) 0 else 0)) oa)
          ((List.range n).foldl (fun (o : Array F) i =>
            o.setIfInBounds i (if bitrev d i < ib.size then ib.getD (bitrev d i) 0 else 0)) ob)
          ((List.range n).foldl (fun (o : Array F) i =>
            o.setIfInBounds i (if bitrev d i < ic.size then ic.getD (bitrev d i) 0 else 0)) oc) := by
  intro n
  induction n with
  | zero => intro oa ob oc h; exact h
  | succ n ih =>
    intro oa ob oc h
    rw [List.range_succ, List.foldl_append, List.foldl_append, List.foldl_append]
    simp only [List.foldl_cons, List.foldl_nil]
    refine (ih h).set' _ _ _ _ ?_
    rw [getD_pad, getD_pad, getD_pad, hi.2.2]

theorem Lin.nttInternal (root : Nat → Option F) (outLen size : Nat) (setS : Bool)
    {oa ob oc ia ib ic ra rb rc : Array F} (ho : Lin oa ob oc) (hi : Lin ia ib ic)
    (ha : nttInternal root outLen oa ia size setS = .ok ra)
    (hb : nttInternal root outLen ob ib size setS = .ok rb)
    (hc : nttInternal root outLen oc ic size setS = .ok rc) : Lin ra rb rc := by
  unfold Ntt.nttInternal at ha hb hc
  by_cases h0 : size = 0
  · rw [if_pos h0] at ha; cases ha
  rw [if_neg h0] at ha hb hc
  simp only at ha hb hc
  by_cases h1 : size > outLen
  · rw [if_pos h1] at ha; cases ha
  rw [if_neg h1] at ha hb hc
  by_cases h2 : ((setS && decide (size > 2 ^ (maxRoots - 1))) || decide (size > 2 ^ maxRoots)) = true
  · rw [if_pos h2] at ha; cases ha
  rw [if_neg h2] at ha hb hc
  by_cases h3 : size ≠ 2 ^ log2ceil size
  · rw [if_pos h3] at ha; cases ha
  rw [if_neg h3] at ha hb hc
  -- the three initial arrays
  have finish : ∀ {a0 b0 c0 : Array F}, Lin a0 b0 c0 →
      (match Ntt.lLoop root size setS (log2ceil size) 1 a0 with
        | some r => R.ok r
        | none => R.panic) = R.ok ra →
      (match Ntt.lLoop root size setS (log2ceil size) 1 b0 with
        | some r => R.ok r
        | none => R.panic) = R.ok rb →
      (match Ntt.lLoop root size setS (log2ceil size) 1 c0 with
        | some r => R.ok r
        | none => R.panic) = R.ok rc → Lin ra rb rc := by
    intro a0 b0 c0 h ha hb hc
    cases hla : Ntt.lLoop root size setS (log2ceil size) 1 a0 with
    | none => rw [hla] at ha; cases ha
    | some xa =>
      cases hlb : Ntt.lLoop root size setS (log2ceil size) 1 b0 with
      | none => rw [hlb] at hb; cases hb
      | some xb =>
        cases hlc : Ntt.lLoop root size setS (log2ceil size) 1 c0 with
        | none => rw [hlc] at hc; cases hc
        | some xc =>
          rw [hla] at ha; rw [hlb] at hb; rw [hlc] at hc
          simp only [R.ok.injEq] at ha hb hc
          subst ha hb hc
          exact Lin.lLoop root size setS _ 1 h hla hlb hlc
  by_cases hd : log2ceil size > 0
  · rw [if_pos hd] at ha hb hc
    simp only at ha hb hc
    exact finish (Lin.initFold _ hi _ ho) ha hb hc
  · rw [if_neg hd] at ha hb hc
    by_cases hz : ia.size = 0
    · rw [if_pos hz] at ha; cases ha
    have hzb : ¬ ib.size = 0 := by rw [← hi.1]; exact hz
    have hzc : ¬ ic.size = 0 := by rw [hi.2.1]; exact hz
    rw [if_neg hz] at ha; rw [if_neg hzb] at hb; rw [if_neg hzc] at hc
    simp only at ha hb hc
    exact finish (ho.set' _ _ _ _ (hi.2.2 0)) ha hb hc

theorem Lin.nttInvFinish {a b c : Array F} (h : Lin a b c) (size : Nat) (s : F) :
    Lin (nttInvFinish a size s) (nttInvFinish b size s) (nttInvFinish c size s) := by
  unfold Ntt.nttInvFinish
  simp only
  have h1 : Lin (a.setIfInBounds 0 (a.getD 0 0 * s)) (b.setIfInBounds 0 (b.getD 0 0 * s))
      (c.setIfInBounds 0 (c.getD 0 0 * s)) := h.set' _ _ _ _ (by rw [h.2.2]; ring)
  generalize a.setIfInBounds 0 (a.getD 0 0 * s) = a1 at h1 ⊢
  generalize b.setIfInBounds 0 (b.getD 0 0 * s) = b1 at h1 ⊢
  generalize c.setIfInBounds 0 (c.getD 0 0 * s) = c1 at h1 ⊢
  have h2 : Lin (a1.setIfInBounds (size / 2) (a1.getD (size / 2) 0 * s))
      (b1.setIfInBounds (size / 2) (b1.getD (size / 2) 0 * s))
      (c1.setIfInBounds (size / 2) (c1.getD (size / 2) 0 * s)) := h1.set' _ _ _ _ (by rw [h1.2.2]; ring)
  generalize a1.setIfInBounds (size / 2) (a1.getD (size / 2) 0 * s) = a2 at h2 ⊢
  generalize b1.setIfInBounds (size / 2) (b1.getD (size / 2) 0 * s) = b2 at h2 ⊢
  generalize c1.setIfInBounds (size / 2) (c1.getD (size / 2) 0 * s) = c2 at h2 ⊢
  generalize size / 2 - 1 = m
  induction m with
  | zero => exact h2
  | succ m ih =>
    rw [List.range_succ, List.foldl_append, List.foldl_append, List.foldl_append]
    simp only [List.foldl_cons, List.foldl_nil]
    refine (ih.set' _ _ _ _ ?_).set' _ _ _ _ ?_
    · rw [ih.2.2]; ring
    · rw [ih.2.2]; ring

theorem Lin.replicate (n : Nat) : Lin (Array.replicate n (0 : F)) (Array.replicate n 0) (Array.replicate n 0) := by
  refine ⟨rfl, rfl, ?_⟩
  intro i
  simp [Array.getD_eq_getD_getElem?, Array.getElem?_replicate]
  split <;> simp

end arrays

/-! ## lists: the layout of the points -/

section lists
variable {F : Type} [CommRing F]

/-- `lc = la + lb` entrywise, `la` and `lb` of the same length -/
def LinL (la lb lc : List F) : Prop :=
  la.length = lb.length ∧ lc = List.zipWith (· + ·) la lb

theorem LinL.length {la lb lc : List F} (h : LinL la lb lc) : lc.length = la.length := by
  rw [h.2, List.length_zipWith, ← h.1, Nat.min_self]

theorem LinL.take {la lb lc : List F} (h : LinL la lb lc) (n : Nat) :
    LinL (la.take n) (lb.take n) (lc.take n) := by
  refine ⟨by rw [List.length_take, List.length_take, h.1], ?_⟩
  rw [h.2, List.take_zipWith]

theorem LinL.drop {la lb lc : List F} (h : LinL la lb lc) (n : Nat) :
    LinL (la.drop n) (lb.drop n) (lc.drop n) := by
  refine ⟨by rw [List.length_drop, List.length_drop, h.1], ?_⟩
  rw [h.2, List.drop_zipWith]

theorem LinL.cons {la lb lc : List F} (h : LinL la lb lc) (u v w : F) (hw : w = u + v) :
    LinL (u :: la) (v :: lb) (w :: lc) := by
  refine ⟨by simp [h.1], ?_⟩
  rw [h.2, hw, List.zipWith_cons_cons]

theorem zipWith_getD : ∀ (la lb : List F) (k : Nat), la.length = lb.length →
    (List.zipWith (· + ·) la lb).getD k 0 = la.getD k 0 + lb.getD k 0 := by
  intro la
  induction la with
  | nil =>
    intro lb k h
    cases lb with
    | nil => simp
    | cons b s => simp at h
  | cons a r ih =>
    intro lb k h
    cases lb with
    | nil => simp at h
    | cons b s =>
      cases k with
      | zero => simp
      | succ k =>
        have := ih s k (by simpa using h)
        simpa using this

theorem LinL.getD {la lb lc : List F} (h : LinL la lb lc) (k : Nat) :
    lc.getD k 0 = la.getD k 0 + lb.getD k 0 := by
  rw [h.2]; exact zipWith_getD la lb k h.1

theorem LinL.map_sub_one {la lb lc : List F} (h : LinL la lb lc) :
    LinL (la.map (· - 1)) lb (lc.map (· - 1)) := by
  obtain ⟨h1, h2⟩ := h
  subst h2
  refine ⟨by simp [h1], ?_⟩
  clear h1
  induction la generalizing lb with
  | nil => simp
  | cons a r ih =>
    cases lb with
    | nil => simp
    | cons b s =>
      simp only [List.zipWith_cons_cons, List.map_cons, List.cons.injEq]
      exact ⟨by ring, ih⟩

theorem flatMap_zipWith : ∀ (la lb : List F), la.length = lb.length →
    (List.zipWith (· + ·) la lb).flatMap (fun x => [(0 : F), x]) =
      List.zipWith (· + ·) (la.flatMap fun x => [(0 : F), x]) (lb.flatMap fun x => [(0 : F), x]) ∧
    (la.flatMap fun x => [(0 : F), x]).length = (lb.flatMap fun x => [(0 : F), x]).length := by
  intro la
  induction la with
  | nil =>
    intro lb h
    cases lb with
    | nil => simp
    | cons b s => simp at h
  | cons a r ih =>
    intro lb h
    cases lb with
    | nil => simp at h
    | cons b s =>
      obtain ⟨e1, e2⟩ := ih s (by simpa using h)
      simp only [List.zipWith_cons_cons, List.flatMap_cons, List.cons_append, List.nil_append,
        List.length_cons, e1, e2, add_zero, and_self]

theorem LinL.hPoints {pa pb pc : List F} (h : LinL pa pb pc) (u v w : F) (hw : w = u + v) :
    LinL (hPoints u pa) (hPoints v pb) (hPoints w pc) := by
  obtain ⟨h1, h2⟩ := h
  subst h2 hw
  cases pa with
  | nil =>
    cases pb with
    | nil => exact ⟨rfl, rfl⟩
    | cons b s => simp at h1
  | cons a r =>
    cases pb with
    | nil => simp at h1
    | cons b s =>
      obtain ⟨e1, e2⟩ := flatMap_zipWith r s (by simpa using h1)
      simp only [Prio2.hPoints, List.zipWith_cons_cons]
      refine ⟨by simp [e2], ?_⟩
      rw [e1, List.zipWith_cons_cons, List.zipWith_cons_cons]

theorem padTo_length (n : Nat) (l : List F) : (padTo n l).length = l.length + (n - l.length) := by
  simp [padTo]

theorem padTo_getD (n : Nat) (l : List F) (i : Nat) : (padTo n l).toArray.getD i 0 = l.getD i 0 := by
  simp only [Array.getD_eq_getD_getElem?, List.getElem?_toArray, List.getD_eq_getElem?_getD, padTo,
    List.getElem?_append, List.getElem?_replicate]
  by_cases h : i < l.length
  · rw [if_pos h]
  · rw [if_neg h, List.getElem?_eq_none (by omega)]
    split <;> rfl

theorem LinL.padTo {la lb lc : List F} (h : LinL la lb lc) (n : Nat) :
    Lin (padTo n la).toArray (padTo n lb).toArray (padTo n lc).toArray := by
  refine ⟨?_, ?_, ?_⟩
  · simp only [List.size_toArray, padTo_length, h.1]
  · simp only [List.size_toArray, padTo_length, h.length]
  · intro i
    rw [padTo_getD, padTo_getD, padTo_getD, h.getD]

end lists

/-! ## Horner evaluation and `poly_interpret_eval` -/

section eval
variable {F : Type} [CommRing F]

theorem polyEvalMonomial_eq_foldr (l : List F) (x : F) :
    polyEvalMonomial l x = l.foldr (fun c acc => acc * x + c) 0 := by
  unfold polyEvalMonomial
  have : l.foldr (fun c acc => acc * x + c) 0 = l.reverse.foldl (fun acc c => acc * x + c) 0 := by
    rw [List.foldl_reverse]
  rw [this]
  cases l.reverse with
  | nil => rfl
  | cons top rest => simp

theorem foldr_zipWith (x : F) : ∀ (la lb : List F), la.length = lb.length →
    (List.zipWith (· + ·) la lb).foldr (fun c acc => acc * x + c) 0 =
      la.foldr (fun c acc => acc * x + c) 0 + lb.foldr (fun c acc => acc * x + c) 0 := by
  intro la
  induction la with
  | nil =>
    intro lb h
    cases lb with
    | nil => simp
    | cons b s => simp at h
  | cons a r ih =>
    intro lb h
    cases lb with
    | nil => simp at h
    | cons b s =>
      simp only [List.zipWith_cons_cons, List.foldr_cons]
      rw [ih s (by simpa using h)]
      ring

theorem LinL.polyEval {la lb lc : List F} (h : LinL la lb lc) (x : F) :
    polyEvalMonomial lc x = polyEvalMonomial la x + polyEvalMonomial lb x := by
  rw [polyEvalMonomial_eq_foldr, polyEvalMonomial_eq_foldr, polyEvalMonomial_eq_foldr, h.2,
    foldr_zipWith x la lb h.1]

theorem Lin.toList {a b c : Array F} (h : Lin a b c) : LinL a.toList b.toList c.toList := by
  obtain ⟨h1, h2, h3⟩ := h
  refine ⟨by simp [h1], ?_⟩
  apply List.ext_getElem
  · simp [h1, h2]
  · intro i hi1 hi2
    simp only [Array.length_toList] at hi1
    have := h3 i
    simp only [Array.getD_eq_getD_getElem?] at this
    rw [Array.getElem?_eq_getElem hi1, Array.getElem?_eq_getElem (by omega),
      Array.getElem?_eq_getElem (by omega)] at this
    simpa using this

end eval

section top
variable {F : Type} [Field F]

/-- `poly_interpret_eval` is additive in the points -/
theorem polyInterpretEval_add (C : Flp.FieldCtx F) {pa pb pc : Array F} (h : Lin pa pb pc) (x : F) {u v w : F}
    (ha : polyInterpretEval C pa x = some u) (hb : polyInterpretEval C pb x = some v)
    (hc : polyInterpretEval C pc x = some w) : w = u + v := by
  unfold polyInterpretEval at ha hb hc
  simp only at ha hb hc
  rw [h.2.1] at hc
  rw [← h.1] at hb
  cases ea : nttInternal C.root pa.size (Array.replicate pa.size 0) pa pa.size false with
  | err e => rw [ea] at ha; cases ha
  | panic => rw [ea] at ha; cases ha
  | ok ca =>
    cases eb : nttInternal C.root pa.size (Array.replicate pa.size 0) pb pa.size false with
    | err e => rw [eb] at hb; cases hb
    | panic => rw [eb] at hb; cases hb
    | ok cb =>
      cases ec : nttInternal C.root pa.size (Array.replicate pa.size 0) pc pa.size false with
      | err e => rw [ec] at hc; cases hc
      | panic => rw [ec] at hc; cases hc
      | ok cc =>
        rw [ea] at ha; rw [eb] at hb; rw [ec] at hc
        simp only [Option.some.injEq] at ha hb hc
        have hl := Lin.nttInternal C.root pa.size pa.size false (Lin.replicate pa.size) h ea eb ec
        have := (((hl.nttInvFinish pa.size (C.ofNat pa.size)⁻¹).toList).take pa.size).polyEval x
        rw [← ha, ← hb, ← hc]
        exact this

/-- what a successful `generateVerificationMessage` computed -/
theorem gvm_ok (C : Flp.FieldCtx F) (dim : Nat) (r : F) (proof : List F) (isFirst : Bool)
    (v : VerificationMessage F) (h : generateVerificationMessage C dim r proof isFirst = .ok v) :
    proof.length = proofLength dim ∧
    polyInterpretEval C (padTo (Flp.nextPow2 (dim + 1)) (proof.getD dim 0 :: proof.take dim)).toArray r = some v.fR ∧
    polyInterpretEval C (padTo (Flp.nextPow2 (dim + 1))
      (proof.getD (dim + 1) 0 :: (if isFirst then (proof.take dim).map (· - 1) else proof.take dim))).toArray r = some v.gR ∧
    polyInterpretEval C (padTo (2 * Flp.nextPow2 (dim + 1))
      (hPoints (proof.getD (dim + 2) 0) (proof.drop (dim + 3)))).toArray r = some v.hR := by
  unfold generateVerificationMessage at h
  split at h
  · cases h
  · rename_i hl
    simp only at h
    split at h
    · rename_i f g hh e1 e2 e3
      cases h
      exact ⟨by simpa using hl, e1, e2, e3⟩
    · cases h

/-- the common core: additivity given that the lists fed to `g` add up -/
theorem vmsg_core (C : Flp.FieldCtx F) (dim : Nat) (r : F) (a b ab : List F) (fa fb fab : Bool)
    (va vb vab : VerificationMessage F) (hab : LinL a b ab)
    (hG : LinL (if fa then (a.take dim).map (· - 1) else a.take dim)
               (if fb then (b.take dim).map (· - 1) else b.take dim)
               (if fab then (ab.take dim).map (· - 1) else ab.take dim))
    (ha : generateVerificationMessage C dim r a fa = .ok va)
    (hb : generateVerificationMessage C dim r b fb = .ok vb)
    (hc : generateVerificationMessage C dim r ab fab = .ok vab) :
    vab.fR = va.fR + vb.fR ∧ vab.gR = va.gR + vb.gR ∧ vab.hR = va.hR + vb.hR := by
  obtain ⟨_, fa1, ga1, ha1⟩ := gvm_ok C dim r a fa va ha
  obtain ⟨_, fb1, gb1, hb1⟩ := gvm_ok C dim r b fb vb hb
  obtain ⟨_, fc1, gc1, hc1⟩ := gvm_ok C dim r ab fab vab hc
  refine ⟨?_, ?_, ?_⟩
  · exact polyInterpretEval_add C (((hab.take dim).cons _ _ _ (hab.getD dim)).padTo _) r fa1 fb1 fc1
  · exact polyInterpretEval_add C ((hG.cons _ _ _ (hab.getD (dim + 1))).padTo _) r ga1 gb1 gc1
  · exact polyInterpretEval_add C (((hab.drop (dim + 3)).hPoints _ _ _ (hab.getD (dim + 2))).padTo _) r ha1 hb1 hc1

end top

/-- **the verification message is additive in the share** (both computed as a non-first server) -/
theorem vmsg_additive : Props.C19.vmsg_additive_statement := by
  intro F _ _ _ C dim r a b va vb vab hlen ha hb hc
  have hab : LinL a b (List.zipWith (· + ·) a b) := ⟨hlen, rfl⟩
  exact vmsg_core C dim r a b _ false false false va vb vab hab (by simpa using hab.take dim) ha hb hc

/-- the first server's variant: the constant `-1` on the data wires of `g` is contributed once, by
    the share evaluated with `isFirst = true` -/
theorem vmsg_additive_first {F : Type} [Field F] [BEq F] [LawfulBEq F] (C : Flp.FieldCtx F) (dim : Nat) (r : F)
    (a b : List F) (va vb vab : VerificationMessage F) (hlen : a.length = b.length)
    (ha : generateVerificationMessage C dim r a true = .ok va)
    (hb : generateVerificationMessage C dim r b false = .ok vb)
    (hc : generateVerificationMessage C dim r (List.zipWith (· + ·) a b) true = .ok vab) :
    vab.fR = va.fR + vb.fR ∧ vab.gR = va.gR + vb.gR ∧ vab.hR = va.hR + vb.hR := by
  have hab : LinL a b (List.zipWith (· + ·) a b) := ⟨hlen, rfl⟩
  exact vmsg_core C dim r a b _ true false true va vb vab hab (by simpa using (hab.take dim).map_sub_one) ha hb hc

end Prio.Prio2Linear

-- #print axioms Prio.Prio2Linear.vmsg_additive
-- #print axioms Prio.Prio2Linear.vmsg_additive_first
