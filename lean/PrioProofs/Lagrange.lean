import PrioProofs.NttDft
import Mathlib.LinearAlgebra.Lagrange
import Mathlib.RingTheory.RootsOfUnity.PrimitiveRoots
import Mathlib.GroupTheory.OrderOfElement
import Mathlib.Tactic.LinearCombination
import Mathlib.Tactic.FieldSimp

/-! The table of root powers (`nth_root_powers`) and the division-free Lagrange evaluation
(`poly_eval_lagrange_batched`) of `src/polynomial.rs`. -/
namespace Prio.Ntt
open Finset BigOperators

/-! ## Part 2: `inv_pow2` -/
section InvPow2
variable {F : Type} [Field F]

theorem invPow2_eq_pow (half : F) (k : Nat) : invPow2 half k = half ^ k := by
  unfold invPow2
  induction k with
  | zero => simp
  | succ k ih => rw [List.range_succ, List.foldl_append, ih]; simp [pow_succ]

theorem invPow2_eq_inv (half : F) (hh : half * 2 = 1) (k : Nat) : invPow2 half k = ((2 : F) ^ k)⁻¹ := by
  rw [invPow2_eq_pow]
  have : half = (2 : F)⁻¹ := eq_inv_of_mul_eq_one_left hh
  rw [this, inv_pow]

end InvPow2

/-! ## Part 3: the Lagrange evaluation loop -/
section Loop
variable {F : Type} [CommRing F]

/-- the algebraic step of the loop on the accumulated sum -/
theorem lag_sum_step (a g : Nat → F) (c : Nat) :
    ∑ m ∈ range (c + 2), a m * ∏ j ∈ (range (c + 2)).erase m, g j =
      (∑ m ∈ range (c + 1), a m * ∏ j ∈ (range (c + 1)).erase m, g j) * g (c + 1) +
        (∏ j ∈ range (c + 1), g j) * a (c + 1) := by
  rw [Finset.sum_range_succ _ (c + 1), Finset.sum_mul]
  congr 1
  · refine Finset.sum_congr rfl fun m hm => ?_
    have hm' : m < c + 1 := Finset.mem_range.mp hm
    have e : (range (c + 1 + 1)).erase m = insert (c + 1) ((range (c + 1)).erase m) := by
      rw [Finset.range_add_one (n := c + 1), Finset.erase_insert_of_ne (by omega)]
    rw [e, Finset.prod_insert (by simp)]
    ring
  · have e : (range (c + 1 + 1)).erase (c + 1) = range (c + 1) := by
      rw [Finset.range_add_one (n := c + 1), Finset.erase_insert (by simp)]
    rw [e]; ring

theorem getD_pad_add (ys : Array F) (i : Nat) (u t : F) :
    (if i < ys.size then u + t * ys.getD i 0 else u) = u + t * ys.getD i 0 := by
  by_cases h : i < ys.size
  · rw [if_pos h]
  · rw [if_neg h, Array.getD_eq_getD_getElem?, Array.getElem?_eq_none (by omega)]; simp

/-- the loop of `poly_eval_lagrange_batched` after `c` iterations -/
theorem lag_loop (roots ys : Array F) (x w : F) (n : Nat) (hroots : ∀ j, j < n → roots.getD j 0 = w ^ j) :
    ∀ c, c + 1 ≤ n →
      (List.range c).foldl (fun (st : F × F × F) k =>
        let i := k + 1
        let (l, d, u) := st
        let wn := roots.getD i 0
        let l := l * d
        let d := wn - x
        let t := l * wn
        let u := u * d
        let u := if i < ys.size then u + t * ys.getD i 0 else u
        (l, d, u)) ((1 : F), roots.getD 0 0 - x, ys.getD 0 0) =
      (∏ j ∈ range c, (w ^ j - x), w ^ c - x,
        ∑ m ∈ range (c + 1), (ys.getD m 0 * w ^ m) * ∏ j ∈ (range (c + 1)).erase m, (w ^ j - x)) := by
  intro c
  induction c with
  | zero =>
    intro h0
    simp [hroots 0 (by omega)]
  | succ c ih =>
    intro hc
    rw [List.range_succ, List.foldl_append, ih (by omega)]
    simp only [List.foldl_cons, List.foldl_nil]
    rw [getD_pad_add, hroots (c + 1) (by omega), lag_sum_step, Finset.prod_range_succ]
    refine Prod.ext rfl (Prod.ext rfl ?_)
    simp only
    ring

end Loop

/-! ## Part 3: the interpolation identity -/
section Interp
variable {F : Type} [Field F]
open Polynomial

theorem isPrimitiveRoot_of_roots {ω : Nat → F} {k : Nat} (h : Roots ω k) (hk : 1 ≤ k) (h2 : (2 : F) ≠ 0) :
    IsPrimitiveRoot (ω k) (2 ^ k) := by
  rw [IsPrimitiveRoot.iff_orderOf]
  obtain ⟨k', rfl⟩ : ∃ k', k = k' + 1 := ⟨k - 1, by omega⟩
  have : Fact (Nat.Prime 2) := ⟨Nat.prime_two⟩
  apply orderOf_eq_prime_pow
  · have e := h.pow_half (k' + 1) (by omega) le_rfl
    simp only [Nat.add_sub_cancel] at e
    rw [e]
    intro h'
    apply h2
    linear_combination (-1 : F) * h'
  · exact h.pow_full (by omega) _ le_rfl

theorem nodal_roots {w : F} {n : Nat} (hw : IsPrimitiveRoot w n) (hn : 0 < n) :
    Lagrange.nodal (range n) (fun j => w ^ j) = X ^ n - 1 := by
  have h : degree (1 : F[X]) < degree ((X : F[X]) ^ n) := by simp [hn]
  apply eq_of_degree_le_of_eval_index_eq (v := fun j => w ^ j) (range n)
  · intro i hi j hj hij
    exact hw.pow_inj (by simpa using hi) (by simpa using hj) hij
  · simp [Lagrange.degree_nodal]
  · rw [degree_sub_eq_left_of_degree_lt h, Lagrange.degree_nodal, card_range, degree_pow, degree_X,
      nsmul_eq_mul, mul_one]
  · rw [Lagrange.nodal_monic, leadingCoeff_sub_of_degree_lt h, monic_X_pow]
  · intro i hi
    rw [Lagrange.eval_nodal_at_node hi]
    simp only [eval_sub, eval_pow, eval_X, eval_one]
    rw [← pow_mul, mul_comm, pow_mul, hw.pow_eq_one, one_pow, sub_self]

theorem prod_erase_node {w : F} {n : Nat} (hw : IsPrimitiveRoot w n) (hn : 0 < n) (m : Nat) (hm : m < n) :
    w ^ m * ∏ j ∈ (range n).erase m, (w ^ m - w ^ j) = (n : F) := by
  have e := Lagrange.eval_nodal_derivative_eval_node_eq (v := fun j => w ^ j) (s := range n) (i := m)
    (mem_range.mpr hm)
  rw [nodal_roots hw hn, Lagrange.eval_nodal] at e
  simp only [derivative_sub, derivative_X_pow, derivative_one, sub_zero, eval_mul, eval_C, eval_pow, eval_X] at e
  rw [← e]
  have e2 : w ^ m * (w ^ m) ^ (n - 1) = 1 := by
    rw [← pow_succ', Nat.sub_add_cancel hn, ← pow_mul, mul_comm, pow_mul, hw.pow_eq_one, one_pow]
  linear_combination (n : F) * e2

theorem lagrange_closed_form {w : F} {n : Nat} (hw : IsPrimitiveRoot w n) (hn : 0 < n) (hnF : (n : F) ≠ 0)
    (coef y : Nat → F) (hv : ∀ i, i < n → y i = ∑ t ∈ range n, coef t * (w ^ i) ^ t) (x : F) :
    ∑ t ∈ range n, coef t * x ^ t =
      (∑ m ∈ range n, (y m * w ^ m) * ∏ j ∈ (range n).erase m, (w ^ j - x)) * ((-1) ^ (n - 1) * (n : F)⁻¹) := by
  set P : F[X] := ∑ t ∈ range n, C (coef t) * X ^ t with hP
  have hvs : Set.InjOn (fun j => w ^ j) (range n : Set Nat) := by
    intro i hi j hj hij
    exact hw.pow_inj (by simpa using hi) (by simpa using hj) hij
  have hev : ∀ z : F, eval z P = ∑ t ∈ range n, coef t * z ^ t := by
    intro z
    rw [hP, eval_finsetSum]
    simp
  have hdeg : P.degree < (#(range n) : WithBot Nat) := by
    rw [card_range]
    refine lt_of_le_of_lt (degree_sum_le _ _) ?_
    refine (Finset.sup_lt_iff (WithBot.bot_lt_coe n)).mpr ?_
    intro t ht
    exact lt_of_le_of_lt (degree_C_mul_X_pow_le t _) (WithBot.coe_lt_coe.mpr (mem_range.mp ht))
  have hint := Lagrange.eq_interpolate_of_eval_eq (r := y) hvs hdeg
    (fun i hi => by rw [hev]; exact (hv i (mem_range.mp hi)).symm)
  rw [← hev x, hint, Lagrange.interpolate_apply, eval_finsetSum, Finset.sum_mul]
  refine Finset.sum_congr rfl fun m hm => ?_
  have hm' := mem_range.mp hm
  have hb : eval x (Lagrange.basis (range n) (fun j => w ^ j) m) =
      ∏ j ∈ (range n).erase m, ((w ^ m - w ^ j)⁻¹ * (x - w ^ j)) := by
    simp [Lagrange.basis, Lagrange.basisDivisor, eval_prod]
  rw [eval_mul, eval_C, hb, Finset.prod_mul_distrib, Finset.prod_inv_distrib]
  have e1 : ∏ j ∈ (range n).erase m, (x - w ^ j) = (-1) ^ (n - 1) * ∏ j ∈ (range n).erase m, (w ^ j - x) := by
    have : ∀ j ∈ (range n).erase m, (x - w ^ j) = (-1) * (w ^ j - x) := fun j _ => by ring
    rw [Finset.prod_congr rfl this, Finset.prod_mul_distrib, Finset.prod_const, Finset.card_erase_of_mem hm,
      card_range]
  have e2 := prod_erase_node hw hn m hm'
  have hA : (∏ j ∈ (range n).erase m, (w ^ m - w ^ j))⁻¹ = w ^ m * (n : F)⁻¹ := by
    rw [← e2]
    have hne : ∏ j ∈ (range n).erase m, (w ^ m - w ^ j) ≠ 0 := by
      intro h0; rw [h0, mul_zero] at e2; exact hnF e2.symm
    have hwm : w ^ m ≠ 0 := by
      intro h0; rw [h0, zero_mul] at e2; exact hnF e2.symm
    field_simp
  rw [e1, hA]
  ring

/-- **`poly_eval_lagrange_batched` evaluates the interpolating polynomial**, at every `x`
    (nodes included: the routine is division-free) -/
theorem polyEvalLagrange_spec {ω : Nat → F} (k : Nat) (h : Roots ω k) (h2 : (2 : F) ≠ 0)
    (roots : Array F) (hsz : roots.size = 2 ^ k) (hroots : ∀ j, j < 2 ^ k → roots.getD j 0 = ω k ^ j)
    (half : F) (hh : half * 2 = 1) (coef : Nat → F) (ys : Array F) (hys : ys.size ≤ 2 ^ k)
    (hv : ∀ i, i < 2 ^ k → (if i < ys.size then ys.getD i 0 else 0) = ∑ t ∈ range (2 ^ k), coef t * (ω k ^ i) ^ t)
    (x : F) :
    polyEvalLagrange roots half k ys x = ∑ t ∈ range (2 ^ k), coef t * x ^ t := by
  have hv' : ∀ i, i < 2 ^ k → ys.getD i 0 = ∑ t ∈ range (2 ^ k), coef t * (ω k ^ i) ^ t := by
    intro i hi; rw [← hv i hi, getD_pad]
  unfold polyEvalLagrange
  simp only [hsz]
  by_cases hk : k = 0
  · subst hk
    have e := hv' 0 (by simp)
    simp only [pow_zero, Finset.range_one, Finset.sum_singleton, mul_one] at e
    simp [invPow2, e]
  · have hk1 : 1 ≤ k := by omega
    obtain ⟨c, hc⟩ : ∃ c, 2 ^ k = c + 1 := ⟨2 ^ k - 1, by have := Nat.one_le_two_pow (n := k); omega⟩
    have hc1 : 1 ≤ c := by
      have : 2 ^ 1 ≤ 2 ^ k := Nat.pow_le_pow_right (by norm_num) hk1
      omega
    have hgt : 2 ^ k > 1 := by omega
    have hloop := lag_loop roots ys x (ω k) (2 ^ k) hroots c (by omega)
    have hcc : 2 ^ k - 1 = c := by omega
    rw [hcc, hloop]
    simp only [if_pos hgt]
    have hw := isPrimitiveRoot_of_roots h hk1 h2
    have hnF : ((2 ^ k : Nat) : F) ≠ 0 := by
      push_cast; exact pow_ne_zero _ h2
    rw [lagrange_closed_form hw (by omega) hnF coef (fun i => ys.getD i 0) hv' x, ← hc, invPow2_eq_inv half hh]
    congr 1
    have hs : (-1 : F) ^ (2 ^ k - 1) = -1 := by
      rw [hcc]
      have : Odd c := by
        have he : Even (2 ^ k) := (Nat.even_pow' (by omega)).mpr (by norm_num)
        rw [hc] at he
        exact (Nat.even_add_one.mp he) |> Nat.not_even_iff_odd.mp
      exact this.neg_one_pow
    rw [hs]
    push_cast
    ring

end Interp

/-! ## Part 1: the table of root powers -/
section Table
variable {F : Type} [CommRing F]

/-- `roots[j << 1] = roots[j]` for `j = mid - 1 - t` -/
def copyStep (mid : Nat) (r : Array F) (t : Nat) : Array F :=
  let j := mid - 1 - t
  r.setIfInBounds (2 * j) (r.getD j 0)

/-- body of `for j in (3..mid).step_by(2)` -/
def oddStep (mid : Nat) (wn : F) (r : Array F) (t : Nat) : Array F :=
  let j := 3 + 2 * t
  if j < mid then
    let v := wn * r.getD (j - 1) 0
    (r.setIfInBounds j v).setIfInBounds (j + mid) (-v)
  else r

/-- one stage of the outer loop of `nth_root_powers` -/
def stage (root : Nat → Option F) (roots : Array F) (k : Nat) : Option (Array F) :=
  let i := k + 2
  let mid := 2 ^ (i - 1)
  let roots := (List.range (mid - 1)).foldl (copyStep mid) roots
  match root i with
  | none => none
  | some wn =>
    let roots := (roots.setIfInBounds 1 wn).setIfInBounds (1 + mid) (-wn)
    some ((List.range ((mid - 3 + 1) / 2)).foldl (oddStep mid wn) roots)

theorem nthRootPowers_eq (root : Nat → Option F) (k : Nat) :
    nthRootPowers root k =
      if 2 ^ k ≤ 1 then some ((Array.replicate (2 ^ k) (0 : F)).setIfInBounds 0 1)
      else (List.range (k - 1)).foldlM (stage root)
        (((Array.replicate (2 ^ k) (0 : F)).setIfInBounds 0 1).setIfInBounds 1 (-1)) := rfl

theorem copy_spec (mid : Nat) (a : Array F) (hsz : 2 * mid ≤ a.size) : ∀ t, t + 1 ≤ mid →
    ((List.range t).foldl (copyStep mid) a).size = a.size ∧
      ∀ p, ((List.range t).foldl (copyStep mid) a).getD p 0 =
        if p % 2 = 0 ∧ mid - t ≤ p / 2 ∧ p / 2 < mid then a.getD (p / 2) 0 else a.getD p 0 := by
  intro t
  induction t with
  | zero =>
    intro _
    refine ⟨rfl, fun p => ?_⟩
    rw [if_neg (by omega)]; rfl
  | succ t ih =>
    intro ht
    obtain ⟨ihs, ihv⟩ := ih (by omega)
    rw [List.range_succ, List.foldl_append]
    simp only [List.foldl_cons, List.foldl_nil]
    generalize (List.range t).foldl (copyStep mid) a = r at *
    unfold copyStep
    simp only
    refine ⟨by rw [Array.size_setIfInBounds, ihs], fun p => ?_⟩
    rw [getD_set, ihv (mid - 1 - t), ihs, ihv p]
    have hj : ¬ ((mid - 1 - t) % 2 = 0 ∧ mid - t ≤ (mid - 1 - t) / 2 ∧ (mid - 1 - t) / 2 < mid) := by omega
    rw [if_neg hj]
    by_cases hp : 2 * (mid - 1 - t) = p
    · rw [if_pos ⟨hp, by omega⟩, if_pos (by omega)]
      congr 1; omega
    · rw [if_neg (fun hh => hp hh.1)]
      by_cases c : p % 2 = 0 ∧ mid - t ≤ p / 2 ∧ p / 2 < mid
      · rw [if_pos c, if_pos (by omega)]
      · rw [if_neg c, if_neg (by omega)]

theorem odd_spec (mid h : Nat) (hmid : mid = 2 * h) (wn : F) (hw : wn ^ mid = -1) (a : Array F)
    (hsz : 2 * mid ≤ a.size)
    (h0 : ∀ p, p < 2 * mid → (p % 2 = 0 ∨ p < 3 ∨ (mid ≤ p ∧ p < mid + 3)) → a.getD p 0 = wn ^ p) :
    ∀ T, ((List.range T).foldl (oddStep mid wn) a).size = a.size ∧
      ∀ p, p < 2 * mid → (p % 2 = 0 ∨ p < 3 + 2 * T ∨ (mid ≤ p ∧ p < mid + 3 + 2 * T)) →
        ((List.range T).foldl (oddStep mid wn) a).getD p 0 = wn ^ p := by
  intro T
  induction T with
  | zero => exact ⟨rfl, fun p hp hc => h0 p hp (by omega)⟩
  | succ T ih =>
    obtain ⟨ihs, ihv⟩ := ih
    rw [List.range_succ, List.foldl_append]
    simp only [List.foldl_cons, List.foldl_nil]
    generalize (List.range T).foldl (oddStep mid wn) a = r at *
    unfold oddStep
    simp only
    by_cases hj : 3 + 2 * T < mid
    · rw [if_pos hj]
      refine ⟨by rw [Array.size_setIfInBounds, Array.size_setIfInBounds, ihs], fun p hp hc => ?_⟩
      have hv : wn * r.getD (3 + 2 * T - 1) 0 = wn ^ (3 + 2 * T) := by
        rw [ihv (3 + 2 * T - 1) (by omega) (by omega)]
        have : 3 + 2 * T = (3 + 2 * T - 1) + 1 := by omega
        conv_rhs => rw [this, pow_succ']
      rw [getD_set, getD_set, Array.size_setIfInBounds, ihs, hv]
      by_cases c1 : 3 + 2 * T + mid = p
      · rw [if_pos ⟨c1, by omega⟩, ← c1, pow_add _ (3 + 2 * T) mid, hw]; ring
      · rw [if_neg (fun hh => c1 hh.1)]
        by_cases c2 : 3 + 2 * T = p
        · rw [if_pos ⟨c2, by omega⟩, c2]
        · rw [if_neg (fun hh => c2 hh.1)]
          exact ihv p hp (by omega)
    · rw [if_neg hj]
      exact ⟨ihs, fun p hp hc => ihv p hp (by omega)⟩

theorem stage_spec {ω : Nat → F} (root : Nat → Option F) (k : Nat) (h : Roots ω k) (hr : RootsAvail root ω k)
    (k' : Nat) (hk' : k' + 2 ≤ k) (a : Array F) (hsz : a.size = 2 ^ k)
    (ha : ∀ j, j < 2 ^ (k' + 1) → a.getD j 0 = ω (k' + 1) ^ j) :
    ∃ r, stage root a k' = some r ∧ r.size = 2 ^ k ∧ ∀ j, j < 2 ^ (k' + 2) → r.getD j 0 = ω (k' + 2) ^ j := by
  unfold stage
  simp only
  rw [hr (k' + 2) hk']
  simp only
  have e : k' + 2 - 1 = k' + 1 := by omega
  rw [e]
  have hw : ω (k' + 2) ^ (2 ^ (k' + 1)) = -1 := by
    have := h.pow_half (k' + 2) (by omega) hk'
    rwa [e] at this
  have hsq : ω (k' + 2) * ω (k' + 2) = ω (k' + 1) := by
    have := h.sq (k' + 2) (by omega) hk'
    rwa [e] at this
  have hmid : 2 ^ (k' + 1) = 2 * 2 ^ k' := by rw [pow_succ]; ring
  have hfull : 2 ^ (k' + 2) = 2 * 2 ^ (k' + 1) := by rw [pow_succ]; ring
  have hle : 2 ^ (k' + 2) ≤ 2 ^ k := Nat.pow_le_pow_right (by norm_num) hk'
  have hh1 : 1 ≤ 2 ^ k' := Nat.one_le_two_pow
  generalize 2 ^ (k' + 1) = mid at *
  generalize 2 ^ k' = hf at *
  generalize ω (k' + 2) = wn at *
  obtain ⟨cs, cv⟩ := copy_spec mid a (by omega) (mid - 1) (by omega)
  generalize (List.range (mid - 1)).foldl (copyStep mid) a = b at *
  have h0 : ∀ p, p < 2 * mid → (p % 2 = 0 ∨ p < 3 ∨ (mid ≤ p ∧ p < mid + 3)) →
      ((b.setIfInBounds 1 wn).setIfInBounds (1 + mid) (-wn)).getD p 0 = wn ^ p := by
    intro p hp hc
    rw [getD_set, getD_set, Array.size_setIfInBounds]
    by_cases c1 : 1 + mid = p
    · rw [if_pos ⟨c1, by omega⟩, ← c1, pow_add, hw]; ring
    · rw [if_neg (fun hh => c1 hh.1)]
      by_cases c2 : 1 = p
      · rw [if_pos ⟨c2, by omega⟩, ← c2, pow_one]
      · rw [if_neg (fun hh => c2 hh.1), cv p]
        have hpe : p = 2 * (p / 2) := by omega
        by_cases c3 : p = 0
        · subst c3
          rw [if_neg (by omega), ha 0 (by omega)]; simp
        · rw [if_pos (by omega), ha (p / 2) (by omega), ← hsq]
          conv_rhs => rw [hpe, pow_mul, pow_two]
  obtain ⟨os, ov⟩ := odd_spec mid hf hmid wn hw ((b.setIfInBounds 1 wn).setIfInBounds (1 + mid) (-wn))
    (by rw [Array.size_setIfInBounds, Array.size_setIfInBounds]; omega) h0 ((mid - 3 + 1) / 2)
  refine ⟨_, rfl, ?_, fun j hj => ov j (by omega) (by omega)⟩
  rw [os, Array.size_setIfInBounds, Array.size_setIfInBounds, cs, hsz]

theorem stages_spec {ω : Nat → F} (root : Nat → Option F) (k : Nat) (h : Roots ω k) (hr : RootsAvail root ω k) :
    ∀ c, c + 1 ≤ k → ∃ r, (List.range c).foldlM (stage root)
        (((Array.replicate (2 ^ k) (0 : F)).setIfInBounds 0 1).setIfInBounds 1 (-1)) = some r ∧
      r.size = 2 ^ k ∧ ∀ j, j < 2 ^ (c + 1) → r.getD j 0 = ω (c + 1) ^ j := by
  intro c
  induction c with
  | zero =>
    intro hk
    have h2k : 2 ^ 1 ≤ 2 ^ k := Nat.pow_le_pow_right (by norm_num) hk
    refine ⟨_, rfl, by simp, fun j hj => ?_⟩
    rw [getD_set, getD_set]
    simp only [Array.size_setIfInBounds, Array.size_replicate]
    have : j = 0 ∨ j = 1 := by omega
    rcases this with rfl | rfl
    · rw [if_neg (by omega), if_pos ⟨rfl, by omega⟩, pow_zero]
    · rw [if_pos ⟨rfl, by omega⟩, pow_one, h.one_neg]
  | succ c ih =>
    intro hk
    obtain ⟨r, e1, e2, e3⟩ := ih (by omega)
    obtain ⟨r', f1, f2, f3⟩ := stage_spec root k h hr c (by omega) r e2 e3
    refine ⟨r', ?_, f2, f3⟩
    rw [List.range_succ, List.foldlM_append, e1]
    simp [f1]

theorem nthRootPowers_spec {ω : Nat → F} (root : Nat → Option F) (k : Nat) (h : Roots ω k)
    (hr : RootsAvail root ω k) :
    ∃ r, nthRootPowers root k = some r ∧ r.size = 2 ^ k ∧ ∀ j, j < 2 ^ k → r.getD j 0 = ω k ^ j := by
  rw [nthRootPowers_eq]
  by_cases hk : k = 0
  · subst hk
    refine ⟨_, if_pos (by simp), by simp, fun j hj => ?_⟩
    have : j = 0 := by simpa using hj
    subst this
    rw [getD_set]; simp
  · have h2k : 2 ^ 1 ≤ 2 ^ k := Nat.pow_le_pow_right (by norm_num) (by omega)
    rw [if_neg (by omega)]
    obtain ⟨r, e1, e2, e3⟩ := stages_spec root k h hr (k - 1) (by omega)
    have e : k - 1 + 1 = k := by omega
    rw [e] at e3
    exact ⟨r, e1, e2, e3⟩

end Table

end Prio.Ntt

-- all four depend only on propext, Classical.choice, Quot.sound:
-- #print axioms Prio.Ntt.nthRootPowers_spec
-- #print axioms Prio.Ntt.invPow2_eq_pow
-- #print axioms Prio.Ntt.invPow2_eq_inv
-- #print axioms Prio.Ntt.polyEvalLagrange_spec
