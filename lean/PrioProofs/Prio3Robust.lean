import PrioProofs.Prio3E2E
import PrioProofs.FlpSound
import Mathlib.Data.List.OfFn
import Mathlib.Data.Fintype.BigOperators

/-! # Prio3 robustness on the executable model, algebraic core

The report (public share `pub`, input shares `shares`) is ARBITRARY: anything the aggregators can decode.
Suppose every aggregator's `verifyInit` succeeded and the combiner `sharesToMessage` produced a message.

* `verifyInit_view` : what one successful `verifyInit` computed, in terms of functions of the report only
  (`measOf`, `proofsOf`, `jrOf`, `partOf`) and of the query randomness (`qrOf`, a function of the verify key).
* `next_joint_rand` (1) : an aggregator that finishes `verifyNext` with the message `m` worked with the joint
  randomness `jrOfMsg m` the message determines; `message_seed` : the seed the message carries is derived from the
  parts the aggregators recomputed from THEIR OWN measurement shares (`reportSeed`, a function of the input shares, the
  nonce and the context only).
* `accept_reconstructed` (2) : if all aggregators worked with the same joint randomness `jr`, then for every proof
  index `k` the FLP verifier run on the RECONSTRUCTED measurement (sum of the measurement shares) and the
  reconstructed `k`-th proof (sum of the proofs shares, slice `k`), with `num_shares = 1`, succeeds and `decide`
  accepts.
* `prio3_robust` (1)+(2) : when moreover every `verifyNext` succeeds, that joint randomness is `reportJR`.
* `prio3_robust_soundness` (3) : with `flp_soundness`: when the circuit output of the reconstructed measurement under
  the `k`-th joint randomness is not zero, the `k`-th slice of the query randomness of ANY accepting run lies in a set
  (depending on the report only, not on the verify key) of at most `(2(p−1)+1)·|F|^(queryRandLen−1)` vectors. -/

namespace Prio.Prio3Robust
open Prio.Prio3 Prio.Flp Prio Prio.Prio3E2E

section defs
variable {F : Type} [Add F] [Sub F] [Mul F] [Neg F] [Zero F] [One F] [Inv F] [BEq F]

/-- the measurement share aggregator `i` works with (`viShares`) -/
def measOf (cfg : Cfg) (cv : Conv F) (xof : Xof) (ctx : Bytes) (i : Nat) (msg : InputShare F) : List F :=
  match viShares cfg cv xof ctx i msg with
  | some (m, _) => m
  | none => []

/-- the proofs share aggregator `i` works with (`viShares`) -/
def proofsOf (cfg : Cfg) (cv : Conv F) (xof : Xof) (ctx : Bytes) (i : Nat) (msg : InputShare F) : List F :=
  match viShares cfg cv xof ctx i msg with
  | some (_, p) => p
  | none => []

/-- the joint randomness aggregator `i` derives (`viJointRand`) -/
def jrOf (cfg : Cfg) (cv : Conv F) (xof : Xof) (ctx nonce : Bytes) (pub : Option (List Bytes)) (i : Nat)
    (msg : InputShare F) : List F :=
  match viJointRand cfg cv xof ctx i nonce pub msg.blind (measOf cfg cv xof ctx i msg) with
  | .ok (_, _, jr) => jr
  | _ => []

/-- the query randomness (the same for all aggregators: same key, context, nonce) -/
def qrOf (cfg : Cfg) (cv : Conv F) (xof : Xof) (key ctx nonce : Bytes) : List F :=
  (viQueryRands cfg cv xof key ctx nonce).getD []

/-- the joint randomness expanded from a joint randomness seed -/
def jrOfSeed (cfg : Cfg) (cv : Conv F) (xof : Xof) (ctx seed : Bytes) : List F :=
  (expand cfg cv xof seed (dst cfg usageJointRandomness ctx) [cfg.numProofs]
    (cfg.t.jointRandLen * cfg.numProofs)).getD []

/-- the joint randomness a verifier message determines -/
def jrOfMsg (cfg : Cfg) (cv : Conv F) (xof : Xof) (ctx : Bytes) (m : Option Bytes) : List F :=
  if cfg.t.jointRandLen > 0 then jrOfSeed cfg cv xof ctx (m.getD []) else []

/-- the joint randomness part aggregator `i` computes from its own blind and measurement share -/
def partOf (cfg : Cfg) (cv : Conv F) (xof : Xof) (ctx nonce : Bytes) (i : Nat) (msg : InputShare F) : Bytes :=
  jointRandPart cfg cv xof ctx (msg.blind.getD []) i nonce (measOf cfg cv xof ctx i msg)

/-- the joint randomness seed derived from the parts the aggregators compute themselves: a function of the input
    shares, the nonce and the context -/
def reportSeed (cfg : Cfg) (cv : Conv F) (xof : Xof) (ctx nonce : Bytes) (shares : List (InputShare F)) : Bytes :=
  jointRandSeed cfg xof ctx (shares.mapIdx (partOf cfg cv xof ctx nonce))

/-- the joint randomness of the report -/
def reportJR (cfg : Cfg) (cv : Conv F) (xof : Xof) (ctx nonce : Bytes) (shares : List (InputShare F)) : List F :=
  if cfg.t.jointRandLen > 0 then jrOfSeed cfg cv xof ctx (reportSeed cfg cv xof ctx nonce shares) else []

def measList (cfg : Cfg) (cv : Conv F) (xof : Xof) (ctx : Bytes) (shares : List (InputShare F)) : List (List F) :=
  shares.mapIdx (measOf cfg cv xof ctx)

def proofsList (cfg : Cfg) (cv : Conv F) (xof : Xof) (ctx : Bytes) (shares : List (InputShare F)) : List (List F) :=
  shares.mapIdx (proofsOf cfg cv xof ctx)

/-- the reconstructed measurement: the sum of the measurement shares -/
def reconMeas (cfg : Cfg) (cv : Conv F) (xof : Xof) (ctx : Bytes) (shares : List (InputShare F)) : List F :=
  vsum cfg.t.inputLen (measList cfg cv xof ctx shares)

/-- the reconstructed proofs: the sum of the proofs shares -/
def reconProofs (cfg : Cfg) (cv : Conv F) (xof : Xof) (ctx : Bytes) (shares : List (InputShare F)) : List F :=
  vsum (cfg.t.proofLen * cfg.numProofs) (proofsList cfg cv xof ctx shares)

end defs

variable {F : Type} [Field F] [BEq F]

/-! ### one aggregator -/

omit [Field F] [BEq F] in
theorem jointRands_inv (cfg : Cfg) (cv : Conv F) (xof : Xof) (ctx : Bytes) (parts : List Bytes) (s : Bytes)
    (v : List F) (h : jointRands cfg cv xof ctx parts = some (s, v)) :
    s = jointRandSeed cfg xof ctx parts ∧ jrOfSeed cfg cv xof ctx s = v := by
  unfold jointRands at h
  simp only at h
  split at h
  · rename_i w hw
    simp only [Option.some.injEq, Prod.mk.injEq] at h
    obtain ⟨rfl, rfl⟩ := h
    refine ⟨rfl, ?_⟩
    unfold jrOfSeed
    rw [hw]
    rfl
  · cases h

omit [Field F] [BEq F] in
theorem viJointRand_inv (cfg : Cfg) (cv : Conv F) (xof : Xof) (ctx : Bytes) (i : Nat) (nonce : Bytes)
    (pub : Option (List Bytes)) (blind : Option Bytes) (m : List F) (jrSeed jrPart : Option Bytes) (jr : List F)
    (h : viJointRand cfg cv xof ctx i nonce pub blind m = .ok (jrSeed, jrPart, jr)) :
    (cfg.t.jointRandLen > 0 → ∃ b s, blind = some b ∧
      jrPart = some (jointRandPart cfg cv xof ctx b i nonce m) ∧ jrSeed = some s ∧
      jr = jrOfSeed cfg cv xof ctx s) ∧
    (¬ cfg.t.jointRandLen > 0 → jrSeed = none ∧ jrPart = none ∧ jr = []) := by
  unfold viJointRand at h
  by_cases hj : cfg.t.jointRandLen > 0
  · rw [if_pos hj] at h
    refine ⟨fun _ => ?_, fun hn => absurd hj hn⟩
    cases blind with
    | none => cases h
    | some b =>
      simp only at h
      split at h
      · rename_i seed rands hjr
        simp only [Prio.Res.ok.injEq, Prod.mk.injEq] at h
        obtain ⟨h1, h2, h3⟩ := h
        obtain ⟨_, e2⟩ := jointRands_inv cfg cv xof ctx _ _ _ hjr
        exact ⟨b, seed, rfl, h2.symm, h1.symm, by rw [e2, h3]⟩
      · cases h
  · rw [if_neg hj] at h
    simp only [Prio.Res.ok.injEq, Prod.mk.injEq] at h
    obtain ⟨h1, h2, h3⟩ := h
    exact ⟨fun hp => absurd hp hj, fun _ => ⟨h1.symm, h2.symm, h3.symm⟩⟩

/-- the measurement share of an aggregator whose `verifyInit` succeeds has the declared length -/
theorem meas_length (C : FieldCtx F) (cfg : Cfg) (cv : Conv F) (xof : Xof) (sumLW : Nat) (ctx : Bytes) (i : Nat)
    (msg : InputShare F) (m p : List F) (sh : Sum (List F) Bytes)
    (h1 : viShares cfg cv xof ctx i msg = some (m, p)) (h5 : viStateShare C cfg sumLW msg = .ok sh) :
    m.length = cfg.t.inputLen := by
  cases msg with
  | leader lm lp b =>
    simp only [viShares, Option.some.injEq, Prod.mk.injEq] at h1
    obtain ⟨rfl, _⟩ := h1
    simp only [viStateShare] at h5
    by_contra hne
    have : truncateWith C cfg.t sumLW lm = .err := by
      unfold truncateWith
      rw [if_pos hne]
    rw [this] at h5
    cases h5
  | helper seed b =>
    simp only [viShares] at h1
    split at h1
    · rename_i m' p' e1 e2
      simp only [Option.some.injEq, Prod.mk.injEq] at h1
      obtain ⟨rfl, _⟩ := h1
      exact expand_length cfg cv xof _ _ _ _ _ e1
    · cases h1

/-- **what a successful `verifyInit` computed**, in terms of functions of the report -/
theorem verifyInit_view (C : FieldCtx F) (cfg : Cfg) (cv : Conv F) (xof : Xof) (sumLW : Nat) (key ctx : Bytes)
    (i : Nat) (nonce : Bytes) (pub : Option (List Bytes)) (msg : InputShare F)
    (st : VerifyState F) (vsh : VerifierShare F)
    (h : verifyInit C cfg cv xof sumLW key ctx i nonce pub msg = .ok (st, vsh)) :
    i < cfg.numAgg ∧
    (measOf cfg cv xof ctx i msg).length = cfg.t.inputLen ∧
    (proofsOf cfg cv xof ctx i msg).length = cfg.t.proofLen * cfg.numProofs ∧
    viVerifiers C cfg (measOf cfg cv xof ctx i msg) (proofsOf cfg cv xof ctx i msg)
      (qrOf cfg cv xof key ctx nonce) (jrOf cfg cv xof ctx nonce pub i msg) = .ok vsh.verifiers ∧
    (cfg.t.jointRandLen > 0 → ∃ s, st.jointRandSeed = some s ∧
      jrOf cfg cv xof ctx nonce pub i msg = jrOfSeed cfg cv xof ctx s ∧
      vsh.jointRandPart = some (partOf cfg cv xof ctx nonce i msg)) ∧
    (¬ cfg.t.jointRandLen > 0 → jrOf cfg cv xof ctx nonce pub i msg = []) := by
  obtain ⟨hi, m, p, jrSeed, jrPart, jr, qr, v, sh, h1, hp, h2, h3, h4, h5, rfl, rfl⟩ :=
    verifyInit_inv C cfg cv xof sumLW key ctx i nonce pub msg st vsh h
  have em : measOf cfg cv xof ctx i msg = m := by unfold measOf; rw [h1]
  have ep : proofsOf cfg cv xof ctx i msg = p := by unfold proofsOf; rw [h1]
  have ej : jrOf cfg cv xof ctx nonce pub i msg = jr := by unfold jrOf; rw [em, h2]
  have eq : qrOf cfg cv xof key ctx nonce = qr := by unfold qrOf; rw [h3]; rfl
  obtain ⟨k1, k2⟩ := viJointRand_inv cfg cv xof ctx i nonce pub msg.blind m jrSeed jrPart jr h2
  rw [em, ep, ej, eq]
  refine ⟨hi, meas_length C cfg cv xof sumLW ctx i msg m p sh h1 h5, hp, h4, ?_, fun hn => (k2 hn).2.2⟩
  intro hj
  obtain ⟨b, s, hb, hpart, hseed, hjr⟩ := k1 hj
  refine ⟨s, hseed, hjr, ?_⟩
  simp only [hpart, partOf, em, hb, Option.getD_some]

/-! ### (1) the joint randomness -/

/-- **(1)** an aggregator whose `verifyInit` succeeded and which finishes `verifyNext` with the message `m` worked with
    the joint randomness the message determines (the expansion of the seed it carries; nothing when the type uses no
    joint randomness) -/
theorem next_joint_rand (C : FieldCtx F) (cfg : Cfg) (cv : Conv F) (xof : Xof) (sumLW : Nat) (key ctx : Bytes)
    (i : Nat) (nonce : Bytes) (pub : Option (List Bytes)) (msg : InputShare F)
    (st : VerifyState F) (vsh : VerifierShare F) (m : Option Bytes) (o : List F)
    (hinit : verifyInit C cfg cv xof sumLW key ctx i nonce pub msg = .ok (st, vsh))
    (hnext : verifyNext C cfg cv xof sumLW ctx st m = .ok o) :
    jrOf cfg cv xof ctx nonce pub i msg = jrOfMsg cfg cv xof ctx m ∧
    (cfg.t.jointRandLen > 0 → ∃ s, m = some s ∧ st.jointRandSeed = some s) := by
  obtain ⟨_, _, _, _, k1, k2⟩ := verifyInit_view C cfg cv xof sumLW key ctx i nonce pub msg st vsh hinit
  unfold jrOfMsg
  by_cases hj : cfg.t.jointRandLen > 0
  · obtain ⟨s, hs, hm⟩ := Props.C02.next_accept_implies C cfg cv xof sumLW ctx st m o hnext hj
    obtain ⟨s', hs', hjr, _⟩ := k1 hj
    rw [hs] at hs'
    simp only [Option.some.injEq] at hs'
    subst hs'
    rw [if_pos hj, hm, hjr]
    exact ⟨rfl, fun _ => ⟨s, rfl, hs⟩⟩
  · rw [if_neg hj]
    exact ⟨k2 hj, fun h => absurd h hj⟩

theorem filterMap_eq_mapIdx {α β γ : Type} (f : β → Option γ) (g : Nat → α → γ) :
    ∀ (l : List α) (r : List β), r.length = l.length →
      (∀ i (h1 : i < l.length) (h2 : i < r.length), f r[i] = some (g i l[i])) →
      r.filterMap f = l.mapIdx g := by
  intro l r hlen hall
  apply List.ext_getElem?
  intro i
  rw [List.getElem?_mapIdx]
  induction r generalizing l g i with
  | nil =>
    cases l with
    | nil => simp
    | cons a l => simp at hlen
  | cons b r ih =>
    cases l with
    | nil => simp at hlen
    | cons a l =>
      have h0 := hall 0 (by simp) (by simp)
      simp only [List.getElem_cons_zero] at h0
      rw [List.filterMap_cons, h0]
      cases i with
      | zero => simp
      | succ i =>
        simp only [List.getElem?_cons_succ]
        rw [ih (fun j => g (j + 1)) l (by simpa using hlen) ?_ i]
        intro j h1 h2
        have := hall (j + 1) (by simpa using h1) (by simpa using h2)
        simpa using this

/-- the seed the verifier message carries is derived from the parts the aggregators computed from their own blinds
    and measurement shares: it does not depend on the public share or on the verify key -/
theorem message_seed (C : FieldCtx F) (cfg : Cfg) (cv : Conv F) (xof : Xof) (sumLW : Nat) (key ctx nonce : Bytes)
    (pub : Option (List Bytes)) (shares : List (InputShare F)) (states : List (VerifyState F))
    (vshares : List (VerifierShare F)) (m : Option Bytes)
    (hsl : shares.length = cfg.numAgg) (hstl : states.length = cfg.numAgg)
    (hinit : ∀ i (h1 : i < shares.length) (h2 : i < states.length) (h3 : i < vshares.length),
      verifyInit C cfg cv xof sumLW key ctx i nonce pub shares[i] = .ok (states[i], vshares[i]))
    (hmsg : sharesToMessage C cfg xof ctx vshares = .ok m) (hj : cfg.t.jointRandLen > 0) :
    m = some (reportSeed cfg cv xof ctx nonce shares) := by
  obtain ⟨hvl, _, _, hm⟩ := Props.C02.combine_accept_implies C cfg xof ctx vshares m hmsg
  obtain ⟨hm1, _⟩ := hm hj
  rw [hm1]
  unfold reportSeed
  congr 2
  refine filterMap_eq_mapIdx _ _ shares vshares (by omega) ?_
  intro i h1 h2
  obtain ⟨_, _, _, _, k1, _⟩ := verifyInit_view C cfg cv xof sumLW key ctx i nonce pub _ _ _
    (hinit i h1 (by omega) h2)
  obtain ⟨_, _, _, hp⟩ := k1 hj
  exact hp

/-! ### (2) acceptance implies that the FLP verifier accepts the reconstructed measurement and proof -/

theorem decideAll_true_inv (C : FieldCtx F) (cfg : Cfg) (vs : List F) (h : decideAll C cfg vs = .ok true) :
    ∀ k, k < cfg.numProofs → Prio.Flp.decide C cfg.t (chunk vs k cfg.t.verifierLen) = .ok true := by
  rw [decideAll_eq] at h
  generalize cfg.numProofs = n at h
  induction n with
  | zero => intro k hk; omega
  | succ n ih =>
    rw [List.range_succ, List.foldl_append, List.foldl_cons, List.foldl_nil] at h
    cases hp : (List.range n).foldl (dStep C cfg vs) (.ok true) with
    | err => rw [hp] at h; simp [dStep] at h
    | panic => rw [hp] at h; simp [dStep] at h
    | ok b =>
      rw [hp] at h
      cases b with
      | false => simp [dStep] at h
      | true =>
        intro k hk
        rcases Nat.lt_succ_iff_lt_or_eq.mp hk with hk' | rfl
        · exact ih hp k hk'
        · simp only [dStep] at h
          cases hd : Prio.Flp.decide C cfg.t (chunk vs k cfg.t.verifierLen) with
          | err => rw [hd] at h; cases h
          | panic => rw [hd] at h; cases h
          | ok b =>
            rw [hd] at h
            have h' : b = true := by simpa using h
            rw [h']

omit [Field F] [BEq F] in
theorem measList_length [Add F] [Zero F] (cfg : Cfg) (cv : Conv F) (xof : Xof) (ctx : Bytes) (shares : List (InputShare F)) :
    (measList cfg cv xof ctx shares).length = shares.length := by
  simp [measList]

omit [Field F] [BEq F] in
theorem proofsList_length [Add F] [Zero F] (cfg : Cfg) (cv : Conv F) (xof : Xof) (ctx : Bytes) (shares : List (InputShare F)) :
    (proofsList cfg cv xof ctx shares).length = shares.length := by
  simp [proofsList]

omit [BEq F] in
/-- slice `k` of the reconstructed proofs is the sum of the slices `k` of the proofs shares -/
theorem reconProofs_chunk (cfg : Cfg) (cv : Conv F) (xof : Xof) (ctx : Bytes) (shares : List (InputShare F))
    (k : Nat) (hk : k < cfg.numProofs) :
    chunk (reconProofs cfg cv xof ctx shares) k cfg.t.proofLen =
      vsum cfg.t.proofLen ((proofsList cfg cv xof ctx shares).map (chunk · k cfg.t.proofLen)) := by
  unfold reconProofs
  exact chunk_vsum _ k _ (by rw [Nat.mul_comm cfg.t.proofLen]; exact Nat.mul_le_mul_right _ hk) _

/-- **(2)** Every aggregator's `verifyInit` succeeded on an arbitrary report, the combiner produced a message, and all
    aggregators worked with the same joint randomness `jr`.  Then for every proof index `k` the FLP `query` on the
    reconstructed measurement and the reconstructed `k`-th proof, with the derived query randomness, `jr` and
    `num_shares = 1`, succeeds, and `decide` accepts its verifier. -/
theorem accept_reconstructed [LawfulBEq F] (C : FieldCtx F) (hC : ∀ n, C.ofNat n = (n : F)) (cfg : Cfg)
    (cv : Conv F) (xof : Xof) (sumLW : Nat) (key ctx nonce : Bytes) (pub : Option (List Bytes))
    (shares : List (InputShare F)) (states : List (VerifyState F)) (vshares : List (VerifierShare F))
    (m : Option Bytes) (hInv : ((cfg.numAgg : Nat) : F) ≠ 0)
    (hsl : shares.length = cfg.numAgg) (hstl : states.length = cfg.numAgg)
    (hinit : ∀ i (h1 : i < shares.length) (h2 : i < states.length) (h3 : i < vshares.length),
      verifyInit C cfg cv xof sumLW key ctx i nonce pub shares[i] = .ok (states[i], vshares[i]))
    (hmsg : sharesToMessage C cfg xof ctx vshares = .ok m)
    (jr : List F) (hjr : ∀ i (h : i < shares.length), jrOf cfg cv xof ctx nonce pub i shares[i] = jr)
    (k : Nat) (hk : k < cfg.numProofs) :
    ∃ v, query C cfg.t (reconMeas cfg cv xof ctx shares)
        (chunk (reconProofs cfg cv xof ctx shares) k cfg.t.proofLen)
        (chunk (qrOf cfg cv xof key ctx nonce) k cfg.t.queryRandLen)
        (chunk jr k cfg.t.jointRandLen) 1 = .ok v ∧
      Prio.Flp.decide C cfg.t v = .ok true := by
  obtain ⟨hvl, _, hdec, _⟩ := Props.C02.combine_accept_implies C cfg xof ctx vshares m hmsg
  have hview := fun i (h1 : i < shares.length) (h3 : i < vshares.length) =>
    verifyInit_view C cfg cv xof sumLW key ctx i nonce pub _ _ _ (hinit i h1 (by omega) h3)
  have hML := measList_length cfg cv xof ctx shares
  have hPL := proofsList_length cfg cv xof ctx shares
  have hkP : (k + 1) * cfg.t.proofLen ≤ cfg.t.proofLen * cfg.numProofs := by
    rw [Nat.mul_comm cfg.t.proofLen]; exact Nat.mul_le_mul_right _ hk
  have hkV : (k + 1) * cfg.t.verifierLen ≤ cfg.t.verifierLen * cfg.numProofs := by
    rw [Nat.mul_comm cfg.t.verifierLen]; exact Nat.mul_le_mul_right _ hk
  have hN : 1 ≤ cfg.numAgg := by
    rcases Nat.eq_zero_or_pos cfg.numAgg with h0 | h0
    · rw [h0] at hInv; simp at hInv
    · exact h0
  have hne : measList cfg cv xof ctx shares ≠ [] := by
    intro h; rw [h] at hML; simp at hML; omega
  have hq := query_share_linear_fwd C hC cfg.t (measList cfg cv xof ctx shares)
    ((proofsList cfg cv xof ctx shares).map (chunk · k cfg.t.proofLen))
    ((vshares.map (·.verifiers)).map (chunk · k cfg.t.verifierLen))
    (chunk (qrOf cfg cv xof key ctx nonce) k cfg.t.queryRandLen) (chunk jr k cfg.t.jointRandLen)
    (by simp [hML, hPL]) (by simp [hML, hsl, hvl]) hne
    (by
      intro x hx
      obtain ⟨i, hi, rfl⟩ := List.mem_mapIdx.mp hx
      exact (hview i hi (by omega)).2.1)
    (by
      intro x hx
      obtain ⟨y, hy, rfl⟩ := List.mem_map.mp hx
      obtain ⟨i, hi, rfl⟩ := List.mem_mapIdx.mp hy
      exact chunk_length _ k _ (by rw [(hview i hi (by omega)).2.2.1]; exact hkP))
    (by rw [hML, hsl]; exact hInv)
    (by
      intro i h1 h2 h3
      have hi : i < shares.length := by omega
      have hi' : i < vshares.length := by omega
      rw [hML, hsl]
      simp only [List.getElem_map, measList, proofsList, List.getElem_mapIdx]
      have hv := (hview i hi hi').2.2.2.1
      rw [hjr i hi] at hv
      exact (viVerifiers_spec C cfg _ _ _ _ _ hv).2 k hk)
  rw [← chunk_vsum _ k _ hkP (proofsList cfg cv xof ctx shares),
    ← chunk_vsum _ k _ hkV (vshares.map (·.verifiers))] at hq
  refine ⟨_, hq, ?_⟩
  have hd := decideAll_true_inv C cfg _ hdec k hk
  have e : vsum (cfg.t.verifierLen * cfg.numProofs) (vshares.map (·.verifiers)) =
      vshares.foldl (fun acc sh => vadd acc sh.verifiers)
        (List.replicate (cfg.t.verifierLen * cfg.numProofs) 0) := by
    rw [vsum_eq, List.foldl_map]
  rw [e]
  exact hd

/-! ### (1)+(2) -/

/-- **Prio3 robustness, algebraic core.**  For an ARBITRARY report: if every aggregator's `verifyInit` succeeds, the
    combiner produces the message `m` and every aggregator finishes `verifyNext` with `m`, then
    * every aggregator worked with the same joint randomness `reportJR`, the expansion of the seed derived from the
      parts the aggregators computed from their own measurement shares (which is the seed `m` carries);
    * for every proof index `k` the FLP verifier, run on the reconstructed measurement and the reconstructed `k`-th
      proof with the derived query randomness and that joint randomness (`num_shares = 1`), accepts. -/
theorem prio3_robust [LawfulBEq F] (C : FieldCtx F) (hC : ∀ n, C.ofNat n = (n : F)) (cfg : Cfg)
    (cv : Conv F) (xof : Xof) (sumLW : Nat) (key ctx nonce : Bytes) (pub : Option (List Bytes))
    (shares : List (InputShare F)) (states : List (VerifyState F)) (vshares : List (VerifierShare F))
    (m : Option Bytes) (hInv : ((cfg.numAgg : Nat) : F) ≠ 0)
    (hsl : shares.length = cfg.numAgg) (hstl : states.length = cfg.numAgg)
    (hinit : ∀ i (h1 : i < shares.length) (h2 : i < states.length) (h3 : i < vshares.length),
      verifyInit C cfg cv xof sumLW key ctx i nonce pub shares[i] = .ok (states[i], vshares[i]))
    (hmsg : sharesToMessage C cfg xof ctx vshares = .ok m)
    (hnext : ∀ i (h : i < states.length), ∃ o, verifyNext C cfg cv xof sumLW ctx states[i] m = .ok o) :
    (cfg.t.jointRandLen > 0 → m = some (reportSeed cfg cv xof ctx nonce shares)) ∧
    (∀ i (h : i < shares.length), jrOf cfg cv xof ctx nonce pub i shares[i] = reportJR cfg cv xof ctx nonce shares) ∧
    ∀ k, k < cfg.numProofs →
      ∃ v, query C cfg.t (reconMeas cfg cv xof ctx shares)
          (chunk (reconProofs cfg cv xof ctx shares) k cfg.t.proofLen)
          (chunk (qrOf cfg cv xof key ctx nonce) k cfg.t.queryRandLen)
          (chunk (reportJR cfg cv xof ctx nonce shares) k cfg.t.jointRandLen) 1 = .ok v ∧
        Prio.Flp.decide C cfg.t v = .ok true := by
  have hvl := (Props.C02.combine_accept_implies C cfg xof ctx vshares m hmsg).1
  have hseed := message_seed C cfg cv xof sumLW key ctx nonce pub shares states vshares m hsl hstl hinit hmsg
  have hjr : ∀ i (h : i < shares.length),
      jrOf cfg cv xof ctx nonce pub i shares[i] = reportJR cfg cv xof ctx nonce shares := by
    intro i h
    obtain ⟨o, ho⟩ := hnext i (by omega)
    have := (next_joint_rand C cfg cv xof sumLW key ctx i nonce pub _ _ _ m o
      (hinit i h (by omega) (by omega)) ho).1
    rw [this]
    unfold jrOfMsg reportJR
    by_cases hj : cfg.t.jointRandLen > 0
    · rw [if_pos hj, if_pos hj, hseed hj]; rfl
    · rw [if_neg hj, if_neg hj]
  exact ⟨hseed, hjr, fun k hk => accept_reconstructed C hC cfg cv xof sumLW key ctx nonce pub shares states vshares m
    hInv hsl hstl hinit hmsg _ hjr k hk⟩

/-! ### (3) with the soundness of the FLP -/

omit [Field F] [BEq F] in
theorem ofFn_getD [Zero F] (l : List F) (n : Nat) (h : l.length = n) :
    List.ofFn (fun j : Fin n => l.getD j.1 0) = l := by
  subst h
  apply List.ext_getElem
  · simp
  · intro i h1 h2
    simp [List.getD_eq_getElem?_getD]

open Classical in
/-- the query randomness vectors (for one proof) under which the FLP verifier accepts a given input and proof under a
    given joint randomness -/
noncomputable def acceptingQueryRands [Fintype F] (C : FieldCtx F) (t : TypeSpec) (input proof jr : List F) :
    Finset (Fin t.queryRandLen → F) :=
  Finset.univ.filter fun qr =>
    ∃ v, query C t input proof (List.ofFn qr) jr 1 = .ok v ∧ Prio.Flp.decide C t v = .ok true

/-- **(3)** Fix a report (input shares, nonce, context).  If, for some proof index `k`, the circuit output of the
    RECONSTRUCTED measurement under the `k`-th joint randomness of the report is not all zero, then there is a set of
    at most `(2(p − 1) + 1)·|F|^(queryRandLen − 1)` query-randomness vectors, depending on the report only, such that
    for EVERY verify key and public share: if every aggregator's `verifyInit` succeeds, the combiner produces a
    message and every aggregator finishes `verifyNext`, then the `k`-th slice of the query randomness derived from that
    key lies in the set.  (The derivation of the query randomness from the key is a random oracle outside the model:
    for a uniform slice the report is accepted with probability at most `(2(p − 1) + 1)/|F|`.) -/
theorem prio3_robust_soundness [Fintype F] [LawfulBEq F] {ω : Nat → F} (C : FieldCtx F) (hC : CtxOk C ω)
    (cfg : Cfg) (hwf : cfg.t.WellFormed) (cv : Conv F) (xof : Xof) (sumLW : Nat) (ctx nonce : Bytes)
    (shares : List (InputShare F)) (hInv : ((cfg.numAgg : Nat) : F) ≠ 0) (hsl : shares.length = cfg.numAgg)
    (k : Nat) (hk : k < cfg.numProofs) (o : List F)
    (hvalid : valid C cfg.t (reconMeas cfg cv xof ctx shares)
      (chunk (reportJR cfg cv xof ctx nonce shares) k cfg.t.jointRandLen) 1 = .ok o)
    (hnz : ∃ x ∈ o, x ≠ 0) :
    (acceptingQueryRands C cfg.t (reconMeas cfg cv xof ctx shares)
        (chunk (reconProofs cfg cv xof ctx shares) k cfg.t.proofLen)
        (chunk (reportJR cfg cv xof ctx nonce shares) k cfg.t.jointRandLen)).card ≤
      (2 * (wirePolyLen cfg.t.gadgetCalls - 1) + 1) * Fintype.card F ^ (cfg.t.queryRandLen - 1) ∧
    ∀ (key : Bytes) (pub : Option (List Bytes)) (states : List (VerifyState F))
      (vshares : List (VerifierShare F)) (m : Option Bytes),
      states.length = cfg.numAgg →
      (∀ i (h1 : i < shares.length) (h2 : i < states.length) (h3 : i < vshares.length),
        verifyInit C cfg cv xof sumLW key ctx i nonce pub shares[i] = .ok (states[i], vshares[i])) →
      sharesToMessage C cfg xof ctx vshares = .ok m →
      (∀ i (h : i < states.length), ∃ o, verifyNext C cfg cv xof sumLW ctx states[i] m = .ok o) →
      (fun j : Fin cfg.t.queryRandLen =>
          (chunk (qrOf cfg cv xof key ctx nonce) k cfg.t.queryRandLen).getD j.1 0) ∈
        acceptingQueryRands C cfg.t (reconMeas cfg cv xof ctx shares)
          (chunk (reconProofs cfg cv xof ctx shares) k cfg.t.proofLen)
          (chunk (reportJR cfg cv xof ctx nonce shares) k cfg.t.jointRandLen) := by
  refine ⟨?_, ?_⟩
  · unfold acceptingQueryRands
    exact flp_soundness C hC cfg.t hwf _ _ o hvalid hnz _
  · intro key pub states vshares m hstl hinit hmsg hnext
    obtain ⟨_, _, hacc⟩ := prio3_robust C hC.ofNat cfg cv xof sumLW key ctx nonce pub shares states vshares m hInv
      hsl hstl hinit hmsg hnext
    obtain ⟨v, hq, hd⟩ := hacc k hk
    have hlen : (chunk (qrOf cfg cv xof key ctx nonce) k cfg.t.queryRandLen).length = cfg.t.queryRandLen :=
      (queryCore_shape' C cfg.t _ _ _ _ v 1 (query_shape C cfg.t _ _ _ _ v 1 hq).1).2.2.1
    classical
    unfold acceptingQueryRands
    rw [Finset.mem_filter]
    refine ⟨Finset.mem_univ _, v, ?_, hd⟩
    rw [ofFn_getD _ _ hlen]
    exact hq

-- all depend only on [propext, Classical.choice, Quot.sound]:
-- #print axioms verifyInit_view
-- #print axioms next_joint_rand
-- #print axioms message_seed
-- #print axioms accept_reconstructed
-- #print axioms prio3_robust
-- #print axioms prio3_robust_soundness

end Prio.Prio3Robust
