import PrioProofs.Bridge2

/-! # The protocol-level theorems at the deployed fields and the driver's own instances (C01, C03, C09, C19)

Continuation of `Props/Deployed.lean` for the protocol layers (`PrioProofs/Bridge2.lean`,
`PrioModel/DriverInst2.lean`): Prio3 end to end at Field64 / Field128 / FieldPrio2, Prio2 completeness at
FieldPrio2, Poplar1 end to end at (Field64, Field255), with every function symbol the import-free definition the
driver evaluates; and the primality of `2^255 − 19`, which makes the leaf field of Poplar1 a field. -/
namespace Props.Deployed
open Prio Prio.Flp Prio.Prio3 Prio.Bridge Prio.Bridge2 Gen

/-- the modulus of Field255 is prime (seven-level Pratt certificate, kernel-evaluated) -/
theorem p255_prime : Nat.Prime (2 ^ 255 - 19) := Prio.Bridge2.p255_prime

/-- **Prio3 end to end at the driver's Field64 instance and context**: the statement of `Props.C01.prio3_e2e` with
    every function symbol the import-free definition of `PrioModel/DriverInst*.lean` — what `Main.lean` evaluates —
    and the context `fieldCtx "FP64"`; the number of aggregators only has to be below the modulus -/
theorem prio3_e2e_FP64 (cfg : Cfg) (cv : Conv (Fin (q64 + 1)))
    (xof : Xof) (sumLW : Nat) (key ctx nonce random : Prio3.Bytes) (encoded : List (Fin (q64 + 1)))
    (out : ShardOut (Fin (q64 + 1)))
    (hN : 1 ≤ cfg.numAgg) (hInv : cfg.numAgg < FP64.prime) (hNP : 1 ≤ cfg.numProofs)
    (hwf : cfg.t.WellFormed)
    (hvalid : ∀ jr o, Prio.Driver.valid q64 (Prio.fieldCtx "FP64" q64) cfg.t encoded jr 1 = .ok o →
      ∀ x ∈ o, x = Prio.Driver.zero q64)
    (hshard : Prio.Driver.p3shard q64 (Prio.fieldCtx "FP64" q64) cfg cv xof ctx nonce random encoded = .ok out)
    (states : List (VerifyState (Fin (q64 + 1)))) (vshares : List (VerifierShare (Fin (q64 + 1))))
    (hSl : states.length = cfg.numAgg) (hVl : vshares.length = cfg.numAgg)
    (hinit : ∀ i (h1 : i < out.shares.length) (h2 : i < states.length) (h3 : i < vshares.length),
      Prio.Driver.p3verifyInit q64 (Prio.fieldCtx "FP64" q64) cfg cv xof sumLW key ctx i nonce out.jointRandParts
        out.shares[i] = .ok (states[i], vshares[i])) :
    out.shares.length = cfg.numAgg ∧
    ∃ m, Prio.Driver.p3sharesToMessage q64 (Prio.fieldCtx "FP64" q64) cfg xof ctx vshares = .ok m ∧
      ∃ outs : List (List (Fin (q64 + 1))), outs.length = cfg.numAgg ∧
        (∀ i (h1 : i < states.length) (h2 : i < outs.length),
          Prio.Driver.p3verifyNext q64 (Prio.fieldCtx "FP64" q64) cfg cv xof sumLW ctx states[i] m = .ok outs[i]) ∧
        Prio.Driver.p3truncateWith q64 (Prio.fieldCtx "FP64" q64) cfg.t sumLW encoded =
          .ok (outs.foldl (Prio.Driver.p3vadd q64) (List.replicate cfg.t.outputLen (Prio.Driver.zero q64))) :=
  prio3_e2e_FP64_inst cfg cv xof sumLW key ctx nonce random encoded out hN hInv hNP hwf hvalid hshard states vshares
    hSl hVl hinit

/-- the same at Field128 (statement: `Prio.Bridge2.prio3_e2e_FP128_inst`) -/
alias prio3_e2e_FP128 := prio3_e2e_FP128_inst

/-- **Prio2 completeness at the driver's FieldPrio2 instance and context**, for every evaluation point
    (statement: `Prio.Bridge2.prio2_complete_FP32_inst`) -/
alias prio2_complete_FP32 := prio2_complete_FP32_inst

/-- … with nothing assumed to succeed, within the transform limit -/
alias prio2_complete_total_FP32 := Prio.Bridge2.prio2_complete_total_FP32

/-- **Poplar1 end to end at the driver's instances `Fin (q64+1)` (Field64) and `Fin (q255+1)` (Field255)**, inner and
    leaf levels (statements: `Prio.Bridge2.poplar1_inner_e2e_deployed_inst` / `poplar1_leaf_e2e_deployed_inst`; the PRGs
    remain universally quantified under `SeedPres`) -/
alias poplar1_inner_e2e_deployed := poplar1_inner_e2e_deployed_inst
alias poplar1_leaf_e2e_deployed := poplar1_leaf_e2e_deployed_inst

end Props.Deployed
