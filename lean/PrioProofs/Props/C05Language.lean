import PrioProofs.FlpLanguage

/-! # C05 (continued) — the validity circuits decide their languages

Proved in `PrioProofs/FlpLanguage.lean`.  `InLanguage C t x`: `x` has the declared length, every entry is a bit,
and the type's one linear relation holds (Histogram: the entries sum to one; MultihotCountVec: the weight equals
the claimed weight; L1BoundSum: the norm equals the claimed norm) — written without reference to the circuits. -/
namespace Props.C05
open Prio.Flp Prio.Ctor Finset

variable {F : Type} [Field F]

/-- **completeness of the circuits**: a word of the language is accepted — the circuit runs without error and all
    its outputs are zero — under EVERY joint randomness of the declared length -/
theorem valid_complete (C : FieldCtx F) (hC : ∀ n, C.ofNat n = (n : F)) (t : TypeSpec) (x jr : List F)
    (hx : InLanguage C t x) (hjr : jr.length = t.jointRandLen) :
    ∃ o, valid C t x jr 1 = .ok o ∧ ∀ e ∈ o, e = 0 :=
  Prio.Flp.valid_complete C hC t x jr hx hjr

open Classical in
/-- **soundness of the joint-randomness compression, counting form**: for a chunked type (chunk length ≥ 1) a
    word of the declared length that is NOT in the language is accepted by at most `chunkLen · |F|^(jointRandLen-1)`
    of the `|F|^jointRandLen` joint-randomness vectors (probability ≤ chunkLen / |F|); Count and Sum are
    deterministic (`valid_iff_inLanguage_of_not_chunked`) -/
theorem valid_sound_count [Fintype F] (C : FieldCtx F) (hC : ∀ n, C.ofNat n = (n : F)) (t : TypeSpec)
    (hc : 1 ≤ t.chunkLen) (x : List F) (hx : x.length = t.inputLen) (hnot : ¬ InLanguage C t x) :
    (univ.filter fun jr : Fin t.jointRandLen → F =>
      ∃ o, valid C t x (List.ofFn jr) 1 = .ok o ∧ ∀ e ∈ o, e = 0).card ≤
      t.chunkLen * Fintype.card F ^ (t.jointRandLen - 1) :=
  Prio.Flp.valid_sound_count C hC t hc x hx hnot

theorem valid_iff_inLanguage_of_not_chunked (C : FieldCtx F) (hC : ∀ n, C.ofNat n = (n : F)) (t : TypeSpec)
    (ht : ¬ t.IsChunked) (x : List F) (hx : x.length = t.inputLen) :
    (∃ o, valid C t x [] 1 = .ok o ∧ ∀ e ∈ o, e = 0) ↔ InLanguage C t x :=
  Prio.Flp.valid_iff_inLanguage_of_not_chunked C hC t ht x hx

/-- **the encoders produce words of the language**: whenever the (ℕ-level model of) `encode_measurement` accepts a
    measurement, its encoding passes the validity circuit under every joint randomness — for all six types, under
    the parameter relations the constructors establish (`EncParams`) -/
theorem encode_valid (C : FieldCtx F) (hC : ∀ n, C.ofNat n = (n : F)) (t : TypeSpec) (hp : t.EncParams)
    (sumLW aux : Nat) (m enc : List Nat) (h : encodeMeasurement t sumLW aux m = some enc)
    (jr : List F) (hjr : jr.length = t.jointRandLen) :
    ∃ o, valid C t (enc.map (Nat.cast : Nat → F)) jr 1 = .ok o ∧ ∀ e ∈ o, e = 0 :=
  Prio.Flp.encode_valid C hC t hp sumLW aux m enc h jr hjr

end Props.C05
