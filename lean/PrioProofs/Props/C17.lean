import PrioProofs.Prio3
import PrioModel.Poplar1

/-! # C17 — helper shares are independent of the measurement; the leader share is masked -/
namespace Props.C17
open Prio.Prio3 Prio.Flp

variable {F : Type} [Field F] [BEq F]

/-- **Prio3**: for fixed sharding randomness, nonce and context, two measurements (encodings of the
    same length) give byte-identical helper input shares, the same leader blind and the same helper
    joint-randomness parts; the leader's measurement shares differ exactly by the difference of the
    encodings, i.e. the leader holds the encoding under a mask that does not depend on the measurement -/
theorem prio3_helper_independent_leader_masked (C : FieldCtx F) (cfg : Cfg) (cv : Conv F) (xof : Xof)
    (ctx nonce random : Prio.Prio3.Bytes) (e1 e2 : List F) (hl : e1.length = e2.length) (o1 o2 : ShardOut F)
    (h1 : shard C cfg cv xof ctx nonce random e1 = .ok o1) (h2 : shard C cfg cv xof ctx nonce random e2 = .ok o2) :
    o1.shares.tail = o2.shares.tail ∧
    o1.jointRandParts.map List.tail = o2.jointRandParts.map List.tail ∧
    ∃ m1 p1 b1 m2 p2 b2, o1.shares.head? = some (.leader m1 p1 b1) ∧ o2.shares.head? = some (.leader m2 p2 b2) ∧
      b1 = b2 ∧ m1.length = m2.length ∧ vsub m1 m2 = (vsub e1 e2).take m1.length := by
  obtain ⟨ms1, lp1, hm1, hp1, hs1⟩ := shard_ok C cfg cv xof ctx nonce random e1 o1 h1
  obtain ⟨ms2, lp2, hm2, hp2, hs2⟩ := shard_ok C cfg cv xof ctx nonce random e2 o2 h2
  obtain ⟨q1, f1, b1, r1⟩ := shardMeas_some cfg cv xof ctx nonce random e1 ms1 hm1
  obtain ⟨q2, f2, b2, r2⟩ := shardMeas_some cfg cv xof ctx nonce random e2 ms2 hm2
  have hshape := shardLoop_shape cfg cv xof ctx nonce random ((List.range (cfg.numAgg - 1)).map (· + 1)) e1 e2 [] [] hl
  rw [f1, f2] at hshape
  simp only [Option.map_some, Option.some.injEq, Prod.mk.injEq] at hshape
  obtain ⟨eh, eq, _⟩ := hshape
  obtain ⟨g1, g2⟩ := shardLoop_leader cfg cv xof ctx nonce random _ e1 e2 [] [] hl _ _ f1 f2
  have hb : ms1.leaderBlind = ms2.leaderBlind := by rw [b1, b2]
  refine ⟨by rw [hs1, hs2]; simpa using eh, ?_, ?_⟩
  · rw [hp1, hp2, r1, r2, hb, eq]
    cases ms2.leaderBlind <;> simp
  · exact ⟨ms1.leaderMeas, lp1, ms1.leaderBlind, ms2.leaderMeas, lp2, ms2.leaderBlind,
      by rw [hs1]; rfl, by rw [hs2]; rfl, hb, g1, g2⟩

/-- the only parts of the sharding output that may change with the measurement: the leader's
    measurement share, the leader's proofs share and the leader's joint-randomness part (index 0) -/
theorem prio3_changed_outputs (C : FieldCtx F) (cfg : Cfg) (cv : Conv F) (xof : Xof)
    (ctx nonce random : Prio.Prio3.Bytes) (e1 e2 : List F) (hl : e1.length = e2.length) (o1 o2 : ShardOut F)
    (h1 : shard C cfg cv xof ctx nonce random e1 = .ok o1) (h2 : shard C cfg cv xof ctx nonce random e2 = .ok o2) :
    o1.shares.length = o2.shares.length ∧ ∀ k, 1 ≤ k → o1.shares[k]? = o2.shares[k]? := by
  obtain ⟨ht, _, _⟩ := prio3_helper_independent_leader_masked C cfg cv xof ctx nonce random e1 e2 hl o1 o2 h1 h2
  obtain ⟨ms1, lp1, _, _, hs1⟩ := shard_ok C cfg cv xof ctx nonce random e1 o1 h1
  obtain ⟨ms2, lp2, _, _, hs2⟩ := shard_ok C cfg cv xof ctx nonce random e2 o2 h2
  rw [hs1, hs2] at ht ⊢
  simp only [List.tail_cons] at ht
  refine ⟨by simp [ht], ?_⟩
  intro k hk
  cases k with
  | zero => omega
  | succ k => simp [ht]

end Props.C17

/-! ## the Poplar1 half: neither input share depends on the input string -/

namespace Props.C17.Poplar1Half
open Prio.Poplar1 Prio.Idpf

variable {FI FL : Type}
  [Add FI] [Sub FI] [Mul FI] [Neg FI] [Zero FI] [One FI] [BEq FI]
  [Add FL] [Sub FL] [Mul FL] [Neg FL] [Zero FL] [One FL] [BEq FL]

/-- for fixed sharding randomness, nonce and context, two input strings give the same two input
    shares (IDPF key, correlated-randomness seed, inner and leaf correlated randomness): the input
    enters only the public share's correction words -/
theorem poplar1_shares_independent (cfg : Cfg) (ofI : Nat → FI) (ofL : Nat → FL) (xof : Prio.Poplar1.Xof)
    (gI : Prg Prio.Poplar1.Bytes (Pair FI)) (gL : Prg Prio.Poplar1.Bytes (Pair FL))
    (ctx : Prio.Poplar1.Bytes) (input input' : List Bool) (nonce k0 k1 pr0 pr1 pr2 : Prio.Poplar1.Bytes)
    (pub pub' : PubShare FI FL) (s0 s1 s0' s1' : InputShare FI FL)
    (h : shard cfg ofI ofL xof gI gL ctx input nonce k0 k1 pr0 pr1 pr2 = .ok (pub, s0, s1))
    (h' : shard cfg ofI ofL xof gI gL ctx input' nonce k0 k1 pr0 pr1 pr2 = .ok (pub', s0', s1')) :
    s0 = s0' ∧ s1 = s1' := by
  unfold shard at h h'
  by_cases e1 : input.length ≠ cfg.bits
  · rw [if_pos e1] at h; cases h
  by_cases e1' : input'.length ≠ cfg.bits
  · rw [if_pos e1'] at h'; cases h'
  rw [if_neg e1] at h
  rw [if_neg e1'] at h'
  by_cases e2 : cfg.bits = 0
  · rw [if_pos e2] at h; cases h
  rw [if_neg e2] at h h'
  simp only at h h'
  cases ht : (Rng.init xof pr2 usageShard ctx nonce cfg.fi.sz).take cfg.fi (cfg.bits - 1) with
  | none => rw [ht] at h; cases h
  | some r1 =>
    obtain ⟨authsN, prng1⟩ := r1
    rw [ht] at h h'
    simp only at h h'
    cases hg : prng1.get cfg.fl with
    | none => rw [hg] at h; cases h
    | some r2 =>
      obtain ⟨authLeafN, prng2⟩ := r2
      rw [hg] at h h'
      simp only at h h'
      cases hgen : gen gI gL input ((authsN.map ofI).map fun a => (⟨1, a⟩ : Pair FI)) ⟨1, ofL authLeafN⟩ k0 k1 with
      | none => rw [hgen] at h; cases h
      | some p =>
        cases hgen' : gen gI gL input' ((authsN.map ofI).map fun a => (⟨1, a⟩ : Pair FI)) ⟨1, ofL authLeafN⟩ k0 k1 with
        | none => rw [hgen'] at h'; cases h'
        | some p' =>
          rw [hgen] at h
          rw [hgen'] at h'
          simp only at h h'
          cases hc : corrInnerLoop ofI cfg.fi (authsN.map ofI) prng2
              (Rng.init xof pr0 usageCorrInner ctx ([0] ++ nonce) cfg.fi.sz)
              (Rng.init xof pr1 usageCorrInner ctx ([1] ++ nonce) cfg.fi.sz) with
          | none => rw [hc] at h; cases h
          | some r3 =>
            obtain ⟨ci0, ci1, prng3⟩ := r3
            rw [hc] at h h'
            simp only at h h'
            cases hl : nextCorrShares ofL cfg.fl prng3
                (Rng.init xof pr0 usageCorrLeaf ctx ([0] ++ nonce) cfg.fl.sz)
                (Rng.init xof pr1 usageCorrLeaf ctx ([1] ++ nonce) cfg.fl.sz) (ofL authLeafN) with
            | none => rw [hl] at h; cases h
            | some r4 =>
              obtain ⟨cl0, cl1, _, _, _⟩ := r4
              rw [hl] at h h'
              simp only [Res.ok.injEq, Prod.mk.injEq] at h h'
              obtain ⟨_, a0, a1⟩ := h
              obtain ⟨_, b0, b1⟩ := h'
              exact ⟨a0.symm.trans b0, a1.symm.trans b1⟩

end Props.C17.Poplar1Half
