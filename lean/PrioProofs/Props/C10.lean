import PrioModel.Poly
import Mathlib.Algebra.BigOperators.Group.List.Basic
import Mathlib.Algebra.BigOperators.Group.Finset.Basic
import Mathlib.Tactic.Ring
import Mathlib.Tactic.Linarith

/-! # C10 — NTT and Lagrange-basis polynomial routines equal their textbook definitions -/
namespace Props.C10
open Prio.Ntt

/-! ## size and capacity violations are errors -/

variable {F : Type} [Add F] [Sub F] [Mul F] [Neg F] [Zero F] [One F]

theorem ntt_output_too_small (root : Nat → Option F) (outLen : Nat) (outp inp : Array F) (size : Nat) (setS : Bool)
    (h0 : size ≠ 0) (h : size > outLen) :
    ∃ e, nttInternal root outLen outp inp size setS = .err e ∧ e = .outputTooSmall := by
  unfold nttInternal; simp [h0, h]

theorem ntt_size_too_large (root : Nat → Option F) (outLen : Nat) (outp inp : Array F) (size : Nat) (setS : Bool)
    (h0 : size ≠ 0) (h1 : size ≤ outLen) (h : size > 2 ^ maxRoots ∨ (setS = true ∧ size > 2 ^ (maxRoots - 1))) :
    ∃ e, nttInternal root outLen outp inp size setS = .err e ∧ e = .sizeTooLarge := by
  unfold nttInternal
  have h1' : ¬ size > outLen := by omega
  simp only [h0, if_false, h1']
  rcases h with h | ⟨hs, h⟩
  · simp [h]
  · simp [hs, h]

theorem ntt_size_invalid (root : Nat → Option F) (outLen : Nat) (outp inp : Array F) (size : Nat) (setS : Bool)
    (h0 : size ≠ 0) (h1 : size ≤ outLen) (h2 : size ≤ 2 ^ (maxRoots - 1)) (h : size ≠ 2 ^ log2ceil size) :
    ∃ e, nttInternal root outLen outp inp size setS = .err e ∧ e = .sizeInvalid := by
  unfold nttInternal
  have h1' : ¬ size > outLen := by omega
  have h3 : ¬ size > 2 ^ (maxRoots - 1) := by omega
  have h4 : ¬ size > 2 ^ maxRoots := by
    have : 2 ^ (maxRoots - 1) ≤ 2 ^ maxRoots := Nat.pow_le_pow_right (by norm_num) (by decide)
    omega
  simp [h0, h1', h3, h4, h]

/-- in every other case the transform does not report an error (it is `ok`, or a panic for an empty
    input or a missing root, which the next theorem excludes) -/
theorem ntt_no_error_otherwise (root : Nat → Option F) (outLen : Nat) (outp inp : Array F) (size : Nat) (setS : Bool)
    (h0 : size ≠ 0) (h1 : size ≤ outLen) (h2 : size ≤ 2 ^ maxRoots) (h3 : setS = true → size ≤ 2 ^ (maxRoots - 1))
    (h : size = 2 ^ log2ceil size) : ∀ e, nttInternal root outLen outp inp size setS ≠ .err e := by
  intro e
  unfold nttInternal
  have h1' : ¬ size > outLen := by omega
  have h2' : ¬ size > 2 ^ maxRoots := by omega
  have h3' : (setS && decide (size > 2 ^ (maxRoots - 1))) = false := by
    cases setS
    · rfl
    · have := h3 rfl; simp; omega
  simp only [h0, if_false, h1', h2', h3', decide_false, Bool.or_self, Bool.false_eq_true]
  rw [if_neg (by simpa using h)]
  split
  · simp
  · split <;> simp

/-- the error outcome of the transform is exactly what the stand-alone argument check reports: the
    size limits (2^20, and 2^19 for the shifted transform), the output length and the power-of-two
    requirement are decided by `nttSizeCheck` alone -/
theorem nttInternal_err_iff (root : Nat → Option F) (outLen : Nat) (outp inp : Array F) (size : Nat) (setS : Bool)
    (h0 : size ≠ 0) (e : NttError) :
    nttInternal root outLen outp inp size setS = .err e ↔ nttSizeCheck outLen size setS = some e := by
  unfold nttInternal nttSizeCheck
  simp only [h0, if_false]
  by_cases h1 : size > outLen
  · simp only [h1, if_true]
    constructor <;> intro h <;> simp_all
  · simp only [h1, if_false]
    by_cases h2 : ((setS && decide (size > 2 ^ (maxRoots - 1))) || decide (size > 2 ^ maxRoots)) = true
    · rw [if_pos h2, if_pos h2]
      constructor <;> intro h <;> simp_all
    · rw [if_neg h2, if_neg h2]
      by_cases h3 : size ≠ 2 ^ log2ceil size
      · rw [if_pos h3, if_pos h3]
        constructor <;> intro h <;> simp_all
      · rw [if_neg h3, if_neg h3]
        constructor
        · intro h
          split at h
          · cases h
          · split at h <;> cases h
        · intro h; cases h

/-- boundary of the size limit: the shifted transform of size 2^19 and the plain transform of size
    2^20 pass the check; one doubling more does not -/
example : nttSizeCheck (2 ^ 19) (2 ^ 19) true = none ∧ nttSizeCheck (2 ^ 20) (2 ^ 20) true = some .sizeTooLarge ∧
    nttSizeCheck (2 ^ 20) (2 ^ 20) false = none ∧ nttSizeCheck (2 ^ 21) (2 ^ 21) false = some .sizeTooLarge := by
  decide +kernel

/-! ## bit reversal -/

theorem bitrev_lt (d i : Nat) : bitrev d i < 2 ^ d := by
  induction d generalizing i with
  | zero => simp [bitrev]
  | succ d ih =>
    simp only [bitrev, Nat.pow_succ]
    have := ih (i / 2)
    have : i % 2 < 2 := Nat.mod_lt _ (by norm_num)
    nlinarith

/-- reversing the low `d` bits twice gives the number back -/
theorem bitrev_step (d i b : Nat) (hb : b < 2) (hi : i < 2 ^ d) :
    bitrev (d + 1) (2 * i + b) = b * 2 ^ d + bitrev d i := by
  simp only [bitrev]
  have e1 : (2 * i + b) % 2 = b := by omega
  have e2 : (2 * i + b) / 2 = i := by omega
  rw [e1, e2]

theorem bitrev_append (d i b : Nat) (hb : b < 2) (hi : i < 2 ^ d) :
    bitrev (d + 1) (i + b * 2 ^ d) = 2 * bitrev d i + b := by
  induction d generalizing i with
  | zero =>
    have : i = 0 := by simpa using hi
    subst this
    simp [bitrev]; omega
  | succ d ih =>
    -- peel the lowest bit of i
    have hi2 : i / 2 < 2 ^ d := by
      rw [Nat.pow_succ] at hi; omega
    have hb2 : b * 2 ^ d ≤ 2 ^ d := by
      have : b = 0 ∨ b = 1 := by omega
      rcases this with rfl | rfl <;> simp
    have e : i + b * 2 ^ (d + 1) = 2 * (i / 2 + b * 2 ^ d) + i % 2 := by
      have : b * 2 ^ (d + 1) = 2 * (b * 2 ^ d) := by rw [Nat.pow_succ]; ring
      omega
    rw [e, bitrev_step (d + 1) _ (i % 2) (Nat.mod_lt _ (by norm_num))
      (by rw [Nat.pow_succ]; omega), ih (i / 2) hi2]
    simp only [bitrev]
    rw [Nat.pow_succ]; ring

theorem bitrev_involutive (d i : Nat) (hi : i < 2 ^ d) : bitrev d (bitrev d i) = i := by
  induction d generalizing i with
  | zero => simp [bitrev]; omega
  | succ d ih =>
    have hi2 : i / 2 < 2 ^ d := by rw [Nat.pow_succ] at hi; omega
    have hb : i % 2 < 2 := Nat.mod_lt _ (by norm_num)
    have e : bitrev (d + 1) i = bitrev d (i / 2) + i % 2 * 2 ^ d := by
      simp only [bitrev]; omega
    rw [e, bitrev_append d _ (i % 2) hb (bitrev_lt d (i / 2)), ih (i / 2) hi2]
    omega

end Props.C10

namespace Props.C10
open Prio.Ntt

/-! ## Horner evaluation -/

variable {R : Type} [CommSemiring R]

theorem horner_foldl (x : R) (cs : List R) (acc : R) :
    cs.foldl (fun a c => a * x + c) acc = acc * x ^ cs.length + (cs.reverse.zipIdx.map fun p => p.1 * x ^ p.2).sum := by
  induction cs generalizing acc with
  | nil => simp
  | cons c cs ih =>
    simp only [List.foldl_cons, ih, List.length_cons, List.reverse_cons]
    rw [List.zipIdx_append]
    simp only [List.map_append, List.sum_append, List.zipIdx_singleton, List.map_cons, List.map_nil,
      List.sum_cons, List.sum_nil, List.length_reverse, zero_add, add_zero]
    ring

/-- `poly_eval_monomial` computes `Σ aᵢ xⁱ` -/
theorem polyEvalMonomial_spec (poly : List R) (x : R) :
    polyEvalMonomial poly x = (poly.zipIdx.map fun p => p.1 * x ^ p.2).sum := by
  unfold polyEvalMonomial
  cases h : poly.reverse with
  | nil =>
    have : poly = [] := by simpa using h
    simp [this]
  | cons top rest =>
    simp only
    rw [horner_foldl]
    have hp : poly = rest.reverse ++ [top] := by
      have := congrArg List.reverse h
      simpa using this
    rw [hp, List.zipIdx_append]
    simp only [List.map_append, List.sum_append, List.zipIdx_singleton, List.map_cons, List.map_nil,
      List.sum_cons, List.sum_nil, List.length_reverse, zero_add, add_zero]
    ring

/-! ## stated, to be proved: the transforms equal the DFT -/

/-- the direct DFT of a coefficient vector padded with zeros to length `n`, at the points `s·ωⁱ` -/
def dftDirect {K : Type} [Field K] (ω s : K) (n : Nat) (coeffs : List K) : List K :=
  (List.range n).map fun i => polyEvalMonomial (coeffs ++ List.replicate (n - coeffs.length) 0) (s * ω ^ i)

/-- full-strength statement of the forward transform (all sizes 2^d ≤ 2^20, any field in which
    `root l` is a primitive 2^l-th root of unity with `root(l)^2 = root(l-1)`) -/
def ntt_eq_dft_statement : Prop :=
  ∀ (K : Type) [Field K] (root : Nat → Option K) (d : Nat) (ω : K) (inp : List K),
    d ≤ 20 → root d = some ω → (∀ l, l ≤ d → ∃ r, root l = some r ∧ (l ≥ 1 → ∃ r', root (l - 1) = some r' ∧ r * r = r')) →
    inp.length ≤ 2 ^ d → inp ≠ [] →
    (match nttInternal root (2 ^ d) (Array.replicate (2 ^ d) 0) inp.toArray (2 ^ d) false with
     | .ok a => a.toList = dftDirect ω 1 (2 ^ d) inp
     | _ => False)

end Props.C10
