import PrioModel.Poly
import PrioProofs.NttDft
import PrioProofs.NttInv
import PrioProofs.Lagrange
import PrioProofs.LagrangeOps
import PrioProofs.Extend
import PrioModel.Field
import Mathlib.Data.ZMod.Basic
import Mathlib.Tactic.IntervalCases
import Mathlib.Algebra.BigOperators.Group.List.Basic
import Mathlib.Algebra.BigOperators.Group.Finset.Basic
import Mathlib.Tactic.Ring
import Mathlib.Tactic.Linarith

/-! # C10 — NTT and Lagrange-basis polynomial routines equal their textbook definitions -/
namespace Props.C10
open Prio.Ntt

/-! ## size and capacity violations are errors -/

variable {F : Type} [Add F] [Sub F] [Mul F] [Neg F] [Zero F] [One F]

theorem ntt_output_too_small (root : Nat → Option F) (outLen : Nat) (outp inp : Array F) (size : Nat) (setS : Bool)
    (h0 : size ≠ 0) (h : size > outLen) :
    ∃ e, nttInternal root outLen outp inp size setS = .err e ∧ e = .outputTooSmall := by
  unfold nttInternal; simp [h0, h]

theorem ntt_size_too_large (root : Nat → Option F) (outLen : Nat) (outp inp : Array F) (size : Nat) (setS : Bool)
    (h0 : size ≠ 0) (h1 : size ≤ outLen) (h : size > 2 ^ maxRoots ∨ (setS = true ∧ size > 2 ^ (maxRoots - 1))) :
    ∃ e, nttInternal root outLen outp inp size setS = .err e ∧ e = .sizeTooLarge := by
  unfold nttInternal
  have h1' : ¬ size > outLen := by omega
  simp only [h0, if_false, h1']
  rcases h with h | ⟨hs, h⟩
  · simp [h]
  · simp [hs, h]

theorem ntt_size_invalid (root : Nat → Option F) (outLen : Nat) (outp inp : Array F) (size : Nat) (setS : Bool)
    (h0 : size ≠ 0) (h1 : size ≤ outLen) (h2 : size ≤ 2 ^ (maxRoots - 1)) (h : size ≠ 2 ^ log2ceil size) :
    ∃ e, nttInternal root outLen outp inp size setS = .err e ∧ e = .sizeInvalid := by
  unfold nttInternal
  have h1' : ¬ size > outLen := by omega
  have h3 : ¬ size > 2 ^ (maxRoots - 1) := by omega
  have h4 : ¬ size > 2 ^ maxRoots := by
    have : 2 ^ (maxRoots - 1) ≤ 2 ^ maxRoots := Nat.pow_le_pow_right (by norm_num) (by decide)
    omega
  simp [h0, h1', h3, h4, h]

/-- in every other case the transform does not report an error (it is `ok`, or a panic for an empty
    input or a missing root, which the next theorem excludes) -/
theorem ntt_no_error_otherwise (root : Nat → Option F) (outLen : Nat) (outp inp : Array F) (size : Nat) (setS : Bool)
    (h0 : size ≠ 0) (h1 : size ≤ outLen) (h2 : size ≤ 2 ^ maxRoots) (h3 : setS = true → size ≤ 2 ^ (maxRoots - 1))
    (h : size = 2 ^ log2ceil size) : ∀ e, nttInternal root outLen outp inp size setS ≠ .err e := by
  intro e
  unfold nttInternal
  have h1' : ¬ size > outLen := by omega
  have h2' : ¬ size > 2 ^ maxRoots := by omega
  have h3' : (setS && decide (size > 2 ^ (maxRoots - 1))) = false := by
    cases setS
    · rfl
    · have := h3 rfl; simp; omega
  simp only [h0, if_false, h1', h2', h3', decide_false, Bool.or_self, Bool.false_eq_true]
  rw [if_neg (by simpa using h)]
  split
  · simp
  · split <;> simp

/-- the error outcome of the transform is exactly what the stand-alone argument check reports: the
    size limits (2^20, and 2^19 for the shifted transform), the output length and the power-of-two
    requirement are decided by `nttSizeCheck` alone -/
theorem nttInternal_err_iff (root : Nat → Option F) (outLen : Nat) (outp inp : Array F) (size : Nat) (setS : Bool)
    (h0 : size ≠ 0) (e : NttError) :
    nttInternal root outLen outp inp size setS = .err e ↔ nttSizeCheck outLen size setS = some e := by
  unfold nttInternal nttSizeCheck
  simp only [h0, if_false]
  by_cases h1 : size > outLen
  · simp only [h1, if_true]
    constructor <;> intro h <;> simp_all
  · simp only [h1, if_false]
    by_cases h2 : ((setS && decide (size > 2 ^ (maxRoots - 1))) || decide (size > 2 ^ maxRoots)) = true
    · rw [if_pos h2, if_pos h2]
      constructor <;> intro h <;> simp_all
    · rw [if_neg h2, if_neg h2]
      by_cases h3 : size ≠ 2 ^ log2ceil size
      · rw [if_pos h3, if_pos h3]
        constructor <;> intro h <;> simp_all
      · rw [if_neg h3, if_neg h3]
        constructor
        · intro h
          split at h
          · cases h
          · split at h <;> cases h
        · intro h; cases h

/-- boundary of the size limit: the shifted transform of size 2^19 and the plain transform of size
    2^20 pass the check; one doubling more does not -/
example : nttSizeCheck (2 ^ 19) (2 ^ 19) true = none ∧ nttSizeCheck (2 ^ 20) (2 ^ 20) true = some .sizeTooLarge ∧
    nttSizeCheck (2 ^ 20) (2 ^ 20) false = none ∧ nttSizeCheck (2 ^ 21) (2 ^ 21) false = some .sizeTooLarge := by
  decide +kernel

/-! ## bit reversal -/

theorem bitrev_lt (d i : Nat) : bitrev d i < 2 ^ d := by
  induction d generalizing i with
  | zero => simp [bitrev]
  | succ d ih =>
    simp only [bitrev, Nat.pow_succ]
    have := ih (i / 2)
    have : i % 2 < 2 := Nat.mod_lt _ (by norm_num)
    nlinarith

/-- reversing the low `d` bits twice gives the number back -/
theorem bitrev_step (d i b : Nat) (hb : b < 2) (hi : i < 2 ^ d) :
    bitrev (d + 1) (2 * i + b) = b * 2 ^ d + bitrev d i := by
  simp only [bitrev]
  have e1 : (2 * i + b) % 2 = b := by omega
  have e2 : (2 * i + b) / 2 = i := by omega
  rw [e1, e2]

theorem bitrev_append (d i b : Nat) (hb : b < 2) (hi : i < 2 ^ d) :
    bitrev (d + 1) (i + b * 2 ^ d) = 2 * bitrev d i + b := by
  induction d generalizing i with
  | zero =>
    have : i = 0 := by simpa using hi
    subst this
    simp [bitrev]; omega
  | succ d ih =>
    -- peel the lowest bit of i
    have hi2 : i / 2 < 2 ^ d := by
      rw [Nat.pow_succ] at hi; omega
    have hb2 : b * 2 ^ d ≤ 2 ^ d := by
      have : b = 0 ∨ b = 1 := by omega
      rcases this with rfl | rfl <;> simp
    have e : i + b * 2 ^ (d + 1) = 2 * (i / 2 + b * 2 ^ d) + i % 2 := by
      have : b * 2 ^ (d + 1) = 2 * (b * 2 ^ d) := by rw [Nat.pow_succ]; ring
      omega
    rw [e, bitrev_step (d + 1) _ (i % 2) (Nat.mod_lt _ (by norm_num))
      (by rw [Nat.pow_succ]; omega), ih (i / 2) hi2]
    simp only [bitrev]
    rw [Nat.pow_succ]; ring

theorem bitrev_involutive (d i : Nat) (hi : i < 2 ^ d) : bitrev d (bitrev d i) = i := by
  induction d generalizing i with
  | zero => simp [bitrev]; omega
  | succ d ih =>
    have hi2 : i / 2 < 2 ^ d := by rw [Nat.pow_succ] at hi; omega
    have hb : i % 2 < 2 := Nat.mod_lt _ (by norm_num)
    have e : bitrev (d + 1) i = bitrev d (i / 2) + i % 2 * 2 ^ d := by
      simp only [bitrev]; omega
    rw [e, bitrev_append d _ (i % 2) hb (bitrev_lt d (i / 2)), ih (i / 2) hi2]
    omega

end Props.C10

namespace Props.C10
open Prio.Ntt

/-! ## Horner evaluation -/

variable {R : Type} [CommSemiring R]

theorem horner_foldl (x : R) (cs : List R) (acc : R) :
    cs.foldl (fun a c => a * x + c) acc = acc * x ^ cs.length + (cs.reverse.zipIdx.map fun p => p.1 * x ^ p.2).sum := by
  induction cs generalizing acc with
  | nil => simp
  | cons c cs ih =>
    simp only [List.foldl_cons, ih, List.length_cons, List.reverse_cons]
    rw [List.zipIdx_append]
    simp only [List.map_append, List.sum_append, List.zipIdx_singleton, List.map_cons, List.map_nil,
      List.sum_cons, List.sum_nil, List.length_reverse, zero_add, add_zero]
    ring

/-- `poly_eval_monomial` computes `Σ aᵢ xⁱ` -/
theorem polyEvalMonomial_spec (poly : List R) (x : R) :
    polyEvalMonomial poly x = (poly.zipIdx.map fun p => p.1 * x ^ p.2).sum := by
  unfold polyEvalMonomial
  cases h : poly.reverse with
  | nil =>
    have : poly = [] := by simpa using h
    simp [this]
  | cons top rest =>
    simp only
    rw [horner_foldl]
    have hp : poly = rest.reverse ++ [top] := by
      have := congrArg List.reverse h
      simpa using this
    rw [hp, List.zipIdx_append]
    simp only [List.map_append, List.sum_append, List.zipIdx_singleton, List.map_cons, List.map_nil,
      List.sum_cons, List.sum_nil, List.length_reverse, zero_add, add_zero]
    ring

/-! ## the transform equals the DFT -/

/-- **the forward transform is the discrete Fourier transform** (proved in `PrioProofs/NttDft.lean`
    by an invariant over the butterfly levels): for every commutative ring, every table of roots with
    `ω 1 = -1` and `ω l ² = ω (l-1)` (what `rootsOk`, C09, establishes for the tables of src/fp.rs),
    every size `2^d ≤ 2^20` (`2^19` for the shifted transform), every input and every sufficiently
    long output buffer, `ntt_internal` succeeds and output `k` is `Σ_t inp[t]·(σ_d·ω_d^k)^t` — the
    input polynomial evaluated at the `k`-th point — where `σ_d = ω (d+1)` for `set_s` and 1 otherwise -/
theorem ntt_is_dft {F : Type} [CommRing F] {ω : Nat → F} (root : Nat → Option F) (setS : Bool)
    (d outLen : Nat) (h : Roots ω (if setS then d + 1 else d)) (outp inp : Array F) (hd : d ≤ maxRoots) (hds : setS = true → d ≤ maxRoots - 1)
    (hol : 2 ^ d ≤ outLen) (hop : 2 ^ d ≤ outp.size)
    (hr : RootsAvail root ω (if setS then d + 1 else d)) (hne : d = 0 → inp.size ≠ 0) :
    ∃ a, nttInternal root outLen outp inp (2 ^ d) setS = .ok a ∧ a.size = outp.size ∧
      ∀ k, k < 2 ^ d → a.getD k 0 =
        Finset.sum (Finset.range (2 ^ d)) fun t => inp.getD t 0 * (sigma ω setS d * ω d ^ k) ^ t :=
  ntt_eq_dft root setS d outLen h outp inp hd hds hol hop hr hne

/-- the transform is linear in its input: the transform of a sum is the sum of the transforms -/
theorem ntt_linear {F : Type} [CommRing F] {ω : Nat → F} (root : Nat → Option F) (setS : Bool)
    (d : Nat) (h : Roots ω (if setS then d + 1 else d)) (x y z : Array F) (hd : d ≤ maxRoots) (hds : setS = true → d ≤ maxRoots - 1)
    (hr : RootsAvail root ω (if setS then d + 1 else d))
    (hx : x.size ≠ 0) (hy : y.size ≠ 0) (hz : z.size ≠ 0)
    (hsum : ∀ t, t < 2 ^ d → z.getD t 0 = x.getD t 0 + y.getD t 0) :
    ∃ a b c, nttInternal root (2 ^ d) (Array.replicate (2 ^ d) 0) x (2 ^ d) setS = .ok a ∧
      nttInternal root (2 ^ d) (Array.replicate (2 ^ d) 0) y (2 ^ d) setS = .ok b ∧
      nttInternal root (2 ^ d) (Array.replicate (2 ^ d) 0) z (2 ^ d) setS = .ok c ∧
      ∀ k, k < 2 ^ d → c.getD k 0 = a.getD k 0 + b.getD k 0 := by
  have hsz : 2 ^ d ≤ (Array.replicate (2 ^ d) (0 : F)).size := by simp
  obtain ⟨a, ea, _, fa⟩ := ntt_eq_dft root setS d (2 ^ d) h _ x hd hds (le_refl _) hsz hr (fun _ => hx)
  obtain ⟨b, eb, _, fb⟩ := ntt_eq_dft root setS d (2 ^ d) h _ y hd hds (le_refl _) hsz hr (fun _ => hy)
  obtain ⟨c, ec, _, fc⟩ := ntt_eq_dft root setS d (2 ^ d) h _ z hd hds (le_refl _) hsz hr (fun _ => hz)
  refine ⟨a, b, c, ea, eb, ec, ?_⟩
  intro k hk
  rw [fa k hk, fb k hk, fc k hk, ← Finset.sum_add_distrib]
  apply Finset.sum_congr rfl
  intro t ht
  rw [hsum t (Finset.mem_range.mp ht)]
  ring

/-- non-vacuity: a field with a table of roots meeting the hypotheses — `ZMod 17`, where 3 has order
    16, so `ω l = 3^(2^(4-l))` is a `2^l`-th root for `l ≤ 4` (transforms up to size 16, shifted up to 8) -/
example : Roots (fun l : Nat => (3 : ZMod 17) ^ (2 ^ (4 - l))) 4 := by
  refine ⟨by decide, ?_⟩
  intro l h1 h2
  interval_cases l <;> decide

/-! ### the tables of src/fp.rs meet the hypotheses -/

section tables
open Gen

/-- value (out of Montgomery form) of the `l`-th tabulated root -/
def rootVal (P : FpParams) (l : Nat) : Nat := P.residue (P.roots.getD l 0)

/-- `ROOTS[1]` is `-1` and every tabulated root is the square of the next one, as integers mod `p` -/
def rootChain (P : FpParams) : Bool :=
  rootVal P 1 + 1 == P.prime &&
  (List.range (min MAX_ROOTS P.numRoots)).all fun i => rootVal P (i + 1) * rootVal P (i + 1) % P.prime == rootVal P i

theorem FP32_chain : rootChain FP32 = true := by decide +kernel
theorem FP64_chain : rootChain FP64 = true := by decide +kernel
theorem FP128_chain : rootChain FP128 = true := by decide +kernel

/-- the table of a field, read in `ZMod p`, is a table of roots in the sense of `ntt_is_dft`, up to
    `min(MAX_ROOTS, NUM_ROOTS)` = 20 levels: the theorem applies to the deployed fields as they are -/
theorem table_roots (P : FpParams) (hp : 2 ≤ P.prime) (h : rootChain P = true) :
    Roots (fun l => ((rootVal P l : Nat) : ZMod P.prime)) (min MAX_ROOTS P.numRoots) := by
  unfold rootChain at h
  simp only [Bool.and_eq_true, beq_iff_eq, List.all_eq_true, List.mem_range] at h
  obtain ⟨h1, h2⟩ := h
  haveI : NeZero P.prime := ⟨by omega⟩
  refine ⟨?_, ?_⟩
  · have : ((rootVal P 1 + 1 : Nat) : ZMod P.prime) = 0 := by rw [h1]; exact ZMod.natCast_self _
    push_cast at this
    exact eq_neg_of_add_eq_zero_left this
  · intro l hl1 hl2
    obtain ⟨i, rfl⟩ : ∃ i, l = i + 1 := ⟨l - 1, by omega⟩
    have := h2 i (by omega)
    simp only [Nat.add_sub_cancel]
    rw [← this, ZMod.natCast_mod, Nat.cast_mul]

example : Roots (fun l => ((rootVal FP64 l : Nat) : ZMod FP64.prime)) 20 :=
  table_roots FP64 (by decide) FP64_chain

end tables

/-! ## the inverse transform and the Lagrange-basis routines (proved in `PrioProofs/NttInv.lean`,
    `Lagrange.lean`, `LagrangeOps.lean`, `Extend.lean`)

Polynomials are given by a coefficient function `coef : ℕ → F` and a length bound; the nodes of the
size-`2^d` domain are `ω d ^ i`.  All statements are for every field with `2 ≠ 0`, every table of roots
satisfying the root chain, every size within the table and every input. -/

section lagrange
open Finset BigOperators
variable {F : Type} [Field F]

/-- **inverse transform = interpolation**: `ntt_inv` succeeds and its output, read as coefficients,
    takes the value `inp[i]` at the node `ω_d^i`, for every input array -/
theorem ntt_inv_interpolates {ω : Nat → F} (root : Nat → Option F) (d : Nat) (h : Roots ω d) (h2 : (2 : F) ≠ 0)
    (outp inp : Array F) (s : F) (hs : s * (2 : F) ^ d = 1) (hd : d ≤ maxRoots) (hop : 2 ^ d ≤ outp.size)
    (hr : RootsAvail root ω d) (hne : d = 0 → inp.size ≠ 0) :
    ∃ c, nttInv root outp inp (2 ^ d) s = .ok c ∧ c.size = outp.size ∧
      ∀ i, i < 2 ^ d → ∑ t ∈ range (2 ^ d), c.getD t 0 * (ω d ^ i) ^ t = inp.getD i 0 :=
  nttInv_interpolates root d h h2 outp inp s hs hd hop hr hne

/-- … and applied to the values of a polynomial of degree `< 2^d` it returns that polynomial's coefficients -/
theorem ntt_inv_of_values {ω : Nat → F} (root : Nat → Option F) (d : Nat) (h : Roots ω d) (h2 : (2 : F) ≠ 0)
    (outp inp : Array F) (s : F) (hs : s * (2 : F) ^ d = 1) (hd : d ≤ maxRoots) (hop : 2 ^ d ≤ outp.size)
    (hr : RootsAvail root ω d) (hne : d = 0 → inp.size ≠ 0) (coef : Nat → F)
    (hv : ∀ i, i < 2 ^ d → inp.getD i 0 = ∑ t ∈ range (2 ^ d), coef t * (ω d ^ i) ^ t) :
    ∃ c, nttInv root outp inp (2 ^ d) s = .ok c ∧ c.size = outp.size ∧ ∀ t, t < 2 ^ d → c.getD t 0 = coef t :=
  nttInv_of_values root d h h2 outp inp s hs hd hop hr hne coef hv

/-- the forward transform of the inverse transform is the identity -/
theorem ntt_of_ntt_inv {ω : Nat → F} (root : Nat → Option F) (d : Nat) (h : Roots ω d) (h2 : (2 : F) ≠ 0)
    (outp inp : Array F) (s : F) (hs : s * (2 : F) ^ d = 1) (hd : d ≤ maxRoots) (hop : 2 ^ d ≤ outp.size)
    (hr : RootsAvail root ω d) (hne : d = 0 → inp.size ≠ 0) :
    ∃ c, nttInv root outp inp (2 ^ d) s = .ok c ∧ c.size = outp.size ∧
      ∀ (outLen : Nat) (outp' : Array F), 2 ^ d ≤ outLen → 2 ^ d ≤ outp'.size →
        ∃ a, nttInternal root outLen outp' c (2 ^ d) false = .ok a ∧ a.size = outp'.size ∧
          ∀ i, i < 2 ^ d → a.getD i 0 = inp.getD i 0 :=
  ntt_of_nttInv root d h h2 outp inp s hs hd hop hr hne

/-- the nodes of a domain are pairwise distinct -/
theorem nodes_distinct {ω : Nat → F} {d : Nat} (h : Roots ω d) (h2 : (2 : F) ≠ 0) (i j : Nat)
    (hi : i < 2 ^ d) (hj : j < 2 ^ d) (hij : ω d ^ i = ω d ^ j) : i = j :=
  roots_distinct h h2 i j hi hj hij

/-- `nth_root_powers(2^k)` is the table `ω_k^0, ω_k^1, …` -/
theorem root_powers_table {ω : Nat → F} (root : Nat → Option F) (k : Nat) (h : Roots ω k)
    (hr : RootsAvail root ω k) :
    ∃ r, nthRootPowers root k = some r ∧ r.size = 2 ^ k ∧ ∀ j, j < 2 ^ k → r.getD j 0 = ω k ^ j :=
  nthRootPowers_spec root k h hr

/-- **Lagrange evaluation**: given the (zero-padded) values of a polynomial of degree `< 2^k` at the
    nodes, `poly_eval_lagrange_batched` returns its value at `x` — for every `x`, nodes included -/
theorem lagrange_eval_is_poly_eval {ω : Nat → F} (k : Nat) (h : Roots ω k) (h2 : (2 : F) ≠ 0)
    (roots : Array F) (hsz : roots.size = 2 ^ k) (hroots : ∀ j, j < 2 ^ k → roots.getD j 0 = ω k ^ j)
    (half : F) (hh : half * 2 = 1) (coef : Nat → F) (ys : Array F) (hys : ys.size ≤ 2 ^ k)
    (hv : ∀ i, i < 2 ^ k → (if i < ys.size then ys.getD i 0 else 0) = ∑ t ∈ range (2 ^ k), coef t * (ω k ^ i) ^ t)
    (x : F) :
    polyEvalLagrange roots half k ys x = ∑ t ∈ range (2 ^ k), coef t * x ^ t :=
  polyEvalLagrange_spec k h h2 roots hsz hroots half hh coef ys hys hv x

/-- **extension**: `extend_values_to_power_of_2` fills every further node with the value of the
    polynomial of degree `< m` that the first `m` values determine (any pairwise distinct nodes) -/
theorem extend_values_is_poly (r poly : Array F) (m : Nat) (hmn : m ≤ poly.size)
    (hinj : ∀ i j, i < poly.size → j < poly.size → r.getD i 0 = r.getD j 0 → i = j)
    (coef : Nat → F)
    (hv : ∀ i, i < m → poly.getD i 0 = ∑ t ∈ range m, coef t * (r.getD i 0) ^ t) :
    (extendValues r poly m).size = poly.size ∧
    ∀ i, i < poly.size → (extendValues r poly m).getD i 0 = ∑ t ∈ range m, coef t * (r.getD i 0) ^ t :=
  extendValues_spec' r poly m hmn hinj coef hv

/-- **doubling**: from the values on the `2^d` nodes to the values on the `2^(d+1)` nodes -/
theorem double_evaluations_is_poly {ω : Nat → F} (root : Nat → Option F) (d : Nat) (h : Roots ω (d + 1))
    (h2 : (2 : F) ≠ 0) (hr : RootsAvail root ω (d + 1)) (hd : d + 1 ≤ maxRoots)
    (evals : Array F) (hsz : evals.size = 2 ^ d) (s : F) (hs : s * (2 : F) ^ d = 1) (coef : Nat → F)
    (hv : ∀ i, i < 2 ^ d → evals.getD i 0 = ∑ t ∈ range (2 ^ d), coef t * (ω d ^ i) ^ t) :
    ∃ out, doubleEvaluations root (2 * 2 ^ d) evals s = .ok out ∧ out.size = 2 ^ (d + 1) ∧
      ∀ k, k < 2 ^ (d + 1) → out.getD k 0 = ∑ t ∈ range (2 ^ d), coef t * (ω (d + 1) ^ k) ^ t :=
  doubleEvaluations_spec root d h h2 hr hd evals hsz s hs coef hv

/-- **multiplication in the Lagrange basis**: the output holds the product polynomial's values on the
    doubled domain -/
theorem lagrange_mul_is_product {ω : Nat → F} (root : Nat → Option F) (d : Nat) (h : Roots ω (d + 1))
    (h2 : (2 : F) ≠ 0) (hr : RootsAvail root ω (d + 1)) (hd : d + 1 ≤ maxRoots)
    (p q : Array F) (hp : p.size = 2 ^ d) (hq : q.size = 2 ^ d) (s : F) (hs : s * (2 : F) ^ d = 1)
    (cp cq : Nat → F)
    (hvp : ∀ i, i < 2 ^ d → p.getD i 0 = ∑ t ∈ range (2 ^ d), cp t * (ω d ^ i) ^ t)
    (hvq : ∀ i, i < 2 ^ d → q.getD i 0 = ∑ t ∈ range (2 ^ d), cq t * (ω d ^ i) ^ t) :
    ∃ out, polyMulLagrange root (2 * 2 ^ d) p q s = .ok out ∧ out.size = 2 ^ (d + 1) ∧
      ∀ k, k < 2 ^ (d + 1) → out.getD k 0 =
        (∑ t ∈ range (2 ^ d), cp t * (ω (d + 1) ^ k) ^ t) * (∑ t ∈ range (2 ^ d), cq t * (ω (d + 1) ^ k) ^ t) :=
  polyMulLagrange_spec root d h h2 hr hd p q hp hq s hs cp cq hvp hvq

end lagrange

end Props.C10
