import PrioProofs.Prio3

/-! # C02 — Prio3 robustness: what acceptance implies (decision logic stated outright) -/
namespace Props.C02
open Prio.Prio3 Prio.Flp

variable {F : Type} [Field F] [BEq F]

theorem sumStep_err (cfg : Cfg) (shares : List (VerifierShare F)) :
    shares.foldl (sumStep cfg) Prio.Res.err = Prio.Res.err := by
  induction shares with
  | nil => rfl
  | cons s r ih => simpa [List.foldl_cons, sumStep] using ih

theorem sumStep_panic (cfg : Cfg) (shares : List (VerifierShare F)) :
    shares.foldl (sumStep cfg) Prio.Res.panic = Prio.Res.panic := by
  induction shares with
  | nil => rfl
  | cons s r ih => simpa [List.foldl_cons, sumStep] using ih

/-- the combiner loop, from any starting state: it succeeds only if every share has the declared
    verifier length (and a joint-randomness part when the type needs one), it counts every share, and
    it adds all verifier shares up -/
theorem sumShares_fold (cfg : Cfg) (shares : List (VerifierShare F)) :
    ∀ (vs0 : List F) (parts0 : List Prio.Prio3.Bytes) (c0 : Nat) (vs : List F) (parts : List Prio.Prio3.Bytes) (count : Nat),
      shares.foldl (sumStep cfg) (Prio.Res.ok (vs0, parts0, c0)) = Prio.Res.ok (vs, parts, count) →
      count = c0 + shares.length ∧
      (∀ sh ∈ shares, sh.verifiers.length = cfg.t.verifierLen * cfg.numProofs) ∧
      vs = shares.foldl (fun acc sh => vadd acc sh.verifiers) vs0 ∧
      (cfg.t.jointRandLen > 0 → parts = parts0 ++ shares.filterMap (·.jointRandPart) ∧
        ∀ sh ∈ shares, sh.jointRandPart.isSome = true) := by
  induction shares with
  | nil =>
    intro vs0 parts0 c0 vs parts count h
    simp only [List.foldl_nil, Prio.Res.ok.injEq, Prod.mk.injEq] at h
    obtain ⟨rfl, rfl, rfl⟩ := h
    simp
  | cons sh rest ih =>
    intro vs0 parts0 c0 vs parts count h
    simp only [List.foldl_cons] at h
    by_cases h2 : sh.verifiers.length ≠ cfg.t.verifierLen * cfg.numProofs
    · have step : sumStep cfg (Prio.Res.ok (vs0, parts0, c0)) sh = Prio.Res.err := by
        unfold sumStep; simp only []; rw [if_pos h2]
      rw [step, sumStep_err] at h; cases h
    · by_cases hj : cfg.t.jointRandLen > 0
      · cases hp : sh.jointRandPart with
        | none =>
          have step : sumStep cfg (Prio.Res.ok (vs0, parts0, c0)) sh = Prio.Res.err := by
            unfold sumStep; simp only []; rw [if_neg h2, if_pos hj, hp]
          rw [step, sumStep_err] at h; cases h
        | some p =>
          have step : sumStep cfg (Prio.Res.ok (vs0, parts0, c0)) sh =
              Prio.Res.ok (vadd vs0 sh.verifiers, parts0 ++ [p], c0 + 1) := by
            unfold sumStep; simp only []; rw [if_neg h2, if_pos hj, hp]
          rw [step] at h
          simp only [ne_eq, Decidable.not_not] at h2
          obtain ⟨e1, e3, e4, e5⟩ := ih _ _ _ _ _ _ h
          refine ⟨by simp; omega, ?_, by simpa using e4, ?_⟩
          · intro s hs
            rcases List.mem_cons.mp hs with rfl | hs
            · exact h2
            · exact e3 s hs
          · intro _
            obtain ⟨f1, f2⟩ := e5 hj
            refine ⟨by rw [f1]; simp [hp], ?_⟩
            intro s hs
            rcases List.mem_cons.mp hs with rfl | hs
            · simp [hp]
            · exact f2 s hs
      · have step : sumStep cfg (Prio.Res.ok (vs0, parts0, c0)) sh =
            Prio.Res.ok (vadd vs0 sh.verifiers, parts0, c0 + 1) := by
          unfold sumStep; simp only []; rw [if_neg h2, if_neg hj]
        rw [step] at h
        simp only [ne_eq, Decidable.not_not] at h2
        obtain ⟨e1, e3, e4, _⟩ := ih _ _ _ _ _ _ h
        refine ⟨by simp; omega, ?_, by simpa using e4, fun hh => absurd hh hj⟩
        intro s hs
        rcases List.mem_cons.mp hs with rfl | hs
        · exact h2
        · exact e3 s hs

/-- **acceptance at the combiner implies**: exactly `num_aggregators` shares were combined, each of
    the declared length, every proof's verifier — the *sum* of the aggregators' verifier shares — was
    accepted by `decide`, and the message carries the seed derived from exactly the parts received -/
theorem combine_accept_implies (C : FieldCtx F) (cfg : Cfg) (xof : Xof) (ctx : Prio.Prio3.Bytes)
    (shares : List (VerifierShare F)) (m : Option Prio.Prio3.Bytes)
    (h : sharesToMessage C cfg xof ctx shares = .ok m) :
    shares.length = cfg.numAgg ∧
    (∀ sh ∈ shares, sh.verifiers.length = cfg.t.verifierLen * cfg.numProofs) ∧
    decideAll C cfg (shares.foldl (fun acc sh => vadd acc sh.verifiers)
      (List.replicate (cfg.t.verifierLen * cfg.numProofs) 0)) = .ok true ∧
    (cfg.t.jointRandLen > 0 →
      m = some (jointRandSeed cfg xof ctx (shares.filterMap (·.jointRandPart))) ∧
      ∀ sh ∈ shares, sh.jointRandPart.isSome = true) := by
  unfold sharesToMessage at h
  cases hs : sumShares cfg shares with
  | err => rw [hs] at h; cases h
  | panic => rw [hs] at h; cases h
  | ok r =>
    obtain ⟨vs, parts, count⟩ := r
    rw [hs] at h
    simp only at h
    unfold sumShares at hs
    obtain ⟨e1, e3, e4, e5⟩ := sumShares_fold cfg shares _ _ _ _ _ _ hs
    by_cases hc : count ≠ cfg.numAgg
    · rw [if_pos hc] at h; cases h
    · rw [if_neg hc] at h
      simp only [ne_eq, Decidable.not_not] at hc
      cases hd : decideAll C cfg vs with
      | err => rw [hd] at h; cases h
      | panic => rw [hd] at h; cases h
      | ok b =>
        rw [hd] at h
        cases b with
        | false => cases h
        | true =>
          simp only at h
          refine ⟨by omega, e3, by rw [← e4]; exact hd, ?_⟩
          intro hj
          rw [if_pos hj] at h
          obtain ⟨f1, f2⟩ := e5 hj
          simp only [Prio.Res.ok.injEq] at h
          refine ⟨by rw [← h, f1]; simp, f2⟩

/-- **acceptance at `verify_next` implies** that the aggregator's own recomputation of the joint
    randomness seed (from its own share and blind) equals the seed in the verifier message -/
theorem next_accept_implies (C : FieldCtx F) (cfg : Cfg) (cv : Conv F) (xof : Xof) (sumLW : Nat)
    (ctx : Prio.Prio3.Bytes) (st : VerifyState F) (msg : Option Prio.Prio3.Bytes) (o : List F)
    (h : verifyNext C cfg cv xof sumLW ctx st msg = .ok o) (hj : cfg.t.jointRandLen > 0) :
    ∃ s, st.jointRandSeed = some s ∧ msg = some s :=
  verifyNext_ok_implies C cfg cv xof sumLW ctx st msg o h hj

/-- any number of shares other than `num_aggregators` — in particular 256 + `num_aggregators`, which a
    byte-sized counter would have confused with `num_aggregators` — is refused, and never panics on
    the count -/
theorem wrong_count_not_accepted (C : FieldCtx F) (cfg : Cfg) (xof : Xof) (ctx : Prio.Prio3.Bytes)
    (shares : List (VerifierShare F)) (hn : shares.length ≠ cfg.numAgg) (m : Option Prio.Prio3.Bytes) :
    sharesToMessage C cfg xof ctx shares ≠ .ok m := by
  intro h
  exact hn (combine_accept_implies C cfg xof ctx shares m h).1

/-- full-strength statement (not proved): altering any single element of a share changes an input of
    `decide` or of the seed comparison by a non-zero amount — the algebraic half of robustness; the
    probabilistic half (a random oracle collision, the FLP identity test passing) is outside the model -/
def tamper_detected_statement : Prop :=
  ∀ (F : Type) [Field F] [BEq F] [LawfulBEq F] (C : FieldCtx F) (cfg : Cfg) (shares : List (VerifierShare F))
    (i j : Nat) (hi : i < shares.length) (hj : j < (shares[i]).verifiers.length) (δ : F), δ ≠ 0 →
    (∀ sh ∈ shares, sh.verifiers.length = cfg.t.verifierLen * cfg.numProofs) →
    (shares.set i { shares[i] with verifiers := (shares[i]).verifiers.set j ((shares[i]).verifiers[j] + δ) }).foldl
        (fun acc sh => vadd acc sh.verifiers) (List.replicate (cfg.t.verifierLen * cfg.numProofs) 0) ≠
      shares.foldl (fun acc sh => vadd acc sh.verifiers) (List.replicate (cfg.t.verifierLen * cfg.numProofs) 0)

end Props.C02
