import PrioProofs.IdpfEval

/-! # C06 — IDPF: shares reconstruct the programmed point function; caches are transparent

For any PRG (`extend`, `convert` at inner and leaf levels), any seed type with a lawful xor and any
commutative groups of inner and leaf payloads. -/
namespace Props.C06
open Prio.Idpf

variable {S VI VL : Type} [XorLike S] [LawfulXor S] [AddCommGroup VI] [AddCommGroup VL]

theorem getLast?_eq_getD {α : Type} (l : List α) (d : α) (h : l ≠ []) : l.getLast? = some (l.getD (l.length - 1) d) := by
  rw [List.getLast?_eq_getElem?]
  have : l.length - 1 < l.length := by
    cases l with
    | nil => exact absurd rfl h
    | cons a l => simp
  rw [List.getD_eq_getElem?_getD, List.getElem?_eq_getElem this]; rfl

/-- **inner levels**: for a prefix shorter than the input, the two parties' outputs are inner values
    that add up to the value programmed for that level if the prefix lies on the input's path, and to
    zero otherwise -/
theorem idpf_correct_inner (gI : Prg S VI) (gL : Prg S VL) (alpha : List Bool) (innerValues : List VI)
    (leafValue : VL) (k0 k1 : S) (ps : PublicShare S VI VL)
    (hg : gen gI gL alpha innerValues leafValue k0 k1 = some ps)
    (pfx : List Bool) (hp1 : 1 ≤ pfx.length) (hp2 : pfx.length < alpha.length) :
    ∃ a b, specEval gI gL true ps k0 pfx = some (.inner a) ∧ specEval gI gL false ps k1 pfx = some (.inner b) ∧
      a + b = if pfx = alpha.take pfx.length then innerValues.getD (pfx.length - 1) 0 else 0 := by
  unfold gen at hg
  cases hl : alpha.getLast? with
  | none => simp [hl] at hg
  | some lastBit =>
    simp only [hl] at hg
    split at hg
    · cases hg
    · rename_i hlen
      simp only [ne_eq, Decidable.not_not] at hlen
      simp only [Option.some.injEq] at hg
      subst hg
      have hal : alpha.dropLast.length = innerValues.length := by simp [hlen]
      have hb : pfx.length ≤ alpha.dropLast.length := by simp; omega
      obtain ⟨hsum, _, _⟩ := path_correct gI alpha.dropLast innerValues pfx (k0, false) (k1, true) hal hb rfl
      have hcw : (genLevels gI alpha.dropLast innerValues (k0, false) (k1, true)).1.length = alpha.length - 1 := by
        rw [genLevels_length gI _ _ _ _ hal]; simp
      have hne : ¬ pfx.length = alpha.length - 1 + 1 := by omega
      have l0 := evalPath_length gI (genLevels gI alpha.dropLast innerValues (k0, false) (k1, true)).1 pfx true (k0, false)
      have l1 := evalPath_length gI (genLevels gI alpha.dropLast innerValues (k0, false) (k1, true)).1 pfx false (k1, true)
      rw [hcw] at l0 l1
      have m : min (alpha.length - 1) pfx.length = pfx.length := by omega
      rw [m] at l0 l1
      have n0 : (evalPath gI true (genLevels gI alpha.dropLast innerValues (k0, false) (k1, true)).1 pfx (k0, false)).1 ≠ [] := by
        intro h; rw [h] at l0; simp at l0; omega
      have n1 : (evalPath gI false (genLevels gI alpha.dropLast innerValues (k0, false) (k1, true)).1 pfx (k1, true)).1 ≠ [] := by
        intro h; rw [h] at l1; simp at l1; omega
      refine ⟨(evalPath gI true (genLevels gI alpha.dropLast innerValues (k0, false) (k1, true)).1 pfx (k0, false)).1.getD (pfx.length - 1) 0,
        (evalPath gI false (genLevels gI alpha.dropLast innerValues (k0, false) (k1, true)).1 pfx (k1, true)).1.getD (pfx.length - 1) 0, ?_, ?_, ?_⟩
      · simp only [specEval, hcw, hne, if_false, Bool.not_true]
        rw [getLast?_eq_getD _ 0 n0, l0]; rfl
      · simp only [specEval, hcw, hne, if_false, Bool.not_false]
        rw [getLast?_eq_getD _ 0 n1, l1]; rfl
      · have := hsum (pfx.length - 1) (by omega)
        rw [this]
        unfold pointValue
        have e1 : pfx.length - 1 + 1 = pfx.length := by omega
        rw [e1, List.take_length]
        have e2 : alpha.dropLast.take pfx.length = alpha.take pfx.length := by
          rw [List.dropLast_eq_take, List.take_take]; congr 1; omega
        rw [e2]

/-- **leaf level**: for a full-length input the outputs are leaf values adding up to the programmed
    leaf value at the programmed input and to zero at every other input -/
theorem idpf_correct_leaf (gI : Prg S VI) (gL : Prg S VL) (alpha : List Bool) (innerValues : List VI)
    (leafValue : VL) (k0 k1 : S) (ps : PublicShare S VI VL)
    (hg : gen gI gL alpha innerValues leafValue k0 k1 = some ps)
    (pfx : List Bool) (hp : pfx.length = alpha.length) :
    ∃ a b, specEval gI gL true ps k0 pfx = some (.leaf a) ∧ specEval gI gL false ps k1 pfx = some (.leaf b) ∧
      a + b = if pfx = alpha then leafValue else 0 := by
  unfold gen at hg
  cases hl : alpha.getLast? with
  | none => simp [hl] at hg
  | some lastBit =>
    simp only [hl] at hg
    split at hg
    · cases hg
    · rename_i hlen
      simp only [ne_eq, Decidable.not_not] at hlen
      simp only [Option.some.injEq] at hg
      subst hg
      have hane : alpha ≠ [] := by intro h; simp [h] at hl
      have hapos : 1 ≤ alpha.length := by
        cases alpha with
        | nil => exact absurd rfl hane
        | cons a l => simp
      have hal : alpha.dropLast.length = innerValues.length := by simp [hlen]
      have hb : pfx.dropLast.length ≤ alpha.dropLast.length := by simp; omega
      obtain ⟨_, hon, hoff⟩ := path_correct gI alpha.dropLast innerValues pfx.dropLast (k0, false) (k1, true) hal hb rfl
      have hcw : (genLevels gI alpha.dropLast innerValues (k0, false) (k1, true)).1.length = alpha.length - 1 := by
        rw [genLevels_length gI _ _ _ _ hal]; simp
      have hfull : pfx.length = alpha.length - 1 + 1 := by omega
      have hpne : pfx ≠ [] := by intro h; rw [h] at hp; simp at hp; omega
      have hsplit_a : alpha = alpha.dropLast ++ [lastBit] := by
        have := List.dropLast_append_getLast? lastBit (by simpa using hl)
        exact this.symm
      have hsplit_p : pfx = pfx.dropLast ++ [pfx.getLastD false] := by
        have hgl : pfx.getLast? = some (pfx.getLastD false) := by
          cases pfx with
          | nil => exact absurd rfl hpne
          | cons a l => rw [List.getLast?_eq_some_getLast (by simp)]; rfl
        exact (List.dropLast_append_getLast? _ (by simpa using hgl)).symm
      refine ⟨(evalLevel gL true (genLevel gL lastBit leafValue (genLevels gI alpha.dropLast innerValues (k0, false) (k1, true)).2.1
            (genLevels gI alpha.dropLast innerValues (k0, false) (k1, true)).2.2).1 (pfx.getLastD false)
          (nodeAt gI true ⟨(genLevels gI alpha.dropLast innerValues (k0, false) (k1, true)).1,
            (genLevel gL lastBit leafValue (genLevels gI alpha.dropLast innerValues (k0, false) (k1, true)).2.1
            (genLevels gI alpha.dropLast innerValues (k0, false) (k1, true)).2.2).1⟩ k0 pfx.dropLast)).1,
        (evalLevel gL false (genLevel gL lastBit leafValue (genLevels gI alpha.dropLast innerValues (k0, false) (k1, true)).2.1
            (genLevels gI alpha.dropLast innerValues (k0, false) (k1, true)).2.2).1 (pfx.getLastD false)
          (nodeAt gI false ⟨(genLevels gI alpha.dropLast innerValues (k0, false) (k1, true)).1,
            (genLevel gL lastBit leafValue (genLevels gI alpha.dropLast innerValues (k0, false) (k1, true)).2.1
            (genLevels gI alpha.dropLast innerValues (k0, false) (k1, true)).2.2).1⟩ k1 pfx.dropLast)).1,
        by simp only [specEval, hcw, hfull, if_true], by simp only [specEval, hcw, hfull, if_true], ?_⟩
      simp only [nodeAt, Bool.not_true, Bool.not_false]
      have htake : alpha.dropLast.take pfx.dropLast.length = alpha.dropLast := by
        apply List.take_of_length_le; simp; omega
      by_cases hpath : pfx.dropLast = alpha.dropLast
      · obtain ⟨e0, e1, ex⟩ := hon (by rw [htake]; exact hpath)
        rw [htake] at e0 e1
        have hvt : innerValues.take pfx.dropLast.length = innerValues := by
          apply List.take_of_length_le; simp; omega
        rw [hvt] at e0 e1
        rw [e0, e1]
        rw [e0, e1] at ex
        by_cases hbit : pfx.getLastD false = lastBit
        · rw [hbit]
          have := (level_on_path gL lastBit leafValue _ _ ex).2.2.2
          rw [this, if_pos]
          rw [hsplit_p, hsplit_a, hpath, hbit]
        · have hb2 : pfx.getLastD false = !lastBit := by
            generalize pfx.getLastD false = x at hbit
            cases x <;> cases lastBit <;> first | rfl | exact absurd rfl hbit
          rw [hb2]
          have := (level_off_path gL lastBit leafValue _ _ ex).2
          rw [this, if_neg]
          intro heq
          apply hbit
          have : pfx.getLast? = alpha.getLast? := by rw [heq]
          rw [hl] at this
          cases pfx with
          | nil => exact absurd rfl hpne
          | cons a l =>
            simp only [List.getLastD]
            rw [List.getLast?_eq_some_getLast (by simp)] at this
            simpa using this
      · have hsame := hoff (by rw [htake]; exact hpath)
        rw [hsame]
        rw [(level_same_node gL _ _ _).2, if_neg]
        intro heq; apply hpath; rw [heq]

/-- **any sound cache is transparent** (in any state reached by earlier evaluations of the same key) -/
theorem cache_transparent {C : Type} (cache : Cache C S) (hs : CacheSound cache) (gI : Prg S VI) (gL : Prg S VL)
    (aggId : Nat) (ps : PublicShare S VI VL) (key : S) (pfx : List Bool) (c : C)
    (ha : aggId ≤ 1) (hp1 : 1 ≤ pfx.length) (hp2 : pfx.length ≤ ps.inner.length + 1)
    (hinv : CInv cache gI (aggId == 0) ps key c) :
    (eval cache gI gL aggId ps key pfx c).1 = (eval noCache gI gL aggId ps key pfx ()).1 ∧
      CInv cache gI (aggId == 0) ps key (eval cache gI gL aggId ps key pfx c).2 := by
  obtain ⟨e1, e2⟩ := eval_transparent cache hs gI gL aggId ps key pfx c ha hp1 hp2 hinv
  obtain ⟨f1, _⟩ := eval_transparent noCache noCache_sound gI gL aggId ps key pfx () ha hp1 hp2
    (by intro q n h; simp [noCache] at h)
  exact ⟨e1.trans f1.symm, e2⟩

/-- the invariant holds for an empty cache of each shipped kind, so it holds along every history of
    evaluations (by `cache_transparent`), for every capacity -/
theorem empty_caches_ok (gI : Prg S VI) (isLeader : Bool) (ps : PublicShare S VI VL) (key : S) (cap : Nat) :
    CInv (hashMapCache : Cache _ S) gI isLeader ps key [] ∧ CInv (ringBufferCache cap : Cache _ S) gI isLeader ps key [] := by
  constructor <;> intro q n h <;> simp [hashMapCache, ringBufferCache] at h

theorem shipped_caches_sound (cap : Nat) :
    CacheSound (noCache : Cache Unit S) ∧ CacheSound (hashMapCache : Cache _ S) ∧
      CacheSound (ringBufferCache cap : Cache _ S) :=
  ⟨noCache_sound, hashMapCache_sound, ringBufferCache_sound cap⟩

/-- bad arguments are errors: party id above 1, empty prefix, prefix longer than the input -/
theorem eval_errors {C : Type} (cache : Cache C S) (gI : Prg S VI) (gL : Prg S VL) (aggId : Nat)
    (ps : PublicShare S VI VL) (key : S) (pfx : List Bool) (c : C)
    (h : aggId > 1 ∨ pfx = [] ∨ pfx.length > ps.inner.length + 1) :
    ∃ c', eval cache gI gL aggId ps key pfx c = (.error, c') := by
  unfold eval
  by_cases h1 : aggId > 1
  · exact ⟨c, by simp [h1]⟩
  · by_cases h2 : pfx = []
    · exact ⟨c, by simp [h1, h2]⟩
    · have h3 : pfx.length > ps.inner.length + 1 := by rcases h with h | h | h <;> simp_all
      have : pfx.isEmpty = false := by cases pfx <;> simp_all
      exact ⟨c, by simp [h1, this, h3]⟩

end Props.C06
