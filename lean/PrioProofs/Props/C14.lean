import PrioModel.Par
import Mathlib.Algebra.Field.Defs
import Mathlib.Tactic.Ring

/-! # C14 — multithreaded gadget evaluation equals serial evaluation under every schedule

`Prio.Par.run` is the value rayon's `try_fold`/`try_reduce` computes under a split tree (`Sched`).
The theorems quantify over **all** split trees: any number of threads, any work-stealing outcome,
fewer chunks than threads, a single chunk, empty segments. -/
namespace Props.C14
open Prio.Par

section generic
variable {V C : Type} (add : V → V → V) (zero : V) (g : C → V)

def foldFrom (a : V) (cs : List C) : V := cs.foldl (fun acc c => add acc (g c)) a

theorem foldSeg_eq (cs : List C) : foldSeg add zero g cs = foldFrom add g zero cs := rfl

variable (hassoc : ∀ a b c, add (add a b) c = add a (add b c))
  (hzl : ∀ a b, add zero (add a b) = add a b) (hzr : ∀ a b, add (add a b) zero = add a b)
  (hzz : add zero zero = zero)

include hzl in
theorem lnorm (cs : List C) : ∀ a, add zero a = a → add zero (foldFrom add g a cs) = foldFrom add g a cs := by
  induction cs with
  | nil => intro a h; exact h
  | cons c cs ih => intro a _; exact ih _ (hzl a (g c))

include hzr in
theorem rnorm (cs : List C) : ∀ a, add a zero = a → add (foldFrom add g a cs) zero = foldFrom add g a cs := by
  induction cs with
  | nil => intro a h; exact h
  | cons c cs ih => intro a _; exact ih _ (hzr a (g c))

include hassoc in
theorem shift (ys : List C) : ∀ a b, add a (foldFrom add g b ys) = foldFrom add g (add a b) ys := by
  induction ys with
  | nil => intro a b; rfl
  | cons y ys ih =>
    intro a b
    show add a (foldFrom add g (add b (g y)) ys) = foldFrom add g (add (add a b) (g y)) ys
    rw [ih, hassoc]

include hassoc hzr hzz in
/-- two adjacent segments folded separately and added give the fold of the whole -/
theorem seg_append (xs ys : List C) :
    add (foldSeg add zero g xs) (foldSeg add zero g ys) = foldSeg add zero g (xs ++ ys) := by
  simp only [foldSeg_eq]
  rw [shift add g hassoc, rnorm add zero g hzr xs zero hzz]
  unfold foldFrom
  rw [List.foldl_append]

include hassoc hzl hzr hzz in
/-- **any schedule computes the serial value** (any operation that is associative and for which the
    identity is neutral on sums and on itself) -/
theorem run_eq_serial (s : Sched) : ∀ cs : List C, run add zero g s cs = serial add zero g cs := by
  induction s with
  | leaf =>
    intro cs
    show add zero (foldSeg add zero g cs) = foldSeg add zero g cs
    rw [foldSeg_eq]
    exact lnorm add zero g hzl cs zero hzz
  | split k l r ihl ihr =>
    intro cs
    show add (run add zero g l (cs.take k)) (run add zero g r (cs.drop k)) = serial add zero g cs
    rw [ihl, ihr]
    unfold serial
    rw [seg_append add zero g hassoc hzr hzz, List.take_append_drop]

end generic

/-! ## the instance: vectors of field elements, fallible inner gadget -/

variable {F : Type} [Field F]

theorem vaddN_getD (n : Nat) (a b : Array F) (k : Nat) :
    (vaddN n a b).getD k 0 = if k < n then a.getD k 0 + b.getD k 0 else 0 := by
  unfold vaddN
  by_cases h : k < n
  · rw [if_pos h]
    simp [Array.getD, h]
  · rw [if_neg h]
    simp [Array.getD, h]

theorem vaddN_size (n : Nat) (a b : Array F) : (vaddN n a b).size = n := by
  unfold vaddN; simp

theorem vaddN_ext (n : Nat) (x y : Array F) (hx : x.size = n) (hy : y.size = n)
    (h : ∀ k, k < n → x.getD k 0 = y.getD k 0) : x = y := by
  apply Array.ext
  · rw [hx, hy]
  · intro i h1 h2
    have := h i (by omega)
    simp only [Array.getD, h1, h2, dite_true] at this
    simpa using this

theorem vaddN_assoc (n : Nat) (a b c : Array F) : vaddN n (vaddN n a b) c = vaddN n a (vaddN n b c) := by
  apply vaddN_ext n _ _ (vaddN_size ..) (vaddN_size ..)
  intro k hk
  rw [vaddN_getD, vaddN_getD, vaddN_getD, vaddN_getD]
  simp only [hk, if_true]
  ring

theorem vaddN_zero_left (n : Nat) (a b : Array F) :
    vaddN n (Array.replicate n 0) (vaddN n a b) = vaddN n a b := by
  apply vaddN_ext n _ _ (vaddN_size ..) (vaddN_size ..)
  intro k hk
  rw [vaddN_getD, vaddN_getD]
  simp [hk, Array.getD]

theorem vaddN_zero_right (n : Nat) (a b : Array F) :
    vaddN n (vaddN n a b) (Array.replicate n 0) = vaddN n a b := by
  apply vaddN_ext n _ _ (vaddN_size ..) (vaddN_size ..)
  intro k hk
  rw [vaddN_getD, vaddN_getD]
  simp [hk, Array.getD]

theorem vaddN_zero_zero (n : Nat) :
    vaddN n (Array.replicate n (0 : F)) (Array.replicate n 0) = Array.replicate n 0 := by
  apply vaddN_ext n _ _ (vaddN_size ..) (by simp)
  intro k hk
  rw [vaddN_getD]
  simp [hk, Array.getD]

/-- **schedule independence of the multithreaded gadget**: for every two split trees the result —
    value or error — is the same -/
theorem mt_schedule_independent [BEq F] (C : Prio.Flp.FieldCtx F) (chunks calls outLen : Nat) (s s' : Sched)
    (inp : List (Array F)) :
    evalPolyMT C chunks calls outLen s inp = evalPolyMT C chunks calls outLen s' inp := by
  have key : ∀ (sizeInv : F) (s : Sched) (cs : List (Array F × Array F)),
      run (oadd (vaddN outLen)) (some (Array.replicate outLen 0)) (mulChunk C outLen sizeInv) s cs =
      serial (oadd (vaddN outLen)) (some (Array.replicate outLen 0)) (mulChunk C outLen sizeInv) cs := by
    intro sizeInv s cs
    apply run_eq_serial
    · intro a b c
      cases a <;> cases b <;> cases c <;> simp [oadd, vaddN_assoc]
    · intro a b
      cases a <;> cases b <;> simp [oadd, vaddN_zero_left]
    · intro a b
      cases a <;> cases b <;> simp [oadd, vaddN_zero_right]
    · simp [oadd, vaddN_zero_zero]
  unfold evalPolyMT
  simp only [key]

/-- the serial gadget's loop (`Gadget.evalPoly`, case `parallelSumMul`) succeeds exactly when the
    option-valued serial fold does, with the same value -/
theorem go_eq_fold [BEq F] (C : Prio.Flp.FieldCtx F) (outLen : Nat) (sizeInv : F) :
    ∀ (n : Nat) (inp : List (Array F)) (acc v : Array F), inp.length ≤ n →
      (Prio.Flp.Gadget.evalPoly.go C outLen sizeInv inp acc = .ok v ↔
        foldFrom (oadd (vaddN outLen)) (mulChunk C outLen sizeInv) (some acc) (pairs inp) = some v) := by
  have none_absorb : ∀ cs : List (Array F × Array F),
      foldFrom (oadd (vaddN outLen)) (mulChunk C outLen sizeInv) none cs = none := by
    intro cs
    induction cs with
    | nil => rfl
    | cons c cs ih => unfold foldFrom at ih ⊢; rw [List.foldl_cons]; simpa [oadd] using ih
  intro n
  induction n with
  | zero =>
    intro inp acc v h
    have : inp = [] := List.eq_nil_of_length_eq_zero (by omega)
    subst this
    unfold Prio.Flp.Gadget.evalPoly.go
    simp [pairs, foldFrom]
  | succ n ih =>
    intro inp acc v h
    match inp with
    | [] => unfold Prio.Flp.Gadget.evalPoly.go; simp [pairs, foldFrom]
    | [a] => unfold Prio.Flp.Gadget.evalPoly.go; simp [pairs, foldFrom]
    | a :: b :: rest =>
      unfold Prio.Flp.Gadget.evalPoly.go
      simp only [pairs]
      unfold foldFrom
      rw [List.foldl_cons]
      cases hm : Prio.Flp.ofR (Prio.Ntt.polyMulLagrange C.root outLen a b sizeInv) with
      | ok part =>
        have e : mulChunk C outLen sizeInv (a, b) = some part := by unfold mulChunk; simp only [hm]
        rw [e]
        have e2 : oadd (vaddN outLen) (some acc) (some part) = some (vaddN outLen acc part) := rfl
        rw [e2]
        have := ih rest (vaddN outLen acc part) v (by simp at h; omega)
        unfold foldFrom at this
        exact this
      | err =>
        have e : mulChunk C outLen sizeInv (a, b) = none := by unfold mulChunk; simp only [hm]
        rw [e]
        have e2 : oadd (vaddN outLen) (some acc) (none : Option (Array F)) = none := rfl
        rw [e2]
        have := none_absorb (pairs rest)
        unfold foldFrom at this
        rw [this]; simp
      | panic =>
        have e : mulChunk C outLen sizeInv (a, b) = none := by unfold mulChunk; simp only [hm]
        rw [e]
        have e2 : oadd (vaddN outLen) (some acc) (none : Option (Array F)) = none := rfl
        rw [e2]
        have := none_absorb (pairs rest)
        unfold foldFrom at this
        rw [this]; simp

/-- **multithreaded = serial**: under every schedule the multithreaded gadget returns `v` exactly
    when the serial `ParallelSum` gadget returns `v` -/
theorem mt_eq_serial [BEq F] (C : Prio.Flp.FieldCtx F) (chunks calls outLen : Nat) (s : Sched)
    (inp : List (Array F)) (v : Array F) :
    evalPolyMT C chunks calls outLen s inp = .ok v ↔
      Prio.Flp.Gadget.evalPoly C ⟨.parallelSumMul chunks, calls⟩ outLen inp = .ok v := by
  rw [mt_schedule_independent C chunks calls outLen s .leaf inp]
  unfold evalPolyMT Prio.Flp.Gadget.evalPoly
  simp only
  split
  · simp
  · split
    · simp
    · split
      · simp
      · rw [go_eq_fold C outLen _ inp.length inp _ v (Nat.le_refl _)]
        show (match oadd (vaddN outLen) (some (Array.replicate outLen 0))
            (foldSeg (oadd (vaddN outLen)) (some (Array.replicate outLen 0)) (mulChunk C outLen _) (pairs inp)) with
          | some v => Prio.Flp.Res.ok v | none => Prio.Flp.Res.err) = Prio.Flp.Res.ok v ↔ _
        rw [foldSeg_eq]
        have hn := lnorm (oadd (vaddN outLen)) (some (Array.replicate outLen 0)) (mulChunk C outLen ((C.ofNat (inp.headD #[]).size)⁻¹))
          (by intro a b; cases a <;> cases b <;> simp [oadd, vaddN_zero_left]) (pairs inp)
          (some (Array.replicate outLen 0)) (by simp [oadd, vaddN_zero_zero])
        rw [hn]
        cases foldFrom (oadd (vaddN outLen)) (mulChunk C outLen ((C.ofNat (inp.headD #[]).size)⁻¹))
          (some (Array.replicate outLen 0)) (pairs inp) <;> simp

/-- non-vacuity: schedules with empty sides, a single chunk, and deep trees are all covered -/
example : ∀ s : Sched, s = .leaf ∨ ∃ k l r, s = .split k l r := by
  intro s; cases s <;> simp

end Props.C14
