import PrioProofs.Prio3
import PrioProofs.Xof
import PrioProofs.Codec.Prims

/-! # C18 — reports are bound to context, nonce, role and key -/
namespace Props.C18
open Prio.Prio3 Prio.Flp

/-- the domain-separation tag determines the algorithm identifier, the usage and the context:
    two invocations with different (algorithm id, usage, ctx) never share a tag -/
theorem dst_injective (c1 c2 : Cfg) (u1 u2 : Nat) (ctx1 ctx2 : Prio.Prio3.Bytes)
    (ha1 : c1.algId < 2 ^ 32) (ha2 : c2.algId < 2 ^ 32) (hu1 : u1 < 2 ^ 16) (hu2 : u2 < 2 ^ 16)
    (h : dst c1 u1 ctx1 = dst c2 u2 ctx2) : c1.algId = c2.algId ∧ u1 = u2 ∧ ctx1 = ctx2 := by
  unfold dst be at h
  simp only [List.cons_append, List.nil_append, List.cons.injEq, true_and] at h
  rw [List.append_assoc, List.append_assoc] at h
  have e1 := List.append_inj h (by simp [Prio.beBytes_length])
  have e2 := List.append_inj e1.2 (by simp [Prio.beBytes_length])
  have a : c1.algId = c2.algId := by
    have := congrArg Prio.beNat e1.1
    rw [Prio.beNat_beBytes, Prio.beNat_beBytes, Nat.mod_eq_of_lt (by norm_num at ha1 ⊢; omega),
      Nat.mod_eq_of_lt (by norm_num at ha2 ⊢; omega)] at this
    exact this
  have b : u1 = u2 := by
    have := congrArg Prio.beNat e2.1
    rw [Prio.beNat_beBytes, Prio.beNat_beBytes, Nat.mod_eq_of_lt (by norm_num at hu1 ⊢; omega),
      Nat.mod_eq_of_lt (by norm_num at hu2 ⊢; omega)] at this
    exact this
  exact ⟨a, b, e2.2⟩

variable {F : Type} [Field F] [BEq F]

/-- the share an aggregator keeps for the output does not depend on the nonce, the verification key
    or the public share: it is the truncated leader share, or the helper's seed -/
theorem state_share_determined (C : FieldCtx F) (cfg : Cfg) (cv : Conv F) (xof : Xof) (sumLW : Nat)
    (key ctx : Prio.Prio3.Bytes) (aggId : Nat) (nonce : Prio.Prio3.Bytes) (pp : Option (List Prio.Prio3.Bytes))
    (msg : InputShare F) (st : VerifyState F) (sh : VerifierShare F)
    (h : verifyInit C cfg cv xof sumLW key ctx aggId nonce pp msg = .ok (st, sh)) :
    viStateShare C cfg sumLW msg = .ok st.share ∧ st.aggId = aggId := by
  unfold verifyInit at h
  split at h
  · cases h
  · cases h1 : viShares cfg cv xof ctx aggId msg with
    | none => rw [h1] at h; cases h
    | some mp =>
      obtain ⟨m, p⟩ := mp
      rw [h1] at h
      simp only at h
      by_cases hpl : p.length ≠ cfg.t.proofLen * cfg.numProofs
      · rw [if_pos hpl] at h; cases h
      rw [if_neg hpl] at h
      cases h2 : viJointRand cfg cv xof ctx aggId nonce pp msg.blind m with
      | err => rw [h2] at h; cases h
      | panic => rw [h2] at h; cases h
      | ok t =>
        obtain ⟨a, b, jr⟩ := t
        rw [h2] at h
        simp only at h
        cases h3 : viQueryRands cfg cv xof key ctx nonce with
        | none => rw [h3] at h; cases h
        | some qr =>
          rw [h3] at h
          simp only at h
          cases h4 : viVerifiers C cfg m p qr jr with
          | err => rw [h4] at h; cases h
          | panic => rw [h4] at h; cases h
          | ok vs =>
            rw [h4] at h
            simp only at h
            cases h5 : viStateShare C cfg sumLW msg with
            | err => rw [h5] at h; cases h
            | panic => rw [h5] at h; cases h
            | ok s =>
              rw [h5] at h
              simp only [Prio.Res.ok.injEq, Prod.mk.injEq] at h
              obtain ⟨rfl, _⟩ := h
              exact ⟨rfl, rfl⟩

/-- **the nonce exception**: for a type without joint randomness, if verification completes under two
    nonces (and any keys), the released output shares are identical -/
theorem nonce_exception (C : FieldCtx F) (cfg : Cfg) (cv : Conv F) (xof : Xof) (sumLW : Nat)
    (key key' ctx : Prio.Prio3.Bytes) (aggId : Nat) (nonce nonce' : Prio.Prio3.Bytes)
    (pp pp' : Option (List Prio.Prio3.Bytes)) (msg : InputShare F)
    (st st' : VerifyState F) (sh sh' : VerifierShare F) (m m' : Option Prio.Prio3.Bytes) (o o' : List F)
    (hj : cfg.t.jointRandLen = 0)
    (h1 : verifyInit C cfg cv xof sumLW key ctx aggId nonce pp msg = .ok (st, sh))
    (h2 : verifyInit C cfg cv xof sumLW key' ctx aggId nonce' pp' msg = .ok (st', sh'))
    (n1 : verifyNext C cfg cv xof sumLW ctx st m = .ok o)
    (n2 : verifyNext C cfg cv xof sumLW ctx st' m' = .ok o') : o = o' := by
  obtain ⟨s1, a1⟩ := state_share_determined C cfg cv xof sumLW key ctx aggId nonce pp msg st sh h1
  obtain ⟨s2, a2⟩ := state_share_determined C cfg cv xof sumLW key' ctx aggId nonce' pp' msg st' sh' h2
  have hs : st.share = st'.share := by rw [s1] at s2; exact Prio.Res.ok.inj s2
  unfold verifyNext at n1 n2
  have hnj : ¬ cfg.t.jointRandLen > 0 := by omega
  simp only [hnj, if_false] at n1 n2
  rw [hs, a1] at n1
  rw [a2] at n2
  rw [n1] at n2
  exact Prio.Res.ok.inj n2

/-- conversely, with joint randomness the nonce enters the aggregator's joint-randomness part through
    the binder `[agg id] ‖ nonce ‖ share`, which determines it (C11 framing is injective) -/
theorem nonce_bound_in_part (aggId aggId' : Nat) (nonce nonce' share share' : Prio.Prio3.Bytes)
    (hl : nonce.length = nonce'.length)
    (h : [aggId] ++ nonce ++ share = [aggId'] ++ nonce' ++ share') : aggId = aggId' ∧ nonce = nonce' ∧ share = share' := by
  simp only [List.cons_append, List.nil_append, List.cons.injEq] at h
  obtain ⟨a, b⟩ := h
  have := List.append_inj b hl
  exact ⟨a, this.1, this.2⟩

end Props.C18
