import PrioProofs.Poplar1E2E

/-! # C03 (continued) — Poplar1 end to end on the executable protocol functions

`Props/C03.lean` has the sketch algebra; `PrioProofs/Poplar1E2E.lean` composes it with IDPF
correctness (C06), cache transparency and the bookkeeping of the correlated randomness through the
executable `shard`, `verify_init`, `verifier_shares_to_message` and `verify_next`: for every bit length,
every input, every level, every set of distinct candidate prefixes of that level, every context,
nonce, keys and randomness, an honestly sharded report is accepted by both aggregators and their
output shares add up to the indicator of "the candidate is a prefix of the input".  The only
external hypotheses: the PRGs preserve the seed length (`SeedPres`, in the library seeds are
`[u8; 16]`) and the verification-randomness PRNG delivers its elements (no fuel exhaustion). -/
namespace Props.C03
open Prio Prio.Poplar1 Prio.Poplar1.E2E Prio.Idpf

variable {FI FL : Type} [Field FI] [BEq FI] [LawfulBEq FI] [Field FL] [BEq FL] [LawfulBEq FL]

/-- **inner levels** -/
theorem poplar1_inner_e2e (n : Nat) (cfg : Cfg) (ofI : Nat → FI) (ofL : Nat → FL) (xof : Xof)
    (gI : Prg Bytes (Pair FI)) (gL : Prg Bytes (Pair FL)) (hI : SeedPres n gI) (hL : SeedPres n gL)
    (ctx : Bytes) (input : List Bool) (nonce k0 k1 pr0 pr1 pr2 : Bytes) (hk0 : k0.length = n) (hk1 : k1.length = n)
    (pub : PubShare FI FL) (s0 s1 : InputShare FI FL)
    (hshard : shard cfg ofI ofL xof gI gL ctx input nonce k0 k1 pr0 pr1 pr2 = .ok (pub, s0, s1))
    (ap : AggParam) (hlev : ap.level + 1 < cfg.bits)
    (hpl : ∀ p ∈ ap.prefixes, p.length = ap.level + 1) (hnd : ap.prefixes.Nodup)
    (verifyKey : Bytes)
    (rs : List Nat) (g : Rng)
    (hrs : (Rng.init xof verifyKey usageVerify ctx (nonce ++ beBytes ap.level 2) cfg.fi.sz).take cfg.fi
      ap.prefixes.length = some (rs, g)) :
    ∃ (st0 : State FI FL) (sh0 : FieldVec FI FL) (st1 : State FI FL) (sh1 : FieldVec FI FL)
      (s : FI × FI × FI) (st0' : State FI FL) (r0 : FieldVec FI FL) (st1' : State FI FL) (r1 : FieldVec FI FL)
      (o0 o1 : List FI),
      verifyInit cfg ofI ofL xof gI gL verifyKey ctx 0 ap nonce pub s0 = .ok (st0, sh0) ∧
      verifyInit cfg ofI ofL xof gI gL verifyKey ctx 1 ap nonce pub s1 = .ok (st1, sh1) ∧
      sharesToMessage [sh0, sh1] = .ok (.sketchInner s) ∧
      verifyNext st0 (.sketchInner s) = .ok (.continue st0' r0) ∧
      verifyNext st1 (.sketchInner s) = .ok (.continue st1' r1) ∧
      sharesToMessage [r0, r1] = .ok .done ∧
      verifyNext st0' .done = .ok (.finish (.inner o0)) ∧
      verifyNext st1' .done = .ok (.finish (.inner o1)) ∧
      List.zipWith (· + ·) o0 o1 = ap.prefixes.map (fun p => if p <+: input then (1 : FI) else 0) :=
  Prio.Poplar1.E2E.poplar1_inner_e2e n cfg ofI ofL xof gI gL hI hL ctx input nonce k0 k1 pr0 pr1 pr2 hk0 hk1 pub s0 s1
    hshard ap hlev hpl hnd verifyKey rs g hrs

/-- **leaf level** -/
theorem poplar1_leaf_e2e (n : Nat) (cfg : Cfg) (ofI : Nat → FI) (ofL : Nat → FL) (xof : Xof)
    (gI : Prg Bytes (Pair FI)) (gL : Prg Bytes (Pair FL)) (hI : SeedPres n gI) (hL : SeedPres n gL)
    (ctx : Bytes) (input : List Bool) (nonce k0 k1 pr0 pr1 pr2 : Bytes) (hk0 : k0.length = n) (hk1 : k1.length = n)
    (pub : PubShare FI FL) (s0 s1 : InputShare FI FL)
    (hshard : shard cfg ofI ofL xof gI gL ctx input nonce k0 k1 pr0 pr1 pr2 = .ok (pub, s0, s1))
    (ap : AggParam) (hlev : ap.level + 1 = cfg.bits)
    (hpl : ∀ p ∈ ap.prefixes, p.length = ap.level + 1) (hnd : ap.prefixes.Nodup)
    (verifyKey : Bytes)
    (rs : List Nat) (g : Rng)
    (hrs : (Rng.init xof verifyKey usageVerify ctx (nonce ++ beBytes ap.level 2) cfg.fl.sz).take cfg.fl
      ap.prefixes.length = some (rs, g)) :
    ∃ (st0 : State FI FL) (sh0 : FieldVec FI FL) (st1 : State FI FL) (sh1 : FieldVec FI FL)
      (s : FL × FL × FL) (st0' : State FI FL) (r0 : FieldVec FI FL) (st1' : State FI FL) (r1 : FieldVec FI FL)
      (o0 o1 : List FL),
      verifyInit cfg ofI ofL xof gI gL verifyKey ctx 0 ap nonce pub s0 = .ok (st0, sh0) ∧
      verifyInit cfg ofI ofL xof gI gL verifyKey ctx 1 ap nonce pub s1 = .ok (st1, sh1) ∧
      sharesToMessage [sh0, sh1] = .ok (.sketchLeaf s) ∧
      verifyNext st0 (.sketchLeaf s) = .ok (.continue st0' r0) ∧
      verifyNext st1 (.sketchLeaf s) = .ok (.continue st1' r1) ∧
      sharesToMessage [r0, r1] = .ok .done ∧
      verifyNext st0' .done = .ok (.finish (.leaf o0)) ∧
      verifyNext st1' .done = .ok (.finish (.leaf o1)) ∧
      List.zipWith (· + ·) o0 o1 = ap.prefixes.map (fun p => if p <+: input then (1 : FL) else 0) :=
  Prio.Poplar1.E2E.poplar1_leaf_e2e n cfg ofI ofL xof gI gL hI hL ctx input nonce k0 k1 pr0 pr1 pr2 hk0 hk1 pub s0 s1
    hshard ap hlev hpl hnd verifyKey rs g hrs

/-- for an honest report `verify_init` fails in exactly one way — the verification-randomness PRNG
    running out of fuel (a modelling artefact: the Rust loop is unbounded) — and never with `Err` -/
theorem verifyInit_honest_ok_iff (n : Nat) (cfg : Cfg) (ofI : Nat → FI) (ofL : Nat → FL) (xof : Xof)
    (gI : Prg Bytes (Pair FI)) (gL : Prg Bytes (Pair FL)) (hI : SeedPres n gI) (hL : SeedPres n gL)
    (ctx : Bytes) (input : List Bool) (nonce k0 k1 pr0 pr1 pr2 : Bytes) (hk0 : k0.length = n) (hk1 : k1.length = n)
    (pub : PubShare FI FL) (s0 s1 : InputShare FI FL)
    (hshard : shard cfg ofI ofL xof gI gL ctx input nonce k0 k1 pr0 pr1 pr2 = .ok (pub, s0, s1))
    (ap : AggParam) (hlev : ap.level + 1 ≤ cfg.bits)
    (hpl : ∀ p ∈ ap.prefixes, p.length = ap.level + 1) (hnd : ap.prefixes.Nodup)
    (verifyKey : Bytes) :
    let fp := if ap.level + 1 < cfg.bits then cfg.fi else cfg.fl
    let draw := (Rng.init xof verifyKey usageVerify ctx (nonce ++ beBytes ap.level 2) fp.sz).take fp ap.prefixes.length
    (draw = none → verifyInit cfg ofI ofL xof gI gL verifyKey ctx 0 ap nonce pub s0 = .panic ∧
                   verifyInit cfg ofI ofL xof gI gL verifyKey ctx 1 ap nonce pub s1 = .panic) ∧
    (draw ≠ none → ∃ x0 x1, verifyInit cfg ofI ofL xof gI gL verifyKey ctx 0 ap nonce pub s0 = .ok x0 ∧
                   verifyInit cfg ofI ofL xof gI gL verifyKey ctx 1 ap nonce pub s1 = .ok x1) :=
  Prio.Poplar1.E2E.verifyInit_honest_ok_iff n cfg ofI ofL xof gI gL hI hL ctx input nonce k0 k1 pr0 pr1 pr2 hk0 hk1 pub
    s0 s1 hshard ap hlev hpl hnd verifyKey

end Props.C03
