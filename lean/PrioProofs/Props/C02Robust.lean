import PrioProofs.Prio3Robust

/-! # C02 (continued) — Prio3 robustness on the executable protocol functions

`PrioProofs/Prio3Robust.lean`: for an ARBITRARY report (leader share, helper seeds, blinds, public share are any values
the aggregators can decode): if every aggregator's `verify_init` returned, the combiner produced a message and every
`verify_next` succeeded, then (1) the message's joint-randomness seed is the one derived from the aggregators' OWN
measurement shares and blinds, all aggregators used that same joint randomness, and (2) for every proof, the FLP
verifier accepted the RECONSTRUCTED measurement (sum of the measurement shares) with the reconstructed proof under the
derived randomness.  With C05's `flp_soundness`: if the reconstructed measurement's circuit output is not all zero, that
can happen for at most `(2(p−1)+1)·|F|^(queryRandLen−1)` query-randomness vectors; the set depends on the report only.
(The derivation of the randomness from the XOF — Fiat–Shamir / random oracle — is outside the model.) -/
namespace Props.C02
open Prio.Flp Prio.Prio3 Prio.Prio3Robust

/-- **acceptance implies the FLP verifier accepted the reconstructed input and proof** -/
theorem prio3_robust {F : Type} [Field F] [BEq F] [LawfulBEq F] (C : FieldCtx F) (hC : ∀ n, C.ofNat n = (n : F)) (cfg : Cfg)
    (cv : Conv F) (xof : Xof) (sumLW : Nat) (key ctx nonce : Prio.Prio3.Bytes) (pub : Option (List Prio.Prio3.Bytes))
    (shares : List (InputShare F)) (states : List (VerifyState F)) (vshares : List (VerifierShare F))
    (m : Option Prio.Prio3.Bytes) (hInv : ((cfg.numAgg : Nat) : F) ≠ 0)
    (hsl : shares.length = cfg.numAgg) (hstl : states.length = cfg.numAgg)
    (hinit : ∀ i (h1 : i < shares.length) (h2 : i < states.length) (h3 : i < vshares.length),
      verifyInit C cfg cv xof sumLW key ctx i nonce pub shares[i] = .ok (states[i], vshares[i]))
    (hmsg : sharesToMessage C cfg xof ctx vshares = .ok m)
    (hnext : ∀ i (h : i < states.length), ∃ o, verifyNext C cfg cv xof sumLW ctx states[i] m = .ok o) :
    (cfg.t.jointRandLen > 0 → m = some (reportSeed cfg cv xof ctx nonce shares)) ∧
    (∀ i (h : i < shares.length), jrOf cfg cv xof ctx nonce pub i shares[i] = reportJR cfg cv xof ctx nonce shares) ∧
    ∀ k, k < cfg.numProofs →
      ∃ v, query C cfg.t (reconMeas cfg cv xof ctx shares)
          (chunk (reconProofs cfg cv xof ctx shares) k cfg.t.proofLen)
          (chunk (qrOf cfg cv xof key ctx nonce) k cfg.t.queryRandLen)
          (chunk (reportJR cfg cv xof ctx nonce shares) k cfg.t.jointRandLen) 1 = .ok v ∧
        Prio.Flp.decide C cfg.t v = .ok true :=
  Prio.Prio3Robust.prio3_robust C hC cfg cv xof sumLW key ctx nonce pub shares states vshares m hInv hsl hstl hinit hmsg hnext

/-- **counting corollary**: for a report whose reconstructed measurement has a non-zero circuit output, the accepting
    query randomness lies in a set of at most `(2(p−1)+1)·|F|^(queryRandLen−1)` vectors that depends on the report only
    (statement: `Prio.Prio3Robust.prio3_robust_soundness`) -/
alias prio3_robust_soundness := Prio.Prio3Robust.prio3_robust_soundness

end Props.C02
