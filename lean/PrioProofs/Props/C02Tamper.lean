import PrioProofs.Prio3Tamper

/-! # C02 (continued) — an altered verifier element changes the combined verifier

The statement kept in `Props/C02.lean` (`tamper_detected_statement`) is proved in
`PrioProofs/Prio3Tamper.lean`. -/
namespace Props.C02
open Prio.Prio3

/-- altering one element of one aggregator's verifier share by `δ ≠ 0` changes the sum the combiner
    computes (for every number of shares, proofs and every type) -/
theorem tamper_detected : tamper_detected_statement := Prio.Prio3Tamper.tamper_detected

/-- … precisely: entry `j` of the sum moves by `δ`, every other entry is unchanged -/
theorem tamper_entries {F : Type} [Field F] (cfg : Cfg) (shares : List (VerifierShare F))
    (i j : Nat) (hi : i < shares.length) (hj : j < (shares[i]).verifiers.length) (δ : F)
    (hlen : ∀ sh ∈ shares, sh.verifiers.length = cfg.t.verifierLen * cfg.numProofs) :
    let n := cfg.t.verifierLen * cfg.numProofs
    let altered :=
      (shares.set i { shares[i] with verifiers := (shares[i]).verifiers.set j ((shares[i]).verifiers[j] + δ) }).foldl
        (fun acc sh => vadd acc sh.verifiers) (List.replicate n 0)
    let original := shares.foldl (fun acc sh => vadd acc sh.verifiers) (List.replicate n 0)
    altered.length = n ∧ original.length = n ∧ j < n ∧
    altered.getD j 0 = original.getD j 0 + δ ∧
    (∀ k, k ≠ j → altered.getD k 0 = original.getD k 0) ∧
    (∀ k, k ≠ j → altered[k]? = original[k]?) :=
  Prio.Prio3Tamper.tamper_entries cfg shares i j hi hj δ hlen

end Props.C02
