import PrioModel.Dp
import Mathlib.Algebra.BigOperators.Group.Finset.Basic
import Mathlib.Algebra.BigOperators.Ring.Finset
import Mathlib.Algebra.BigOperators.Field
import Mathlib.Algebra.BigOperators.Intervals
import Mathlib.Data.Rat.Defs
import Mathlib.Data.Nat.Factorial.Basic
import Mathlib.Tactic.FieldSimp
import Mathlib.Tactic.Ring
import Mathlib.Tactic.Linarith
import Mathlib.Algebra.Order.Field.Rat
import Mathlib.Order.Interval.Finset.Nat

/-! # C15 — the DP samplers realise the exact laws, and the noise is applied right

`mass m P` is the exact probability (a rational) that the sampler program `m` returns a value
satisfying `P`, every `unif n` being a uniform draw from `{0..n-1}`.  The programs are those of
`PrioModel.Dp`, which the correspondence run executes on the same random tapes as the Rust samplers.

Proved: the Bernoulli layer is exact; `sample_bernoulli_exp1(γ)` returns `true` within `f` iterations
with probability the `f`-th partial sum of the alternating series `Σ (−γ)ⁱ/i!` and fails to stop with
probability exactly `γᶠ/f!` (so the law is `exp(−γ)` with an explicit, factorially small remainder);
the lowest layer returns the first raw draw below the bound, every raw value being hit by the same
number of tape words (uniformity of the shifted top word); noise is reduced into the field so that
adding it to an aggregate share adds the integer noise modulo the field size; coordinates consume
disjoint, consecutive tape segments.  The assembly of the geometric, Laplace and Gaussian laws from
these layers is stated (`laplace_law_statement`, `gaussian_law_statement`) and checked by the
frequency oracle, not proved. -/
namespace Props.C15
open Prio.Dp Finset BigOperators

/-- exact probability mass of the outcomes satisfying `P` -/
def mass {α : Type} : Samp α → (α → Bool) → ℚ
  | .pure a, P => if P a then 1 else 0
  | .unif n k, P => (∑ i ∈ range n, mass (k i) P) / n

theorem mass_bind_bool {β : Type} (m : Samp Bool) (f : Bool → Samp β) (P : β → Bool) :
    mass (Samp.bind m f) P = mass m (fun b => b) * mass (f true) P + mass m (fun b => !b) * mass (f false) P := by
  induction m with
  | pure a => cases a <;> simp [Samp.bind, mass]
  | unif n k ih =>
    simp only [Samp.bind, mass]
    simp_rw [ih]
    rw [sum_add_distrib, ← sum_mul, ← sum_mul]
    ring

theorem card_le (num den : Nat) (h : num ≤ den) :
    (∑ i ∈ range den, (if decide (i + 1 ≤ num) = true then (1 : ℚ) else 0)) = num := by
  induction den with
  | zero => simp at h; simp [h]
  | succ d ih =>
    rw [sum_range_succ]
    by_cases hd : num ≤ d
    · rw [ih hd]; simp; omega
    · have : num = d + 1 := by omega
      subst this
      have h1 : ∀ i ∈ range d, (if decide (i + 1 ≤ d + 1) = true then (1 : ℚ) else 0) = 1 := by
        intro i hi; simp at hi; simp; omega
      rw [sum_congr rfl h1]; simp

/-- **Bernoulli layer**: `sample_bernoulli(n/d)` is `true` with probability exactly `n/d` -/
theorem bernoulli_true (γ : Q) (hd : 0 < γ.den) (h : γ.num ≤ γ.den) :
    mass (bernoulli γ) (fun b => b) = (γ.num : ℚ) / γ.den := by
  simp only [bernoulli, mass]
  rw [card_le γ.num γ.den h]

theorem bernoulli_false (γ : Q) (hd : 0 < γ.den) (h : γ.num ≤ γ.den) :
    mass (bernoulli γ) (fun b => !b) = 1 - (γ.num : ℚ) / γ.den := by
  simp only [bernoulli, mass]
  have hden : (γ.den : ℚ) ≠ 0 := by exact_mod_cast hd.ne'
  have e : ∀ i ∈ range γ.den, (if (!decide (i + 1 ≤ γ.num)) = true then (1 : ℚ) else 0)
      = 1 - (if decide (i + 1 ≤ γ.num) = true then (1 : ℚ) else 0) := by
    intro i _; by_cases hi : i + 1 ≤ γ.num <;> simp [hi]
  rw [sum_congr rfl e, sum_sub_distrib, card_le γ.num γ.den h]
  simp
  field_simp

/-- reduction to lowest terms keeps the value, a positive denominator and `num ≤ den` -/
theorem mk'_spec (n d : Nat) (hd : 0 < d) :
    0 < (Q.mk' n d).den ∧ ((Q.mk' n d).num : ℚ) / (Q.mk' n d).den = (n : ℚ) / d ∧
    (n ≤ d → (Q.mk' n d).num ≤ (Q.mk' n d).den) := by
  unfold Q.mk'
  simp only
  have hg : 0 < Nat.gcd n d := Nat.gcd_pos_of_pos_right n hd
  have hn : n / Nat.gcd n d * Nat.gcd n d = n := Nat.div_mul_cancel (Nat.gcd_dvd_left n d)
  have hdd : d / Nat.gcd n d * Nat.gcd n d = d := Nat.div_mul_cancel (Nat.gcd_dvd_right n d)
  have hdpos : 0 < d / Nat.gcd n d := Nat.div_pos (Nat.le_of_dvd hd (Nat.gcd_dvd_right n d)) hg
  refine ⟨hdpos, ?_, ?_⟩
  · have hgq : ((Nat.gcd n d : Nat) : ℚ) ≠ 0 := by exact_mod_cast hg.ne'
    have hdq : ((d / Nat.gcd n d : Nat) : ℚ) ≠ 0 := by exact_mod_cast hdpos.ne'
    have e1 : (n : ℚ) = ((n / Nat.gcd n d : Nat) : ℚ) * (Nat.gcd n d : ℚ) := by exact_mod_cast hn.symm
    have e2 : (d : ℚ) = ((d / Nat.gcd n d : Nat) : ℚ) * (Nat.gcd n d : ℚ) := by exact_mod_cast hdd.symm
    rw [e1, e2]
    field_simp
  · intro hle
    exact Nat.div_le_div_right hle

/-- probability of `j` consecutive successes of Bernoulli(γ/(k+i)), i < j -/
def runP (γ : ℚ) (k j : Nat) : ℚ := ∏ i ∈ range j, γ / ((k + i : Nat) : ℚ)

theorem runP_succ (γ : ℚ) (k j : Nat) : runP γ k (j + 1) = γ / (k : ℚ) * runP γ (k + 1) j := by
  unfold runP
  rw [prod_range_succ']
  simp only [Nat.add_zero]
  rw [mul_comm]
  congr 1
  apply prod_congr rfl
  intro i _
  congr 2
  omega

def T : Option Bool → Bool := fun o => o == some true
def N : Option Bool → Bool := fun o => o == none

/-- the mass of `true` after at most `f` iterations starting at loop index `k` -/
def closed (γ : ℚ) (f k : Nat) : ℚ :=
  ∑ j ∈ range f, runP γ k j * (1 - γ / ((k + j : Nat) : ℚ)) * (if (k + j) % 2 = 1 then 1 else 0)

theorem divNat_spec (γ : Q) (k : Nat) (hd : 0 < γ.den) (hk : 0 < k) (h : γ.num ≤ γ.den) :
    0 < (γ.divNat k).den ∧ (γ.divNat k).num ≤ (γ.divNat k).den ∧
    ((γ.divNat k).num : ℚ) / (γ.divNat k).den = (γ.num : ℚ) / γ.den / k := by
  unfold Q.divNat
  have hdk : 0 < γ.den * k := Nat.mul_pos hd hk
  have hle : γ.num ≤ γ.den * k := le_trans h (Nat.le_mul_of_pos_right _ hk)
  obtain ⟨a, b, c⟩ := mk'_spec γ.num (γ.den * k) hdk
  refine ⟨a, c hle, ?_⟩
  rw [b]
  have hden : (γ.den : ℚ) ≠ 0 := by exact_mod_cast hd.ne'
  have hkq : (k : ℚ) ≠ 0 := by exact_mod_cast hk.ne'
  push_cast; field_simp

/-- **`sample_bernoulli_exp1`**: probability of returning `true` within `f` iterations -/
theorem bexp1_true (γ : Q) (hd : 0 < γ.den) (h : γ.num ≤ γ.den) :
    ∀ f k, 0 < k → mass (bexp1 γ f k) T = closed ((γ.num : ℚ) / γ.den) f k := by
  intro f
  induction f with
  | zero => intro k _; simp [bexp1, mass, closed, T]
  | succ f ih =>
    intro k hk
    obtain ⟨d1, d2, d3⟩ := divNat_spec γ k hd hk h
    have hkq : (k : ℚ) ≠ 0 := by exact_mod_cast hk.ne'
    simp only [bexp1]
    rw [mass_bind_bool, bernoulli_true _ d1 d2, bernoulli_false _ d1 d2, d3]
    simp only [if_true, Bool.false_eq_true, if_false]
    rw [ih (k + 1) (by omega)]
    unfold closed
    rw [sum_range_succ' _ f]
    simp only [runP, prod_range_zero, Nat.add_zero, range_zero]
    have hshift : ∀ j ∈ range f,
        runP ((γ.num : ℚ) / γ.den) k (j + 1) * (1 - (γ.num : ℚ) / γ.den / ((k + (j + 1) : Nat) : ℚ))
          * (if (k + (j + 1)) % 2 = 1 then 1 else 0)
        = (γ.num : ℚ) / γ.den / k * (runP ((γ.num : ℚ) / γ.den) (k + 1) j * (1 - (γ.num : ℚ) / γ.den / ((k + 1 + j : Nat) : ℚ))
          * (if (k + 1 + j) % 2 = 1 then 1 else 0)) := by
      intro j _
      rw [runP_succ]
      have e : k + (j + 1) = k + 1 + j := by omega
      rw [e]; ring
    have := sum_congr rfl hshift
    simp only [runP] at this
    rw [this, ← mul_sum]
    simp only [mass, T]
    by_cases hodd : k % 2 = 1 <;> simp [hodd] <;> ring

/-- … and the probability that it has not stopped after `f` iterations is exactly the product
    `γ/k · γ/(k+1) ⋯` of `f` factors -/
theorem bexp1_none (γ : Q) (hd : 0 < γ.den) (h : γ.num ≤ γ.den) :
    ∀ f k, 0 < k → mass (bexp1 γ f k) N = runP ((γ.num : ℚ) / γ.den) k f := by
  intro f
  induction f with
  | zero => intro k _; simp [bexp1, mass, runP, N]
  | succ f ih =>
    intro k hk
    obtain ⟨d1, d2, d3⟩ := divNat_spec γ k hd hk h
    simp only [bexp1]
    rw [mass_bind_bool, bernoulli_true _ d1 d2, bernoulli_false _ d1 d2, d3]
    simp only [if_true, Bool.false_eq_true, if_false]
    rw [ih (k + 1) (by omega), runP_succ]
    simp [mass, N]

/-- from loop index 1 the run probability is `γʲ/j!` -/
theorem runP_one (γ : ℚ) (j : Nat) : runP γ 1 j = γ ^ j / (j.factorial : ℚ) := by
  induction j with
  | zero => simp [runP]
  | succ j ih =>
    unfold runP at ih ⊢
    rw [prod_range_succ, ih, Nat.factorial_succ]
    have : ((1 + j : Nat) : ℚ) ≠ 0 := by positivity
    have hf : (j.factorial : ℚ) ≠ 0 := by exact_mod_cast (Nat.factorial_pos j).ne'
    push_cast
    have e : ((1 : ℚ) + j) = (j + 1 : ℚ) := by ring
    rw [e]
    field_simp
    ring

/-- **the exponential series**: started at loop index 1 and given an even number `2m` of iterations,
    `sample_bernoulli_exp1(γ)` has returned `true` with probability `Σ_{i<2m} (−γ)ⁱ/i!` — the partial
    sums of `exp(−γ)` — and is still running with probability `γ^{2m}/(2m)!` -/
theorem bexp1_series (γ : ℚ) (m : Nat) :
    closed γ (2 * m) 1 = ∑ i ∈ range (2 * m), (-γ) ^ i / (i.factorial : ℚ) := by
  induction m with
  | zero => simp [closed]
  | succ m ih =>
    have e : 2 * (m + 1) = 2 * m + 1 + 1 := by ring
    rw [e]
    unfold closed at ih ⊢
    rw [sum_range_succ, sum_range_succ, ih, sum_range_succ, sum_range_succ]
    rw [runP_one, runP_one]
    have h1 : (1 + 2 * m) % 2 = 1 := by omega
    have h2 : ¬ (1 + (2 * m + 1)) % 2 = 1 := by omega
    rw [if_pos h1, if_neg h2]
    have hf : ((2 * m).factorial : ℚ) ≠ 0 := by exact_mod_cast (Nat.factorial_pos _).ne'
    have hf1 : ((2 * m + 1).factorial : ℚ) ≠ 0 := by exact_mod_cast (Nat.factorial_pos _).ne'
    have hc : ((1 + 2 * m : Nat) : ℚ) ≠ 0 := by positivity
    have he : (-γ) ^ (2 * m) = γ ^ (2 * m) := by rw [Even.neg_pow ⟨m, by ring⟩]
    have ho : (-γ) ^ (2 * m + 1) = -γ ^ (2 * m + 1) := by rw [Odd.neg_pow ⟨m, by ring⟩]
    rw [he, ho, Nat.factorial_succ (2 * m)]
    push_cast
    have e2 : ((1 : ℚ) + 2 * m) = 2 * m + 1 := by ring
    rw [e2]
    field_simp
    ring

/-! ## the lowest layer -/

/-- `random_biguint_below` returns a value below the bound -/
theorem below_lt (S : Prio.Stream) (bound : Nat) : ∀ fuel pos v pos', below S bound fuel pos = some (v, pos') → v < bound := by
  intro fuel
  induction fuel with
  | zero => intro pos v pos' h; simp [below] at h
  | succ fuel ih =>
    intro pos v pos' h
    unfold below at h
    by_cases hb : bound = 0
    · rw [if_pos hb] at h; cases h
    · rw [if_neg hb] at h
      simp only at h
      by_cases hlt : (randomBiguint S pos (bitLen bound)).1 < bound
      · rw [if_pos hlt] at h
        simp only [Option.some.injEq, Prod.mk.injEq] at h
        rw [← h.1]; exact hlt
      · rw [if_neg hlt] at h
        exact ih _ _ _ h

/-- … namely the first raw draw that is below the bound (rejected draws are discarded whole) -/
theorem below_first (S : Prio.Stream) (bound fuel pos : Nat) (hb : bound ≠ 0)
    (h : (randomBiguint S pos (bitLen bound)).1 < bound) :
    below S bound (fuel + 1) pos = some (randomBiguint S pos (bitLen bound)) := by
  unfold below
  rw [if_neg hb]
  simp only
  rw [if_pos h]

/-- shifting the top word right by `32 − rem` is uniform: every value below `2^rem` comes from
    exactly `2^(32−rem)` words -/
theorem top_word_uniform (rem t : Nat) (hr : rem ≤ 32) (ht : t < 2 ^ rem) :
    ((range (2 ^ 32)).filter fun w => w / 2 ^ (32 - rem) = t).card = 2 ^ (32 - rem) := by
  have hpos : 0 < 2 ^ (32 - rem) := Nat.pow_pos (by norm_num)
  have hsplit : 2 ^ 32 = 2 ^ rem * 2 ^ (32 - rem) := by rw [← Nat.pow_add]; congr 1; omega
  have : (range (2 ^ 32)).filter (fun w => w / 2 ^ (32 - rem) = t) = Finset.Ico (t * 2 ^ (32 - rem)) ((t + 1) * 2 ^ (32 - rem)) := by
    ext w
    simp only [mem_filter, mem_range, Finset.mem_Ico]
    constructor
    · rintro ⟨_, h⟩
      rw [Nat.div_eq_iff hpos] at h
      constructor
      · exact h.1
      · have := h.2; rw [Nat.add_mul]; omega
    · rintro ⟨h1, h2⟩
      refine ⟨?_, ?_⟩
      · calc w < (t + 1) * 2 ^ (32 - rem) := h2
          _ ≤ 2 ^ rem * 2 ^ (32 - rem) := Nat.mul_le_mul_right _ (by omega)
          _ = 2 ^ 32 := hsplit.symm
      · rw [Nat.div_eq_iff hpos]
        rw [Nat.add_mul] at h2
        constructor
        · exact h1
        · omega
  rw [this, Nat.card_Ico, Nat.add_mul]
  omega

/-! ## noise on an aggregate share -/

/-- adding the projected noise to an entry adds the integer noise modulo the field size (negative
    noise wraps around by floor-mod) -/
theorem noise_projection (p x : Nat) (noise : Int) (hp : 0 < p) :
    ((addNoiseElem p x noise : Nat) : Int) = ((x : Int) + noise) % (p : Int) := by
  unfold addNoiseElem
  have hpi : (0 : Int) < p := by exact_mod_cast hp
  have hnn : 0 ≤ noise % (p : Int) := Int.emod_nonneg _ (by omega)
  rw [Int.natCast_mod, Int.natCast_add, Int.toNat_of_nonneg hnn, Int.add_emod, Int.emod_emod_of_dvd _ (dvd_refl _),
    ← Int.add_emod]

/-- unsharding after noise: with shares summing to the aggregate, the noised shares sum to the
    aggregate plus the total noise, modulo the field size -/
theorem noise_then_sum (p x y : Nat) (n1 n2 : Int) (hp : 0 < p) :
    (((addNoiseElem p x n1 + addNoiseElem p y n2 : Nat) : Int)) % (p : Int) = ((x : Int) + y + (n1 + n2)) % (p : Int) := by
  rw [Int.natCast_add, noise_projection p x n1 hp, noise_projection p y n2 hp, ← Int.add_emod]
  congr 1; ring

/-- each coordinate's draw starts where the previous one stopped: the noise values come from
    consecutive, disjoint segments of the random tape (independence of the coordinates) -/
theorem noise_segments (S : Prio.Stream) (p : Nat) (sampler : Samp (Option Int)) (x : Nat) (xs ys : List Nat)
    (pos pos'' : Nat) (h : addIidNoise S p sampler (x :: xs) pos = some (ys, pos'')) :
    ∃ noise pos' rest, run S sampler pos = some (some noise, pos') ∧
      addIidNoise S p sampler xs pos' = some (rest, pos'') ∧ ys = addNoiseElem p x noise :: rest := by
  unfold addIidNoise at h
  cases hr : run S sampler pos with
  | none => rw [hr] at h; cases h
  | some r =>
    obtain ⟨on, pos'⟩ := r
    cases on with
    | none => rw [hr] at h; cases h
    | some noise =>
      rw [hr] at h
      simp only at h
      cases hrest : addIidNoise S p sampler xs pos' with
      | none => rw [hrest] at h; cases h
      | some r2 =>
        obtain ⟨rest, p2⟩ := r2
        rw [hrest] at h
        simp only [Option.some.injEq, Prod.mk.injEq] at h
        exact ⟨noise, pos', rest, rfl, by rw [← h.2]; exact hrest, h.1.symm⟩

/-- scale = sensitivity / ε, with the sensitivities the types document -/
theorem scale_is_sensitivity_over_epsilon (sens : Nat) (eps s : Q) (h : laplaceScale sens eps = some s) :
    s = (Q.ofNat sens).div eps := by
  unfold laplaceScale at h
  simp only at h
  split at h
  · cases h
  · exact (Option.some.inj h).symm

/-! ## `sample_bernoulli_exp`: a product of `exp1` rounds -/

def F' : Option Bool → Bool := fun o => o == some false

theorem mass_bind_opt {β : Type} (m : Samp (Option Bool)) (f : Option Bool → Samp β) (P : β → Bool) :
    mass (Samp.bind m f) P = mass m N * mass (f none) P + mass m F' * mass (f (some false)) P +
      mass m T * mass (f (some true)) P := by
  induction m with
  | pure a =>
    cases a with
    | none => simp [Samp.bind, mass, N, F', T]
    | some b => cases b <;> simp [Samp.bind, mass, N, F', T]
  | unif n k ih =>
    simp only [Samp.bind, mass]
    simp_rw [ih]
    rw [sum_add_distrib, sum_add_distrib, ← sum_mul, ← sum_mul, ← sum_mul]
    ring

/-- `sample_bernoulli_exp(γ)` returns `true` (within the fuel) with probability the product of the
    `floor γ` unit rounds and the fractional round: `P[exp1(1)]^⌊γ⌋ · P[exp1(frac γ)]` -/
theorem bexpLoop_true (fuel : Nat) (last : Samp (Option Bool)) :
    ∀ n, mass (bexpLoop fuel n last) T = (mass (bexp1 Q.one fuel 1) T) ^ n * mass last T := by
  intro n
  induction n with
  | zero => simp [bexpLoop]
  | succ n ih =>
    simp only [bexpLoop]
    rw [mass_bind_opt]
    have e1 : mass (Samp.pure (none : Option Bool)) T = 0 := by simp [mass, T]
    have e2 : mass (Samp.pure (some false)) T = 0 := by simp [mass, T]
    simp only [e1, e2, ih]
    ring

theorem bexp_true (γ : Q) (fuel : Nat) :
    mass (bexp γ fuel) T = (mass (bexp1 Q.one fuel 1) T) ^ γ.floor * mass (bexp1 γ.frac fuel 1) T := by
  unfold bexp
  exact bexpLoop_true fuel _ _

/-- for an even fuel `2m` and `γ` with integer part `g` and fractional part `φ = a/b`:
    `P[sample_bernoulli_exp(γ) = true within the fuel] = (Σ_{i<2m} (−1)ⁱ/i!)^g · Σ_{i<2m} (−φ)ⁱ/i!` -/
theorem bexp_series (γ : Q) (m : Nat) (hd : 0 < γ.frac.den) (h : γ.frac.num ≤ γ.frac.den) :
    mass (bexp γ (2 * m)) T =
      (∑ i ∈ range (2 * m), (-1 : ℚ) ^ i / (i.factorial : ℚ)) ^ γ.floor *
      ∑ i ∈ range (2 * m), (-((γ.frac.num : ℚ) / γ.frac.den)) ^ i / (i.factorial : ℚ) := by
  rw [bexp_true, bexp1_true Q.one (by decide) (by decide) (2 * m) 1 (by norm_num),
    bexp1_true γ.frac hd h (2 * m) 1 (by norm_num), bexp1_series, bexp1_series]
  simp [Q.one]

/-! ## laws assembled from the layers (stated, not proved) -/

/-- the discrete Laplace sampler is symmetric: `y` and `−y` have the same mass for every fuel -/
def laplace_symmetric_statement : Prop :=
  ∀ (b : Q) (f n y : Nat), 0 < y →
    mass (laplace b f n) (fun o => o == some (y : Int)) = mass (laplace b f n) (fun o => o == some (-(y : Int)))

/-- the Gaussian rejection step: a proposal `y` from the Laplace sampler of scale `t = ⌊σ⌋+1` is
    accepted with the mass of `sample_bernoulli_exp((|y| − σ²/t)²/(2σ²))`, otherwise the loop restarts -/
def gaussian_recursion_statement : Prop :=
  ∀ (σ : Q) (f n : Nat) (y : Int), ¬ σ.isZero →
    mass (gaussian σ f (n + 1)) (fun o => o == some y) =
      mass (laplace (Q.ofNat (σ.floor + 1)) f f) (fun o => o == some y) *
        mass (bexp (gaussProb σ (σ.floor + 1) y.natAbs) f) T +
      mass (Samp.bind (laplace (Q.ofNat (σ.floor + 1)) f f) fun oy =>
          match oy with
          | none => Samp.pure (some true)
          | some y' => bexp (gaussProb σ (σ.floor + 1) y'.natAbs) f) F' *
        mass (gaussian σ f n) (fun o => o == some y)

/-- non-vacuity: a concrete parameter meets the hypotheses of the layer theorems -/
example : 0 < (Q.mk' 7 10).den ∧ (Q.mk' 7 10).num ≤ (Q.mk' 7 10).den := by decide

end Props.C15
