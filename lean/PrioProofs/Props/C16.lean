import PrioModel.Ctor
import PrioModel.Prio3
import PrioProofs.FlpTotal
import Mathlib.Tactic.Ring
import Mathlib.Tactic.Linarith
import Mathlib.Data.Nat.Log

/-! # C16 — fallible constructors and operations answer bad arguments with `Err`, never a panic,
    an overflow or an unusable instance.

    `Prio.Ctor` spells out the `usize` arithmetic of the constructors; the theorems below say, for
    every argument value: no constructor panics; an accepted instance has all its length accessors
    within `usize`; the accepted domain is exactly the documented one (so valid extremes are
    accepted); measurement encoders accept exactly the in-range measurements; and the Prio3
    verification operations cannot reach any of their (modelled) panic points. -/
namespace Props.C16
open Prio.Ctor Prio.Flp

/-! ## inversion of each constructor: what `ok` means -/

theorem sumNew_inv (p m : Nat) (t : TypeSpec) (h : sumNew p m = .ok t) : m < p ∧ m ≠ 0 ∧ t = .sum (bitsOf m) := by
  unfold sumNew at h
  by_cases h1 : m ≥ p
  · rw [if_pos h1] at h; cases h
  rw [if_neg h1] at h
  by_cases h2 : m = 0
  · rw [if_pos h2] at h; cases h
  rw [if_neg h2] at h
  injection h with h
  exact ⟨by omega, h2, h.symm⟩

theorem histNew_inv (l c : Nat) (t : TypeSpec) (h : histNew l c = .ok t) :
    l < u32Max ∧ l ≠ 0 ∧ c ≠ 0 ∧ checkParallelSumLengths c (callsOf l c) = true ∧ t = .histogram l c := by
  unfold histNew at h
  by_cases h1 : l ≥ u32Max
  · rw [if_pos h1] at h; cases h
  rw [if_neg h1] at h
  by_cases h2 : l = 0
  · rw [if_pos h2] at h; cases h
  rw [if_neg h2] at h
  by_cases h3 : c = 0
  · rw [if_pos h3] at h; cases h
  rw [if_neg h3] at h
  by_cases h4 : checkParallelSumLengths c (callsOf l c) = true
  · rw [if_pos h4] at h; injection h with h; exact ⟨by omega, h2, h3, h4, h.symm⟩
  · rw [if_neg h4] at h; cases h

theorem mhotNew_inv (p b w c : Nat) (t : TypeSpec) (h : mhotNew p b w c = .ok t) :
    b < u32Max ∧ b ≠ 0 ∧ c ≠ 0 ∧ w ≠ 0 ∧ w < p ∧
    checkParallelSumLengths c (callsOf (b + bitsOf w) c) = true ∧
    t = .multihot b (bitsOf w) (lastWeight w) c := by
  unfold mhotNew at h
  by_cases h1 : b ≥ u32Max
  · rw [if_pos h1] at h; cases h
  rw [if_neg h1] at h
  by_cases h2 : b = 0
  · rw [if_pos h2] at h; cases h
  rw [if_neg h2] at h
  by_cases h3 : c = 0
  · rw [if_pos h3] at h; cases h
  rw [if_neg h3] at h
  by_cases h4 : w = 0
  · rw [if_pos h4] at h; cases h
  rw [if_neg h4] at h
  by_cases h5 : w ≥ p
  · rw [if_pos h5] at h; cases h
  rw [if_neg h5] at h
  by_cases h6 : checkParallelSumLengths c (callsOf (b + bitsOf w) c) = true
  · rw [if_pos h6] at h; injection h with h; exact ⟨by omega, h2, h3, h4, by omega, h6, h.symm⟩
  · rw [if_neg h6] at h; cases h

theorem svecNew_inv (p m l c : Nat) (t : TypeSpec) (h : svecNew p m l c = .ok t) :
    m < p ∧ m ≠ 0 ∧ l ≠ 0 ∧ c ≠ 0 ∧ bitsOf m * l ≤ usizeMax ∧
    checkParallelSumLengths c (callsOf (bitsOf m * l) c) = true ∧
    t = .sumVec l (bitsOf m) (lastWeight m) c := by
  unfold svecNew at h
  by_cases h1 : m ≥ p
  · rw [if_pos h1] at h; cases h
  rw [if_neg h1] at h
  by_cases h2 : m = 0
  · rw [if_pos h2] at h; cases h
  rw [if_neg h2] at h
  by_cases h3 : l = 0
  · rw [if_pos h3] at h; cases h
  rw [if_neg h3] at h
  by_cases h4 : c = 0
  · rw [if_pos h4] at h; cases h
  rw [if_neg h4] at h
  unfold cmul at h
  by_cases h5 : bitsOf m * l ≤ usizeMax
  · rw [if_pos h5] at h
    simp only at h
    by_cases h6 : checkParallelSumLengths c (callsOf (bitsOf m * l) c) = true
    · rw [if_pos h6] at h; injection h with h; exact ⟨by omega, h2, h3, h4, h5, h6, h.symm⟩
    · rw [if_neg h6] at h; cases h
  · rw [if_neg h5] at h; cases h

theorem l1New_inv (p m l c : Nat) (t : TypeSpec) (h : l1New p m l c = .ok t) :
    m < p ∧ m ≠ 0 ∧ l ≠ 0 ∧ c ≠ 0 ∧ bitsOf m * (l + 1) ≤ usizeMax ∧
    checkParallelSumLengths c (callsOf (bitsOf m * (l + 1)) c) = true ∧
    t = .l1BoundSum l (bitsOf m) (lastWeight m) c := by
  unfold l1New at h
  by_cases h1 : l = 0
  · rw [if_pos h1] at h; cases h
  rw [if_neg h1] at h
  by_cases h2 : c = 0
  · rw [if_pos h2] at h; cases h
  rw [if_neg h2] at h
  by_cases h3 : m = 0
  · rw [if_pos h3] at h; cases h
  rw [if_neg h3] at h
  by_cases h4 : m ≥ p
  · rw [if_pos h4] at h; cases h
  rw [if_neg h4] at h
  unfold cadd cmul at h
  by_cases h5 : l + 1 ≤ usizeMax
  · rw [if_pos h5] at h
    simp only [Option.bind_some] at h
    by_cases h6 : bitsOf m * (l + 1) ≤ usizeMax
    · rw [if_pos h6] at h
      simp only at h
      by_cases h7 : checkParallelSumLengths c (callsOf (bitsOf m * (l + 1)) c) = true
      · rw [if_pos h7] at h; injection h with h; exact ⟨by omega, h3, h1, h2, h6, h7, h.symm⟩
      · rw [if_neg h7] at h; cases h
    · rw [if_neg h6] at h; cases h
  · rw [if_neg h5] at h; cases h

/-! ## constructors never panic -/

theorem sumNew_no_panic (p m : Nat) : sumNew p m ≠ .panic := by
  unfold sumNew; split <;> [simp; (split <;> simp)]

theorem histNew_no_panic (l c : Nat) : histNew l c ≠ .panic := by
  unfold histNew; repeat' split
  all_goals simp

theorem mhotNew_no_panic (p b w c : Nat) : mhotNew p b w c ≠ .panic := by
  unfold mhotNew; repeat' split
  all_goals simp

theorem svecNew_no_panic (p m l c : Nat) : svecNew p m l c ≠ .panic := by
  unfold svecNew; repeat' split
  all_goals simp

theorem l1New_no_panic (p m l c : Nat) : l1New p m l c ≠ .panic := by
  unfold l1New; repeat' split
  all_goals simp

theorem prio3New_no_panic (a n : Nat) : prio3New a n ≠ .panic := by
  unfold prio3New; repeat' split
  all_goals simp

theorem prio2New_no_panic (n : Nat) : prio2New n ≠ .panic := by
  unfold prio2New; repeat' split
  all_goals simp

/-! ## an accepted instance is usable -/

theorem callsOf_eq_divCeil (len chunk : Nat) (hc : 0 < chunk) : callsOf len chunk = divCeil len chunk := by
  unfold callsOf divCeil
  have hdm := Nat.div_add_mod len chunk
  have hlt := Nat.mod_lt len hc
  generalize len / chunk = q at *
  generalize len % chunk = r at *
  by_cases h : r = 0
  · rw [if_pos h]
    subst h
    have e : len + chunk - 1 = chunk * q + (chunk - 1) := by omega
    rw [e, Nat.mul_add_div hc, Nat.div_eq_of_lt (by omega)]
  · rw [if_neg h]
    have e : len + chunk - 1 = chunk * q + (chunk + (r - 1)) := by omega
    rw [e, Nat.mul_add_div hc, Nat.add_div_left _ hc, Nat.div_eq_of_lt (by omega)]

/-- what `check_parallel_sum_lengths` guarantees -/
theorem check_spec (chunk calls : Nat) (h : checkParallelSumLengths chunk calls = true) :
    chunk * 2 + nextPow2 (1 + calls) * 2 ≤ usizeMax := by
  unfold checkParallelSumLengths cmul cadd cnextPow2 at h
  by_cases h1 : chunk * 2 ≤ usizeMax
  · rw [if_pos h1] at h
    by_cases h2 : calls + 1 ≤ usizeMax
    · rw [if_pos h2] at h
      simp only at h
      by_cases h3 : nextPow2 (calls + 1) ≤ usizeMax
      · rw [if_pos h3] at h
        simp only at h
        by_cases h4 : nextPow2 (calls + 1) * 2 ≤ usizeMax
        · rw [if_pos h4] at h
          simp only at h
          by_cases h5 : chunk * 2 + nextPow2 (calls + 1) * 2 ≤ usizeMax
          · rw [Nat.add_comm 1 calls]; exact h5
          · rw [if_neg h5] at h; simp at h
        · rw [if_neg h4] at h; simp at h
      · rw [if_neg h3] at h; simp at h
    · rw [if_neg h2] at h; simp at h
  · rw [if_neg h1] at h; simp at h

theorem check_complete (chunk calls : Nat) (h : chunk * 2 + nextPow2 (1 + calls) * 2 ≤ usizeMax)
    (hc : calls + 1 ≤ usizeMax) : checkParallelSumLengths chunk calls = true := by
  unfold checkParallelSumLengths cmul cadd cnextPow2
  rw [Nat.add_comm 1 calls] at h
  rw [if_pos (by omega), if_pos hc]
  simp only
  rw [if_pos (by omega)]
  simp only
  rw [if_pos (by omega)]
  simp only
  rw [if_pos h]
  rfl

theorem nextPow2_pos (n : Nat) : 1 ≤ nextPow2 n := by
  unfold nextPow2; split
  · exact Nat.le_refl 1
  · exact Nat.one_le_two_pow

theorem le_nextPow2 (n : Nat) : n ≤ nextPow2 n := by
  unfold nextPow2; split
  · omega
  · rename_i h
    have h1 : n - 1 < 2 ^ (Nat.log2 (n - 1) + 1) := by
      rw [Nat.log2_eq_log_two]; exact Nat.lt_pow_succ_log_self (by norm_num) _
    omega

/-- a parallel-sum type whose `(chunk, gadget calls)` passed the check and whose measurement length
    fits has all accessors within `usize` -/
theorem usable_of_check (t : TypeSpec) (hcount : t ≠ .count) (hsum : ∀ b, t ≠ .sum b)
    (hin : t.inputLen ≤ usizeMax) (hout : t.outputLen ≤ usizeMax)
    (hchk : t.chunkLen * 2 + nextPow2 (1 + t.gadgetCalls) * 2 ≤ usizeMax) : Usable t := by
  have hp := nextPow2_pos (1 + t.gadgetCalls)
  have hle := le_nextPow2 (1 + t.gadgetCalls)
  have e1 : t.proofLen = t.chunkLen * 2 + 2 * (nextPow2 (1 + t.gadgetCalls) - 1) + 1 := by
    cases t <;> first | (exact absurd rfl hcount) | (exact absurd rfl (hsum _)) | rfl
  have e2 : t.verifierLen = 2 + t.chunkLen * 2 := by
    cases t <;> first | (exact absurd rfl hcount) | (exact absurd rfl (hsum _)) | rfl
  have e3 : t.jointRandLen = t.gadgetCalls := by
    cases t <;> first | (exact absurd rfl hcount) | (exact absurd rfl (hsum _)) | rfl
  have e4 : t.proveRandLen = t.chunkLen * 2 := by
    cases t <;> first | (exact absurd rfl hcount) | (exact absurd rfl (hsum _)) | rfl
  have e5 : t.queryRandLen ≤ 3 := by
    cases t <;> first | (exact absurd rfl hcount) | (exact absurd rfl (hsum _)) | (simp [TypeSpec.queryRandLen, TypeSpec.evalOutputLen])
  have hmax : (3 : Nat) ≤ usizeMax := by unfold usizeMax; norm_num
  refine ⟨hin, ?_, ?_, ?_, ?_, ?_, ?_, ?_, hout⟩ <;> omega

theorem histNew_usable (l c : Nat) (t : TypeSpec) (h : histNew l c = .ok t) : Usable t := by
  obtain ⟨h1, h2, h3, h4, rfl⟩ := histNew_inv l c t h
  have hc : 0 < c := Nat.pos_of_ne_zero h3
  have hk := check_spec c (callsOf l c) h4
  rw [callsOf_eq_divCeil l c hc] at hk
  refine usable_of_check _ (by simp) (by simp) ?_ ?_ hk
  · simp only [TypeSpec.inputLen]; unfold u32Max at h1; unfold usizeMax; omega
  · simp only [TypeSpec.outputLen]; unfold u32Max at h1; unfold usizeMax; omega

theorem bitsOf_le (x : Nat) (hx : x < 2 ^ 128) : bitsOf x ≤ 128 := by
  unfold bitsOf
  rw [Nat.log2_eq_log_two]
  by_cases h0 : x = 0
  · subst h0; simp
  · have := (Nat.log_lt_iff_lt_pow (by norm_num : 1 < 2) h0).mpr hx
    omega

theorem mhotNew_usable (p b w c : Nat) (hp : p ≤ 2 ^ 128) (t : TypeSpec) (h : mhotNew p b w c = .ok t) :
    Usable t := by
  obtain ⟨h1, h2, h3, h4, h5, h6, rfl⟩ := mhotNew_inv p b w c t h
  have hc : 0 < c := Nat.pos_of_ne_zero h3
  have hk := check_spec c (callsOf (b + bitsOf w) c) h6
  rw [callsOf_eq_divCeil _ c hc] at hk
  have hb := bitsOf_le w (by omega)
  refine usable_of_check _ (by simp) (by simp) ?_ ?_ hk
  · simp only [TypeSpec.inputLen]; unfold u32Max at h1; unfold usizeMax; omega
  · simp only [TypeSpec.outputLen]; unfold u32Max at h1; unfold usizeMax; omega

theorem svecNew_usable (p m l c : Nat) (t : TypeSpec) (h : svecNew p m l c = .ok t) : Usable t := by
  obtain ⟨h1, h2, h3, h4, h5, h6, rfl⟩ := svecNew_inv p m l c t h
  have hc : 0 < c := Nat.pos_of_ne_zero h4
  have hk := check_spec c _ h6
  rw [callsOf_eq_divCeil _ c hc] at hk
  refine usable_of_check _ (by simp) (by simp) ?_ ?_ hk
  · simpa only [TypeSpec.inputLen] using h5
  · simp only [TypeSpec.outputLen]
    have : 1 ≤ bitsOf m := by unfold bitsOf; omega
    calc l = 1 * l := (Nat.one_mul l).symm
      _ ≤ bitsOf m * l := Nat.mul_le_mul_right l this
      _ ≤ usizeMax := h5

theorem l1New_usable (p m l c : Nat) (t : TypeSpec) (h : l1New p m l c = .ok t) : Usable t := by
  obtain ⟨h1, h2, h3, h4, h5, h6, rfl⟩ := l1New_inv p m l c t h
  have hc : 0 < c := Nat.pos_of_ne_zero h4
  have hk := check_spec c _ h6
  rw [callsOf_eq_divCeil _ c hc] at hk
  refine usable_of_check _ (by simp) (by simp) ?_ ?_ hk
  · simpa only [TypeSpec.inputLen] using h5
  · simp only [TypeSpec.outputLen]
    have : 1 ≤ bitsOf m := by unfold bitsOf; omega
    have : l + 1 ≤ bitsOf m * (l + 1) := by
      calc l + 1 = 1 * (l + 1) := (Nat.one_mul _).symm
        _ ≤ bitsOf m * (l + 1) := Nat.mul_le_mul_right _ this
    omega

theorem sumNew_usable (p m : Nat) (hp : p ≤ 2 ^ 128) (t : TypeSpec) (h : sumNew p m = .ok t) : Usable t := by
  obtain ⟨h1, h2, rfl⟩ := sumNew_inv p m t h
  have hb := bitsOf_le m (by omega)
  have h1b : 1 ≤ bitsOf m := by unfold bitsOf; omega
  -- 1 + bits ≤ 129 ≤ 256 = 2^8, so the wire polynomial length is at most 256
  have hnp : nextPow2 (1 + bitsOf m) ≤ 256 := by
    unfold nextPow2
    split
    · norm_num
    · have : Nat.log2 (1 + bitsOf m - 1) < 8 := by
        rw [Nat.log2_eq_log_two]
        exact (Nat.log_lt_iff_lt_pow (by norm_num) (by omega)).mpr (by norm_num; omega)
      calc 2 ^ (Nat.log2 (1 + bitsOf m - 1) + 1) ≤ 2 ^ 8 := Nat.pow_le_pow_right (by norm_num) (by omega)
        _ = 256 := by norm_num
  have hnp1 := nextPow2_pos (1 + bitsOf m)
  have hq : (TypeSpec.sum (bitsOf m)).queryRandLen ≤ 1 + bitsOf m := by
    unfold TypeSpec.queryRandLen
    have e : (TypeSpec.sum (bitsOf m)).evalOutputLen = bitsOf m := rfl
    split <;> omega
  unfold Usable
  simp only [TypeSpec.inputLen, TypeSpec.chunkLen, TypeSpec.gadgetCalls, TypeSpec.proofLen, TypeSpec.verifierLen,
    TypeSpec.jointRandLen, TypeSpec.proveRandLen, TypeSpec.outputLen]
  unfold usizeMax
  refine ⟨?_, ?_, ?_, ?_, ?_, ?_, ?_, ?_, ?_⟩ <;> omega

/-! ## the accepted domain is the documented one; valid extremes are accepted -/

theorem sumNew_ok_iff (p m : Nat) : (∃ t, sumNew p m = .ok t) ↔ 0 < m ∧ m < p := by
  constructor
  · rintro ⟨t, h⟩
    obtain ⟨h1, h2, _⟩ := sumNew_inv p m t h
    omega
  · rintro ⟨h1, h2⟩
    unfold sumNew
    rw [if_neg (by omega), if_neg (by omega)]
    exact ⟨_, rfl⟩

theorem histNew_ok_iff (l c : Nat) :
    (∃ t, histNew l c = .ok t) ↔
      0 < l ∧ l < u32Max ∧ 0 < c ∧ c * 2 + nextPow2 (1 + divCeil l c) * 2 ≤ usizeMax := by
  constructor
  · rintro ⟨t, h⟩
    obtain ⟨h1, h2, h3, h4, _⟩ := histNew_inv l c t h
    have hc : 0 < c := Nat.pos_of_ne_zero h3
    have hk := check_spec c (callsOf l c) h4
    rw [callsOf_eq_divCeil l c hc] at hk
    exact ⟨Nat.pos_of_ne_zero h2, h1, hc, hk⟩
  · rintro ⟨h1, h2, h3, h4⟩
    unfold histNew
    rw [if_neg (by omega), if_neg (by omega), if_neg (by omega)]
    have hle : divCeil l c + 1 ≤ usizeMax := by
      have := le_nextPow2 (1 + divCeil l c); omega
    have := check_complete c (callsOf l c) (by rw [callsOf_eq_divCeil l c h3]; exact h4)
      (by rw [callsOf_eq_divCeil l c h3]; exact hle)
    rw [if_pos this]
    exact ⟨_, rfl⟩

/-- extremes of the domain: the largest histogram is accepted, one more bucket is not, and neither
    is a chunk length whose proof length would overflow (the repaired defect) -/
example : (∃ t, histNew (2 ^ 32 - 2) 1 = .ok t) ∧ (¬ ∃ t, histNew (2 ^ 32 - 1) 1 = .ok t) ∧
    (¬ ∃ t, histNew 1 (2 ^ 63) = .ok t) := by
  refine ⟨(histNew_ok_iff _ _).mpr ?_, ?_, ?_⟩
  · refine ⟨by norm_num, by unfold u32Max; norm_num, by norm_num, ?_⟩
    have : divCeil (2 ^ 32 - 2) 1 = 2 ^ 32 - 2 := by unfold divCeil; norm_num
    rw [this]
    have : nextPow2 (1 + (2 ^ 32 - 2)) = 2 ^ 32 := by
      unfold nextPow2
      rw [if_neg (by norm_num)]
      have : Nat.log2 (1 + (2 ^ 32 - 2) - 1) = 31 := by
        rw [Nat.log2_eq_log_two]
        exact (Nat.log_eq_iff (by norm_num)).mpr (by norm_num)
      rw [this]
    rw [this]; unfold usizeMax; norm_num
  · rw [histNew_ok_iff]; unfold u32Max; intro ⟨_, h, _⟩; omega
  · rw [histNew_ok_iff]; unfold usizeMax; intro ⟨_, _, _, h⟩
    have := nextPow2_pos (1 + divCeil 1 (2 ^ 63)); omega

example : (∃ t, sumNew Gen.FP64.prime (Gen.FP64.prime - 1) = .ok t) ∧
    (¬ ∃ t, sumNew Gen.FP64.prime Gen.FP64.prime = .ok t) ∧ (¬ ∃ t, sumNew Gen.FP64.prime 0 = .ok t) := by
  refine ⟨(sumNew_ok_iff _ _).mpr (by decide), ?_, ?_⟩ <;> rw [sumNew_ok_iff] <;> omega

theorem prio3New_ok_iff (a n : Nat) : prio3New a n = .ok () ↔ 1 ≤ a ∧ a ≤ 254 ∧ 1 ≤ n := by
  unfold prio3New
  constructor
  · intro h
    by_cases h1 : a = 0
    · rw [if_pos h1] at h; cases h
    rw [if_neg h1] at h
    by_cases h2 : a > 254
    · rw [if_pos h2] at h; cases h
    rw [if_neg h2] at h
    by_cases h3 : n = 0
    · rw [if_pos h3] at h; cases h
    omega
  · rintro ⟨h1, h2, h3⟩
    rw [if_neg (by omega), if_neg (by omega), if_neg (by omega)]

/-- `Prio2::new` accepts exactly the input lengths whose proof fits the NTT domain of the field -/
theorem prio2New_ok_iff (n : Nat) : prio2New n = .ok () ↔ nextPow2 (n + 1) * 2 ≤ 2 ^ 20 := by
  have hroots : Gen.FP32.numRoots = 20 := rfl
  unfold prio2New cadd cnextPow2 cmul
  rw [hroots]
  constructor
  · intro h
    by_cases h1 : n + 1 ≤ usizeMax
    · rw [if_pos h1] at h
      simp only [Option.bind_some] at h
      by_cases h2 : nextPow2 (n + 1) ≤ usizeMax
      · rw [if_pos h2] at h
        simp only [Option.bind_some] at h
        by_cases h3 : nextPow2 (n + 1) * 2 ≤ usizeMax
        · rw [if_pos h3] at h
          simp only at h
          by_cases h4 : nextPow2 (n + 1) * 2 > u32Max
          · rw [if_pos h4] at h; cases h
          rw [if_neg h4] at h
          by_cases h5 : nextPow2 (n + 1) * 2 > 2 ^ 20
          · rw [if_pos h5] at h; cases h
          omega
        · rw [if_neg h3] at h; cases h
      · rw [if_neg h2] at h; cases h
    · rw [if_neg h1] at h; cases h
  · intro h
    have hle := le_nextPow2 (n + 1)
    have hu : (2 : Nat) ^ 20 ≤ usizeMax := by unfold usizeMax; norm_num
    rw [if_pos (by omega)]
    simp only [Option.bind_some]
    rw [if_pos (by omega)]
    simp only [Option.bind_some]
    rw [if_pos (by omega)]
    simp only
    rw [if_neg (by unfold u32Max; omega), if_neg (by omega)]

/-! ## measurement encoders accept exactly the in-range measurements -/

theorem encodeRangeChecked_isSome_iff (v bits lw : Nat) (hb : 1 ≤ bits) (h1 : 1 ≤ lw) (h2 : lw ≤ 2 ^ (bits - 1)) :
    (encodeRangeChecked v bits lw).isSome = true ↔ v ≤ maxOf bits lw := by
  unfold encodeRangeChecked maxOf
  have hpos : 0 < 2 ^ (bits - 1) := Nat.pow_pos (by norm_num)
  simp only
  by_cases hv : v > 2 ^ (bits - 1) - 1
  · simp only [hv, if_true]
    constructor
    · intro h
      by_contra hc
      have : 2 ^ (bits - 1) ≤ v - lw := by omega
      have : (v - lw) / 2 ^ (bits - 1) ≠ 0 := by
        have := Nat.div_pos this hpos; omega
      rw [if_pos this] at h; simp at h
    · intro h
      have : (v - lw) / 2 ^ (bits - 1) = 0 := Nat.div_eq_of_lt (by omega)
      rw [if_neg (by simpa using this)]; rfl
  · simp only [hv, if_false]
    have : v / 2 ^ (bits - 1) = 0 := Nat.div_eq_of_lt (by omega)
    rw [if_neg (by simpa using this)]
    simp; omega

/-- `Histogram::encode_measurement`: accepted iff the bucket index is in range (the repaired check) -/
theorem hist_encode_ok_iff (len chunk lw aux i : Nat) :
    (encodeMeasurement (.histogram len chunk) lw aux [i]).isSome = true ↔ i < len := by
  unfold encodeMeasurement
  simp only
  by_cases h : i ≥ len
  · rw [if_pos h]; simp; omega
  · rw [if_neg h]; simp; omega

/-- … and the encoding is the one-hot vector of length `len` -/
theorem hist_encode_onehot (len chunk lw aux i : Nat) (h : i < len) :
    encodeMeasurement (.histogram len chunk) lw aux [i] =
      some ((List.range len).map fun j => if j = i then 1 else 0) := by
  unfold encodeMeasurement
  simp only
  rw [if_neg (by omega)]

/-- `Sum::encode_measurement`: accepted iff the summand is at most the configured maximum -/
theorem sum_encode_ok_iff (bits lw aux v : Nat) (hb : 1 ≤ bits) (h1 : 1 ≤ lw) (h2 : lw ≤ 2 ^ (bits - 1)) :
    (encodeMeasurement (.sum bits) lw aux [v]).isSome = true ↔ v ≤ maxOf bits lw := by
  unfold encodeMeasurement
  simp only
  by_cases h : v > maxOf bits lw
  · rw [if_pos h]; simp; omega
  · rw [if_neg h]
    rw [encodeRangeChecked_isSome_iff v bits lw hb h1 h2]

theorem mapM_isSome_iff {α β : Type} (f : α → Option β) (l : List α) :
    (l.mapM f).isSome = true ↔ ∀ x ∈ l, (f x).isSome = true := by
  induction l with
  | nil => simp
  | cons a r ih =>
    rw [List.mapM_cons]
    cases ha : f a with
    | none => simp [ha]
    | some b =>
      cases hr : r.mapM f with
      | none =>
        simp only [Option.bind_eq_bind, Option.bind_some, hr, Option.bind_none, Option.isSome_none,
          Bool.false_eq_true, List.mem_cons, forall_eq_or_imp, ha, Option.isSome_some, true_and, false_iff]
        rw [hr] at ih; simpa using ih
      | some bs =>
        rw [hr] at ih
        simp only [Option.bind_eq_bind, Option.bind_some, hr, Option.isSome_some, List.mem_cons, forall_eq_or_imp,
          ha, true_and, true_iff]
        simpa using ih

/-- `SumVec::encode_measurement`: accepted iff the length is right and every element is in range -/
theorem svec_encode_ok_iff (len bits lw chunk slw aux : Nat) (m : List Nat)
    (hb : 1 ≤ bits) (h1 : 1 ≤ lw) (h2 : lw ≤ 2 ^ (bits - 1)) :
    (encodeMeasurement (.sumVec len bits lw chunk) slw aux m).isSome = true ↔
      m.length = len ∧ ∀ v ∈ m, v ≤ maxOf bits lw := by
  unfold encodeMeasurement
  simp only
  by_cases h : m.length ≠ len
  · rw [if_pos h]; simp; intro e; exact absurd e h
  · rw [if_neg h]
    simp only [Option.isSome_map, mapM_isSome_iff]
    constructor
    · intro hh
      exact ⟨by omega, fun v hv => (encodeRangeChecked_isSome_iff v bits lw hb h1 h2).mp (hh v hv)⟩
    · intro ⟨_, hh⟩ v hv
      exact (encodeRangeChecked_isSome_iff v bits lw hb h1 h2).mpr (hh v hv)

/-- `L1BoundSum::encode_measurement`: accepted iff the length is right, every element is in range
    and so is their sum (the L1 norm) -/
theorem l1_encode_ok_iff (mlen bits lw chunk slw aux : Nat) (m : List Nat)
    (hb : 1 ≤ bits) (h1 : 1 ≤ lw) (h2 : lw ≤ 2 ^ (bits - 1)) :
    (encodeMeasurement (.l1BoundSum mlen bits lw chunk) slw aux m).isSome = true ↔
      m.length = mlen ∧ (∀ v ∈ m, v ≤ maxOf bits lw) ∧ m.sum ≤ maxOf bits lw := by
  unfold encodeMeasurement
  simp only
  by_cases h : m.length ≠ mlen
  · rw [if_pos h]; simp; intro e; exact absurd e h
  · rw [if_neg h]
    have hm := mapM_isSome_iff (fun v => encodeRangeChecked v bits lw) m
    have hs := encodeRangeChecked_isSome_iff m.sum bits lw hb h1 h2
    cases he : m.mapM (fun v => encodeRangeChecked v bits lw) with
    | none =>
      rw [he] at hm
      simp only [Option.isSome_none, Bool.false_eq_true, false_iff]
      intro ⟨_, hh, _⟩
      have := hm.mpr (fun v hv => (encodeRangeChecked_isSome_iff v bits lw hb h1 h2).mpr (hh v hv))
      simp at this
    | some es =>
      rw [he] at hm
      simp only
      cases hn : encodeRangeChecked m.sum bits lw with
      | none =>
        rw [hn] at hs
        simp only [Option.isSome_none, Bool.false_eq_true, false_iff]
        intro ⟨_, _, hh⟩
        have := hs.mpr hh
        simp at this
      | some n =>
        rw [hn] at hs
        simp only [Option.isSome_some, true_iff]
        refine ⟨by omega, fun v hv => ?_, hs.mp rfl⟩
        exact (encodeRangeChecked_isSome_iff v bits lw hb h1 h2).mp (hm.mp rfl v hv)

/-- `MultihotCountVec::encode_measurement`: accepted iff the length is right and the number of set
    entries is at most `max_weight` (here `aux`, which the constructor ties to `(bw, lw)`) -/
theorem mhot_encode_ok_iff (len bw lw chunk slw aux : Nat) (m : List Nat)
    (hb : 1 ≤ bw) (h1 : 1 ≤ lw) (h2 : lw ≤ 2 ^ (bw - 1)) (haux : aux = maxOf bw lw) :
    (encodeMeasurement (.multihot len bw lw chunk) slw aux m).isSome = true ↔
      m.length = len ∧ (m.filter (· % 2 = 1)).length ≤ aux := by
  unfold encodeMeasurement
  simp only
  by_cases h : m.length ≠ len
  · rw [if_pos h]; simp; intro e; exact absurd e h
  · rw [if_neg h]
    by_cases hw : (m.filter (· % 2 = 1)).length > aux
    · rw [if_pos hw]; simp; omega
    · rw [if_neg hw]
      simp only [Option.isSome_map]
      rw [encodeRangeChecked_isSome_iff _ bw lw hb h1 h2, ← haux]
      omega

/-- the constructor's `(bits, last weight)` always satisfy the side conditions used above, and
    `maxOf` gives back the configured maximum -/
theorem ctor_weights (max : Nat) (h : 0 < max) :
    1 ≤ bitsOf max ∧ 1 ≤ lastWeight max ∧ lastWeight max ≤ 2 ^ (bitsOf max - 1) ∧
    maxOf (bitsOf max) (lastWeight max) = max := by
  unfold lastWeight maxOf bitsOf
  have hne : max ≠ 0 := by omega
  have hlo : 2 ^ Nat.log2 max ≤ max := by rw [Nat.log2_eq_log_two]; exact Nat.pow_log_le_self 2 hne
  have hhi : max < 2 ^ (Nat.log2 max + 1) := by
    rw [Nat.log2_eq_log_two]; exact Nat.lt_pow_succ_log_self (by norm_num) _
  have hpos : 0 < 2 ^ Nat.log2 max := Nat.pow_pos (by norm_num)
  rw [Nat.pow_succ] at hhi
  have e : Nat.log2 max + 1 - 1 = Nat.log2 max := by omega
  rw [e]
  generalize 2 ^ Nat.log2 max = a at *
  refine ⟨by omega, by omega, by omega, by omega⟩

/-! ## Prio3 verification cannot reach a panic point

The model of `verify_init`, `verifier_shares_to_message` and `verify_next` keeps an explicit `panic`
outcome wherever the Rust code indexes, slices, unwraps or counts.  After the repairs, the only ways
the model can answer `panic` are inherited from below: the rejection-sampling loop of the XOF
expansion not terminating within the model's fuel (probability ≈ 2⁻⁶⁴ per element; the Rust loop
would spin rather than panic) and a panic inside the FLP `query`/`decide`/`truncate` (C05 covers
those by correspondence).  Under those two hypotheses, stated explicitly, no argument whatsoever
makes the operations panic. -/

open Prio.Prio3

variable {F : Type} [Add F] [Sub F] [Mul F] [Neg F] [Zero F] [One F] [Inv F] [BEq F]

theorem sumStep_no_panic (cfg : Cfg) (st : Prio.Res (List F × List Prio.Prio3.Bytes × Nat)) (sh : VerifierShare F)
    (h : st ≠ .panic) : sumStep cfg st sh ≠ .panic := by
  unfold sumStep
  cases st with
  | panic => exact absurd rfl h
  | err => simp
  | ok r =>
    obtain ⟨vs, parts, count⟩ := r
    simp only
    repeat' split
    all_goals simp

/-- the share-combining loop never panics: not on 256 shares, not on 2⁶⁴, not on a share without
    its joint-randomness part (the two repaired defects) -/
theorem sumShares_no_panic (cfg : Cfg) (shares : List (VerifierShare F)) : sumShares cfg shares ≠ .panic := by
  unfold sumShares
  generalize hs : (Prio.Res.ok (List.replicate (cfg.t.verifierLen * cfg.numProofs) (0 : F), ([] : List Prio.Prio3.Bytes), 0)) = s0
  have h0 : s0 ≠ .panic := by rw [← hs]; simp
  clear hs
  induction shares generalizing s0 with
  | nil => simpa using h0
  | cons s r ih =>
    rw [List.foldl_cons]
    exact ih _ (sumStep_no_panic cfg s0 s h0)

/-- `verifier_shares_to_message` panics only if `decide` does -/
theorem sharesToMessage_no_panic (C : FieldCtx F) (cfg : Cfg) (xof : Xof) (ctx : Prio.Prio3.Bytes)
    (shares : List (VerifierShare F)) (hd : ∀ vs, decideAll C cfg vs ≠ .panic) :
    sharesToMessage C cfg xof ctx shares ≠ .panic := by
  unfold sharesToMessage
  have h1 := sumShares_no_panic cfg shares
  cases hs : sumShares cfg shares with
  | panic => exact absurd hs h1
  | err => simp
  | ok r =>
    obtain ⟨vs, parts, count⟩ := r
    simp only
    split
    · simp
    · have h2 := hd vs
      cases hd' : decideAll C cfg vs with
      | panic => exact absurd hd' h2
      | err => simp
      | ok b => cases b <;> simp <;> split <;> simp

/-- `verify_next` panics only if the helper's share expansion or `truncate` does; in particular a
    state or message without the joint randomness seed is an error (the repaired defect) -/
theorem verifyNext_no_panic (C : FieldCtx F) (cfg : Cfg) (cv : Conv F) (xof : Xof) (sumLW : Nat)
    (ctx : Prio.Prio3.Bytes) (st : VerifyState F) (msg : Option Prio.Prio3.Bytes)
    (hx : ∀ seed, (expand cfg cv xof seed (dst cfg usageMeasShare ctx) [st.aggId] cfg.t.inputLen).isSome = true) :
    verifyNext C cfg cv xof sumLW ctx st msg ≠ .panic := by
  unfold verifyNext
  simp only
  have htr : ∀ m : List F, truncateWith C cfg.t sumLW m ≠ .panic := by
    intro m; unfold truncateWith; split
    · simp
    · split <;> simp
  split
  · simp
  · rename_i hchk
    -- the check itself never yields `panic`
    split at hchk
    · split at hchk <;> first | (split at hchk <;> cases hchk) | cases hchk
    · cases hchk
  · cases hsh : st.share with
    | inl d => simp
    | inr seed =>
      simp only
      have := hx seed
      cases he : expand cfg cv xof seed (dst cfg usageMeasShare ctx) [st.aggId] cfg.t.inputLen with
      | none => rw [he] at this; simp at this
      | some m => exact htr m

/-- with the proofs share of exactly `proof_len * num_proofs` elements (which `verify_init` now
    checks first), the per-proof slice is always in range: the loop panics only if `query` does -/
theorem viVerifiers_no_panic (C : FieldCtx F) (cfg : Cfg) (meas proofs qr jr : List F)
    (hlen : proofs.length = cfg.t.proofLen * cfg.numProofs)
    (hq : ∀ i p q j n, query C cfg.t i p q j n ≠ .panic) :
    viVerifiers C cfg meas proofs qr jr ≠ .panic := by
  unfold viVerifiers
  have key : ∀ (l : List Nat) (acc : Prio.Res (List F)), (∀ pi ∈ l, pi < cfg.numProofs) → acc ≠ .panic →
      l.foldl (fun acc pi =>
        match acc with
        | Prio.Res.ok soFar =>
          if (pi + 1) * cfg.t.proofLen > proofs.length then Prio.Res.panic
          else
            match query C cfg.t meas (chunk proofs pi cfg.t.proofLen)
                (chunk qr pi cfg.t.queryRandLen) (chunk jr pi cfg.t.jointRandLen) cfg.numAgg with
            | .ok v => Prio.Res.ok (soFar ++ v)
            | .err => Prio.Res.err
            | .panic => Prio.Res.panic
        | e => e) acc ≠ Prio.Res.panic := by
    intro l
    induction l with
    | nil => intro acc _ h; simpa using h
    | cons a r ih =>
      intro acc hmem hacc
      rw [List.foldl_cons]
      apply ih
      · intro pi hpi; exact hmem pi (List.mem_cons_of_mem _ hpi)
      · cases acc with
        | panic => exact absurd rfl hacc
        | err => simp
        | ok soFar =>
          simp only
          have ha : a < cfg.numProofs := hmem a (List.mem_cons_self ..)
          have : ¬ (a + 1) * cfg.t.proofLen > proofs.length := by
            rw [hlen]
            have : (a + 1) * cfg.t.proofLen ≤ cfg.numProofs * cfg.t.proofLen := Nat.mul_le_mul_right _ ha
            rw [Nat.mul_comm cfg.t.proofLen]; omega
          rw [if_neg this]
          have hq' := hq meas (chunk proofs a cfg.t.proofLen) (chunk qr a cfg.t.queryRandLen)
            (chunk jr a cfg.t.jointRandLen) cfg.numAgg
          cases hqq : query C cfg.t meas (chunk proofs a cfg.t.proofLen) (chunk qr a cfg.t.queryRandLen)
              (chunk jr a cfg.t.jointRandLen) cfg.numAgg with
          | panic => exact absurd hqq hq'
          | err => simp
          | ok v => simp
  exact key (List.range cfg.numProofs) (.ok []) (fun pi hpi => List.mem_range.mp hpi) (by simp)

/-- `verify_init` panics only if an XOF expansion does not terminate or `query` panics: no
    aggregator id, share shape, share length or missing blind can make it panic -/
theorem verifyInit_no_panic (C : FieldCtx F) (cfg : Cfg) (cv : Conv F) (xof : Xof) (sumLW : Nat)
    (key ctx : Prio.Prio3.Bytes) (aggId : Nat) (nonce : Prio.Prio3.Bytes) (pp : Option (List Prio.Prio3.Bytes))
    (msg : InputShare F)
    (hx : ∀ seed dstv binder n, (expand cfg cv xof seed dstv binder n).isSome = true)
    (hq : ∀ i p q j n, query C cfg.t i p q j n ≠ .panic) :
    verifyInit C cfg cv xof sumLW key ctx aggId nonce pp msg ≠ .panic := by
  unfold verifyInit
  by_cases h0 : aggId ≥ cfg.numAgg
  · rw [if_pos h0]; simp
  rw [if_neg h0]
  have hsh : ∃ mp, viShares cfg cv xof ctx aggId msg = some mp := by
    unfold viShares
    cases msg with
    | leader m p b => exact ⟨_, rfl⟩
    | helper seed b =>
      simp only
      have h1 := hx seed (dst cfg usageMeasShare ctx) [aggId] cfg.t.inputLen
      have h2 := hx seed (dst cfg usageProofShare ctx) [cfg.numProofs, aggId] (cfg.t.proofLen * cfg.numProofs)
      cases e1 : expand cfg cv xof seed (dst cfg usageMeasShare ctx) [aggId] cfg.t.inputLen with
      | none => rw [e1] at h1; simp at h1
      | some m =>
        cases e2 : expand cfg cv xof seed (dst cfg usageProofShare ctx) [cfg.numProofs, aggId] (cfg.t.proofLen * cfg.numProofs) with
        | none => rw [e2] at h2; simp at h2
        | some p => exact ⟨_, rfl⟩
  obtain ⟨⟨m, p⟩, hmp⟩ := hsh
  rw [hmp]
  simp only
  by_cases hpl : p.length ≠ cfg.t.proofLen * cfg.numProofs
  · rw [if_pos hpl]; simp
  rw [if_neg hpl]
  simp only [ne_eq, Decidable.not_not] at hpl
  have hjr : viJointRand cfg cv xof ctx aggId nonce pp msg.blind m ≠ .panic := by
    unfold viJointRand
    split
    · cases msg.blind with
      | none => simp
      | some b =>
        simp only
        unfold jointRands
        simp only
        have := hx (jointRandSeed cfg xof ctx ((pp.getD []).take aggId ++ [jointRandPart cfg cv xof ctx b aggId nonce m] ++ (pp.getD []).drop (aggId + 1)))
          (dst cfg usageJointRandomness ctx) [cfg.numProofs] (cfg.t.jointRandLen * cfg.numProofs)
        cases e : expand cfg cv xof (jointRandSeed cfg xof ctx ((pp.getD []).take aggId ++ [jointRandPart cfg cv xof ctx b aggId nonce m] ++ (pp.getD []).drop (aggId + 1)))
          (dst cfg usageJointRandomness ctx) [cfg.numProofs] (cfg.t.jointRandLen * cfg.numProofs) with
        | none => rw [e] at this; simp at this
        | some v => simp
    · simp
  cases hj : viJointRand cfg cv xof ctx aggId nonce pp msg.blind m with
  | panic => exact absurd hj hjr
  | err => simp
  | ok t =>
    obtain ⟨a, b, jr⟩ := t
    simp only
    have hqr := hx key (dst cfg usageQueryRandomness ctx) ([cfg.numProofs] ++ nonce) (cfg.t.queryRandLen * cfg.numProofs)
    unfold viQueryRands
    cases eq : expand cfg cv xof key (dst cfg usageQueryRandomness ctx) ([cfg.numProofs] ++ nonce) (cfg.t.queryRandLen * cfg.numProofs) with
    | none => rw [eq] at hqr; simp at hqr
    | some qr =>
      simp only
      have hv := viVerifiers_no_panic C cfg m p qr jr hpl hq
      cases hvv : viVerifiers C cfg m p qr jr with
      | panic => exact absurd hvv hv
      | err => simp
      | ok vs =>
        simp only
        have hst : viStateShare C cfg sumLW msg ≠ .panic := by
          unfold viStateShare
          cases msg with
          | helper s b => simp
          | leader mm pp' bb =>
            simp only
            have : truncateWith C cfg.t sumLW mm ≠ .panic := by
              unfold truncateWith; split
              · simp
              · split <;> simp
            cases ht : truncateWith C cfg.t sumLW mm with
            | panic => exact absurd ht this
            | err => simp
            | ok tr => simp
        cases hss : viStateShare C cfg sumLW msg with
        | panic => exact absurd hss hst
        | err => simp
        | ok s => simp

/-! ### without hypotheses on `decide`: over a field, `verifier_shares_to_message` never panics -/

section field
variable {K : Type} [Field K] [BEq K]

theorem decideAll_no_panic (C : FieldCtx K) (cfg : Cfg) (vs : List K) : decideAll C cfg vs ≠ .panic := by
  unfold decideAll
  have key : ∀ (l : List Nat) (st : Prio.Res Bool), st ≠ .panic →
      l.foldl (fun st pi =>
        match st with
        | Prio.Res.ok true =>
          match Prio.Flp.decide C cfg.t (chunk vs pi cfg.t.verifierLen) with
          | .ok b => Prio.Res.ok b
          | .err => Prio.Res.err
          | .panic => Prio.Res.panic
        | e => e) st ≠ .panic := by
    intro l
    induction l with
    | nil => intro st h; simpa using h
    | cons a r ih =>
      intro st h
      rw [List.foldl_cons]
      apply ih
      cases st with
      | panic => exact absurd rfl h
      | err => simp
      | ok b =>
        cases b with
        | false => simp
        | true =>
          simp only
          have := Prio.Flp.decide_no_panic C cfg.t (chunk vs a cfg.t.verifierLen)
          cases hd : Prio.Flp.decide C cfg.t (chunk vs a cfg.t.verifierLen) with
          | panic => exact absurd hd this
          | err => simp
          | ok x => simp
  exact key _ _ (by simp)

/-- **`verifier_shares_to_message` never panics**, for any list of verifier shares whatsoever -/
theorem sharesToMessage_total (C : FieldCtx K) (cfg : Cfg) (xof : Xof) (ctx : Prio.Prio3.Bytes)
    (shares : List (VerifierShare K)) : sharesToMessage C cfg xof ctx shares ≠ .panic :=
  sharesToMessage_no_panic C cfg xof ctx shares (decideAll_no_panic C cfg)

end field

end Props.C16
