import PrioProofs.Codec.Messages

/-! # C07 — wire encodings are canonical, round-trip, and report their exact length

`Fmt` is the grammar of wire formats; `Msg.*` give the format of every protocol message as a function
of its decoding parameters (tied to the Rust decoders by the correspondence run).  The theorems hold
for every format of the grammar, hence for every message and every parameter value. -/
namespace Props.C07
open Prio Prio.Msg

/-- decode ∘ encode = id, for every well-formed format and every value of it -/
theorem roundtrip (f : Fmt) (hwf : f.WF) (v : Val) (hv : Conforms f v) :
    getDecoded f (encode f v) = .ok v := getDecoded_encode f hwf v hv

/-- every accepted byte string re-encodes to exactly the same bytes -/
theorem canonical (f : Fmt) (bs : List Nat) (hb : BytesOK bs) (v : Val) (h : getDecoded f bs = .ok v) :
    Conforms f v ∧ encode f v = bs := encode_getDecoded f bs hb v h

/-- no value has two accepted encodings -/
theorem unique_encoding (f : Fmt) (b1 b2 : List Nat) (h1 : BytesOK b1) (h2 : BytesOK b2) (v : Val)
    (d1 : getDecoded f b1 = .ok v) (d2 : getDecoded f b2 = .ok v) : b1 = b2 :=
  accepted_encoding_unique f b1 b2 h1 h2 v d1 d2

/-- trailing bytes are rejected -/
theorem rejects_trailing (f : Fmt) (hwf : f.WF) (v : Val) (hv : Conforms f v) (b : Nat) (rest : List Nat) :
    getDecoded f (encode f v ++ b :: rest) = .err := by
  unfold getDecoded; rw [decode_encode f hwf v hv]

/-- a field element not below the modulus is rejected -/
theorem rejects_unreduced (p sz x : Nat) (hx : p ≤ x) (hx2 : x < 256 ^ sz) (rest : List Nat) :
    decode (.felem p sz) (leBytesC x sz ++ rest) = .err := by
  have hl := leBytesC_length x sz
  have e : leNatC (List.take sz (leBytesC x sz ++ rest)) = x := by
    rw [List.take_left' hl, leNatC_leBytesC, Nat.mod_eq_of_lt hx2]
  have hlen : ¬ (leBytesC x sz ++ rest).length < sz := by simp [hl]
  simp only [decode, hlen, if_false, e, Nat.not_lt.mpr hx]

/-- non-zero padding bits are rejected (both bit orders) -/
theorem rejects_padding (n : Nat) (bs : List Nat)
    (hpad : ((unpackBits false (bs.take ((n + 7) / 8))).drop n).any id = true) :
    decode (.bitsLsb n) bs = .err := by
  simp only [decode]; split
  · rfl
  · simp [hpad]

theorem rejects_padding_msb (n : Nat) (bs : List Nat)
    (hpad : ((unpackBits true (bs.take ((n + 7) / 8))).drop n).any id = true) :
    decode (.bitsMsb n) bs = .err := by
  simp only [decode]; split
  · rfl
  · simp [hpad]

/-- unknown ping-pong message types are rejected -/
theorem rejects_unknown_tag (t : Nat) (ht : 3 ≤ t) (ht2 : t < 256) (rest : List Nat) :
    decode pingPongMessage (t :: rest) = .err := by
  have e : beNat [t] = t := by simp [beNat]
  simp [pingPongMessage, decode, e, tagOf]
  have h0 : t ≠ 0 := by omega
  have h1 : t ≠ 1 := by omega
  have h2 : t ≠ 2 := by omega
  simp [h0, h1, h2, decode]

/-- every message format is well-formed for every parameter value (so the theorems above apply) -/
theorem all_formats_wf {FI FL F : FieldSpec} (hi : FI.Ok) (hl : FL.Ok) (h : F.Ok)
    (ss na id il pl jr vl ol bits : Nat) (hj leaf r2 : Bool) :
    (prio3PublicShare ss na jr).WF ∧ (prio3InputShare F ss na id il pl jr).WF ∧
    (prio3VerifierShare F ss vl hj).WF ∧ (prio3VerifierMessage ss hj).WF ∧
    (prio3VerifyState F ss na id ol jr).WF ∧ (fieldVecMsg F ol).WF ∧
    (prio2VerifyState F id il).WF ∧ (prio2InputShare F id pl).WF ∧ (prio2VerifierShare F).WF ∧
    (idpfPublicShare FI FL bits false).WF ∧ (poplar1InputShare FI FL ss bits false).WF ∧
    (poplar1VerifyState FI FL).WF ∧ (poplar1VerifierMessage FI FL leaf r2).WF ∧
    (poplar1VerifierShare FI FL leaf r2).WF ∧ (poplar1Continuation FI FL).WF ∧
    (poplar1AggParam false).WF ∧ pingPongMessage.WF :=
  ⟨(prio3PublicShare_ok ss na jr).1, (prio3InputShare_ok h ss na id il pl jr).1,
   (prio3VerifierShare_ok h ss vl hj).1, (prio3VerifierMessage_ok ss hj).1,
   (prio3VerifyState_ok h ss na id ol jr).1, (fieldVecMsg_ok h ol).1,
   (prio2VerifyState_ok h id il).1, (prio2InputShare_ok h id pl).1, (prio2VerifierShare_ok h).1,
   (idpfPublicShare_ok hi hl bits).1, (poplar1InputShare_ok hi hl ss bits).1,
   (poplar1VerifyState_ok hi hl).1, (poplar1VerifierMessage_ok hi hl leaf r2).1,
   (poplar1VerifierShare_ok hi hl leaf r2).1, (poplar1Continuation_ok hi hl).1,
   poplar1AggParam_ok.1, pingPongMessage_ok.1⟩

/-- the four fields of the library fit their encoded sizes -/
theorem fields_ok (name : String) (F : FieldSpec) (h : fieldSpec name = some F) : F.Ok :=
  fieldSpec_ok name F h

/-! ## advertised lengths -/

theorem poplar1_input_share_len (FI FL : FieldSpec) (hi : FI.sz = 8) (hl : FL.sz = 32) (ss bits : Nat)
    (hb : bits ≠ 0) (v : Val) (hv : Conforms (poplar1InputShare FI FL ss bits false) v) :
    (encode (poplar1InputShare FI FL ss bits false) v).length = poplar1InputShareLen 16 ss (bits - 1) :=
  poplar1InputShare_len FI FL hi hl ss bits hb v hv

/-- the defect of the unrepaired formula: counting the 16-byte key as `SEED_SIZE` over-counts by
    `SEED_SIZE - 16` (16 bytes for the deployed 32-byte instantiation) -/
theorem poplar1_input_share_len_defect (inner : Nat) :
    poplar1InputShareLen 32 32 inner = poplar1InputShareLen 16 32 inner + 16 := by
  unfold poplar1InputShareLen; omega

theorem idpf_public_share_len (FI FL : FieldSpec) (hi : FI.sz = 8) (hl : FL.sz = 32) (bits : Nat)
    (hb : bits ≠ 0) (v : Val) (hv : Conforms (idpfPublicShare FI FL bits false) v) :
    (encode (idpfPublicShare FI FL bits false) v).length = idpfPublicShareLen bits :=
  idpfPublicShare_len FI FL hi hl bits hb v hv

theorem poplar1_agg_param_len (v : Val) (hv : Conforms (poplar1AggParam false) v) :
    ∃ level n rest, v = .pair (.num level) (.pair (.num n) rest) ∧
      (encode (poplar1AggParam false) v).length = poplar1AggParamLen level n :=
  poplar1AggParam_len v hv

theorem fixed_size_vector (F : FieldSpec) (n : Nat) (v : Val) (hv : Conforms (fvec F n) v) :
    (encode (fvec F n) v).length = n * F.sz := fixed_rep (fixed_felem _ _) n v hv

/-! ## non-vacuity -/
example : Conforms (poplar1AggParam false)
    (.pair (.num 1) (.pair (.num 2) (.pair (.bits [false, true]) (.pair .unit (.pair (.bits [true, false]) (.pair .unit .unit)))))) := by
  refine ⟨_, _, rfl, ⟨1, rfl, by norm_num⟩, ?_⟩
  simp only [tagOf, Bool.false_eq_true, and_false, if_false]
  refine ⟨_, _, rfl, ⟨2, rfl, by norm_num⟩, ?_⟩
  refine ⟨?_, by decide⟩
  exact ⟨_, _, rfl, ⟨_, rfl, rfl⟩, _, _, rfl, rfl, _, _, rfl, ⟨_, rfl, rfl⟩, _, _, rfl, rfl, rfl⟩

example : getDecoded (poplar1AggParam false) [0, 1, 0, 0, 0, 2, 0x40, 0x80] =
    .ok (.pair (.num 1) (.pair (.num 2) (.pair (.bits [false, true]) (.pair .unit (.pair (.bits [true, false]) (.pair .unit .unit)))))) := by
  decide +kernel

end Props.C07
