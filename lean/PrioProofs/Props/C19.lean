import PrioModel.Prio2
import Mathlib.Algebra.Field.Defs
import Mathlib.Algebra.Group.Basic
import Mathlib.Tactic.Ring
import Mathlib.Tactic.Linarith
import Mathlib.Tactic.LinearCombination

/-! # C19 — Prio2: 0/1 vectors verify and sum, anything else is rejected

Kernel-checked here: the decision is exactly the product test on the summed verification messages;
the query point returned by `choose_eval_at` is never a `2n`-th root of unity, i.e. never one of the
interpolation nodes; the server lays `h` out with zeros at every node but the first, which is what
makes a non-binary entry detectable; the client's sharing is additive; a share of the wrong length is
refused.  The polynomial-identity halves (completeness for 0/1 data, the Schwartz–Zippel bound for
anything else) need NTT = DFT (C10, stated) and are stated below, decided by the byte-exact
correspondence and the oracle. -/
namespace Props.C19
open Prio.Prio2 Prio

/-! ## `fpow` is exponentiation -/

theorem fpow_eq_pow {M : Type} [Monoid M] (x : M) (n : Nat) : fpow x n = x ^ n := by
  induction n using Nat.strong_induction_on generalizing x with
  | _ n ih =>
    unfold fpow
    by_cases h : n = 0
    · simp [h]
    · rw [dif_neg h]
      have hlt : n / 2 < n := Nat.div_lt_self (Nat.pos_of_ne_zero h) (by norm_num)
      simp only [ih (n / 2) hlt]
      have hx : (x * x) ^ (n / 2) = x ^ (2 * (n / 2)) := by rw [pow_mul, pow_two]
      by_cases hodd : n % 2 = 1
      · rw [if_pos hodd, hx, ← pow_succ']
        congr 1; omega
      · rw [if_neg hodd, hx]
        congr 1; omega

/-! ## the query point is never an interpolation node -/

variable {F : Type} [Field F] [BEq F] [LawfulBEq F]

/-- whatever the stream, the field, the key or the nonce: the point `choose_eval_at` returns is not a
    `2n`-th root of unity (with `n = next_power_of_two(input_len + 1)`) -/
theorem chooseEvalAt_not_root (C : Flp.FieldCtx F) (S : Stream) (p mask sz inputLen fuel : Nat)
    (st st' : PrngState) (e : F) (h : chooseEvalAt C S p mask sz inputLen fuel st = some (e, st')) :
    e ^ (2 * Flp.nextPow2 (inputLen + 1)) ≠ 1 := by
  induction fuel generalizing st with
  | zero => simp [chooseEvalAt] at h
  | succ fuel ih =>
    unfold chooseEvalAt at h
    cases hg : st.get S p mask sz 64 with
    | none => rw [hg] at h; simp at h
    | some r =>
      obtain ⟨x, st1⟩ := r
      rw [hg] at h
      simp only at h
      by_cases hc : (fpow (C.ofNat x : F) (2 * Flp.nextPow2 (inputLen + 1)) != 1) = true
      · rw [if_pos hc] at h
        simp only [Option.some.injEq, Prod.mk.injEq] at h
        obtain ⟨rfl, _⟩ := h
        rw [fpow_eq_pow] at hc
        simpa using hc
      · rw [if_neg hc] at h
        exact ih st1 h

/-- in particular it differs from every interpolation node `w` (any `w` with `w^(2n) = 1`): the
    evaluation never reveals a wire value -/
theorem chooseEvalAt_not_node (C : Flp.FieldCtx F) (S : Stream) (p mask sz inputLen fuel : Nat)
    (st st' : PrngState) (e w : F) (h : chooseEvalAt C S p mask sz inputLen fuel st = some (e, st'))
    (hw : w ^ (2 * Flp.nextPow2 (inputLen + 1)) = 1) : e ≠ w := by
  intro heq
  exact chooseEvalAt_not_root C S p mask sz inputLen fuel st st' e h (heq ▸ hw)

/-! ## the decision -/

/-- `is_valid_share` accepts exactly when the product of the summed `f` and `g` evaluations equals
    the summed `h` evaluation -/
theorem isValidShare_iff (v1 v2 : VerificationMessage F) :
    isValidShare v1 v2 = true ↔ (v1.fR + v2.fR) * (v1.gR + v2.gR) = v1.hR + v2.hR := by
  unfold isValidShare; simp

/-- the decision does not depend on which aggregator's message comes first -/
theorem isValidShare_comm (v1 v2 : VerificationMessage F) : isValidShare v1 v2 = isValidShare v2 v1 := by
  have h1 := isValidShare_iff v1 v2
  have h2 := isValidShare_iff v2 v1
  have e : (v1.fR + v2.fR) * (v1.gR + v2.gR) = v1.hR + v2.hR ↔ (v2.fR + v1.fR) * (v2.gR + v1.gR) = v2.hR + v1.hR := by
    constructor <;> intro h <;> linear_combination h
  cases ha : isValidShare v1 v2 <;> cases hb : isValidShare v2 v1 <;> simp_all

/-! ## the layout of `h`: zero at every interpolation node but the first -/

theorem hPoints_length (h0 : F) (packed : List F) (hp : packed ≠ []) :
    (hPoints h0 packed).length = 2 * packed.length := by
  cases packed with
  | nil => exact absurd rfl hp
  | cons p0 rest =>
    simp only [hPoints, List.length_cons]
    clear hp
    have : (rest.flatMap fun x => [(0 : F), x]).length = 2 * rest.length := by
      induction rest with
      | nil => rfl
      | cons a r ih =>
        rw [List.flatMap_cons, List.length_append, ih]
        simp only [List.length_cons, List.length_nil]; omega
    rw [this]; omega

/-- even positions ≥ 2 hold zero, odd positions hold the packed evaluations, position 0 holds `h0`:
    the server never reads a client-supplied value of `h` at a data node — it assumes `x(x-1) = 0` -/
theorem hPoints_layout (h0 : F) (packed : List F) (k : Nat) :
    (hPoints h0 packed).getD 0 0 = h0 ∧
    (1 ≤ k → k < packed.length → (hPoints h0 packed).getD (2 * k) 0 = 0) ∧
    (k < packed.length → (hPoints h0 packed).getD (2 * k + 1) 0 = packed.getD k 0) := by
  cases packed with
  | nil => simp [hPoints]
  | cons p0 rest =>
    have key : ∀ (l : List F) (j : Nat), j < l.length →
        (l.flatMap fun x => [(0 : F), x]).getD (2 * j) 0 = 0 ∧
        (l.flatMap fun x => [(0 : F), x]).getD (2 * j + 1) 0 = l.getD j 0 := by
      intro l
      induction l with
      | nil => intro j hj; simp at hj
      | cons a r ih =>
        intro j hj
        cases j with
        | zero => simp
        | succ j =>
          have := ih j (by simpa using hj)
          simp only [List.flatMap_cons]
          have e1 : 2 * (j + 1) = 2 * j + 2 := by ring
          have e2 : 2 * j + 2 + 1 = 2 * j + 1 + 2 := by ring
          rw [e1, e2]
          simpa using this
    refine ⟨by simp [hPoints], ?_, ?_⟩
    · intro h1 h2
      obtain ⟨j, rfl⟩ : ∃ j, k = j + 1 := ⟨k - 1, by omega⟩
      have := (key rest j (by simpa using h2)).1
      simp only [hPoints]
      have e : 2 * (j + 1) = 2 * j + 1 + 1 := by ring
      rw [e]
      simpa using this
    · intro h2
      cases k with
      | zero => simp [hPoints]
      | succ j =>
        have := (key rest j (by simpa using h2)).2
        simp only [hPoints]
        have e : 2 * (j + 1) + 1 = 2 * j + 1 + 1 + 1 := by ring
        rw [e]
        simpa using this

/-! ## sharing and length checks -/

/-- the leader's share plus the helper's expansion is the proof -/
theorem leader_plus_helper (proof helper : List F) (h : proof.length = helper.length) :
    List.zipWith (· + ·) (leaderShare proof helper) helper = proof := by
  unfold leaderShare
  induction proof generalizing helper with
  | nil => simp
  | cons a r ih =>
    cases helper with
    | nil => simp at h
    | cons b s =>
      simp only [List.zipWith_cons_cons, List.cons.injEq]
      exact ⟨by ring, ih s (by simpa using h)⟩

/-- a share whose length is not `proof_length(dimension)` is refused with an error, never evaluated -/
theorem wrong_length_refused (C : Flp.FieldCtx F) (dim : Nat) (r : F) (share : List F) (first : Bool)
    (h : share.length ≠ proofLength dim) : generateVerificationMessage C dim r share first = .err := by
  unfold generateVerificationMessage
  rw [if_pos h]

/-- the state kept by the leader is the data part of its share: the first `dimension` elements -/
theorem state_is_data (C : Flp.FieldCtx F) (dim : Nat) (r : F) (share : List F) (isLeader : Bool)
    (v : VerificationMessage F) (st : List F)
    (h : verifyInitWithQueryRand C dim r share isLeader = .ok (v, st)) : st = share.take dim := by
  unfold verifyInitWithQueryRand at h
  cases hg : generateVerificationMessage C dim r share isLeader with
  | ok v' => rw [hg] at h; simp only [Flp.Res.ok.injEq, Prod.mk.injEq] at h; exact h.2.symm
  | err => rw [hg] at h; cases h
  | panic => rw [hg] at h; cases h

/-! ## the polynomial-identity halves (proved in `Props/C19Linear.lean`) -/

/-- completeness WITHOUT hypotheses on the field context — kept because it was the first formulation: it is
    FALSE (`Props.C19.unhypothesised_completeness_false` in `Props/C19Linear.lean`: a context whose root
    table is present but wrong accepts nothing).  The correct statement, with the root chain, the canonical
    `ofNat` and `2 ≠ 0` as hypotheses, is `Props.C19.prio2_complete` -/
def prio2_complete_unhypothesised : Prop :=
  ∀ (F : Type) [Field F] [BEq F] [LawfulBEq F] (C : Flp.FieldCtx F) (data : List F) (f0 g0 r : F) (proof helper : List F)
    (v1 v2 : VerificationMessage F),
    (∀ x ∈ data, x = 0 ∨ x = 1) →
    constructProof C data f0 g0 = .ok proof → helper.length = proof.length →
    generateVerificationMessage C data.length r (leaderShare proof helper) true = .ok v1 →
    generateVerificationMessage C data.length r helper false = .ok v2 →
    isValidShare v1 v2 = true

/-- the verification message is additive in the share (so it can be computed on shares) -/
def vmsg_additive_statement : Prop :=
  ∀ (F : Type) [Field F] [BEq F] [LawfulBEq F] (C : Flp.FieldCtx F) (dim : Nat) (r : F) (a b : List F)
    (va vb vab : VerificationMessage F),
    a.length = b.length →
    generateVerificationMessage C dim r a false = .ok va → generateVerificationMessage C dim r b false = .ok vb →
    generateVerificationMessage C dim r (List.zipWith (· + ·) a b) false = .ok vab →
    vab.fR = va.fR + vb.fR ∧ vab.gR = va.gR + vb.gR ∧ vab.hR = va.hR + vb.hR

end Props.C19
