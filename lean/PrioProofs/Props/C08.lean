import PrioProofs.Codec.Messages

/-! # C08 — decoders are total: arbitrary bytes give a value or an error, never a crash

`decode` is a total Lean function (structural recursion on the format), so termination holds by
construction for every format and input; the theorems below add that no panic point is reachable. -/
namespace Props.C08
open Prio Prio.Msg

/-- a format without panic points never panics, whatever the bytes -/
theorem decode_total (f : Fmt) (hn : f.NoPanic) (bs : List Nat) : getDecoded f bs ≠ .panic :=
  getDecoded_no_panic f hn bs

/-- every message format is free of panic points, for every decoding parameter (including degenerate
    instances: zero aggregators, zero bits, roles out of range, zero lengths) -/
theorem all_formats_no_panic {FI FL F : FieldSpec}
    (ss na id il pl jr vl ol bits : Nat) (hj leaf r2 : Bool) :
    (prio3PublicShare ss na jr).NoPanic ∧ (prio3InputShare F ss na id il pl jr).NoPanic ∧
    (prio3VerifierShare F ss vl hj).NoPanic ∧ (prio3VerifierMessage ss hj).NoPanic ∧
    (prio3VerifyState F ss na id ol jr).NoPanic ∧ (fieldVecMsg F ol).NoPanic ∧
    (prio2VerifyState F id il).NoPanic ∧ (prio2InputShare F id pl).NoPanic ∧ (prio2VerifierShare F).NoPanic ∧
    (idpfPublicShare FI FL bits false).NoPanic ∧ (poplar1InputShare FI FL ss bits false).NoPanic ∧
    (poplar1VerifyState FI FL).NoPanic ∧ (poplar1VerifierMessage FI FL leaf r2).NoPanic ∧
    (poplar1VerifierShare FI FL leaf r2).NoPanic ∧ (poplar1Continuation FI FL).NoPanic ∧
    (poplar1AggParam false).NoPanic ∧ pingPongMessage.NoPanic := by
  have triv : ∀ G : FieldSpec, G.p ≤ 256 ^ G.sz ∨ True := fun _ => Or.inr trivial
  refine ⟨(prio3PublicShare_ok ss na jr).2, ?_, ⟨fvec_noPanic _ _, optSeed_noPanic _ _⟩,
    (prio3VerifierMessage_ok ss hj).2, ?_, fvec_noPanic _ _, share_noPanic _ _ _, ?_, fvec_noPanic _ _,
    ?_, ?_, ?_, ?_, ?_, ?_, poplar1AggParam_ok.2, pingPongMessage_ok.2⟩
  · unfold prio3InputShare
    split
    · trivial
    · split
      · exact ⟨fvec_noPanic _ _, fvec_noPanic _ _, optSeed_noPanic _ _⟩
      · exact ⟨trivial, optSeed_noPanic _ _⟩
  · unfold prio3VerifyState
    split
    · trivial
    · exact ⟨share_noPanic _ _ _, optSeed_noPanic _ _⟩
  · unfold prio2InputShare
    split
    · exact fvec_noPanic _ _
    · split <;> trivial
  · unfold idpfPublicShare
    split
    · simp only [Bool.false_eq_true, if_false]; trivial
    · exact ⟨trivial, rep_noPanic _ _ trivial, rep_noPanic _ _ (fvec_noPanic _ _), fvec_noPanic _ _⟩
  · unfold poplar1InputShare
    split
    · simp only [Bool.false_eq_true, if_false]; exact ⟨trivial, trivial, trivial⟩
    · exact ⟨trivial, trivial, rep_noPanic _ _ (fvec_noPanic _ _), fvec_noPanic _ _⟩
  · unfold poplar1VerifyState verifierStateF sketchState
    refine ⟨trivial, fun v => ?_⟩
    dsimp only
    split
    · exact ⟨⟨trivial, fun t => by dsimp only; split; exact fvec_noPanic _ _; split <;> trivial⟩, trivial, fun _ => fvec_noPanic _ _⟩
    · split
      · exact ⟨⟨trivial, fun t => by dsimp only; split; exact fvec_noPanic _ _; split <;> trivial⟩, trivial, fun _ => fvec_noPanic _ _⟩
      · trivial
  · unfold poplar1VerifierMessage
    split
    · trivial
    · exact fvec_noPanic _ _
  · exact fvec_noPanic _ _
  · unfold poplar1Continuation
    refine ⟨?_, fun st => ?_⟩
    · unfold poplar1VerifyState verifierStateF sketchState
      refine ⟨trivial, fun v => ?_⟩
      dsimp only
      split
      · exact ⟨⟨trivial, fun t => by dsimp only; split; exact fvec_noPanic _ _; split <;> trivial⟩, trivial, fun _ => fvec_noPanic _ _⟩
      · split
        · exact ⟨⟨trivial, fun t => by dsimp only; split; exact fvec_noPanic _ _; split <;> trivial⟩, trivial, fun _ => fvec_noPanic _ _⟩
        · trivial
    · dsimp only; unfold poplar1VerifierMessage
      split
      · trivial
      · exact fvec_noPanic _ _

/-- what the repairs removed: the unrepaired aggregation-parameter decoder panics on a level field
    of 0xFFFF, and the unrepaired public-share decoder panics for a zero-bit instance -/
theorem unrepaired_agg_param_panics :
    getDecoded (poplar1AggParam true) [0xff, 0xff, 0, 0, 0, 1, 0x80] = .panic :=
  poplar1AggParam_overflow_panics

theorem unrepaired_public_share_panics (FI FL : FieldSpec) (bs : List Nat) :
    decode (idpfPublicShare FI FL 0 true) bs = .panic := idpfPublicShare_zero_bits_panics FI FL bs

/-- the decoder consumes a prefix: what it returns as rest is a suffix of the input (it never reads
    past, and the work done is bounded by the input) -/
theorem consumes_prefix (f : Fmt) (bs : List Nat) (hb : BytesOK bs) (v : Val) (rest : List Nat)
    (h : decode f bs = .ok (v, rest)) : ∃ pre, pre ++ rest = bs :=
  ⟨encode f v, (encode_decode f bs hb v rest h).2.1⟩

example : getDecoded (poplar1AggParam false) [0xff, 0xff, 0, 0, 0, 1, 0x80] = .err := by decide +kernel

end Props.C08
