import PrioProofs.Poplar1Robust

/-! # C04 (continued) — Poplar1 robustness on the executable protocol functions

`PrioProofs/Poplar1Robust.lean`: for an ARBITRARY public share and arbitrary input shares (whatever a client sent —
no premise on them), honest aggregators and an honest channel: after both `verify_init`s and round one, the combiner
reports `done` exactly when the sketch polynomial `P` of C04 — with `y`, `w` the summed data and authenticator
components of the two aggregators' evaluated IDPF shares, and `K = A + 2a`, `c0 = A·a + B + a² − b − c` read off the
correlated randomness the shares carry — vanishes at the verification randomness both aggregators derive; then both
finish and their outputs add up to `y`.  With `robust_counting`: a report whose `(y, w, c0)` is not honest-shaped can
finish for at most `2·|F|^(n−1)` of the `|F|^n` verification-randomness vectors. -/
namespace Props.C04
open Prio.Poplar1 Prio.Poplar1.Robust Prio.Idpf

section
variable {FI FL : Type} [Field FI] [BEq FI] [LawfulBEq FI] [Field FL] [BEq FL] [LawfulBEq FL]

/-- **inner levels**: round two says `done` iff the sketch polynomial vanishes at the derived randomness -/
theorem poplar1_inner_done_iff (cfg : Cfg) (ofI : Nat → FI) (ofL : Nat → FL) (xof : Xof)
    (gI : Prg Bytes (Pair FI)) (gL : Prg Bytes (Pair FL)) (verifyKey ctx : Bytes)
    (ap : AggParam) (nonce : Bytes) (pub : PubShare FI FL) (s0 s1 : InputShare FI FL)
    (hlev : ap.level + 1 < cfg.bits)
    (st0 st1 st0' st1' : State FI FL) (sh0 sh1 r0 r1 : FieldVec FI FL) (m1 : Message FI FL)
    (h0 : verifyInit cfg ofI ofL xof gI gL verifyKey ctx 0 ap nonce pub s0 = .ok (st0, sh0))
    (h1 : verifyInit cfg ofI ofL xof gI gL verifyKey ctx 1 ap nonce pub s1 = .ok (st1, sh1))
    (hm : sharesToMessage [sh0, sh1] = .ok m1)
    (hn0 : verifyNext st0 m1 = .ok (.continue st0' r0))
    (hn1 : verifyNext st1 m1 = .ok (.continue st1' r1)) :
    sharesToMessage [r0, r1] = .ok .done ↔
      P (innerY gI gL ap pub s0 s1) (innerW gI gL ap pub s0 s1) (innerK cfg ofI xof ctx ap nonce s0 s1)
        (innerC0 cfg ofI xof ctx ap nonce s0 s1) (innerR cfg ofI xof verifyKey ctx ap nonce) = 0 :=
  Prio.Poplar1.Robust.poplar1_inner_done_iff cfg ofI ofL xof gI gL verifyKey ctx ap nonce pub s0 s1 hlev st0 st1 st0' st1'
    sh0 sh1 r0 r1 m1 h0 h1 hm hn0 hn1

end

/-- if both can finish: the polynomial vanishes, both `verify_next`s finish, and the outputs add up to `y` -/
alias poplar1_inner_robust := Prio.Poplar1.Robust.poplar1_inner_robust
/-- the same at the leaf level -/
alias poplar1_leaf_done_iff := Prio.Poplar1.Robust.poplar1_leaf_done_iff
alias poplar1_leaf_robust := Prio.Poplar1.Robust.poplar1_leaf_robust
/-- **counting**: `(y, w, K, c0)` — functions of the report alone — not honest-shaped ⇒ at most `2·|F|^(n−1)` vectors of
    verification randomness let both aggregators finish, and the derived randomness of any finishing run is among them -/
alias poplar1_inner_robust_counting := Prio.Poplar1.Robust.poplar1_inner_robust_counting
alias poplar1_leaf_robust_counting := Prio.Poplar1.Robust.poplar1_leaf_robust_counting

end Props.C04
