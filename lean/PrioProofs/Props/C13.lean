import PrioModel.Agg
import Mathlib.Algebra.Group.Basic
import Mathlib.Data.List.Perm.Basic
import Mathlib.Tactic.Abel

/-! # C13 — aggregation is independent of order, grouping and batching of shares

`F` is any commutative additive monoid (every field of the library is one; C09 shows that the
Rust field types are). -/
namespace Props.C13
open Prio

variable {F : Type} [AddCommMonoid F]

theorem mergeVector_length {a b c : List F} (h : mergeVector a b = some c) : c.length = a.length ∧ b.length = a.length := by
  unfold mergeVector at h
  split at h
  · cases h
  · rename_i hl
    simp only [Option.some.injEq] at h; subst h
    simp only [ne_eq, Decidable.not_not] at hl
    simp [List.length_zipWith, hl]

/-- a length mismatch is refused (and only a length mismatch) -/
theorem mismatch_refused (a b : List F) : mergeVector a b = none ↔ a.length ≠ b.length := by
  unfold mergeVector; split <;> simp_all

theorem zipWith_add_comm (a b : List F) : List.zipWith (· + ·) a b = List.zipWith (· + ·) b a := by
  induction a generalizing b with
  | nil => cases b <;> rfl
  | cons x xs ih => cases b with
    | nil => rfl
    | cons y ys => simp [List.zipWith, add_comm x y, ih ys]

theorem zipWith_add_assoc (a b c : List F) :
    List.zipWith (· + ·) (List.zipWith (· + ·) a b) c = List.zipWith (· + ·) a (List.zipWith (· + ·) b c) := by
  induction a generalizing b c with
  | nil => cases b <;> cases c <;> rfl
  | cons x xs ih =>
    cases b with
    | nil => cases c <;> rfl
    | cons y ys =>
      cases c with
      | nil => rfl
      | cons z zs => simp [List.zipWith, add_assoc, ih]

/-- merging is commutative, errors included -/
theorem merge_comm (a b : List F) : mergeVector a b = mergeVector b a := by
  unfold mergeVector
  by_cases h : a.length = b.length
  · simp [h, zipWith_add_comm a b]
  · have h' : ¬ b.length = a.length := fun e => h e.symm
    simp [h, h']

/-- merging is associative, errors included -/
theorem merge_assoc (a b c : List F) :
    (mergeVector a b).bind (fun ab => mergeVector ab c) = (mergeVector b c).bind (fun bc => mergeVector a bc) := by
  unfold mergeVector
  by_cases h1 : a.length = b.length <;> by_cases h2 : b.length = c.length
  · have e1 : (List.zipWith (· + ·) a b).length = c.length := by rw [List.length_zipWith]; omega
    have e2 : a.length = (List.zipWith (· + ·) b c).length := by rw [List.length_zipWith]; omega
    simp [h1, h2, e1, e2, zipWith_add_assoc]
  · have e1 : ¬ (List.zipWith (· + ·) a b).length = c.length := by rw [List.length_zipWith]; omega
    simp [h1, h2, e1]
  · have hac : ¬ a.length = c.length := by omega
    simp [h1, h2, hac]
  · simp [h1, h2]

/-- the empty aggregate (all zeros) is the identity -/
theorem merge_zero (a : List F) : mergeVector (List.replicate a.length 0) a = some a := by
  unfold mergeVector
  simp only [List.length_replicate, ne_eq, not_true_eq_false, if_false, Option.some.injEq]
  induction a with
  | nil => rfl
  | cons x xs ih => simp [List.replicate_succ, List.zipWith, ih]

/-- the pointwise sum of same-length vectors -/
def vsum (n : Nat) (init : List F) (shares : List (List F)) : List F :=
  shares.foldl (fun acc s => List.zipWith (· + ·) acc s) init

/-- closed form of `aggregate`: an error iff some share has the wrong length, else the pointwise sum -/
theorem aggregate_eq (init : List F) (shares : List (List F)) :
    aggregate init shares =
      if ∀ s ∈ shares, s.length = init.length then some (vsum init.length init shares) else none := by
  induction shares generalizing init with
  | nil => simp [aggregate, vsum]
  | cons s rest ih =>
    simp only [aggregate]
    cases hm : mergeVector init s with
    | none =>
      have := (mismatch_refused init s).mp hm
      simp only
      rw [if_neg]
      intro h; exact this (h s (by simp)).symm
    | some acc =>
      obtain ⟨hl1, hl2⟩ := mergeVector_length hm
      simp only [ih acc, hl1]
      have hacc : acc = List.zipWith (· + ·) init s := by
        unfold mergeVector at hm; split at hm
        · cases hm
        · simpa using hm.symm
      by_cases hall : ∀ s' ∈ rest, s'.length = init.length
      · rw [if_pos hall, if_pos]
        · simp [vsum, hacc]
        · intro s' hs'; rcases List.mem_cons.mp hs' with rfl | h
          · exact hl2
          · exact hall s' h
      · rw [if_neg hall, if_neg]
        intro h; exact hall (fun s' hs' => h s' (List.mem_cons_of_mem _ hs'))

theorem vsum_perm (n : Nat) (init : List F) {l1 l2 : List (List F)} (hp : l1.Perm l2) :
    vsum n init l1 = vsum n init l2 := by
  unfold vsum
  apply List.Perm.foldl_eq' hp
  intro s _ t _ acc
  rw [zipWith_add_assoc, zipWith_add_assoc, zipWith_add_comm s t]

/-- **order independence**: any permutation of the output shares aggregates to the same share (or to
    the same refusal) -/
theorem aggregate_perm (init : List F) {l1 l2 : List (List F)} (hp : l1.Perm l2) :
    aggregate init l1 = aggregate init l2 := by
  rw [aggregate_eq, aggregate_eq]
  have hiff : (∀ s ∈ l1, s.length = init.length) ↔ (∀ s ∈ l2, s.length = init.length) :=
    ⟨fun h s hs => h s (hp.mem_iff.mpr hs), fun h s hs => h s (hp.mem_iff.mp hs)⟩
  by_cases h : ∀ s ∈ l1, s.length = init.length
  · rw [if_pos h, if_pos (hiff.mp h), vsum_perm _ _ hp]
  · rw [if_neg h, if_neg (fun h2 => h (hiff.mpr h2))]

theorem vsum_append (n : Nat) (init : List F) (l1 l2 : List (List F)) :
    vsum n init (l1 ++ l2) = vsum n (vsum n init l1) l2 := by
  simp [vsum, List.foldl_append]

theorem vsum_length (n : Nat) (init : List F) (l : List (List F)) (h : ∀ s ∈ l, s.length = init.length) :
    (vsum n init l).length = init.length := by
  induction l generalizing init with
  | nil => rfl
  | cons s rest ih =>
    simp only [vsum, List.foldl_cons]
    have hs := h s (by simp)
    have := ih (List.zipWith (· + ·) init s) (by
      intro s' hs'; rw [List.length_zipWith, hs, Nat.min_self]; exact h s' (List.mem_cons_of_mem _ hs'))
    simp only [vsum] at this
    rw [this, List.length_zipWith, hs, Nat.min_self]

theorem zipWith_zero_left (a : List F) : List.zipWith (· + ·) (List.replicate a.length (0 : F)) a = a := by
  induction a with
  | nil => rfl
  | cons x xs ih => simp [List.replicate_succ, List.zipWith, ih]

/-- moving the initial value out of the fold -/
theorem vsum_init (n : Nat) (init : List F) (l : List (List F)) (h : ∀ s ∈ l, s.length = init.length) :
    vsum n init l = List.zipWith (· + ·) init (vsum n (List.replicate init.length 0) l) := by
  induction l generalizing init with
  | nil =>
    simp only [vsum, List.foldl_nil]
    rw [zipWith_add_comm, zipWith_zero_left]
  | cons s rest ih =>
    have hs := h s (by simp)
    have hrest : ∀ s' ∈ rest, s'.length = init.length := fun s' hs' => h s' (List.mem_cons_of_mem _ hs')
    have hl : (List.zipWith (· + ·) init s).length = init.length := by
      rw [List.length_zipWith, hs, Nat.min_self]
    simp only [vsum, List.foldl_cons] at ih ⊢
    rw [ih (List.zipWith (· + ·) init s) (by intro s' hs'; rw [hl]; exact hrest s' hs')]
    have e0 : List.zipWith (· + ·) (List.replicate init.length (0 : F)) s = s := by
      rw [← hs]; exact zipWith_zero_left s
    rw [e0, hl]
    rw [ih s (by intro s' hs'; rw [hs]; exact hrest s' hs'), hs, zipWith_add_assoc]

/-- **batching invariance**: aggregating each batch from the empty aggregate and merging the batch
    aggregates (left to right) equals one pass over all shares -/
theorem batching_invariant (n : Nat) (batches : List (List (List F)))
    (hlen : ∀ b ∈ batches, ∀ s ∈ b, s.length = n) :
    aggregate (List.replicate n 0) (batches.map fun b => vsum n (List.replicate n 0) b)
      = aggregate (List.replicate n 0) batches.flatten := by
  rw [aggregate_eq, aggregate_eq]
  have h1 : ∀ s ∈ batches.map (fun b => vsum n (List.replicate n (0 : F)) b), s.length = (List.replicate n (0 : F)).length := by
    intro s hs
    obtain ⟨b, hb, rfl⟩ := List.mem_map.mp hs
    rw [vsum_length]
    intro s' hs'; simp [hlen b hb s' hs']
  have h2 : ∀ s ∈ batches.flatten, s.length = (List.replicate n (0 : F)).length := by
    intro s hs
    obtain ⟨b, hb, hsb⟩ := List.mem_flatten.mp hs
    simp [hlen b hb s hsb]
  rw [if_pos h1, if_pos h2]
  congr 1
  simp only [List.length_replicate]
  induction batches with
  | nil => rfl
  | cons b rest ih =>
    have hb : ∀ s ∈ b, s.length = n := hlen b (by simp)
    have hrest : ∀ b' ∈ rest, ∀ s ∈ b', s.length = n := fun b' hb' => hlen b' (List.mem_cons_of_mem _ hb')
    have ih' := ih hrest (by intro s hs; exact h1 s (by simp only [List.map_cons, List.mem_cons]; exact Or.inr hs))
      (by intro s hs; exact h2 s (by simp only [List.flatten_cons, List.mem_append]; exact Or.inr hs))
    simp only [List.map_cons, List.flatten_cons, vsum_append]
    have hbl : (vsum n (List.replicate n (0 : F)) b).length = n := by
      rw [vsum_length]; simp; intro s hs; simp [hb s hs]
    simp only [vsum, List.foldl_cons] at ih' ⊢
    have e0 : List.zipWith (· + ·) (List.replicate n (0 : F)) (List.foldl (fun acc s => List.zipWith (· + ·) acc s) (List.replicate n 0) b)
        = List.foldl (fun acc s => List.zipWith (· + ·) acc s) (List.replicate n 0) b := by
      have := zipWith_zero_left (List.foldl (fun acc s => List.zipWith (· + ·) acc s) (List.replicate n (0 : F)) b)
      simp only [vsum] at hbl
      rw [hbl] at this; exact this
    rw [e0]
    -- both sides are folds starting from the batch sum
    have key := vsum_init n (vsum n (List.replicate n 0) b)
    simp only [vsum] at key hbl
    rw [key (rest.map fun b => List.foldl (fun acc s => List.zipWith (· + ·) acc s) (List.replicate n 0) b)
          (by intro s hs; obtain ⟨b', hb', rfl⟩ := List.mem_map.mp hs
              have := vsum_length n (List.replicate n (0:F)) b' (by intro s' hs'; simp [hrest b' hb' s' hs'])
              simp only [vsum, List.length_replicate] at this; rw [this, hbl]),
        key rest.flatten (by intro s hs; obtain ⟨b', hb', hsb⟩ := List.mem_flatten.mp hs; rw [hbl]; exact hrest b' hb' s hsb),
        hbl, ih']

/-- **any merge tree**: evaluating any tree of pairwise merges over the shares equals the left-to-right
    pass over its leaves -/
theorem tree_eq_pass (n : Nat) (t : MergeTree (List F)) (h : ∀ s ∈ t.leaves, s.length = n) :
    t.eval = some (vsum n (List.replicate n 0) t.leaves) := by
  induction t with
  | leaf s =>
    have hs := h s (by simp [MergeTree.leaves])
    simp only [MergeTree.eval, MergeTree.leaves, vsum, List.foldl_cons, List.foldl_nil]
    rw [← hs, zipWith_zero_left]
  | node l r ihl ihr =>
    have hl : ∀ s ∈ l.leaves, s.length = n := fun s hs => h s (by simp [MergeTree.leaves, hs])
    have hr : ∀ s ∈ r.leaves, s.length = n := fun s hs => h s (by simp [MergeTree.leaves, hs])
    simp only [MergeTree.eval, ihl hl, ihr hr, MergeTree.leaves, vsum_append]
    have l1 : (vsum n (List.replicate n (0 : F)) l.leaves).length = n := by
      rw [vsum_length]; simp; intro s hs; simp [hl s hs]
    have l2 : (vsum n (List.replicate n (0 : F)) r.leaves).length = n := by
      rw [vsum_length]; simp; intro s hs; simp [hr s hs]
    unfold mergeVector
    rw [if_neg (by simp [l1, l2])]
    congr 1
    rw [vsum_init n (vsum n (List.replicate n 0) l.leaves) r.leaves (by intro s hs; rw [l1]; exact hr s hs), l1]

/-- Poplar1: shares of different tree-level kinds are refused -/
theorem kind_mismatch_refused {FI FL : Type} [Add FI] [Add FL] (a : List FI) (b : List FL) :
    FieldVec.merge (.inner a) (.leaf b) = none ∧ FieldVec.merge (.leaf b) (.inner a) = none := ⟨rfl, rfl⟩

theorem fieldvec_merge_comm {FI FL : Type} [AddCommMonoid FI] [AddCommMonoid FL] (x y : FieldVec FI FL) :
    FieldVec.merge x y = FieldVec.merge y x := by
  cases x <;> cases y <;> simp [FieldVec.merge, merge_comm]

/-- the kind and length of a `Poplar1FieldVec` -/
def fvShape {FI FL : Type} : FieldVec FI FL → Bool × Nat
  | .inner v => (false, v.length)
  | .leaf v => (true, v.length)

theorem merge_shape {FI FL : Type} [Add FI] [Add FL] (a b r : FieldVec FI FL) (h : FieldVec.merge a b = some r) :
    fvShape b = fvShape a ∧ fvShape r = fvShape a := by
  cases a <;> cases b <;> simp only [FieldVec.merge, Option.map_eq_some_iff] at h
  · obtain ⟨v, hv, rfl⟩ := h
    unfold mergeVector at hv
    split at hv
    · cases hv
    · rename_i hl
      simp only [ne_eq, Decidable.not_not] at hl
      injection hv with hv; subst hv
      simp [fvShape, hl]
  · cases h
  · cases h
  · obtain ⟨v, hv, rfl⟩ := h
    unfold mergeVector at hv
    split at hv
    · cases hv
    · rename_i hl
      simp only [ne_eq, Decidable.not_not] at hl
      injection hv with hv; subst hv
      simp [fvShape, hl]

/-- **Poplar1 `unshard` accepts only aggregate shares of the kind and length the aggregation
    parameter dictates** (leaf iff the level is the last one; one entry per candidate prefix) -/
theorem unshard_requires_matching_shares {FI FL : Type} [Add FI] [Add FL] [Zero FI] [Zero FL]
    (isLeaf : Bool) (len : Nat) (shares : List (FieldVec FI FL)) (r : FieldVec FI FL)
    (h : FieldVec.aggregate isLeaf len shares = some r) :
    (∀ s ∈ shares, fvShape s = (isLeaf, len)) ∧ fvShape r = (isLeaf, len) := by
  unfold FieldVec.aggregate at h
  have key : ∀ (l : List (FieldVec FI FL)) (a r : FieldVec FI FL), fvShape a = (isLeaf, len) →
      l.foldl (fun acc s => acc.bind fun a => FieldVec.merge a s) (some a) = some r →
      (∀ s ∈ l, fvShape s = (isLeaf, len)) ∧ fvShape r = (isLeaf, len) := by
    intro l
    induction l with
    | nil => intro a r ha h; simp at h; subst h; exact ⟨by simp, ha⟩
    | cons s rest ih =>
      intro a r ha h
      rw [List.foldl_cons] at h
      simp only [Option.bind_some] at h
      cases hm : FieldVec.merge a s with
      | none =>
        rw [hm] at h
        have : ∀ l : List (FieldVec FI FL), l.foldl (fun acc s => acc.bind fun a => FieldVec.merge a s) none = none := by
          intro l; induction l with
          | nil => rfl
          | cons _ _ ih => simpa using ih
        rw [this] at h; cases h
      | some a' =>
        rw [hm] at h
        obtain ⟨e1, e2⟩ := merge_shape a s a' hm
        obtain ⟨f1, f2⟩ := ih a' r (by rw [e2, ha]) h
        refine ⟨?_, f2⟩
        intro x hx
        rcases List.mem_cons.mp hx with rfl | hx
        · rw [e1, ha]
        · exact f1 x hx
  apply key shares (FieldVec.zero isLeaf len) r _ h
  unfold FieldVec.zero fvShape
  cases isLeaf <;> simp

/-! non-vacuity -/
example : aggregate [0, 0] [[1, 2], [3, 4], [5, 6]] = some ([9, 12] : List ℕ) := by decide
example : aggregate [0, 0] [[1, 2], [3]] = (none : Option (List ℕ)) := by decide

end Props.C13
