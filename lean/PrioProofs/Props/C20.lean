import PrioModel.AggParam
import PrioProofs.Codec.Messages
import Mathlib.Data.List.Basic

/-! # C20 — aggregation-parameter admissibility matches the specification for all histories -/
namespace Props.C20
open Prio Prio.Msg

/-- invariant of every constructed parameter: all prefixes have length `level + 1` -/
def WF (a : AggParam) : Prop := ∀ p ∈ a.prefixes, p.length = a.level + 1

/-- **the admissibility rule**: valid exactly when nothing was used before, or the level is strictly
    greater than the most recent one and every candidate extends one of the most recent candidates -/
theorem valid_iff (cur : AggParam) (prev : List AggParam) (hprev : ∀ a ∈ prev, WF a) :
    cur.isValid prev = true ↔
      prev = [] ∨ ∃ last, prev.getLast? = some last ∧ last.level < cur.level ∧
        ∀ p ∈ cur.prefixes, ∃ q ∈ last.prefixes, q <+: p := by
  unfold AggParam.isValid
  cases hl : prev.getLast? with
  | none =>
    have : prev = [] := List.getLast?_eq_none_iff.mp hl
    simp [this]
  | some last =>
    have hne : prev ≠ [] := by intro h; simp [h] at hl
    have hlast : WF last := hprev last (List.mem_of_getLast? hl)
    simp only [hne, false_or, Option.some.injEq, exists_eq_left']
    by_cases hlev : cur.level ≤ last.level
    · simp [hlev]
    · simp only [hlev, if_false, List.all_eq_true, List.contains_iff_mem]
      constructor
      · intro h
        refine ⟨by omega, fun p hp => ⟨_, h p hp, List.take_prefix _ _⟩⟩
      · rintro ⟨_, h⟩ p hp
        obtain ⟨q, hq, hqp⟩ := h p hp
        have : q = p.take (last.level + 1) := by
          rw [← hlast q hq]; exact List.prefix_iff_eq_take.mp hqp
        rw [← this]; exact hq

/-- Prio3 and Prio2: only the first use is valid -/
theorem single_use (prev : List Unit) : unitParamIsValid prev = true ↔ prev = [] := by
  unfold unitParamIsValid; simp

/-! ## admissible histories -/

/-- a history (most recent first) in which every parameter was valid when it was used -/
def Admissible : List AggParam → Prop
  | [] => True
  | a :: older => Admissible older ∧ a.isValid older.reverse = true

/-- `b` then `a`: level strictly increases and `a` refines `b` -/
def Step (b a : AggParam) : Prop :=
  b.level < a.level ∧ ∀ p ∈ a.prefixes, ∃ q ∈ b.prefixes, q <+: p

/-- a history is admissible iff each parameter is a strict refinement of its immediate predecessor -/
theorem admissible_iff (h : List AggParam) (hwf : ∀ a ∈ h, WF a) :
    Admissible h ↔ List.IsChain (fun a b => Step b a) h := by
  induction h with
  | nil => simp [Admissible]
  | cons a older ih =>
    have ih' := ih (fun x hx => hwf x (List.mem_cons_of_mem _ hx))
    cases older with
    | nil => simp [Admissible, AggParam.isValid]
    | cons b rest =>
      have hv := valid_iff a (b :: rest).reverse
        (fun x hx => hwf x (List.mem_cons_of_mem _ (List.mem_reverse.mp hx)))
      have hl : (b :: rest).reverse.getLast? = some b := by simp
      rw [List.isChain_cons_cons, ← ih']
      simp only [Admissible]
      rw [hv]
      simp only [List.reverse_eq_nil_iff, reduceCtorEq, false_or, hl, Option.some.injEq,
        exists_eq_left', Step]
      tauto

/-! ## the constructor -/

theorem bitsLt_irrefl (a : List Bool) : bitsLt a a = false := by
  induction a with
  | nil => rfl
  | cons x xs ih => simp [bitsLt, ih]

theorem bitsLt_trans (a b c : List Bool) (h1 : bitsLt a b = true) (h2 : bitsLt b c = true) :
    bitsLt a c = true := by
  induction a generalizing b c with
  | nil => simp [bitsLt] at h1
  | cons x xs ih =>
    cases b with
    | nil => simp [bitsLt] at h1
    | cons y ys =>
      cases c with
      | nil => simp [bitsLt] at h2
      | cons z zs =>
        simp only [bitsLt] at h1 h2 ⊢
        cases x <;> cases y <;> cases z <;> simp_all
        all_goals exact ih _ _ h1 h2

theorem prefixLoop_eq (len : Nat) (last : Option (List Bool)) (ps : List (List Bool)) :
    prefixLoop len last ps = ((ps.all fun p => p.length == len) &&
      strictlyIncreasing (last.toList ++ ps)) := by
  induction ps generalizing last with
  | nil => cases last <;> simp [prefixLoop, strictlyIncreasing]
  | cons p ps ih =>
    simp only [prefixLoop, List.all_cons]
    by_cases hl : p.length = len
    · simp only [hl, bne_self_eq_false, Bool.false_eq_true, if_false, beq_self_eq_true, Bool.true_and]
      cases last with
      | none => simp [ih, strictlyIncreasing]
      | some l =>
        simp only [Option.toList_some, List.singleton_append]
        by_cases hlt : bitsLt l p = true
        · simp only [hlt, if_true, ih, Option.toList_some, List.singleton_append, strictlyIncreasing,
            Bool.true_and]
        · simp only [hlt, Bool.false_eq_true, if_false, strictlyIncreasing]
          simp [hlt]
    · have : (p.length != len) = true := by simpa using hl
      have h2 : (p.length == len) = false := by simpa using hl
      simp [this, h2]

/-- **constructor domain**: accepted exactly for non-empty lists of equal-length prefixes, of length
    1..65536, strictly increasing, fewer than 2^32 of them; the result keeps the list and sets
    `level = length - 1` -/
theorem ctor_accepts_iff (ps : List (List Bool)) (a : AggParam) :
    AggParam.tryFromPrefixes ps = .ok a ↔
      ∃ n, 1 ≤ n ∧ n ≤ 65536 ∧ ps ≠ [] ∧ ps.length < 2 ^ 32 ∧ (∀ p ∈ ps, p.length = n) ∧
        strictlyIncreasing ps = true ∧ a = ⟨n - 1, ps⟩ := by
  unfold AggParam.tryFromPrefixes
  cases ps with
  | nil => simp
  | cons p0 rest =>
    simp only [prefixLoop_eq, Option.toList_none, List.nil_append]
    constructor
    · intro h
      split at h
      · cases h
      · split at h
        · cases h
        · split at h
          · cases h
          · split at h
            · cases h
            · rename_i h1 h2 h3 h4
              simp only [Res.ok.injEq] at h
              simp only [Bool.not_eq_true', Bool.and_eq_false_iff, not_or, Bool.not_eq_false] at h2
              refine ⟨p0.length, by omega, by omega, by simp, by omega, ?_, h2.2, h.symm⟩
              intro p hp
              have := List.all_eq_true.mp h2.1 p hp
              simpa using this
    · rintro ⟨n, hn1, hn2, _, hlen, hall, hinc, rfl⟩
      have h0 : p0.length = n := hall p0 (by simp)
      have hall' : ((p0 :: rest).all fun p => p.length == p0.length) = true := by
        apply List.all_eq_true.mpr; intro p hp; simp [hall p hp, h0]
      rw [if_neg (by omega)]
      simp only [hall', hinc, Bool.and_self, Bool.not_true, Bool.false_eq_true, if_false]
      rw [if_neg (by omega), if_neg (by omega), h0]

/-- constructed parameters satisfy the invariant used by `valid_iff` -/
theorem ctor_wf (ps : List (List Bool)) (a : AggParam) (h : AggParam.tryFromPrefixes ps = .ok a) : WF a := by
  obtain ⟨n, hn1, _, _, _, hall, _, rfl⟩ := (ctor_accepts_iff ps a).mp h
  intro p hp; simp only at hp ⊢; rw [hall p hp]; omega

/-- strictly increasing lists have no repeated prefix -/
theorem increasing_nodup (ps : List (List Bool)) (h : strictlyIncreasing ps = true) : ps.Nodup := by
  have key : ∀ (a : List Bool) (l : List (List Bool)), strictlyIncreasing (a :: l) = true →
      ∀ x ∈ l, bitsLt a x = true := by
    intro a l
    induction l generalizing a with
    | nil => intro _ x hx; cases hx
    | cons b l ih =>
      intro h x hx
      simp only [strictlyIncreasing, Bool.and_eq_true] at h
      rcases List.mem_cons.mp hx with rfl | hx
      · exact h.1
      · exact bitsLt_trans _ _ _ h.1 (ih b h.2 x hx)
  induction ps with
  | nil => exact List.nodup_nil
  | cons a l ih =>
    have hl : strictlyIncreasing l = true := by
      cases l with
      | nil => rfl
      | cons b l => simp only [strictlyIncreasing, Bool.and_eq_true] at h; exact h.2
    refine List.nodup_cons.mpr ⟨fun hmem => ?_, ih hl⟩
    have := key a l h a hmem
    rw [bitsLt_irrefl] at this; cases this

/-! ## the decoder accepts exactly what the constructor accepts -/

theorem conforms_rep_bits (k n : Nat) (v : Val) (h : Conforms (Fmt.rep n (.bitsMsb k)) v) :
    (prefixesOf v).length = n ∧ (∀ p ∈ prefixesOf v, p.length = k) ∧
      v = (prefixesOf v).foldr (fun p acc => .pair (.bits p) (.pair .unit acc)) .unit := by
  induction n generalizing v with
  | zero => simp only [Fmt.rep, Conforms] at h; subst h; simp [prefixesOf]
  | succ n ih =>
    obtain ⟨va, vb, rfl, ⟨b, rfl, hb⟩, vu, vr, rfl, hu, hr⟩ := h
    simp only [Conforms] at hu; subst hu
    obtain ⟨h1, h2, h3⟩ := ih vr hr
    refine ⟨by simp [prefixesOf, h1], ?_, ?_⟩
    · intro p hp
      simp only [prefixesOf, List.mem_cons] at hp
      rcases hp with rfl | hp
      · exact hb
      · exact h2 p hp
    · simp only [prefixesOf, List.foldr_cons]; rw [← h3]

/-- every accepted byte string is the encoding of a parameter the constructor accepts -/
theorem decoder_accepts_ctor (bs : List Nat) (hb : BytesOK bs) (v : Val)
    (h : getDecoded (poplar1AggParam false) bs = .ok v) :
    ∃ a, AggParam.tryFromPrefixes (prefixesOf (match v with | .pair _ (.pair _ r) => r | _ => .unit)) = .ok a ∧
      a.toVal = v ∧ a.encode = bs := by
  obtain ⟨hc, henc⟩ := encode_getDecoded _ bs hb v h
  unfold poplar1AggParam at hc
  obtain ⟨vl, v2, rfl, ⟨level, rfl, hlev⟩, h2⟩ := hc
  simp only [Bool.false_eq_true, and_false, if_false] at h2
  obtain ⟨vn, vr, rfl, ⟨n, rfl, hn⟩, h3, hok⟩ := h2
  simp only [tagOf] at h3 hok
  obtain ⟨h1, hk, hfold⟩ := conforms_rep_bits (level + 1) n vr h3
  simp only [Bool.and_eq_true, decide_eq_true_eq] at hok
  refine ⟨⟨level, prefixesOf vr⟩, ?_, ?_, ?_⟩
  · apply (ctor_accepts_iff _ _).mpr
    refine ⟨level + 1, by omega, (by norm_num at hlev; omega), ?_, (by rw [h1]; norm_num at hn; omega), hk, hok.2, by simp⟩
    intro he; rw [he] at h1
    have hn0 : n > 0 := by simpa using hok.1
    simp at h1; omega
  · simp only [AggParam.toVal, h1]; rw [← hfold]
  · simp only [AggParam.encode, AggParam.toVal, h1]; rw [← hfold]; exact henc

/-! ## non-vacuity -/
example : AggParam.tryFromPrefixes [[false, true], [true, false]] = .ok ⟨1, [[false, true], [true, false]]⟩ := by
  decide
example : (⟨1, [[false, true], [true, false]]⟩ : AggParam).isValid [⟨0, [[false], [true]]⟩] = true := by decide
example : (⟨1, [[false, true], [true, false]]⟩ : AggParam).isValid [⟨0, [[false]]⟩] = false := by decide

end Props.C20
