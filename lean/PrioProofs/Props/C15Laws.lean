import PrioProofs.DpLaws

/-! # C15 (continued) — the Laplace and Gaussian samplers assembled from the layers

Proved in `PrioProofs/DpLaws.lean` on the exact rational mass semantics of the sampler programs. -/
namespace Props.C15
open Prio.Dp Prio.DpLaws Finset BigOperators

/-- the discrete Laplace sampler is symmetric (statement kept in `Props/C15.lean`) -/
theorem laplace_symmetric : laplace_symmetric_statement := Prio.DpLaws.laplace_symmetric

/-- the Gaussian sampler is the rejection loop over Laplace proposals (statement kept in `Props/C15.lean`) -/
theorem gaussian_recursion : gaussian_recursion_statement := Prio.DpLaws.gaussian_recursion

/-- closed form of the Laplace mass in terms of the geometric layer: sign (1/2), magnitude, and the
    geometric series of the "negative zero" retries -/
theorem laplace_closed (b : Q) (f : Nat) (z : Int) (hb : ¬ b.isZero) : ∀ n,
    mass (laplace b f n) (fun o => o == some z) =
      1 / 2 * geoMass b f z.natAbs * ∑ j ∈ range n, (1 / 2 * geoMass b f 0) ^ j :=
  Prio.DpLaws.laplace_closed b f z hb

/-- **the ratio law, exactly**: for an integer scale `t` (the scale the Gaussian sampler uses), moving the
    outcome out by `t` multiplies its mass by exactly `pOne f` — the mass of `sample_bernoulli_exp1(1)`
    returning true, i.e. the `f`-term partial sum of the series of `e⁻¹` (`pOne_even`) -/
theorem laplace_shift (t f n y : Nat) (ht : 0 < t) (hy : (y + t) / t < f) :
    mass (laplace (Q.ofNat t) f n) (fun o => o == some ((y + t : Nat) : Int)) =
      pOne f * mass (laplace (Q.ofNat t) f n) (fun o => o == some (y : Int)) :=
  Prio.DpLaws.laplace_shift t f n y ht hy

theorem pOne_even (m : Nat) : pOne (2 * m) = ∑ i ∈ range (2 * m), (-1 : ℚ) ^ i / (i.factorial : ℚ) :=
  Prio.DpLaws.pOne_even m

/-- the second loop of the geometric sampler counts successes: a geometric law with ratio `pOne` -/
theorem geoV_some (f : Nat) : ∀ n v₀ w, mass (geoV f n v₀) (fun o => o == some w) =
      if v₀ ≤ w ∧ w < v₀ + n then pOne f ^ (w - v₀) * qOne f else 0 :=
  Prio.DpLaws.geoV_some f

end Props.C15
