import PrioProofs.Prio3

/-! # C01 — Prio3 end to end: the parts proved so far -/
namespace Props.C01
open Prio.Prio3 Prio.Flp

variable {F : Type} [Field F] [BEq F]

omit [BEq F] in
theorem vsub_vadd_cancel (a b : List F) (h : a.length = b.length) : vadd (vsub a b) b = a := by
  induction a generalizing b with
  | nil => simp [vsub, vadd]
  | cons x xs ih =>
    cases b with
    | nil => simp at h
    | cons y ys =>
      simp only [vsub, vadd, List.zipWith_cons_cons] at ih ⊢
      rw [ih ys (by simpa using h)]; simp

/-- what the helper loop does to the leader's share: it subtracts, one after the other, the
    measurement share each helper will later expand from its own seed -/
theorem shardLoop_subtracts (cfg : Cfg) (cv : Conv F) (xof : Xof) (ctx nonce random : Prio.Prio3.Bytes)
    (ids : List Nat) :
    ∀ (lm : List F) (sh : List (InputShare F)) (pt : List Prio.Prio3.Bytes) (r : _),
      ids.foldl (shardStep cfg cv xof ctx nonce random) (some (lm, sh, pt)) = some r →
      ∃ hms : List (List F), hms.length = ids.length ∧ r.1 = hms.foldl vsub lm ∧
        (∀ i (hi : i < hms.length) (hi' : i < ids.length),
          expand cfg cv xof (chunk random ((ids[i] - 1) * (if cfg.t.jointRandLen > 0 then 2 else 1)) cfg.seedSize)
            (dst cfg usageMeasShare ctx) [ids[i]] ((hms.take i).foldl vsub lm).length = some hms[i]) := by
  induction ids with
  | nil =>
    intro lm sh pt r h
    simp only [List.foldl_nil, Option.some.injEq] at h
    subst h
    exact ⟨[], rfl, rfl, by intro i hi; simp at hi⟩
  | cons id ids ih =>
    intro lm sh pt r h
    simp only [List.foldl_cons] at h
    cases hs : shardStep cfg cv xof ctx nonce random (some (lm, sh, pt)) id with
    | none => rw [hs, foldl_none] at h; cases h
    | some s =>
      rw [hs] at h
      simp only [shardStep] at hs
      cases he : expand cfg cv xof (chunk random ((id - 1) * if cfg.t.jointRandLen > 0 then 2 else 1) cfg.seedSize)
          (dst cfg usageMeasShare ctx) [id] lm.length with
      | none => rw [he] at hs; cases hs
      | some hm =>
        rw [he] at hs
        simp only at hs
        have hs1 : s.1 = vsub lm hm := by
          split at hs <;> simp only [Option.some.injEq] at hs <;> rw [← hs]
        obtain ⟨s1, s2, s3⟩ := s
        simp only at hs1
        subst hs1
        obtain ⟨hms, hl, hr, hex⟩ := ih _ s2 s3 r h
        refine ⟨hm :: hms, by simp [hl], by simpa using hr, ?_⟩
        intro i hi hi'
        cases i with
        | zero => simpa using he
        | succ i =>
          have := hex i (by simpa using hi) (by simpa using hi')
          simpa using this

omit [BEq F] in
/-- adding the subtracted shares back gives the original vector -/
theorem add_back (hms : List (List F)) (lm : List F) (hlen : ∀ hm ∈ hms, hm.length = lm.length) :
    hms.reverse.foldl vadd (hms.foldl vsub lm) = lm := by
  induction hms generalizing lm with
  | nil => rfl
  | cons hm hms ih =>
    simp only [List.foldl_cons, List.reverse_cons, List.foldl_append, List.foldl_nil]
    have h1 : (vsub lm hm).length = lm.length := by
      simp [vsub, List.length_zipWith, hlen hm (by simp)]
    rw [ih (vsub lm hm) (by intro x hx; rw [h1]; exact hlen x (by simp [hx]))]
    exact vsub_vadd_cancel lm hm (hlen hm (by simp)).symm

/-- **additive sharing**: after sharding, the leader's measurement share plus the shares the helpers
    expand from their seeds is the encoded measurement -/
theorem sharing_additive (C : FieldCtx F) (cfg : Cfg) (cv : Conv F) (xof : Xof)
    (ctx nonce random : Prio.Prio3.Bytes) (encoded : List F) (out : ShardOut F)
    (h : shard C cfg cv xof ctx nonce random encoded = .ok out) :
    ∃ (leaderMeas : List F) (hms : List (List F)), hms.length = cfg.numAgg - 1 ∧
      (∃ lp b, out.shares.head? = some (.leader leaderMeas lp b)) ∧
      leaderMeas = hms.foldl vsub encoded ∧
      ((∀ hm ∈ hms, hm.length = encoded.length) → hms.reverse.foldl vadd leaderMeas = encoded) := by
  obtain ⟨ms, lp, hm, _, hs⟩ := shard_ok C cfg cv xof ctx nonce random encoded out h
  obtain ⟨q, f, _, _⟩ := shardMeas_some cfg cv xof ctx nonce random encoded ms hm
  obtain ⟨hms, hl, hr, _⟩ := shardLoop_subtracts cfg cv xof ctx nonce random _ encoded [] [] _ f
  refine ⟨ms.leaderMeas, hms, by simpa using hl, ⟨lp, ms.leaderBlind, by rw [hs]; rfl⟩, hr, ?_⟩
  intro hlen
  have hr' : ms.leaderMeas = hms.foldl vsub encoded := hr
  rw [hr']; exact add_back hms encoded hlen

omit [BEq F] in
theorem decodeRangeCheckedInt_add (a b : List F) (w : F) (h : a.length = b.length) :
    decodeRangeCheckedInt (vadd a b) w = decodeRangeCheckedInt a w + decodeRangeCheckedInt b w := by
  unfold decodeRangeCheckedInt
  rcases List.eq_nil_or_concat a with rfl | ⟨a', x, rfl⟩
  · have : b = [] := List.eq_nil_of_length_eq_zero (by simpa using h.symm)
    subst this; simp [vadd]
  · rcases List.eq_nil_or_concat b with rfl | ⟨b', y, rfl⟩
    · simp at h
    · have hl : a'.length = b'.length := by simpa using h
      have e : vadd (a' ++ [x]) (b' ++ [y]) = vadd a' b' ++ [x + y] := by
        simp [vadd, List.zipWith_append hl]
      simp only [List.concat_eq_append]
      rw [e]
      simp only [List.reverse_append, List.reverse_cons, List.reverse_nil, List.nil_append, List.singleton_append,
        List.reverse_reverse]
      rw [decodeBitvector_add a' b' hl]; ring

/-- **truncation is additive** for `Count` and `Histogram` (identity), `Sum` (weighted bit sum) and
    `MultihotCountVec` (prefix): the truncation of a sum of shares is the sum of the truncations -/
theorem truncate_additive_simple (C : FieldCtx F) (t : TypeSpec) (lw : Nat) (a b : List F)
    (ha : a.length = t.inputLen) (hb : b.length = t.inputLen)
    (ht : t = .count ∨ (∃ bits, t = .sum bits) ∨ (∃ l c, t = .histogram l c) ∨ (∃ l bw w c, t = .multihot l bw w c)) :
    ∃ ta tb, truncateWith C t lw a = .ok ta ∧ truncateWith C t lw b = .ok tb ∧
      truncateWith C t lw (vadd a b) = .ok (vadd ta tb) := by
  have hab : (vadd a b).length = t.inputLen := by simp [vadd, List.length_zipWith, ha, hb]
  rcases ht with rfl | ⟨bits, rfl⟩ | ⟨l, c, rfl⟩ | ⟨l, bw, w, c, rfl⟩
  · exact ⟨a, b, by simp [truncateWith, ha], by simp [truncateWith, hb], by simp [truncateWith, hab]⟩
  · refine ⟨[decodeRangeCheckedInt a (C.ofNat lw)], [decodeRangeCheckedInt b (C.ofNat lw)],
      by simp [truncateWith, ha], by simp [truncateWith, hb], ?_⟩
    simp only [truncateWith, hab, ne_eq, not_true_eq_false, if_false]
    rw [decodeRangeCheckedInt_add a b _ (by rw [ha, hb])]; simp [vadd]
  · exact ⟨a, b, by simp [truncateWith, ha], by simp [truncateWith, hb], by simp [truncateWith, hab]⟩
  · refine ⟨a.take l, b.take l, by simp [truncateWith, ha], by simp [truncateWith, hb], ?_⟩
    simp only [truncateWith, hab, ne_eq, not_true_eq_false, if_false]
    simp [vadd, List.take_zipWith]

/-- the first formulation of end-to-end correctness, kept for the record: it is NOT the theorem.  With an
    arbitrary `FieldCtx` (wrong `half` or roots) `query` still answers but `decide` rejects; validity is required
    only at `jr = []`, which is vacuous for the types with joint randomness; invertibility of the number of
    aggregators and `WellFormed` are missing.  The corrected statement is proved:
    `Props.C01.prio3_e2e` in `Props/C01E2E.lean` -/
def prio3_e2e_first_formulation : Prop :=
  ∀ (F : Type) [Field F] [BEq F] [LawfulBEq F] (C : FieldCtx F) (cfg : Cfg) (cv : Conv F) (xof : Xof) (sumLW : Nat)
    (key ctx nonce random : Prio.Prio3.Bytes) (encoded : List F) (out : ShardOut F),
    1 ≤ cfg.numAgg → cfg.numAgg ≤ 254 → 1 ≤ cfg.numProofs → cfg.numProofs ≤ 255 →
    (∀ o, valid C cfg.t encoded [] 1 = .ok o → ∀ x ∈ o, x = 0) →
    shard C cfg cv xof ctx nonce random encoded = .ok out →
    ∀ (states : List (VerifyState F)) (vshares : List (VerifierShare F)),
      states.length = cfg.numAgg → vshares.length = cfg.numAgg →
      (∀ i (h1 : i < out.shares.length) (h2 : i < states.length) (h3 : i < vshares.length),
        verifyInit C cfg cv xof sumLW key ctx i nonce out.jointRandParts out.shares[i] = .ok (states[i], vshares[i])) →
      ∃ m, sharesToMessage C cfg xof ctx vshares = .ok m ∧
        ∃ outs : List (List F), outs.length = cfg.numAgg ∧
          (∀ i (h1 : i < states.length) (h2 : i < outs.length), verifyNext C cfg cv xof sumLW ctx states[i] m = .ok outs[i]) ∧
          truncateWith C cfg.t sumLW encoded = .ok (outs.foldl vadd (List.replicate cfg.t.outputLen 0))

end Props.C01
