import PrioProofs.Fp.Params
import PrioProofs.Fp.Bytes

/-! # C09 — field elements behave exactly as integers modulo the field prime

Property theorems.  `P` ranges over parameter sets (`Gen.FpParams`, translated from `src/fp.rs`);
the operations are the definitions translated from `src/fp/ops.rs`.  A stored word `a < p` stands for
the integer `P.residue a` (this is what `From<$elem> for $int` returns). -/
namespace Props.C09
open Gen Prio

/-! ## the deployed parameter sets (and the two scaled-down hook sets) satisfy the hypotheses -/

theorem FP32_wf : FP32.wf = true := by decide +kernel
theorem FP64_wf : FP64.wf = true := by decide +kernel
theorem FP128_wf : FP128.wf = true := by decide +kernel
theorem FP8_wf : FP8.wf = true := by decide +kernel
theorem FP16S_wf : FP16S.wf = true := by decide +kernel

/-! ## results are fully reduced -/

theorem add_reduced {P : FpParams} (h : P.wf = true) {a b : Nat} (ha : a < P.prime) (hb : b < P.prime) :
    P.add a b < P.prime :=
  add_lt _ _ _ _ (by have := (FpParams.isMont h).p_gt; omega) (FpParams.isMont h).p_lt ha hb

theorem sub_reduced {P : FpParams} (h : P.wf = true) {a b : Nat} (ha : a < P.prime) (hb : b < P.prime) :
    P.sub a b < P.prime :=
  sub_lt _ _ _ _ (by have := (FpParams.isMont h).p_gt; omega) (FpParams.isMont h).p_lt ha hb

theorem mul_reduced {P : FpParams} (h : P.wf = true) {a b : Nat} (ha : a < P.R) (hb : b < P.prime) :
    P.mul a b < P.prime := (FpParams.isMont h).mul_lt a b ha hb

theorem from_int_reduced {P : FpParams} (h : P.wf = true) {x : Nat} (hx : x < P.R) :
    P.montgomery x < P.prime := (FpParams.isMont h).montgomery_lt (FpParams.r2_ok h) hx

/-! ## arithmetic is arithmetic modulo `p` -/

theorem add_correct {P : FpParams} (h : P.wf = true) {a b : Nat} (ha : a < P.prime) (hb : b < P.prime) :
    P.residue (P.add a b) = (P.residue a + P.residue b) % P.prime := (FpParams.isMont h).val_add ha hb

theorem sub_correct {P : FpParams} (h : P.wf = true) {a b : Nat} (ha : a < P.prime) (hb : b < P.prime) :
    P.residue (P.sub a b) = (P.residue a + P.prime - P.residue b) % P.prime :=
  (FpParams.isMont h).val_sub ha hb

theorem neg_correct {P : FpParams} (h : P.wf = true) {a : Nat} (ha : a < P.prime) :
    P.residue (P.neg a) = (P.prime - P.residue a) % P.prime := (FpParams.isMont h).val_neg ha

theorem mul_correct {P : FpParams} (h : P.wf = true) {a b : Nat} (ha : a < P.prime) (hb : b < P.prime) :
    P.residue (P.mul a b) = (P.residue a * P.residue b) % P.prime := (FpParams.isMont h).val_mul ha hb

/-- integer → element → integer: reduction modulo `p`, for *every* word (`From<int>` takes unreduced input) -/
theorem from_int_to_int {P : FpParams} (h : P.wf = true) {x : Nat} (hx : x < P.R) :
    P.residue (P.montgomery x) = x % P.prime :=
  (FpParams.isMont h).residue_montgomery (FpParams.r2_ok h) hx

/-- element → integer → element: identity; so the stored word is a function of the value and `==`,
    `Hash`, `ct_eq` and the byte encoding are mutually consistent -/
theorem to_int_from_int {P : FpParams} (h : P.wf = true) {a : Nat} (ha : a < P.prime) :
    P.montgomery (P.residue a) = a := (FpParams.isMont h).montgomery_residue (FpParams.r2_ok h) ha

theorem repr_injective {P : FpParams} (h : P.wf = true) {a b : Nat} (ha : a < P.prime) (hb : b < P.prime)
    (hab : P.residue a = P.residue b) : a = b := (FpParams.isMont h).residue_injective ha hb hab

theorem to_int_reduced {P : FpParams} (h : P.wf = true) {a : Nat} (ha : a < P.R) :
    P.residue a < P.prime := (FpParams.isMont h).residue_lt ha

theorem one_correct {P : FpParams} (h : P.wf = true) : P.residue P.one = 1 := by
  have hm := FpParams.isMont h
  have hR : 1 < P.R := by have := hm.p_gt; have := hm.p_lt; omega
  have e := from_int_to_int h hR
  have e2 : P.montgomery 1 = P.one := by
    unfold FpParams.montgomery
    rw [hm.montgomery_spec (FpParams.r2_ok h) hR, FpParams.one_ok h]; simp
  rw [e2] at e
  rw [e, Nat.mod_eq_of_lt hm.p_gt]

/-- exponentiation (the bit loop of `FieldOps::pow`), any exponent -/
theorem pow_correct {P : FpParams} (h : P.wf = true) {a : Nat} (ha : a < P.prime) (e : Nat) :
    P.pow a e < P.prime ∧ P.residue (P.pow a e) = (P.residue a) ^ e % P.prime := by
  have hm := FpParams.isMont h
  have hp0 : 0 < P.prime := by have := hm.p_gt; omega
  have hone : P.one < P.prime := by rw [FpParams.one_ok h]; exact Nat.mod_lt _ hp0
  obtain ⟨h1, h2⟩ := hm.val_powLoop ha e (bitLen e) P.one hone
  refine ⟨h1, ?_⟩
  unfold FpParams.pow fpPow
  have hlt : e < 2 ^ bitLen e := by
    cases e with
    | zero => simp [bitLen]
    | succ n => simp only [bitLen]; exact Nat.lt_log2_self
  have e1 : P.residue P.one = 1 := one_correct h
  unfold FpParams.residue at e1 ⊢
  rw [h2, e1, Nat.mod_eq_of_lt hlt]; simp

/-! ## bytes -/

/-- encoding then decoding a reduced element gives it back; the encoding has `ENCODED_SIZE` bytes -/
theorem decode_encode {P : FpParams} (h : P.wf = true) (sz : Nat) (hsz : P.prime ≤ 256 ^ sz)
    (mask : Nat) (hmask : ∀ v, v < P.prime → v &&& mask = v) {a : Nat} (ha : a < P.prime) :
    (P.toBytes sz a).length = sz ∧ P.tryFromBytes sz (P.toBytes sz a) mask = some a := by
  have hm := FpParams.isMont h
  have hr := to_int_reduced h (by have := hm.p_lt; omega : a < P.R)
  unfold FpParams.toBytes FpParams.tryFromBytes
  refine ⟨leBytes_length _ _, ?_⟩
  have hlen := leBytes_length (P.residue a) sz
  have e1 : List.take sz (leBytes (P.residue a) sz) = leBytes (P.residue a) sz := by
    rw [List.take_of_length_le]; omega
  simp only [hlen, gt_iff_lt, lt_irrefl, if_false, e1, leNat_leBytes]
  rw [Nat.mod_eq_of_lt (by omega), hmask _ hr]
  simp only [ge_iff_le, Nat.not_le.mpr hr, if_false]
  rw [to_int_from_int h ha]

/-- a byte string is accepted exactly when it is long enough and its masked little-endian value is
    below the modulus; the decoded element then has that value (no second encoding of any value) -/
theorem decode_accepts_iff {P : FpParams} (h : P.wf = true) (sz : Nat) (bytes : List Nat) (mask : Nat) :
    (∃ a, P.tryFromBytes sz bytes mask = some a) ↔
      sz ≤ bytes.length ∧ (leNat (bytes.take sz) &&& mask) < P.prime := by
  unfold FpParams.tryFromBytes
  by_cases h1 : sz > bytes.length
  · simp [h1]
  · simp only [h1, if_false]
    by_cases h2 : (leNat (bytes.take sz) &&& mask) ≥ P.prime
    · simp [h2]
    · simp [h2]; omega

theorem decode_value {P : FpParams} (h : P.wf = true) (sz : Nat) (bytes : List Nat) (mask a : Nat)
    (hd : P.tryFromBytes sz bytes mask = some a) :
    a < P.prime ∧ P.residue a = leNat (bytes.take sz) &&& mask := by
  have hm := FpParams.isMont h
  unfold FpParams.tryFromBytes at hd
  by_cases h1 : sz > bytes.length
  · simp [h1] at hd
  · simp only [h1, if_false] at hd
    by_cases h2 : (leNat (bytes.take sz) &&& mask) ≥ P.prime
    · simp [h2] at hd
    · simp only [h2, if_false, Option.some.injEq] at hd
      have hlt : (leNat (bytes.take sz) &&& mask) < P.R := by have := hm.p_lt; omega
      rw [← hd]
      exact ⟨from_int_reduced h hlt, by rw [from_int_to_int h hlt]; exact Nat.mod_eq_of_lt (by omega)⟩

/-! ## constants -/

def halfOk (P : FpParams) : Bool := P.add P.half P.half == P.one
def bitMaskOk (P : FpParams) : Bool := P.bitMask == 2 ^ bitLen P.prime - 1
/-- `ROOTS[0] = 1`, `ROOTS[l]^2 = ROOTS[l-1]`, and `ROOTS[l]` has order exactly `2^l`
    (`x^(2^l) = 1`, `x^(2^(l-1)) ≠ 1`) for every tabulated `l ≤ min(MAX_ROOTS, NUM_ROOTS)` -/
def rootsOk (P : FpParams) : Bool :=
  (List.range (min MAX_ROOTS P.numRoots + 1)).all fun l =>
    let r := P.roots.getD l 0
    decide (r < P.prime) && P.pow r (2 ^ l) == P.one &&
      (l == 0 || (P.pow r (2 ^ (l - 1)) != P.one && P.mul r r == P.roots.getD (l - 1) 0))
/-- `G` has order exactly `2^NUM_ROOTS` and generates the tabulated roots -/
def generatorOk (P : FpParams) : Bool :=
  decide (P.g < P.prime) && P.pow P.g (2 ^ P.numRoots) == P.one &&
    P.pow P.g (2 ^ (P.numRoots - 1)) != P.one &&
    P.pow P.g (2 ^ (P.numRoots - min MAX_ROOTS P.numRoots)) == P.roots.getD (min MAX_ROOTS P.numRoots) 0

theorem FP32_constants : halfOk FP32 && bitMaskOk FP32 && rootsOk FP32 && generatorOk FP32 = true := by
  decide +kernel
theorem FP64_constants : halfOk FP64 && bitMaskOk FP64 && rootsOk FP64 && generatorOk FP64 = true := by
  decide +kernel
theorem FP128_constants : halfOk FP128 && bitMaskOk FP128 && rootsOk FP128 && generatorOk FP128 = true := by
  decide +kernel

/-- what `rootsOk`/`generatorOk` mean on values: an element `r` with `pow r (2^l) = one` and
    `pow r (2^(l-1)) ≠ one` has value of multiplicative order exactly `2^l` modulo `p` -/
theorem order_exact {P : FpParams} (h : P.wf = true) {r : Nat} (hr : r < P.prime) (l : Nat)
    (h1 : P.pow r (2 ^ l) = P.one) (h2 : l = 0 ∨ P.pow r (2 ^ (l - 1)) ≠ P.one) :
    (P.residue r) ^ (2 ^ l) % P.prime = 1 ∧ (l = 0 ∨ (P.residue r) ^ (2 ^ (l - 1)) % P.prime ≠ 1) := by
  have hm := FpParams.isMont h
  have hp0 : 0 < P.prime := by have := hm.p_gt; omega
  have hone : P.one < P.prime := by rw [FpParams.one_ok h]; exact Nat.mod_lt _ hp0
  constructor
  · rw [← (pow_correct h hr _).2, h1, one_correct h]
  · rcases h2 with h2 | h2
    · exact Or.inl h2
    · right
      intro hc
      apply h2
      apply repr_injective h (pow_correct h hr _).1 hone
      rw [(pow_correct h hr _).2, hc, one_correct h]

/-! ## non-vacuity: the hypotheses are met by concrete deployed elements -/
example : FP64.wf = true ∧ (4294967295 : Nat) < FP64.prime ∧ FP64.residue 4294967295 = 1 := by decide +kernel
example : FP128.wf = true ∧ FP128.residue (FP128.mul (FP128.montgomery 7) (FP128.montgomery 9)) = 63 := by
  decide +kernel

end Props.C09
