import PrioProofs.Prng
import PrioProofs.Xof

/-! # C11 — seed streams are chunking-independent; field sampling follows the spec exactly -/
namespace Props.C11
open Prio

/-- what a XOF absorbs depends only on the concatenated tag and the concatenated binder -/
theorem framing_concat (seed : List Nat) (dp bp : List (List Nat)) :
    turboShakeAbsorbed seed dp bp = turboShakeAbsorbed seed [dp.flatten] [bp.flatten] ∧
    fixedKeyAbsorbed dp bp = fixedKeyAbsorbed [dp.flatten] [bp.flatten] ∧
    hmacAbsorbed dp bp = hmacAbsorbed [dp.flatten] [bp.flatten] :=
  ⟨turboShake_concat seed dp bp, fixedKey_concat dp bp, hmac_concat dp bp⟩

/-- and it determines (seed, tag, binder): two invocations absorb the same message only if all three agree -/
theorem framing_injective (s s' : List Nat) (dp dp' bp bp' : List (List Nat)) (m : List Nat)
    (h : turboShakeAbsorbed s dp bp = some m) (h' : turboShakeAbsorbed s' dp' bp' = some m) :
    s = s' ∧ dp.flatten = dp'.flatten ∧ bp.flatten = bp'.flatten :=
  turboShake_injective s s' dp dp' bp bp' m h h'

theorem framing_injective_fixed_key (dp dp' bp bp' : List (List Nat)) (m : List Nat)
    (h : fixedKeyAbsorbed dp bp = some m) (h' : fixedKeyAbsorbed dp' bp' = some m) :
    dp.flatten = dp'.flatten ∧ bp.flatten = bp'.flatten :=
  fixedKey_injective dp dp' bp bp' m h h'

/-- successive reads of a position-determined stream are consecutive pieces of one stream; in
    particular a derived seed (the first read of `SEED_SIZE` bytes) is a prefix of the stream -/
theorem reads_concat (S : Stream) (pos a b : Nat) :
    S.read pos (a + b) = S.read pos a ++ S.read (pos + a) b := read_append S pos a b

/-- the fixed-key AES stream *is* position-determined: any sequence of read sizes returns
    consecutive pieces of block₀‖block₁‖…, for every block function -/
theorem fixed_key_read_sizes (block : Nat → List Nat) (hb : ∀ c, (block c).length = 16)
    (ns : List Nat) (consumed : Nat) :
    (fixedKeyReads block consumed ns).flatten = (blockStream block).read consumed ns.sum :=
  fixedKeyReads_spec block hb ns consumed

/-- **field sampling**: expanding a stream into `n` elements yields exactly the successive
    element-sized chunks, masked to the modulus length, that are below the modulus — in order, none
    skipped, across every buffer refill (for any buffer contents, any rejection positions) -/
theorem prng_spec (S : Stream) (p mask sz fuel n : Nat) (hsz : 0 < sz) (xs : List Nat) (st : PrngState)
    (h : intoFieldVec S p mask sz fuel n = some (xs, st)) :
    xs.length = n ∧ ∃ c', AcceptedSeq S p mask sz 0 xs c' ∧ PInv S st c' :=
  take_spec S p mask sz fuel hsz n _ 0 (init_inv S sz 0) xs st h

/-- continuing after a switch to another field (`into_new_field`): the new field's elements are the
    accepted chunks of the *same* stream from where the first field stopped — no byte lost or reused -/
theorem prng_field_switch (S : Stream) (p1 m1 sz1 p2 m2 sz2 fuel n1 n2 : Nat) (h1 : 0 < sz1) (h2 : 0 < sz2)
    (xs ys : List Nat) (st st' : PrngState)
    (ha : intoFieldVec S p1 m1 sz1 fuel n1 = some (xs, st))
    (hb : st.take S p2 m2 sz2 fuel n2 = some (ys, st')) :
    ∃ c c', AcceptedSeq S p1 m1 sz1 0 xs c ∧ AcceptedSeq S p2 m2 sz2 c ys c' := by
  obtain ⟨_, c, hs, inv⟩ := prng_spec S p1 m1 sz1 fuel n1 h1 xs st ha
  obtain ⟨_, c', hs', _⟩ := take_spec S p2 m2 sz2 fuel h2 n2 st c inv ys st' hb
  exact ⟨c, c', hs, hs'⟩

/-- unbuffered sampling (`generate_random`) follows the same rule -/
theorem generate_random_spec (S : Stream) (p mask sz fuel pos x pos' : Nat)
    (h : generateRandom S p mask sz fuel pos = some (x, pos')) :
    ∃ k, FirstAccepted S p mask sz pos k x ∧ pos' = pos + (k + 1) * sz :=
  generateRandom_spec S p mask sz fuel pos x pos' h

/-- a chunk is accepted exactly when its masked little-endian value is below the modulus -/
theorem accept_iff (p mask : Nat) (chunk : List Nat) (x : Nat) :
    fromRandom p mask chunk = some x ↔ x = (leNatC chunk &&& mask) ∧ x < p := by
  unfold fromRandom
  simp only
  constructor
  · intro h; split at h
    · simp only [Option.some.injEq] at h; subst h; exact ⟨rfl, by assumption⟩
    · cases h
  · rintro ⟨rfl, h⟩; simp [h]

/-! non-vacuity: a stream whose first chunk is rejected and second accepted -/
example : (intoFieldVec (fun i => if i < 4 then 255 else 1) 4293918721 4294967295 4 3 1).map
    (fun r => (r.1, r.2.idx, r.2.pos)) = some ([16843009], 8, 128) := by
  decide +kernel

end Props.C11
