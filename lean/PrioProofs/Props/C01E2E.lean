import PrioProofs.Prio3E2E

/-! # C01 (continued) — Prio3 end to end on the executable model

Proved in `PrioProofs/Prio3E2E.lean` by composing: additive sharing of measurement and proofs (the leader
gets "value − Σ helper expansions"), every aggregator recomputing the client's joint-randomness parts, seed and
vector and the same query randomness, linearity of `query` over the shares (C05 `query_share_linear`),
completeness of the proof system (C05 `flp_complete`), the seed comparison of `verify_next`, and additivity of
truncation for all six types. -/
namespace Props.C01
open Prio.Flp Prio.Prio3

/-- **every honest report is accepted and the output shares add up to the truncated encoding.**  For every
    field and context the Rust code instantiates (`CtxOk`), every type that makes at least one gadget call,
    every number of aggregators that is at least one and invertible in the field, every number of proofs ≥ 1,
    every XOF, verification key, context, nonce and sharding randomness, and every encoded measurement the
    validity circuit accepts under every joint randomness: if `shard` succeeded and every aggregator's
    `verify_init` succeeded (the only legitimate failures there are `query` refusing a query randomness on the
    wire domain and an XOF expansion running out of rejection-sampling fuel), then the combiner produces a
    message, every `verify_next` succeeds, and the output shares add up to the truncation of the encoding.
    Nothing is assumed about the byte conversion `cv`: client and aggregators call `expand` alike. -/
theorem prio3_e2e {F : Type} [Field F] [BEq F] [LawfulBEq F] (C : FieldCtx F) (ω : Nat → F) (hC : CtxOk C ω)
    (cfg : Cfg) (cv : Conv F) (xof : Xof) (sumLW : Nat) (key ctx nonce random : Prio.Prio3.Bytes)
    (encoded : List F) (out : ShardOut F)
    (hN : 1 ≤ cfg.numAgg) (hInv : ((cfg.numAgg : Nat) : F) ≠ 0) (hNP : 1 ≤ cfg.numProofs)
    (hwf : cfg.t.WellFormed)
    (hvalid : ∀ jr o, valid C cfg.t encoded jr 1 = .ok o → ∀ x ∈ o, x = 0)
    (hshard : shard C cfg cv xof ctx nonce random encoded = .ok out)
    (states : List (VerifyState F)) (vshares : List (VerifierShare F))
    (hSl : states.length = cfg.numAgg) (hVl : vshares.length = cfg.numAgg)
    (hinit : ∀ i (h1 : i < out.shares.length) (h2 : i < states.length) (h3 : i < vshares.length),
      verifyInit C cfg cv xof sumLW key ctx i nonce out.jointRandParts out.shares[i] = .ok (states[i], vshares[i])) :
    out.shares.length = cfg.numAgg ∧
    ∃ m, sharesToMessage C cfg xof ctx vshares = .ok m ∧
      ∃ outs : List (List F), outs.length = cfg.numAgg ∧
        (∀ i (h1 : i < states.length) (h2 : i < outs.length),
          verifyNext C cfg cv xof sumLW ctx states[i] m = .ok outs[i]) ∧
        truncateWith C cfg.t sumLW encoded = .ok (outs.foldl vadd (List.replicate cfg.t.outputLen 0)) :=
  Prio.Prio3E2E.prio3_e2e C ω hC cfg cv xof sumLW key ctx nonce random encoded out hN hInv hNP hwf hvalid hshard
    states vshares hSl hVl hinit

end Props.C01
