import PrioProofs.Poplar1
import Mathlib.Algebra.BigOperators.Fin
import Mathlib.Algebra.BigOperators.Ring.Finset
import Mathlib.Algebra.CharP.Defs
import Mathlib.Tactic.LinearCombination

/-! # C04 — Poplar1 robustness: what passes the sketch is a zero or one-hot 0/1 vector

For *arbitrary* summed IDPF shares `(yᵢ, wᵢ)` (whatever the client programmed, whatever it did to
keys and correction words) and *arbitrary* correlated randomness, the sum of the round-two shares
is the polynomial `P(r) = (Σ rᵢyᵢ)² − Σ rᵢ²yᵢ + K·Σ rᵢyᵢ − Σ rᵢwᵢ + c₀` in the verification
randomness (`sigma_identity`, `sketchLoop_eq`).  `robust_core`: if `P` vanishes identically then
every `yᵢ` is 0 or 1, at most one is non-zero, every `wᵢ` is `K·yᵢ` and `c₀ = 0`.  So a report whose
summed outputs are not a zero or one-hot 0/1 vector makes `P` a non-zero polynomial of degree ≤ 2,
which a uniformly random `r` annihilates with probability ≤ 2/|F| (Schwartz–Zippel; the
probabilistic step is not formalised).  Alterations in transit: only the sum of the shares is
checked (`sum_only_matters`), and any net change of the round-two sum is refused
(`altered_round2_rejected`). -/
namespace Props.C04
open Prio.Poplar1 Finset

variable {F : Type} [Field F]

/-- the sketch polynomial over candidates indexed by `Fin n` -/
def P {n : Nat} (y w : Fin n → F) (K c0 : F) (r : Fin n → F) : F :=
  (∑ i, r i * y i) ^ 2 - ∑ i, r i ^ 2 * y i + K * ∑ i, r i * y i - ∑ i, r i * w i + c0

theorem sum_single {n : Nat} (g : Fin n → F) (i : Fin n) (c : F) :
    ∑ j, (if j = i then c else 0) * g j = c * g i := by
  rw [Finset.sum_eq_single i]
  · simp
  · intro j _ hj; simp [hj]
  · intro h; exact absurd (Finset.mem_univ i) h

/-- **robustness core**: a sketch polynomial that vanishes for every randomness comes from a zero or
    one-hot 0/1 data vector with consistent authenticators -/
theorem robust_core {n : Nat} (h2 : (2 : F) ≠ 0) (y w : Fin n → F) (K c0 : F)
    (h : ∀ r : Fin n → F, P y w K c0 r = 0) :
    c0 = 0 ∧ (∀ i, y i = 0 ∨ y i = 1) ∧ (∀ i j, i ≠ j → y i * y j = 0) ∧ (∀ i, w i = K * y i) := by
  have hc : c0 = 0 := by
    have := h (fun _ => 0)
    simpa [P] using this
  subst hc
  -- evaluate at c·e_i
  have hunit : ∀ (i : Fin n) (c : F), (c * y i) ^ 2 - c ^ 2 * y i + K * (c * y i) - c * w i = 0 := by
    intro i c
    have := h (fun j => if j = i then c else 0)
    unfold P at this
    have e1 : ∑ j, (if j = i then c else 0) * y j = c * y i := sum_single y i c
    have e2 : ∑ j, (if j = i then c else 0) ^ 2 * y j = c ^ 2 * y i := by
      have : ∀ j, (if j = i then c else (0 : F)) ^ 2 = if j = i then c ^ 2 else 0 := by
        intro j; split <;> simp
      simp only [this]; exact sum_single y i (c ^ 2)
    have e3 : ∑ j, (if j = i then c else 0) * w j = c * w i := sum_single w i c
    rw [e1, e2, e3] at this
    linear_combination this
  have hbit : ∀ i, y i * y i = y i := by
    intro i
    have a := hunit i 1
    have b := hunit i 2
    have : (2 : F) * (y i * y i - y i) = 0 := by linear_combination b - 2 * a
    rcases mul_eq_zero.mp this with h' | h'
    · exact absurd h' h2
    · linear_combination h'
  have hw : ∀ i, w i = K * y i := by
    intro i
    have a := hunit i 1
    have := hbit i
    linear_combination (-1 : F) * a + this
  refine ⟨rfl, ?_, ?_, hw⟩
  · intro i
    have := hbit i
    have : y i * (y i - 1) = 0 := by linear_combination this
    rcases mul_eq_zero.mp this with h' | h'
    · exact Or.inl h'
    · exact Or.inr (by linear_combination h')
  · intro i j hij
    -- evaluate at e_i + e_j
    have := h (fun k => (if k = i then 1 else 0) + (if k = j then 1 else 0))
    unfold P at this
    have s1 : ∑ k, ((if k = i then (1 : F) else 0) + (if k = j then 1 else 0)) * y k = y i + y j := by
      simp only [add_mul, Finset.sum_add_distrib]
      rw [sum_single y i 1, sum_single y j 1]; ring
    have s3 : ∑ k, ((if k = i then (1 : F) else 0) + (if k = j then 1 else 0)) * w k = w i + w j := by
      simp only [add_mul, Finset.sum_add_distrib]
      rw [sum_single w i 1, sum_single w j 1]; ring
    have s2 : ∑ k, ((if k = i then (1 : F) else 0) + (if k = j then 1 else 0)) ^ 2 * y k = y i + y j := by
      have : ∀ k, ((if k = i then (1 : F) else 0) + (if k = j then 1 else 0)) ^ 2 =
          (if k = i then 1 else 0) + (if k = j then 1 else 0) := by
        intro k
        by_cases hi : k = i
        · have : k ≠ j := fun hj => hij (hi ▸ hj)
          simp [hi, hij]
        · by_cases hj : k = j
          · subst hj; simp [hi]
          · simp [hi, hj]
      simp only [this]
      exact s1
    rw [s1, s2, s3, hw i, hw j] at this
    have bi := hbit i
    have bj := hbit j
    have : (2 : F) * (y i * y j) = 0 := by linear_combination this - bi - bj
    rcases mul_eq_zero.mp this with h' | h'
    · exact absurd h' h2
    · exact h'

/-- conversely an honest shape makes the polynomial vanish (so `robust_core` is an equivalence) -/
theorem honest_vanishes {n : Nat} (t : Fin n) (K : F) (r : Fin n → F) :
    P (fun i => if i = t then 1 else 0) (fun i => if i = t then K else 0) K 0 r = 0 := by
  unfold P
  have e1 : ∑ i, r i * (if i = t then (1 : F) else 0) = r t := by
    have := sum_single r t (1 : F)
    simp only [one_mul] at this
    rw [← this]; apply Finset.sum_congr rfl; intro i _; ring
  have e2 : ∑ i, r i ^ 2 * (if i = t then (1 : F) else 0) = r t ^ 2 := by
    have := sum_single (fun i => r i ^ 2) t (1 : F)
    simp only [one_mul] at this
    rw [← this]; apply Finset.sum_congr rfl; intro i _; ring
  have e3 : ∑ i, r i * (if i = t then K else 0) = K * r t := by
    have := sum_single r t K
    rw [← this]; apply Finset.sum_congr rfl; intro i _; ring
  rw [e1, e2, e3]; ring

/-! ## alterations in transit -/

variable [BEq F] [LawfulBEq F]

/-- only the sum of the two aggregators' shares is checked: offsetting alterations cancel -/
theorem sum_only_matters (x0 y0 z0 x1 y1 z1 d e f : F) :
    nextMessage [x0 + d, y0 + e, z0 + f] [x1 - d, y1 - e, z1 - f] = nextMessage [x0, y0, z0] [x1, y1, z1] := by
  unfold nextMessage
  simp only [List.length_cons, List.length_nil, ne_eq, not_true_eq_false, if_false, List.zipWith_cons_cons,
    List.zipWith_nil_right]
  have e1 : x0 + d + (x1 - d) = x0 + x1 := by ring
  have e2 : y0 + e + (y1 - e) = y0 + y1 := by ring
  have e3 : z0 + f + (z1 - f) = z0 + z1 := by ring
  rw [e1, e2, e3]

/-- a net change of the round-two sum of an accepted report is refused -/
theorem altered_round2_rejected (s0 s1 δ : F) (h : s0 + s1 = 0) (hδ : δ ≠ 0) :
    nextMessage [s0 + δ] [s1] = .err := by
  unfold nextMessage
  have : s0 + δ + s1 ≠ 0 := by
    intro h'
    apply hδ
    linear_combination h' - h
  simp [this]

/-- shares of different lengths (a round-one share against a round-two share, a truncated share) are
    refused -/
theorem length_mismatch_refused (s0 s1 : List F) (h : s0.length ≠ s1.length) : nextMessage s0 s1 = .err := by
  unfold nextMessage
  rw [if_pos h]

/-- a state offered a message of the other round or the other field is refused -/
theorem wrong_round_refused {FI FL : Type} [Add FI] [Sub FI] [Mul FI] [BEq FI] [Add FL] [Sub FL] [Mul FL] [BEq FL]
    (a b : FI) (l : Bool) (out : List FI) :
    verifyNext (FL := FL) (.inner (.roundOne a b l) out) .done = .err := rfl

end Props.C04
