import PrioProofs.Poplar1E2E

/-! # C06 (continued) — IDPF correctness at the executable model's byte-string seeds

`Props/C06.lean` proves IDPF correctness for every seed type with a *lawful* xor.  The executable model's seeds
are byte lists with `zipWith xor`, which is lawful only between lists of equal length; the theorems are
transported to it (`PrioProofs/Poplar1E2E.lean`) through the subtype of length-`n` seeds, under the hypothesis
that the PRGs preserve the seed length (`SeedPres`; in the library seeds are `[u8; 16]`). -/
namespace Props.C06
open Prio.Poplar1 Prio.Poplar1.E2E Prio.Idpf

variable {n : Nat} {VI VL : Type} [AddCommGroup VI] [AddCommGroup VL]

/-- `idpf_correct_inner` for byte-string seeds of length `n` -/
theorem idpf_correct_inner_bytes (gI : Prg Bytes VI) (gL : Prg Bytes VL) (hI : SeedPres n gI) (hL : SeedPres n gL)
    (alpha : List Bool) (iv : List VI) (lv : VL) (k0 k1 : Bytes) (hk0 : k0.length = n) (hk1 : k1.length = n)
    (ps : PublicShare Bytes VI VL) (hg : gen gI gL alpha iv lv k0 k1 = some ps)
    (pfx : List Bool) (hp1 : 1 ≤ pfx.length) (hp2 : pfx.length < alpha.length) :
    ∃ a b, specEval gI gL true ps k0 pfx = some (.inner a) ∧ specEval gI gL false ps k1 pfx = some (.inner b) ∧
      a + b = if pfx = alpha.take pfx.length then iv.getD (pfx.length - 1) 0 else 0 :=
  idpf_inner_bytes gI gL hI hL alpha iv lv k0 k1 hk0 hk1 ps hg pfx hp1 hp2

/-- `idpf_correct_leaf` for byte-string seeds of length `n` -/
theorem idpf_correct_leaf_bytes (gI : Prg Bytes VI) (gL : Prg Bytes VL) (hI : SeedPres n gI) (hL : SeedPres n gL)
    (alpha : List Bool) (iv : List VI) (lv : VL) (k0 k1 : Bytes) (hk0 : k0.length = n) (hk1 : k1.length = n)
    (ps : PublicShare Bytes VI VL) (hg : gen gI gL alpha iv lv k0 k1 = some ps)
    (pfx : List Bool) (hp : pfx.length = alpha.length) :
    ∃ a b, specEval gI gL true ps k0 pfx = some (.leaf a) ∧ specEval gI gL false ps k1 pfx = some (.leaf b) ∧
      a + b = if pfx = alpha then lv else 0 :=
  idpf_leaf_bytes gI gL hI hL alpha iv lv k0 k1 hk0 hk1 ps hg pfx hp

end Props.C06
