import PrioProofs.NoPanicPoplar

/-! # C16 (continued) — Poplar1, the IDPF and Prio2 cannot panic on out-of-domain arguments

Proved in `PrioProofs/NoPanicPoplar.lean`.  The models carry every index / `unwrap` / conversion of the
Rust code as an explicit `panic` outcome.  Relative to the rejection-sampling loops terminating
(`XofLive` / `VerifyFuel`: the Rust loops are unbounded, the model's have fuel), none of them is reachable
through the public types. -/
namespace Props.C16Poplar

section idpf
open Prio.Idpf
variable {S VI VL : Type} [XorLike S]
  [Add VI] [Sub VI] [Neg VI] [Zero VI] [Add VL] [Sub VL] [Neg VL] [Zero VL]

/-- `Idpf::eval` never reaches its `unwrap()`: every aggregator id, public share, key, prefix, cache
    implementation and cache state -/
theorem idpf_eval_no_panic {C : Type} (cache : Cache C S) (gI : Prg S VI) (gL : Prg S VL)
    (aggId : Nat) (ps : PublicShare S VI VL) (key : S) (pfx : List Bool) (c : C) :
    (eval cache gI gL aggId ps key pfx c).1 ≠ .panic :=
  Prio.Idpf.eval_no_panic cache gI gL aggId ps key pfx c

/-- … and it errs exactly on an aggregator id above 1, an empty prefix or a prefix longer than the tree -/
theorem idpf_eval_error_iff {C : Type} (cache : Cache C S) (gI : Prg S VI) (gL : Prg S VL)
    (aggId : Nat) (ps : PublicShare S VI VL) (key : S) (pfx : List Bool) (c : C) :
    (eval cache gI gL aggId ps key pfx c).1 = .error ↔ (aggId > 1 ∨ pfx = [] ∨ pfx.length > ps.inner.length + 1) :=
  Prio.Idpf.eval_error_iff cache gI gL aggId ps key pfx c

end idpf

section poplar
open Prio.Poplar1 Prio.Idpf
variable {FI FL : Type}
  [Add FI] [Sub FI] [Mul FI] [Neg FI] [Zero FI] [One FI] [BEq FI]
  [Add FL] [Sub FL] [Mul FL] [Neg FL] [Zero FL] [One FL] [BEq FL]

theorem poplar1_shard_no_panic (cfg : Cfg) (ofI : Nat → FI) (ofL : Nat → FL) (xof : Xof)
    (gI : Prg Bytes (Pair FI)) (gL : Prg Bytes (Pair FL))
    (ctx : Bytes) (input : List Bool) (nonce k0 k1 pr0 pr1 pr2 : Bytes) (hx : XofLive cfg xof) :
    shard cfg ofI ofL xof gI gL ctx input nonce k0 k1 pr0 pr1 pr2 ≠ .panic :=
  Prio.Poplar1.shard_no_panic cfg ofI ofL xof gI gL ctx input nonce k0 k1 pr0 pr1 pr2 hx

/-- **`verify_init` of Poplar1 panics exactly on `PanicArgs`**: the guards pass, every prefix evaluates, and
    some prefix has the wrong length for the level (a full-length prefix below the leaf level, or a shorter
    one at it).  `Poplar1AggregationParam`'s fields are private and both its constructor and its decoder
    force every prefix to `level + 1` bits, so no such value exists in the Rust program. -/
theorem poplar1_verifyInit_panic_iff (cfg : Cfg) (ofI : Nat → FI) (ofL : Nat → FL) (xof : Xof)
    (gI : Prg Bytes (Pair FI)) (gL : Prg Bytes (Pair FL))
    (verifyKey ctx : Bytes) (aggId : Nat) (ap : AggParam) (nonce : Bytes)
    (pub : PubShare FI FL) (share : InputShare FI FL)
    (hf : VerifyFuel cfg xof verifyKey ctx aggId ap nonce share.corrSeed) :
    verifyInit cfg ofI ofL xof gI gL verifyKey ctx aggId ap nonce pub share = .panic ↔
      PanicArgs cfg aggId ap pub share :=
  Prio.Poplar1.verifyInit_panic_iff cfg ofI ofL xof gI gL verifyKey ctx aggId ap nonce pub share hf

/-- hence no panic for any aggregator id, share shapes, level, number of prefixes, keys and seeds, as long as
    the aggregation parameter is one the type can hold -/
theorem poplar1_verifyInit_no_panic (cfg : Cfg) (ofI : Nat → FI) (ofL : Nat → FL) (xof : Xof)
    (gI : Prg Bytes (Pair FI)) (gL : Prg Bytes (Pair FL))
    (verifyKey ctx : Bytes) (aggId : Nat) (ap : AggParam) (nonce : Bytes)
    (pub : PubShare FI FL) (share : InputShare FI FL)
    (hx : XofLive cfg xof) (hap : ∀ p ∈ ap.prefixes, p.length = ap.level + 1) :
    verifyInit cfg ofI ofL xof gI gL verifyKey ctx aggId ap nonce pub share ≠ .panic :=
  Prio.Poplar1.verifyInit_no_panic_of_live cfg ofI ofL xof gI gL verifyKey ctx aggId ap nonce pub share hx hap

theorem poplar1_sharesToMessage_no_panic (shares : List (FieldVec FI FL)) : sharesToMessage shares ≠ .panic :=
  Prio.Poplar1.sharesToMessage_no_panic shares

theorem poplar1_verifyNext_no_panic (st : State FI FL) (msg : Message FI FL) : verifyNext st msg ≠ .panic :=
  Prio.Poplar1.verifyNext_no_panic st msg

end poplar

section prio2
open Prio.Prio2 Prio.Ntt Prio.Flp
variable {F : Type} [Add F] [Sub F] [Mul F] [Neg F] [Zero F] [One F] [Inv F] [BEq F]

/-- the transform returns `Ok` or `Err`, never panics, once the roots exist (size ≥ 1, non-empty input for
    size 1) -/
theorem ntt_no_panic (root : Nat → Option F) (outLen : Nat) (outp inp : Array F) (size : Nat) (setS : Bool)
    (h0 : size ≠ 0) (hin : size = 1 → inp.size ≠ 0)
    (hroot : ∀ k, 1 ≤ k → k ≤ maxRoots → root k ≠ none) : nttInternal root outLen outp inp size setS ≠ .panic :=
  Prio.Ntt.nttInternal_no_panic root outLen outp inp size setS h0 hin hroot

/-- **Prio2's verification message panics exactly for a dimension beyond the transform limit** (met with a
    share of matching length) — which `Prio2::new` refuses (`Props.C16.prio2New_ok_iff`) -/
theorem prio2_vmsg_panic_iff (C : FieldCtx F) (dim : Nat) (evalAt : F) (proof : List F)
    (isFirst : Bool) (hroot : ∀ k, 1 ≤ k → k ≤ maxRoots → C.root k ≠ none) :
    generateVerificationMessage C dim evalAt proof isFirst = .panic ↔
      proof.length = proofLength dim ∧ 2 ^ maxRoots < 2 * nextPow2 (dim + 1) :=
  Prio.Prio2.generateVerificationMessage_panic_iff C dim evalAt proof isFirst hroot

theorem prio2_verifyInit_no_panic (C : FieldCtx F) (dim : Nat) (queryRand : F) (share : List F) (isLeader : Bool)
    (hlim : 2 * nextPow2 (dim + 1) ≤ 2 ^ maxRoots)
    (hroot : ∀ k, 1 ≤ k → k ≤ maxRoots → C.root k ≠ none) :
    verifyInitWithQueryRand C dim queryRand share isLeader ≠ .panic :=
  Prio.Prio2.verifyInitWithQueryRand_no_panic C dim queryRand share isLeader hlim hroot

end prio2

end Props.C16Poplar
