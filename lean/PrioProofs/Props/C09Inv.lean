import PrioProofs.FpPrime

/-! # C09 (continued) — the moduli are prime and `inv` is the multiplicative inverse

Proved in `PrioProofs/FpPrime.lean`: Pratt certificates through Mathlib's `lucas_primality`, the
modular exponentiations evaluated by the kernel (`decide +kernel` on a square-and-multiply function
proved equal to `b ^ e % m`); inversion is `x^(p-2)` (Fermat) on top of `pow_correct`. -/
namespace Props.C09
open Gen

theorem FP32_prime : Nat.Prime FP32.prime := FpPrime.FP32_prime
theorem FP64_prime : Nat.Prime FP64.prime := FpPrime.FP64_prime
theorem FP128_prime : Nat.Prime FP128.prime := FpPrime.FP128_prime

theorem FP64_prime_eq : FP64.prime = 2 ^ 64 - 2 ^ 32 + 1 := FpPrime.FP64_prime_eq
theorem FP128_prime_eq : FP128.prime = 2 ^ 66 * (2 ^ 62 - 7) + 1 := FpPrime.FP128_prime_eq

/-- `inv` of a non-zero element is its multiplicative inverse modulo `p` (values read through `residue`) -/
theorem inv_correct {P : FpParams} (h : P.wf = true) (hp : Nat.Prime P.prime) {a : Nat} (ha : a < P.prime)
    (hne : P.residue a ≠ 0) : (P.residue (P.inv a) * P.residue a) % P.prime = 1 :=
  FpPrime.inv_correct h hp ha hne

/-- `inv` of zero is zero (the library's convention) -/
theorem inv_zero {P : FpParams} (h : P.wf = true) (hp : Nat.Prime P.prime) {a : Nat} (ha : a < P.prime)
    (hz : P.residue a = 0) : P.residue (P.inv a) = 0 :=
  FpPrime.inv_zero h hp ha hz

/-- at the level of stored Montgomery words: `mul (inv a) a` is the stored word of one -/
theorem inv_mul_word {P : FpParams} (h : P.wf = true) (hp : Nat.Prime P.prime) {a : Nat} (ha : a < P.prime)
    (hne : P.residue a ≠ 0) : P.mul (P.inv a) a = P.one :=
  FpPrime.inv_mul_word h hp ha hne

/-- the inverse is unique among reduced words -/
theorem inv_unique {P : FpParams} (h : P.wf = true) (hp : Nat.Prime P.prime) {a b : Nat} (ha : a < P.prime)
    (hb : b < P.prime) (hba : (P.residue b * P.residue a) % P.prime = 1) : b = P.inv a :=
  FpPrime.inv_unique h hp ha hb hba

theorem FP32_inv_correct {a : Nat} (ha : a < FP32.prime) (hne : FP32.residue a ≠ 0) :
    (FP32.residue (FP32.inv a) * FP32.residue a) % FP32.prime = 1 := FpPrime.FP32_inv_correct ha hne
theorem FP64_inv_correct {a : Nat} (ha : a < FP64.prime) (hne : FP64.residue a ≠ 0) :
    (FP64.residue (FP64.inv a) * FP64.residue a) % FP64.prime = 1 := FpPrime.FP64_inv_correct ha hne
theorem FP128_inv_correct {a : Nat} (ha : a < FP128.prime) (hne : FP128.residue a ≠ 0) :
    (FP128.residue (FP128.inv a) * FP128.residue a) % FP128.prime = 1 := FpPrime.FP128_inv_correct ha hne

end Props.C09
