import PrioProofs.Prio2Linear
import PrioProofs.Prio2Complete

/-! # C19 (continued) — the verification message is additive in the share

Proved in `PrioProofs/Prio2Linear.lean` by linearity of every loop of the transform (no assumption on the
root table is needed). -/
namespace Props.C19
open Prio Prio.Prio2 Prio.Ntt

/-- the statement kept in `Props/C19.lean` -/
theorem vmsg_additive : vmsg_additive_statement := Prio.Prio2Linear.vmsg_additive

/-- the first server subtracts the constant once: `vmsg(a + b, first) = vmsg(a, first) + vmsg(b, not first)`,
    which is how leader and helper messages add up to the message of the unshared proof -/
theorem vmsg_additive_first {F : Type} [Field F] [BEq F] [LawfulBEq F] (C : Flp.FieldCtx F) (dim : Nat) (r : F)
    (a b : List F) (va vb vab : VerificationMessage F) (hlen : a.length = b.length)
    (ha : generateVerificationMessage C dim r a true = .ok va)
    (hb : generateVerificationMessage C dim r b false = .ok vb)
    (hc : generateVerificationMessage C dim r (List.zipWith (· + ·) a b) true = .ok vab) :
    vab.fR = va.fR + vb.fR ∧ vab.gR = va.gR + vb.gR ∧ vab.hR = va.hR + vb.hR :=
  Prio.Prio2Linear.vmsg_additive_first C dim r a b va vb vab hlen ha hb hc

/-- **completeness of Prio2.**  For every field with `2 ≠ 0`, every context with the root chain and the
    canonical `ofNat`, every 0/1 data vector the client could prove, every additive sharing of the proof and
    EVERY evaluation point `r`: the two servers' verification messages satisfy the decision identity.
    (Mechanism: `h` interpolated with zeros at the even nodes equals `f·g` exactly because
    `x(x-1) = 0` on 0/1 data — `hPoints_layout` — so `h(r) = f(r) g(r)` identically.) -/
theorem prio2_complete {F : Type} [Field F] [BEq F] [LawfulBEq F] {ω : Nat → F} (C : Flp.FieldCtx F)
    (hof : ∀ n, C.ofNat n = (n : F)) (h2 : (2 : F) ≠ 0)
    (hR : Roots ω maxRoots) (hA : RootsAvail C.root ω maxRoots) (data : List F)
    (hbin : ∀ x ∈ data, x = 0 ∨ x = 1)
    (f0 g0 r : F) (proof helper : List F) (v1 v2 : VerificationMessage F)
    (hc : constructProof C data f0 g0 = .ok proof) (hl : helper.length = proof.length)
    (hv1 : generateVerificationMessage C data.length r (leaderShare proof helper) true = .ok v1)
    (hv2 : generateVerificationMessage C data.length r helper false = .ok v2) :
    isValidShare v1 v2 = true :=
  Prio.Prio2Complete.prio2_complete C hof h2 hR hA data hbin f0 g0 r proof helper v1 v2 hc hl hv1 hv2

/-- … and nothing fails on the way: for data within the transform limit the client's proof exists and both
    verification messages are produced, for any helper share of the right length -/
theorem prio2_complete_total {F : Type} [Field F] [BEq F] [LawfulBEq F] {ω : Nat → F} (C : Flp.FieldCtx F)
    (hof : ∀ n, C.ofNat n = (n : F)) (h2 : (2 : F) ≠ 0)
    (hR : Roots ω maxRoots) (hA : RootsAvail C.root ω maxRoots) (data : List F)
    (hbin : ∀ x ∈ data, x = 0 ∨ x = 1) (hsmall : 2 * Flp.nextPow2 (data.length + 1) ≤ 2 ^ maxRoots)
    (f0 g0 r : F) (helper : List F) (hl : helper.length = proofLength data.length) :
    ∃ proof v1 v2, constructProof C data f0 g0 = .ok proof ∧
      generateVerificationMessage C data.length r (leaderShare proof helper) true = .ok v1 ∧
      generateVerificationMessage C data.length r helper false = .ok v2 ∧ isValidShare v1 v2 = true :=
  Prio.Prio2Complete.prio2_complete_total C hof h2 hR hA data hbin hsmall f0 g0 r helper hl

/-- the unhypothesised formulation is false: with a root table that is present but wrong (all ones) over ℚ,
    `data = [0]`, `f0 = g0 = 1`, `r = 3`, the honest run is rejected -/
theorem unhypothesised_completeness_false : ¬ prio2_complete_unhypothesised :=
  Prio.Prio2Complete.original_statement_false

end Props.C19
