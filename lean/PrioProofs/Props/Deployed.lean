import PrioProofs.Bridge
import PrioProofs.BridgeCheck

/-! # The theorems at the deployed fields and at the driver's own executable instance (C05, C09, C10)

The models are polymorphic; the driver that is compared with the Rust code runs them at `Fin (q + 1)` with Lean
core's instances and the inverse `x^(p-2)`; the theorems are about `[Field F]` and contexts satisfying `CtxOk`.
`PrioProofs/Bridge.lean` closes the gap: `ZMod (q + 1)` *is* `Fin (q + 1)` and its ring operations *are* the core
ones (`rfl`); the driver's inverse is the field inverse for every odd prime modulus (Fermat); the three deployed
contexts satisfy `CtxOk` (root chain and half by kernel evaluation of the tables, primality from C09).
`PrioProofs/BridgeCheck.lean` proves by `rfl` that the instance terms spelled out there are the ones an
import-free elaboration — the driver's — produces (`PrioModel/DriverInst.lean`). -/
namespace Props.Deployed
open Prio Prio.Flp Prio.Bridge Gen Finset

/-- the driver's inverse `a ↦ a^(p-2)` is the field inverse of `ZMod p`, for every prime `p = q + 1 ≥ 3` -/
theorem driver_inv_is_field_inv (q : Nat) [Fact (Nat.Prime (q + 1))] (hq : 2 ≤ q) :
    Prio.finInv q = (inferInstance : Inv (ZMod (q + 1))) :=
  finInv_eq q hq

/-- `query` as the driver evaluates it (import-free elaboration) is `query` over the field `ZMod (q + 1)` -/
theorem driver_query_is_field_query (q : Nat) [Fact (Nat.Prime (q + 1))] (hq : 2 ≤ q) (C : FieldCtx (ZMod (q + 1)))
    (t : TypeSpec) (input proof qr jr : List (ZMod (q + 1))) (ns : Nat) :
    Prio.Driver.query q C t input proof qr jr ns = Flp.query (F := ZMod (q + 1)) C t input proof qr jr ns := by
  rw [Prio.BridgeCheck.query_eq]; exact dQuery_eq q hq C t input proof qr jr ns

theorem driver_prove_is_field_prove (q : Nat) [Fact (Nat.Prime (q + 1))] (hq : 2 ≤ q) (C : FieldCtx (ZMod (q + 1)))
    (t : TypeSpec) (input pr jr : List (ZMod (q + 1))) :
    Prio.Driver.prove q C t input pr jr = Flp.prove (F := ZMod (q + 1)) C t input pr jr := by
  rw [Prio.BridgeCheck.prove_eq]; exact dProve_eq q hq C t input pr jr

/-- the deployed field contexts — the very `fieldCtx` the driver uses — satisfy the hypotheses of the theorems -/
theorem FP32_ctxOk : CtxOk (F := ZMod (q32 + 1)) (Prio.fieldCtx "FP32" q32) (omega FP32 q32) := Prio.Bridge.FP32_ctxOk
theorem FP64_ctxOk : CtxOk (F := ZMod (q64 + 1)) (Prio.fieldCtx "FP64" q64) (omega FP64 q64) := Prio.Bridge.FP64_ctxOk
theorem FP128_ctxOk : CtxOk (F := ZMod (q128 + 1)) (Prio.fieldCtx "FP128" q128) (omega FP128 q128) := Prio.Bridge.FP128_ctxOk

/-- **completeness at the driver's Field64 instance and context** -/
theorem flp_complete_FP64 (t : TypeSpec) (ht : t.WellFormed) (input pr qr jr proof v o : List (Fin (q64 + 1)))
    (hvalid : dValid q64 (Prio.fieldCtx "FP64" q64) t input jr 1 = .ok o) (hzero : ∀ x ∈ o, x = (0 : Fin (q64 + 1)))
    (hprove : dProve q64 (Prio.fieldCtx "FP64" q64) t input pr jr = .ok proof)
    (hquery : dQuery q64 (Prio.fieldCtx "FP64" q64) t input proof qr jr 1 = .ok v) :
    dDecide q64 (Prio.fieldCtx "FP64" q64) t v = .ok true :=
  Prio.Bridge.flp_complete_FP64 t ht input pr qr jr proof v o hvalid hzero hprove hquery

/-- **completeness at the driver's Field128 instance and context** -/
theorem flp_complete_FP128 (t : TypeSpec) (ht : t.WellFormed) (input pr qr jr proof v o : List (Fin (q128 + 1)))
    (hvalid : dValid q128 (Prio.fieldCtx "FP128" q128) t input jr 1 = .ok o) (hzero : ∀ x ∈ o, x = (0 : Fin (q128 + 1)))
    (hprove : dProve q128 (Prio.fieldCtx "FP128" q128) t input pr jr = .ok proof)
    (hquery : dQuery q128 (Prio.fieldCtx "FP128" q128) t input proof qr jr 1 = .ok v) :
    dDecide q128 (Prio.fieldCtx "FP128" q128) t v = .ok true :=
  Prio.Bridge.flp_complete_FP128 t ht input pr qr jr proof v o hvalid hzero hprove hquery

open Classical in
/-- **soundness at the driver's Field64 instance**: at most `(2(p-1)+1) · FP64.prime^(queryRandLen-1)` accepting
    query-randomness vectors for an input with non-zero circuit output, whatever the proof -/
theorem flp_soundness_FP64 (t : TypeSpec) (ht : t.WellFormed) (input jr o : List (Fin (q64 + 1)))
    (hvalid : dValid q64 (Prio.fieldCtx "FP64" q64) t input jr 1 = .ok o) (hnz : ∃ x ∈ o, x ≠ (0 : Fin (q64 + 1)))
    (proof : List (Fin (q64 + 1))) :
    (univ.filter fun qr : Fin t.queryRandLen → Fin (q64 + 1) =>
      ∃ v, dQuery q64 (Prio.fieldCtx "FP64" q64) t input proof (List.ofFn qr) jr 1 = .ok v ∧
        dDecide q64 (Prio.fieldCtx "FP64" q64) t v = .ok true).card ≤
      (2 * (wirePolyLen t.gadgetCalls - 1) + 1) * FP64.prime ^ (t.queryRandLen - 1) :=
  Prio.Bridge.flp_soundness_FP64 t ht input jr o hvalid hnz proof

open Classical in
theorem flp_soundness_FP128 (t : TypeSpec) (ht : t.WellFormed) (input jr o : List (Fin (q128 + 1)))
    (hvalid : dValid q128 (Prio.fieldCtx "FP128" q128) t input jr 1 = .ok o) (hnz : ∃ x ∈ o, x ≠ (0 : Fin (q128 + 1)))
    (proof : List (Fin (q128 + 1))) :
    (univ.filter fun qr : Fin t.queryRandLen → Fin (q128 + 1) =>
      ∃ v, dQuery q128 (Prio.fieldCtx "FP128" q128) t input proof (List.ofFn qr) jr 1 = .ok v ∧
        dDecide q128 (Prio.fieldCtx "FP128" q128) t v = .ok true).card ≤
      (2 * (wirePolyLen t.gadgetCalls - 1) + 1) * FP128.prime ^ (t.queryRandLen - 1) :=
  Prio.Bridge.flp_soundness_FP128 t ht input jr o hvalid hnz proof

/-- **the transform at the driver's instance is the DFT**, for every odd prime modulus and `CtxOk` context -/
theorem ntt_is_dft_driver (q : Nat) [Fact (Nat.Prime (q + 1))] (C : FieldCtx (DF q)) (ω : Nat → ZMod (q + 1))
    (hC : CtxOk (F := ZMod (q + 1)) C ω) (setS : Bool) (d outLen : Nat) (outp inp : Array (DF q))
    (hd : d ≤ Prio.Ntt.maxRoots) (hds : setS = true → d ≤ Prio.Ntt.maxRoots - 1) (hol : 2 ^ d ≤ outLen)
    (hop : 2 ^ d ≤ outp.size) (hne : d = 0 → inp.size ≠ 0) :
    ∃ a, dNttInternal q C.root outLen outp inp (2 ^ d) setS = .ok a ∧ a.size = outp.size ∧
      ∀ k, k < 2 ^ d → Prio.Bridge.toZ q (a.getD k 0) =
        ∑ t ∈ range (2 ^ d), Prio.Bridge.toZ q (inp.getD t 0) * (Prio.Ntt.sigma ω setS d * ω d ^ k) ^ t :=
  Prio.Bridge.ntt_is_dft_driver q C ω hC setS d outLen outp inp hd hds hol hop hne

end Props.Deployed
