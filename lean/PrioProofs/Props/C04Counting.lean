import PrioProofs.SketchSoundness

/-! # C04 (continued) — the probabilistic half of Poplar1 robustness as a counting theorem

`robust_core` (Props/C04.lean): a sketch polynomial that vanishes for *every* verification randomness
comes from an honest-shaped report.  Here: a report that is not honest-shaped passes the sketch for at
most a `2/|F|` fraction of the verification randomness (Schwartz–Zippel for the explicit degree-2
polynomial; proved in `PrioProofs/SketchSoundness.lean` from Mathlib's `schwartz_zippel_totalDegree`). -/
namespace Props.C04

variable {F : Type} [Field F] [Fintype F] [DecidableEq F]

/-- a sketch polynomial that is not identically zero vanishes on at most `2·|F|^(n-1)` of the `|F|^n`
    verification-randomness vectors -/
theorem sketch_zero_count {n : Nat} (y w : Fin n → F) (K c0 : F)
    (hne : ∃ r : Fin n → F, P y w K c0 r ≠ 0) :
    (Finset.univ.filter fun r : Fin n → F => P y w K c0 r = 0).card * Fintype.card F
      ≤ 2 * Fintype.card F ^ n :=
  Prio.SketchSoundness.sketch_zero_count y w K c0 hne

/-- **robustness, counting form**: summed IDPF outputs `(y, w)` and offset `c0` that are *not* a zero or
    one-hot 0/1 vector with consistent authenticators are accepted by at most `2·|F|^(n-1)` of the
    `|F|^n` choices of verification randomness -/
theorem robust_counting {n : Nat} (h2 : (2 : F) ≠ 0) (y w : Fin n → F) (K c0 : F)
    (hbad : ¬ (c0 = 0 ∧ (∀ i, y i = 0 ∨ y i = 1) ∧ (∀ i j, i ≠ j → y i * y j = 0) ∧ (∀ i, w i = K * y i))) :
    (Finset.univ.filter fun r : Fin n → F => P y w K c0 r = 0).card * Fintype.card F
      ≤ 2 * Fintype.card F ^ n :=
  Prio.SketchSoundness.robust_counting h2 y w K c0 hbad

/-- … as a probability: at most `2/|F|` -/
theorem robust_fraction {n : Nat} (h2 : (2 : F) ≠ 0) (y w : Fin n → F) (K c0 : F)
    (hbad : ¬ (c0 = 0 ∧ (∀ i, y i = 0 ∨ y i = 1) ∧ (∀ i j, i ≠ j → y i * y j = 0) ∧ (∀ i, w i = K * y i))) :
    ((Finset.univ.filter fun r : Fin n → F => P y w K c0 r = 0).card : ℚ)
        / (Fintype.card F : ℚ) ^ n ≤ 2 / (Fintype.card F : ℚ) :=
  Prio.SketchSoundness.robust_fraction h2 y w K c0 hbad

end Props.C04
