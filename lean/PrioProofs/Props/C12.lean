import PrioModel.PingPong
import PrioModel.TraceVdaf
import Mathlib.Tactic.Cases

/-! # C12 — the ping-pong topology follows the specified state machine and survives restarts -/
namespace Props.C12
open Prio.PP

variable {St Sh Msg Out : Type}

/-- the aggregator's wire codecs round-trip when the decoder's state is in the round the share or
    message belongs to (decoders of multi-round VDAFs are state-dependent), and rounds advance in
    lock step.  `rS`, `rSh`, `rM` give the round of a state, a share and a message. -/
structure CodecOk (A : Agg St Sh Msg Out) (rS : St → Nat) (rSh : Sh → Nat) (rM : Msg → Nat) : Prop where
  sh : ∀ st s, rSh s = rS st → A.decSh st (A.encSh s) = some s
  msg : ∀ st m, rM m = rS st → A.decMsg st (A.encMsg m) = some m
  init0 : ∀ i st s, A.init i = some (st, s) → rS st = 0 ∧ rSh s = 0
  comb : ∀ a b m, A.combine [a, b] = some m → rSh a = rSh b → rM m = rSh a
  next_c : ∀ st m st' s', A.next st m = some (.cont st' s') → rS st' = rS st + 1 ∧ rSh s' = rS st + 1

/-! ## wrong kinds are refused, and a refusal never releases an output share -/

/-- an `Initialize` message offered to a continuing party is refused -/
theorem initialize_refused_when_continuing (A : Agg St Sh Msg Out) (isLeader : Bool) (st : St) (b : Bytes) :
    continued A isLeader st (.init b) = none := rfl

/-- anything but `Initialize` offered to an initialising helper is refused -/
theorem non_initialize_refused_by_helper (A : Agg St Sh Msg Out) (m : Message)
    (h : ∀ b, m ≠ .init b) : helperInitialized A m = none := by
  unfold helperInitialized
  cases A.init 1 with
  | none => rfl
  | some p => cases m with
    | init b => exact absurd rfl (h b)
    | cont a b => rfl
    | fin a => rfl

/-- `Finish` where the host's own transition continues, and `Continue` where it finishes, are refused -/
theorem finish_refused_when_host_continues (A : Agg St Sh Msg Out) (isLeader : Bool) (st st' : St) (mb : Bytes)
    (m : Msg) (sh : Sh) (hd : A.decMsg st mb = some m) (hn : A.next st m = some (.cont st' sh)) :
    continued A isLeader st (.fin mb) = none := by
  simp [continued, hd, hn]

theorem continue_refused_when_host_finishes (A : Agg St Sh Msg Out) (isLeader : Bool) (st : St) (mb sb : Bytes)
    (m : Msg) (out : Out) (hd : A.decMsg st mb = some m) (hn : A.next st m = some (.fin out)) :
    continued A isLeader st (.cont mb sb) = none := by
  simp [continued, hd, hn]

/-- undecodable payloads are refused -/
theorem undecodable_refused (A : Agg St Sh Msg Out) (isLeader : Bool) (st : St) (mb : Bytes) (rest : Option Bytes)
    (hd : A.decMsg st mb = none) :
    continued A isLeader st (match rest with | some sb => .cont mb sb | none => .fin mb) = none := by
  cases rest <;> simp [continued, hd]

/-- a message from another round is refused whenever the aggregator itself refuses it (its
    state-dependent decoder or `verify_next` returns an error) -/
theorem wrong_round_refused (A : Agg St Sh Msg Out) (isLeader : Bool) (st : St) (inbound : Message)
    (h : ∀ mb, (inbound = .fin mb ∨ ∃ sb, inbound = .cont mb sb) →
      ∀ m, A.decMsg st mb = some m → A.next st m = none) :
    continued A isLeader st inbound = none := by
  cases inbound with
  | init b => rfl
  | cont mb sb =>
    simp only [continued]
    cases hd : A.decMsg st mb with
    | none => rfl
    | some m => simp [h mb (Or.inr ⟨sb, rfl⟩) m hd]
  | fin mb =>
    simp only [continued]
    cases hd : A.decMsg st mb with
    | none => rfl
    | some m => simp [h mb (Or.inl rfl) m hd]

/-- an output share is released only by a transition of the aggregator that finishes: if `continued`
    yields an output share then `verify_next` on the decoded message produced exactly it -/
theorem output_only_from_finish (A : Agg St Sh Msg Out) (isLeader : Bool) (st : St) (inbound : Message) (out : Out)
    (h : continued A isLeader st inbound = some (.outputShare out)) :
    ∃ mb m, inbound = .fin mb ∧ A.decMsg st mb = some m ∧ A.next st m = some (.fin out) := by
  cases inbound with
  | init b => simp [continued] at h
  | cont mb sb =>
    simp only [continued] at h
    cases hd : A.decMsg st mb with
    | none => simp [hd] at h
    | some m =>
      simp only [hd] at h
      cases hn : A.next st m with
      | none => simp [hn] at h
      | some t =>
        cases t with
        | cont st' hs =>
          simp only [hn] at h
          cases hs2 : A.decSh st' sb with
          | none => simp [hs2] at h
          | some peer =>
            simp only [hs2] at h
            split at h <;> simp at h
        | fin o => simp [hn] at h
  | fin mb =>
    simp only [continued] at h
    cases hd : A.decMsg st mb with
    | none => simp [hd] at h
    | some m =>
      simp only [hd] at h
      cases hn : A.next st m with
      | none => simp [hn] at h
      | some t =>
        cases t with
        | cont st' hs => simp [hn] at h
        | fin o =>
          simp only [hn, Option.some.injEq, Cont.outputShare.injEq] at h
          exact ⟨mb, m, rfl, hd, by rw [hn, h]⟩

/-! ## the exchange computes the broadcast execution, with shares in aggregator order -/

/-- the party that sent `inbound` has applied message `m` to its state `stY` -/
def Sent (A : Agg St Sh Msg Out) (stY : St) (m : Msg) (other : Party St Out) (inbound : Message) : Prop :=
  match A.next stY m with
  | some (.cont stY' shY') => other = .waiting stY' ∧ inbound = .cont (A.encMsg m) (A.encSh shY')
  | some (.fin oY) => other = .done oY ∧ inbound = .fin (A.encMsg m)
  | none => False

theorem exchange_eq_broadcast (A : Agg St Sh Msg Out) {rS : St → Nat} {rSh : Sh → Nat} {rM : Msg → Nat}
    (hc : CodecOk A rS rSh rM) :
    ∀ (fuel : Nat) (isLeader : Bool) (stX stY : St) (m : Msg) (other : Party St Out) (inbound : Message),
      rS stX = rM m → rS stY = rM m →
      Sent A stY m other inbound →
      exchange A fuel isLeader stX other inbound =
        if isLeader then broadcastFrom A fuel stX stY m else broadcastFrom A fuel stY stX m := by
  intro fuel
  induction fuel with
  | zero => intro isLeader stX stY m other inbound _ _ _; cases isLeader <;> simp [exchange, broadcastFrom]
  | succ fuel ih =>
    intro isLeader stX stY m other inbound hrX hrY hs
    unfold Sent at hs
    have hdm : A.decMsg stX (A.encMsg m) = some m := hc.msg stX m hrX.symm
    cases hY : A.next stY m with
    | none => simp [hY] at hs
    | some tY =>
      cases tY with
      | fin oY =>
        simp only [hY] at hs
        obtain ⟨rfl, rfl⟩ := hs
        simp only [exchange, continued, hdm]
        cases hX : A.next stX m with
        | none => cases isLeader <;> simp [broadcastFrom, hX, hY]
        | some tX =>
          cases tX with
          | fin oX => cases isLeader <;> simp [broadcastFrom, hX, hY, evaluate]
          | cont stX' shX' => cases isLeader <;> simp [broadcastFrom, hX, hY]
      | cont stY' shY' =>
        simp only [hY] at hs
        obtain ⟨rfl, rfl⟩ := hs
        simp only [exchange, continued, hdm]
        cases hX : A.next stX m with
        | none => cases isLeader <;> simp [broadcastFrom, hX, hY]
        | some tX =>
          cases tX with
          | fin oX => cases isLeader <;> simp [broadcastFrom, hX, hY]
          | cont stX' shX' =>
            obtain ⟨rX', rshX'⟩ := hc.next_c stX m stX' shX' hX
            obtain ⟨rY', rshY'⟩ := hc.next_c stY m stY' shY' hY
            have hds : A.decSh stX' (A.encSh shY') = some shY' := hc.sh stX' shY' (by omega)
            simp only [hds]
            cases isLeader with
            | true =>
              simp only [if_true, broadcastFrom, hX, hY]
              cases hm : A.combine [shX', shY'] with
              | none => simp
              | some m' =>
                have hrm : rM m' = rSh shX' := hc.comb _ _ _ hm (by omega)
                simp only [Option.bind_some, evaluate]
                cases hX' : A.next stX' m' with
                | none =>
                  simp only
                  cases fuel with
                  | zero => simp [broadcastFrom]
                  | succ f => simp [broadcastFrom, hX']
                | some t =>
                  cases t with
                  | cont stX'' shX'' =>
                    simp only [Bool.not_true]
                    have := ih false stY' stX' m' (.waiting stX'') (.cont (A.encMsg m') (A.encSh shX''))
                      (by omega) (by omega) (by simp [Sent, hX'])
                    simpa using this
                  | fin oX =>
                    simp only [Bool.not_true]
                    have := ih false stY' stX' m' (.done oX) (.fin (A.encMsg m')) (by omega) (by omega)
                      (by simp [Sent, hX'])
                    simpa using this
            | false =>
              simp only [Bool.false_eq_true, if_false, broadcastFrom, hX, hY]
              cases hm : A.combine [shY', shX'] with
              | none => simp
              | some m' =>
                have hrm : rM m' = rSh shY' := hc.comb _ _ _ hm (by omega)
                simp only [Option.bind_some, evaluate]
                cases hX' : A.next stX' m' with
                | none =>
                  simp only
                  cases fuel with
                  | zero => simp [broadcastFrom]
                  | succ f =>
                    simp only [broadcastFrom, hX']
                    cases A.next stY' m' with
                    | none => rfl
                    | some t => cases t <;> rfl
                | some t =>
                  cases t with
                  | cont stX'' shX'' =>
                    simp only [Bool.not_false]
                    have := ih true stY' stX' m' (.waiting stX'') (.cont (A.encMsg m') (A.encSh shX''))
                      (by omega) (by omega) (by simp [Sent, hX'])
                    simpa using this
                  | fin oX =>
                    simp only [Bool.not_false]
                    have := ih true stY' stX' m' (.done oX) (.fin (A.encMsg m')) (by omega) (by omega)
                      (by simp [Sent, hX'])
                    simpa using this

/-- **refinement**: for any aggregator (any number of rounds) whose codecs round-trip, the ping-pong
    run ends with exactly the outputs of the direct broadcast execution — or fails exactly when it does -/
theorem pingpong_refines_broadcast (A : Agg St Sh Msg Out) {rS : St → Nat} {rSh : Sh → Nat} {rM : Msg → Nat}
    (hc : CodecOk A rS rSh rM) (fuel : Nat) :
    run A fuel = broadcast A fuel := by
  unfold run broadcast leaderInitialized helperInitialized
  cases h0 : A.init 0 with
  | none => simp
  | some p0 =>
    obtain ⟨stL, shL⟩ := p0
    cases h1 : A.init 1 with
    | none => simp
    | some p1 =>
      obtain ⟨stH, shH⟩ := p1
      obtain ⟨rL, rshL⟩ := hc.init0 0 stL shL h0
      obtain ⟨rH, rshH⟩ := hc.init0 1 stH shH h1
      have hds : A.decSh stH (A.encSh shL) = some shL := hc.sh stH shL (by omega)
      simp only [hds]
      cases hm : A.combine [shL, shH] with
      | none => simp
      | some m =>
        have hrm : rM m = rSh shL := hc.comb _ _ _ hm (by omega)
        simp only [Option.bind_some, evaluate]
        cases hH : A.next stH m with
        | none =>
          simp only
          cases fuel with
          | zero => simp [broadcastFrom]
          | succ f =>
            simp only [broadcastFrom, hH]
            cases A.next stL m with
            | none => rfl
            | some t => cases t <;> rfl
        | some t =>
          cases t with
          | cont stH' shH' =>
            have := exchange_eq_broadcast A hc fuel true stL stH m (.waiting stH')
              (.cont (A.encMsg m) (A.encSh shH')) (by omega) (by omega) (by simp [Sent, hH])
            simpa using this
          | fin oH =>
            have := exchange_eq_broadcast A hc fuel true stL stH m (.done oH) (.fin (A.encMsg m))
              (by omega) (by omega) (by simp [Sent, hH])
            simpa using this

/-! ## continuations -/

/-- evaluating a continuation is a function of the continuation alone: evaluating it again (after a
    restart, any number of times) gives the same state and outbound message.  With a codec that
    round-trips (`decode (encode c) = c`, C07) this is `evaluate (decode (encode c)) = evaluate c`. -/
theorem continuation_stable (A : Agg St Sh Msg Out) (c c' : Cont St Msg Out) (h : c' = c) :
    evaluate A c' = evaluate A c := by rw [h]

/-- only transitions are persisted: a finished continuation has no encoding -/
def encodeCont (encSt : St → Bytes) (A : Agg St Sh Msg Out) : Cont St Msg Out → Option Bytes
  | .transition st m => some (encSt st ++ A.encMsg m)
  | .outputShare _ => none

theorem output_share_not_encodable (encSt : St → Bytes) (A : Agg St Sh Msg Out) (o : Out) :
    encodeCont encSt A (.outputShare o) = none := rfl

/-! ## non-vacuity: the instrumented, round-checking aggregator meets the hypotheses -/

theorem trace_codec_ok (rounds sL sH : Nat) (hL : sL < 256) (hH : sH < 256) :
    CodecOk (Prio.Trace.agg rounds sL sH) (·.round) (·.round) (·.round) where
  sh := by intro st s h; cases s; simp_all [Prio.Trace.agg]
  msg := by intro st m h; cases m; simp_all [Prio.Trace.agg]
  init0 := by
    intro i st s h
    simp only [Prio.Trace.agg] at h
    split at h
    · simp only [Option.some.injEq, Prod.mk.injEq] at h; obtain ⟨rfl, rfl⟩ := h; simp [Prio.Trace.shareOf]
    · split at h
      · simp only [Option.some.injEq, Prod.mk.injEq] at h; obtain ⟨rfl, rfl⟩ := h; simp [Prio.Trace.shareOf]
      · cases h
  comb := by
    intro a b m h _
    simp only [Prio.Trace.agg] at h
    split at h
    · simp only [Option.some.injEq] at h; subst h; rfl
    · cases h
  next_c := by
    intro st m st' s' h
    simp only [Prio.Trace.agg] at h
    split at h
    · cases h
    · split at h
      · cases h
      · simp only [Option.some.injEq, Transition.cont.injEq] at h
        obtain ⟨rfl, rfl⟩ := h
        simp [Prio.Trace.shareOf]

/-- a concrete three-round run: ping-pong and broadcast agree and both finish -/
example : (run (Prio.Trace.agg 3 78 156) 10).isSome = true ∧
    (run (Prio.Trace.agg 3 78 156) 10).map (fun o => (o.1.acc, o.2.acc))
      = (broadcast (Prio.Trace.agg 3 78 156) 10).map (fun o => (o.1.acc, o.2.acc)) := by decide

end Props.C12
