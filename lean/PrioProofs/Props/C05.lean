import PrioModel.Flp
import PrioProofs.FlpCircuit
import PrioProofs.FlpLinear
import PrioProofs.FlpComplete
import PrioProofs.FlpSound
import Mathlib.Algebra.Field.Basic
import Mathlib.Tactic.Ring
import Mathlib.Tactic.Linarith

/-! # C05 — FLP prove/query/decide: complete, sound, share-linear, length-exact -/
namespace Props.C05
open Prio.Flp Prio.Ntt

section generic
variable {F : Type} [Add F] [Sub F] [Mul F] [Neg F] [Zero F] [One F] [Inv F] [BEq F]

/-! ## wrong-length arguments are refused with an error -/

theorem prove_wrong_length (C : FieldCtx F) (t : TypeSpec) (input pr jr : List F)
    (h : input.length ≠ t.inputLen ∨ pr.length ≠ t.proveRandLen ∨ jr.length ≠ t.jointRandLen) :
    prove C t input pr jr = .err := by
  unfold prove proveCore
  by_cases h1 : input.length ≠ t.inputLen
  · rw [if_pos h1]
  · rw [if_neg h1]
    by_cases h2 : pr.length ≠ t.proveRandLen
    · rw [if_pos h2]
    · rw [if_neg h2]
      have h3 : jr.length ≠ t.jointRandLen := by tauto
      rw [if_pos h3]

theorem query_wrong_length (C : FieldCtx F) (t : TypeSpec) (input proof qr jr : List F) (ns : Nat)
    (h : input.length ≠ t.inputLen ∨ proof.length ≠ t.proofLen ∨ qr.length ≠ t.queryRandLen ∨
      jr.length ≠ t.jointRandLen) :
    query C t input proof qr jr ns = .err := by
  unfold query queryCore
  by_cases h1 : input.length ≠ t.inputLen
  · rw [if_pos h1]
  · rw [if_neg h1]
    by_cases h2 : proof.length ≠ t.proofLen
    · rw [if_pos h2]
    · rw [if_neg h2]
      by_cases h3 : qr.length ≠ t.queryRandLen
      · rw [if_pos h3]
      · rw [if_neg h3]
        have h4 : jr.length ≠ t.jointRandLen := by tauto
        dsimp only
        by_cases hq : (if t.evalOutputLen > 1 then List.drop t.evalOutputLen qr else qr).length ≠ 1
        · rw [if_pos hq]
        · rw [if_neg hq, if_pos h4]

theorem decide_wrong_length (C : FieldCtx F) (t : TypeSpec) (v : List F) (h : v.length ≠ t.verifierLen) :
    Prio.Flp.decide C t v = .err := by
  unfold Prio.Flp.decide; rw [if_pos h]

/-! ## query randomness on the wire-polynomial domain is refused -/

theorem root_of_unity_refused (C : FieldCtx F) (t : TypeSpec) (input proof qr jr : List F) (ns : Nat)
    (h : (Prio.fpow ((if t.evalOutputLen > 1 then qr.drop t.evalOutputLen else qr).getD 0 0)
      (wirePolyLen (t.gadget C).calls) == 1) = true) :
    query C t input proof qr jr ns = .err := by
  unfold query queryCore
  by_cases h1 : input.length ≠ t.inputLen
  · rw [if_pos h1]
  · rw [if_neg h1]
    by_cases h2 : proof.length ≠ t.proofLen
    · rw [if_pos h2]
    · rw [if_neg h2]
      by_cases h3 : qr.length ≠ t.queryRandLen
      · rw [if_pos h3]
      · rw [if_neg h3]
        dsimp only
        by_cases hq : (if t.evalOutputLen > 1 then List.drop t.evalOutputLen qr else qr).length ≠ 1
        · rw [if_pos hq]
        · rw [if_neg hq]
          by_cases h4 : jr.length ≠ t.jointRandLen
          · rw [if_pos h4]
          · rw [if_neg h4, if_pos h]

/-! ## decision logic -/

/-- `decide` accepts exactly when the compressed circuit output is zero and the gadget applied to
    the wire evaluations equals the gadget-polynomial evaluation -/
theorem decide_iff (C : FieldCtx F) (t : TypeSpec) (v : List F) (hl : v.length = t.verifierLen)
    (hv : t.verifierLen = 1 + (t.gadget C).arity + 1) :
    Prio.Flp.decide C t v = .ok true ↔
      (v.headD 0 == 0) = true ∧
      ∃ g, (t.gadget C).eval ((v.drop 1).take (t.gadget C).arity) = .ok g ∧
        (g == v.getD (1 + ((v.drop 1).take (t.gadget C).arity).length) 0) = true := by
  unfold Prio.Flp.decide
  have h1 : ¬ v.length ≠ t.verifierLen := by simp [hl]
  have h2 : ¬ 1 + (t.gadget C).arity ≥ v.length := by omega
  simp only [h1, if_false, h2]
  by_cases h0 : (v.headD 0 == 0) = true
  · simp only [h0, Bool.not_true, Bool.false_eq_true, if_false, true_and]
    cases he : (t.gadget C).eval ((v.drop 1).take (t.gadget C).arity) with
    | ok g => simp
    | err => simp
    | panic => simp
  · have h0' : (v.headD 0 == 0) = false := by simpa using h0
    rw [h0']; simp

end generic

/-! ## declared lengths are the structural lengths -/

theorem nextPow2_two : nextPow2 2 = 2 := by decide

section lengths
variable {F : Type} [Field F] [BEq F] [LawfulBEq F]

theorem polyDeg_range_check (C : FieldCtx F) (h1 : C.ofNat 1 = 1) : polyDeg ([0, -(C.ofNat 1), 1] : List F) = 2 := by
  have : ((1 : F) == 0) = false := by simp
  simp [polyDeg, polyDeg.go, this]

/-- `proof_len = arity + degree·(P−1) + 1`, `verifier_len = 1 + arity + 1`, `prove_rand_len = arity`,
    for every type and all parameters -/
theorem lengths_exact (C : FieldCtx F) (h1 : C.ofNat 1 = 1) (t : TypeSpec) :
    t.proofLen = (t.gadget C).arity + gadgetPolyLen (t.gadget C).degree (wirePolyLen (t.gadget C).calls) ∧
    t.verifierLen = 1 + (t.gadget C).arity + 1 ∧ t.proveRandLen = (t.gadget C).arity := by
  cases t with
  | count =>
    simp [TypeSpec.proofLen, TypeSpec.verifierLen, TypeSpec.proveRandLen, TypeSpec.gadget, Gadget.arity,
      Gadget.degree, gadgetPolyLen, wirePolyLen, nextPow2_two]
  | sum bits =>
    refine ⟨?_, ?_, ?_⟩ <;>
    simp only [TypeSpec.proofLen, TypeSpec.verifierLen, TypeSpec.proveRandLen, TypeSpec.gadget, Gadget.arity,
      Gadget.degree, gadgetPolyLen, wirePolyLen, polyDeg_range_check C h1] <;> omega
  | histogram l c =>
    refine ⟨?_, ?_, ?_⟩ <;>
    simp only [TypeSpec.proofLen, TypeSpec.verifierLen, TypeSpec.proveRandLen, TypeSpec.gadget, Gadget.arity,
      Gadget.degree, gadgetPolyLen, wirePolyLen, TypeSpec.chunkLen] <;> omega
  | multihot l b w c =>
    refine ⟨?_, ?_, ?_⟩ <;>
    simp only [TypeSpec.proofLen, TypeSpec.verifierLen, TypeSpec.proveRandLen, TypeSpec.gadget, Gadget.arity,
      Gadget.degree, gadgetPolyLen, wirePolyLen, TypeSpec.chunkLen] <;> omega
  | sumVec l b w c =>
    refine ⟨?_, ?_, ?_⟩ <;>
    simp only [TypeSpec.proofLen, TypeSpec.verifierLen, TypeSpec.proveRandLen, TypeSpec.gadget, Gadget.arity,
      Gadget.degree, gadgetPolyLen, wirePolyLen, TypeSpec.chunkLen] <;> omega
  | l1BoundSum l b w c =>
    refine ⟨?_, ?_, ?_⟩ <;>
    simp only [TypeSpec.proofLen, TypeSpec.verifierLen, TypeSpec.proveRandLen, TypeSpec.gadget, Gadget.arity,
      Gadget.degree, gadgetPolyLen, wirePolyLen, TypeSpec.chunkLen] <;> omega

theorem checkLen_ok (n : Nat) (l v : List F) (h : checkLen n l = .ok v) : v.length = n := by
  unfold checkLen at h
  split at h
  · cases h
  · rename_i hl
    simp only [Res.ok.injEq] at h
    subst h; simpa using hl

theorem prove_length (C : FieldCtx F) (t : TypeSpec) (input pr jr proof : List F)
    (h : prove C t input pr jr = .ok proof) : proof.length = t.proofLen := by
  unfold prove at h
  split at h
  · exact checkLen_ok _ _ _ h
  · cases h
  · cases h

theorem query_length (C : FieldCtx F) (t : TypeSpec) (input proof qr jr v : List F) (ns : Nat)
    (h : query C t input proof qr jr ns = .ok v) : v.length = t.verifierLen := by
  unfold query at h
  split at h
  · exact checkLen_ok _ _ _ h
  · cases h
  · cases h

end lengths

/-! ## completeness of the circuits on valid inputs (plain gadgets) -/

/- `LawfulMonad Res` and `mapM_ok` are in `PrioProofs/FlpCircuit.lean`. -/

section circuits
variable {F : Type} [Field F] [BEq F] [LawfulBEq F]

/-- Count: a bit satisfies the circuit -/
theorem count_complete (C : FieldCtx F) (x : F) (hx : x = 0 ∨ x = 1) (ns : Nat) :
    valid C .count [x] [] ns = .ok [0] := by
  rcases hx with rfl | rfl <;>
    simp [valid, TypeSpec.inputLen, TypeSpec.jointRandLen, validCircuit, TypeSpec.gadget, Gadget.eval, Gadget.arity,
      bind, pure]

/-- Count: anything else does not -/
theorem count_sound (C : FieldCtx F) (x : F) (hx : x ≠ 0 ∧ x ≠ 1) (ns : Nat) :
    ∃ o, valid C .count [x] [] ns = .ok [o] ∧ o ≠ 0 := by
  refine ⟨x * x - x, ?_, ?_⟩
  · simp [valid, TypeSpec.inputLen, TypeSpec.jointRandLen, validCircuit, TypeSpec.gadget, Gadget.eval, Gadget.arity,
      bind, pure]
  · intro h
    have : x * (x - 1) = 0 := by rw [← h]; ring
    rcases mul_eq_zero.mp this with h0 | h1
    · exact hx.1 h0
    · exact hx.2 (sub_eq_zero.mp h1)

/-- the range-check polynomial of `Sum` vanishes exactly on bits -/
theorem range_check_poly (C : FieldCtx F) (h1 : C.ofNat 1 = 1) (x : F) :
    polyEvalMonomial ([0, -(C.ofNat 1), 1] : List F) x = x * x - x := by
  simp [polyEvalMonomial, h1]; ring

theorem sum_bit_gadget (C : FieldCtx F) (h1 : C.ofNat 1 = 1) (bits : Nat) (x : F) :
    ((TypeSpec.sum bits).gadget C).eval [x] = .ok (x * x - x) := by
  simp [TypeSpec.gadget, Gadget.eval, Gadget.arity, range_check_poly C h1]

/-- Sum: every vector of bits of the right length satisfies the circuit -/
theorem sum_complete (C : FieldCtx F) (h1 : C.ofNat 1 = 1) (bits : Nat) (input : List F)
    (hl : input.length = bits) (hb : ∀ x ∈ input, x = 0 ∨ x = 1) (ns : Nat) :
    valid C (.sum bits) input [] ns = .ok (List.replicate bits 0) := by
  unfold valid
  have h0 : ¬ (input.length ≠ (TypeSpec.sum bits).inputLen ∨ ([] : List F).length ≠ (TypeSpec.sum bits).jointRandLen) := by
    simp [TypeSpec.inputLen, TypeSpec.jointRandLen, hl]
  simp only [h0, if_false, validCircuit]
  rw [mapM_ok _ (fun _ => (0 : F))]
  · subst hl; simp [List.map_const']
  · intro x hx
    rw [sum_bit_gadget C h1]
    have : x * x - x = 0 := by rcases hb x hx with rfl | rfl <;> ring
    rw [this]

end circuits

/-! ## share linearity of `query` (proved in `PrioProofs/FlpLinear.lean`) -/

/-- **`query` is linear over additive shares.**  For every field, every type, every number of shares
    `n` that is invertible in the field, every query and joint randomness: if the query on the sums of
    the input shares and of the proof shares (with `num_shares = 1`) yields the verifier `whole`, then
    every aggregator's query on its own shares (with `num_shares = n`) succeeds, and the entrywise sum
    of their verifier shares is `whole`.  (Each share has the declared length — the decoder enforces
    it — and `C.ofNat` is the canonical map ℕ → F.) -/
theorem query_share_linear {F : Type} [Field F] [BEq F] [LawfulBEq F] (C : FieldCtx F)
    (hC : ∀ n, C.ofNat n = (n : F)) (t : TypeSpec) (inputs proofs : List (List F)) (qr jr whole : List F)
    (hlen : inputs.length = proofs.length) (hne : inputs ≠ [])
    (hin : ∀ x ∈ inputs, x.length = t.inputLen) (hpr : ∀ x ∈ proofs, x.length = t.proofLen)
    (hns : ((inputs.length : Nat) : F) ≠ 0)
    (hq : query C t (vsum t.inputLen inputs) (vsum t.proofLen proofs) qr jr 1 = .ok whole) :
    ∃ vs : List (List F), vs.length = inputs.length ∧
      (∀ i (hi : i < inputs.length) (hp : i < proofs.length) (h : i < vs.length),
          query C t (inputs[i]) (proofs[i]) qr jr inputs.length = .ok (vs[i])) ∧
      vsum t.verifierLen vs = whole :=
  Prio.Flp.query_share_linear C hC t inputs proofs qr jr whole hlen hne hin hpr hns hq

/-- non-vacuity: two shares of Count over ℚ meet the hypotheses' shape (lengths, invertible count) -/
example : ([[1], [0]] : List (List ℚ)).length = ([[0, 0, 0, 0, 0], [0, 0, 0, 0, 0]] : List (List ℚ)).length ∧
    (∀ x ∈ ([[1], [0]] : List (List ℚ)), x.length = TypeSpec.count.inputLen) ∧
    (∀ x ∈ ([[0, 0, 0, 0, 0], [0, 0, 0, 0, 0]] : List (List ℚ)), x.length = TypeSpec.count.proofLen) ∧
    ((2 : Nat) : ℚ) ≠ 0 := by
  refine ⟨rfl, ?_, ?_, by norm_num⟩ <;> simp [TypeSpec.inputLen, TypeSpec.proofLen]

/-! ## completeness of the proof system (proved in `PrioProofs/FlpComplete.lean`) -/

/-- **completeness.**  For every field, every context the Rust code instantiates (`CtxOk`: the tabulated
    roots form a root chain, `half = 1/2`, `ofNat` canonical, `2 ≠ 0`), every type that makes at least one
    gadget call, every input accepted by the validity circuit (all circuit outputs zero), every prover,
    joint and query randomness: if `prove` produced a proof and `query` did not refuse the query randomness,
    `decide` accepts.  (Through: the recorded wire values interpolate to the wire polynomials; the gadget
    polynomial of the proof is the gadget applied to them, also after being cut to `2p-1` values and
    re-extended by the verifier; the verifier reads the true gadget outputs off it at the wire nodes; the
    Lagrange evaluations at `r` satisfy the gadget identity as a polynomial identity.) -/
theorem flp_complete {F : Type} [Field F] [BEq F] [LawfulBEq F] (C : FieldCtx F) (ω : Nat → F) (hC : CtxOk C ω)
    (t : TypeSpec) (ht : t.WellFormed)
    (input pr qr jr proof v o : List F)
    (hvalid : valid C t input jr 1 = .ok o) (hzero : ∀ x ∈ o, x = 0)
    (hprove : prove C t input pr jr = .ok proof)
    (hquery : query C t input proof qr jr 1 = .ok v) :
    Prio.Flp.decide C t v = .ok true :=
  Prio.Flp.flp_complete C ω hC t ht input pr qr jr proof v o hvalid hzero hprove hquery

/-! ## soundness of the proof system as a counting theorem (proved in `PrioProofs/FlpSound.lean`) -/

/-- **the gadget test.**  Whatever proof the prover sends: either its gadget polynomial is the honest one — and
    then every accepting query saw the true circuit output `o` and a zero check value — or all accepting
    queries have their evaluation point in a fixed set of at most `2(p-1)` points (the roots of the non-zero
    difference polynomial `G(W₁,…,W_a) − GP`, `p` the wire-polynomial length) -/
theorem flp_gadget_dichotomy {F : Type} [Field F] [BEq F] [Fintype F] [LawfulBEq F] {ω : Nat → F} (C : FieldCtx F)
    (hC : CtxOk C ω) (t : TypeSpec) (ht : t.WellFormed)
    (input jr proof o : List F) (hvalid : valid C t input jr 1 = .ok o) :
    (∀ qr v, query C t input proof qr jr 1 = .ok v → Prio.Flp.decide C t v = .ok true →
      verifierOutput C t input proof jr = .ok o ∧ checkOf o (qrValidityOf t qr) = 0) ∨
    (∃ S : Finset F, S.card ≤ 2 * (wirePolyLen t.gadgetCalls - 1) ∧
      ∀ qr v, query C t input proof qr jr 1 = .ok v → Prio.Flp.decide C t v = .ok true → qrPointOf t qr ∈ S) :=
  Prio.Flp.flp_gadget_dichotomy C hC t ht input jr proof o hvalid

/-- **soundness.**  For a finite field, an input whose validity-circuit output `o` (under the joint randomness
    `jr`) is not all zero, and ANY proof: the number of query-randomness vectors for which `query` succeeds and
    `decide` accepts is at most `(2(p-1) + 1)·|F|^(queryRandLen-1)` — acceptance probability at most
    `(2(p-1)+1)/|F|` over uniform query randomness -/
theorem flp_soundness {F : Type} [Field F] [BEq F] [Fintype F] [LawfulBEq F] {ω : Nat → F} (C : FieldCtx F)
    (hC : CtxOk C ω) (t : TypeSpec) (ht : t.WellFormed)
    (input jr o : List F) (hvalid : valid C t input jr 1 = .ok o) (hnz : ∃ x ∈ o, x ≠ 0) (proof : List F) :
    open Classical in
    (Finset.univ.filter fun qr : Fin t.queryRandLen → F =>
      ∃ v, query C t input proof (List.ofFn qr) jr 1 = .ok v ∧ Prio.Flp.decide C t v = .ok true).card ≤
      (2 * (wirePolyLen t.gadgetCalls - 1) + 1) * Fintype.card F ^ (t.queryRandLen - 1) :=
  Prio.Flp.flp_soundness C hC t ht input jr o hvalid hnz proof

/-- non-vacuity of the side condition: every deployed shape makes at least one gadget call -/
example : TypeSpec.count.WellFormed ∧ (TypeSpec.sum 3).WellFormed ∧ (TypeSpec.histogram 5 2).WellFormed ∧
    (TypeSpec.multihot 4 3 2 3).WellFormed ∧ (TypeSpec.sumVec 3 2 1 2).WellFormed ∧
    (TypeSpec.l1BoundSum 3 2 1 2).WellFormed := by decide

end Props.C05
