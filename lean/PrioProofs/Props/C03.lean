import PrioProofs.Poplar1
import PrioProofs.Props.C06

/-! # C03 — Poplar1 end to end: honest reports are accepted and give exact prefix counts

The IDPF theorems of C06 say that the two aggregators' evaluation shares add up to the programmed
value `(1, auth)` on the input's path and to zero elsewhere.  Here: given that, the two-round sketch
accepts (`honest_sketch_accepts`, for every verification randomness, every correlated randomness the
client derives, every candidate set), the output shares add up to the indicator vector, and summing
indicator vectors over a batch gives the prefix counts. -/
namespace Props.C03
open Prio.Poplar1 Prio.Idpf

variable {F : Type} [Field F] [BEq F] [LawfulBEq F]

def padd (x y : Pair F) : Pair F := ⟨x.a + y.a, x.b + y.b⟩

/-- the three inner products of a one-hot vector `(1, κ)·e_t` (or the zero vector) with `rs` -/
theorem onehot_products (t m : Nat) (κ : F) (rs : List F) (h : t < rs.length) :
    dot f0 (oneHot t m ⟨1, κ⟩) rs = rs.getD t 0 ∧
    dot f1 (oneHot t m ⟨1, κ⟩) rs = rs.getD t 0 * rs.getD t 0 ∧
    dot f2 (oneHot t m ⟨1, κ⟩) rs = κ * rs.getD t 0 := by
  refine ⟨?_, ?_, ?_⟩
  · rw [dot_oneHot f0 (by intro r; simp [f0]) t m _ rs h]; simp [f0]
  · rw [dot_oneHot f1 (by intro r; simp [f1]) t m _ rs h]; simp [f1]
  · rw [dot_oneHot f2 (by intro r; simp [f2]) t m _ rs h]; simp [f2]

/-- **honest reports pass the sketch**: if the aggregators' IDPF shares add up to `(1, κ)` at one
    candidate and zero at the others — or to zero everywhere — and the mask shares are the ones the
    client derives (`corr_consistent`), then for every verification randomness the two round-two
    shares cancel, whatever the offsets `a b c` and however they are shared -/
theorem honest_sketch_accepts (ys0 ys1 : List (Pair F)) (rs : List F) (hlen : ys0.length = ys1.length)
    (a0 b0 c0 a1 b1 c1 A0 B0 A1 B1 κ : F)
    (hA : A0 + A1 = -(1 + 1) * (a0 + a1) + κ)
    (hB : B0 + B1 = (a0 + a1) * (a0 + a1) + (b0 + b1) - (a0 + a1) * κ + (c0 + c1))
    (hy : (∃ t m, List.zipWith padd ys0 ys1 = oneHot t m ⟨1, κ⟩ ∧ t < rs.length) ∨
          (∃ n, List.zipWith padd ys0 ys1 = List.replicate n ⟨0, 0⟩)) :
    let sk0 := sketchLoop (a0, b0, c0) ys0 rs
    let sk1 := sketchLoop (a1, b1, c1) ys1 rs
    let z : F × F × F := (sk0.1 + sk1.1, sk0.2.1 + sk1.2.1, sk0.2.2 + sk1.2.2)
    finishSketch z A0 B0 true + finishSketch z A1 B1 false = 0 := by
  intro sk0 sk1 z
  rw [finish_sum]
  have e0 : sk0 = _ := sketchLoop_eq (a0, b0, c0) ys0 rs
  have e1 : sk1 = _ := sketchLoop_eq (a1, b1, c1) ys1 rs
  have hz : z = (a0 + a1 + (dot f0 ys0 rs + dot f0 ys1 rs), b0 + b1 + (dot f1 ys0 rs + dot f1 ys1 rs),
      c0 + c1 + (dot f2 ys0 rs + dot f2 ys1 rs)) := by
    show (sk0.1 + sk1.1, sk0.2.1 + sk1.2.1, sk0.2.2 + sk1.2.2) = _
    rw [e0, e1]
    refine Prod.ext ?_ (Prod.ext ?_ ?_) <;> simp only <;> ring
  have d0 := dot_add f0 (by intro x y r; simp [f0]; ring) ys0 ys1 rs hlen
  have d1 := dot_add f1 (by intro x y r; simp [f1]; ring) ys0 ys1 rs hlen
  have d2 := dot_add f2 (by intro x y r; simp [f2]; ring) ys0 ys1 rs hlen
  rw [hz]
  simp only
  rw [← d0, ← d1, ← d2]
  have hzw : (fun x y => (⟨x.a + y.a, x.b + y.b⟩ : Pair F)) = padd := rfl
  rw [hzw]
  rcases hy with ⟨t, m, hy, ht⟩ | ⟨n, hy⟩
  · rw [hy]
    obtain ⟨p0, p1, p2⟩ := onehot_products t m κ rs ht
    rw [p0, p1, p2, hA, hB]
    ring
  · rw [hy, dot_zeros f0 (by intro r; simp [f0]), dot_zeros f1 (by intro r; simp [f1]),
      dot_zeros f2 (by intro r; simp [f2]), hA, hB]
    ring

/-- … and then the combiner reports success in round two -/
theorem round2_accepts (s0 s1 : F) (h : s0 + s1 = 0) : nextMessage [s0] [s1] = .ok none := by
  unfold nextMessage
  simp [h]

/-- round one: two three-element shares always combine into their sum -/
theorem round1_combines (x0 y0 z0 x1 y1 z1 : F) :
    nextMessage [x0, y0, z0] [x1, y1, z1] = .ok (some (x0 + x1, y0 + y1, z0 + z1)) := by
  unfold nextMessage
  simp

/-- the output shares are the data components of the IDPF shares: they add up to the indicator -/
theorem outputs_add_to_indicator (ys0 ys1 : List (Pair F)) :
    List.zipWith (· + ·) (ys0.map (·.a)) (ys1.map (·.a)) = (List.zipWith padd ys0 ys1).map (·.a) := by
  induction ys0 generalizing ys1 with
  | nil => simp
  | cons x xs ih =>
    cases ys1 with
    | nil => simp
    | cons y ys => simp [padd, ih]

/-- **counts**: adding, over a batch, the 0/1 indicator "this input starts with the candidate" gives
    the number of inputs that start with it -/
theorem indicator_sum_is_count (inputs : List (List Bool)) (cand : List Bool) :
    (inputs.map fun inp => if cand = inp.take cand.length then (1 : F) else 0).sum =
      ((inputs.filter fun inp => cand = inp.take cand.length).length : F) := by
  induction inputs with
  | nil => simp
  | cons i r ih =>
    simp only [List.map_cons, List.sum_cons, List.filter_cons]
    by_cases h : cand = i.take cand.length
    · rw [if_pos h, ih, if_pos (by simpa using h)]
      simp only [List.length_cons, Nat.cast_add, Nat.cast_one]; ring
    · rw [if_neg h, ih, if_neg (by simpa using h)]
      ring

/-- the IDPF half (C06), restated at the payload type Poplar1 uses: with values `(1, authᵢ)`
    programmed along the input, the aggregators' shares for a candidate of an inner level add up to
    `(1, auth)` if the candidate is a prefix of the input and to zero otherwise -/
theorem idpf_shares_indicator {S VI VL : Type} [XorLike S] [LawfulXor S] [AddCommGroup VI] [AddCommGroup VL]
    (gI : Prg S VI) (gL : Prg S VL) (alpha : List Bool) (innerValues : List VI) (leafValue : VL) (k0 k1 : S)
    (ps : PublicShare S VI VL) (hg : gen gI gL alpha innerValues leafValue k0 k1 = some ps)
    (pfx : List Bool) (hp1 : 1 ≤ pfx.length) (hp2 : pfx.length < alpha.length) :
    ∃ a b, specEval gI gL true ps k0 pfx = some (.inner a) ∧ specEval gI gL false ps k1 pfx = some (.inner b) ∧
      a + b = if pfx = alpha.take pfx.length then innerValues.getD (pfx.length - 1) 0 else 0 :=
  Props.C06.idpf_correct_inner gI gL alpha innerValues leafValue k0 k1 ps hg pfx hp1 hp2

/-- non-vacuity of `honest_sketch_accepts`: concrete shares, offsets and masks meeting its premises -/
example : ∃ (ys0 ys1 : List (Pair ℚ)) (rs : List ℚ), ys0.length = ys1.length ∧
    (∃ t m, List.zipWith padd ys0 ys1 = oneHot t m ⟨1, 7⟩ ∧ t < rs.length) :=
  ⟨[⟨3, 1⟩, ⟨5, 2⟩], [⟨-2, 6⟩, ⟨-5, -2⟩], [11, 13], rfl, 0, 1, by simp [padd, oneHot]; norm_num, by simp⟩

end Props.C03
