import PrioProofs.Props.C02
import Mathlib.Algebra.BigOperators.Group.List.Basic

/-! # Prio3 robustness, algebraic half: one altered verifier element changes the combined verifier

The combiner adds the verifier shares entry by entry (`vadd` = `List.zipWith (· + ·)`), starting from the
all-zero vector of the declared length.  When every share has the declared length nothing is truncated,
so entry `k` of the sum is the sum of the `k`-th entries of the shares.  Adding `δ` to entry `j` of share `i`
therefore adds `δ` to entry `j` of the sum and leaves the other entries alone; with `δ ≠ 0` the sum changes. -/
namespace Prio.Prio3Tamper
open Prio.Prio3

variable {F : Type} [Field F]

/-- the combiner loop seen on the bare verifier vectors -/
theorem foldl_vadd_map (shares : List (VerifierShare F)) (acc : List F) :
    shares.foldl (fun acc sh => vadd acc sh.verifiers) acc =
      (shares.map (·.verifiers)).foldl vadd acc := by
  rw [List.foldl_map]

theorem vadd_length (a b : List F) (n : Nat) (ha : a.length = n) (hb : b.length = n) :
    (vadd a b).length = n := by
  simp [vadd, ha, hb]

theorem vadd_getD (a b : List F) (n k : Nat) (ha : a.length = n) (hb : b.length = n) (hk : k < n) :
    (vadd a b).getD k 0 = a.getD k 0 + b.getD k 0 := by
  have h1 : k < a.length := by omega
  have h2 : k < b.length := by omega
  simp [vadd, List.getD_eq_getElem?_getD, List.getElem?_zipWith, List.getElem?_eq_getElem h1,
    List.getElem?_eq_getElem h2]

/-- no truncation: the sum keeps the declared length -/
theorem foldl_vadd_length (n : Nat) (L : List (List F)) :
    ∀ acc : List F, acc.length = n → (∀ l ∈ L, l.length = n) → (L.foldl vadd acc).length = n := by
  induction L with
  | nil => intro acc ha _; simpa using ha
  | cons l r ih =>
    intro acc ha hL
    rw [List.foldl_cons]
    exact ih _ (vadd_length acc l n ha (hL l (by simp))) (fun x hx => hL x (by simp [hx]))

/-- entry `k` of the sum is the start value plus the `k`-th entries of all the vectors -/
theorem foldl_vadd_getD (n k : Nat) (hk : k < n) (L : List (List F)) :
    ∀ acc : List F, acc.length = n → (∀ l ∈ L, l.length = n) →
      (L.foldl vadd acc).getD k 0 = acc.getD k 0 + (L.map (fun l => l.getD k 0)).sum := by
  induction L with
  | nil => intro acc _ _; simp
  | cons l r ih =>
    intro acc ha hL
    have hl : l.length = n := hL l (by simp)
    rw [List.foldl_cons, ih _ (vadd_length acc l n ha hl) (fun x hx => hL x (by simp [hx])),
      vadd_getD acc l n k ha hl hk, List.map_cons, List.sum_cons, add_assoc]

/-- replacing one summand by one that is larger by `d` makes the sum larger by `d` -/
theorem sum_map_set (g : List F → F) (d : F) (L : List (List F)) :
    ∀ (i : Nat) (hi : i < L.length) (l' : List F), g l' = g L[i] + d →
      ((L.set i l').map g).sum = (L.map g).sum + d := by
  induction L with
  | nil => intro i hi; simp at hi
  | cons l r ih =>
    intro i hi l' hg
    cases i with
    | zero =>
      simp only [List.getElem_cons_zero] at hg
      simp only [List.set_cons_zero, List.map_cons, List.sum_cons, hg]
      ring
    | succ i =>
      simp only [List.getElem_cons_succ] at hg
      have hi' : i < r.length := by simpa using hi
      simp only [List.set_cons_succ, List.map_cons, List.sum_cons, ih i hi' l' hg]
      ring

theorem set_getD (l : List F) (j k : Nat) (hj : j < l.length) (v : F) :
    (l.set j v).getD k 0 = if k = j then v else l.getD k 0 := by
  simp only [List.getD_eq_getElem?_getD, List.getElem?_set]
  by_cases h : j = k
  · subst h; simp [hj]
  · have h' : ¬ k = j := fun e => h e.symm
    simp [h, h']

/-- the bare-vector form: altering entry `j` of vector `i` by `δ` moves entry `k` of the sum by
    `δ` when `k = j` and not at all otherwise -/
theorem foldl_vadd_set_getD (n : Nat) (L : List (List F)) (i j : Nat) (hi : i < L.length)
    (hj : j < L[i].length) (δ : F) (hL : ∀ l ∈ L, l.length = n) (k : Nat) (hk : k < n) :
    ((L.set i (L[i].set j (L[i][j] + δ))).foldl vadd (List.replicate n 0)).getD k 0 =
      (L.foldl vadd (List.replicate n 0)).getD k 0 + if k = j then δ else 0 := by
  have hL' : ∀ l ∈ L.set i (L[i].set j (L[i][j] + δ)), l.length = n := by
    intro l hl
    rcases List.mem_or_eq_of_mem_set hl with h | h
    · exact hL l h
    · rw [h, List.length_set]; exact hL _ (List.getElem_mem hi)
  rw [foldl_vadd_getD n k hk _ _ (List.length_replicate ..) hL',
    foldl_vadd_getD n k hk _ _ (List.length_replicate ..) hL,
    sum_map_set (fun l => l.getD k 0) (if k = j then δ else 0) L i hi, add_assoc]
  show (L[i].set j (L[i][j] + δ)).getD k 0 = L[i].getD k 0 + if k = j then δ else 0
  rw [set_getD _ _ _ hj]
  by_cases h : k = j
  · subst h
    simp [List.getD_eq_getElem?_getD, List.getElem?_eq_getElem hj]
  · simp [h]

omit [Field F] in
theorem map_set_verifiers (shares : List (VerifierShare F)) (i : Nat) (hi : i < shares.length)
    (v : List F) :
    (shares.set i { shares[i] with verifiers := v }).map (·.verifiers) =
      (shares.map (·.verifiers)).set i v := by
  rw [List.map_set]

/-- **Entries of the altered sum.**  With every share of the declared length, adding `δ` to entry `j` of
    share `i` gives a sum of the same (declared) length whose entry `j` is the old entry plus `δ` and whose
    other entries are unchanged.  (`δ ≠ 0` is not needed here.) -/
theorem tamper_entries (cfg : Cfg) (shares : List (VerifierShare F))
    (i j : Nat) (hi : i < shares.length) (hj : j < (shares[i]).verifiers.length) (δ : F)
    (hlen : ∀ sh ∈ shares, sh.verifiers.length = cfg.t.verifierLen * cfg.numProofs) :
    let n := cfg.t.verifierLen * cfg.numProofs
    let altered :=
      (shares.set i { shares[i] with verifiers := (shares[i]).verifiers.set j ((shares[i]).verifiers[j] + δ) }).foldl
        (fun acc sh => vadd acc sh.verifiers) (List.replicate n 0)
    let original := shares.foldl (fun acc sh => vadd acc sh.verifiers) (List.replicate n 0)
    altered.length = n ∧ original.length = n ∧ j < n ∧
    altered.getD j 0 = original.getD j 0 + δ ∧
    (∀ k, k ≠ j → altered.getD k 0 = original.getD k 0) ∧
    (∀ k, k ≠ j → altered[k]? = original[k]?) := by
  intro n altered original
  have hjn : j < n := by
    have := hlen _ (List.getElem_mem hi)
    omega
  set L := shares.map (·.verifiers) with hLdef
  have hiL : i < L.length := by simpa [hLdef] using hi
  have hLi : L[i] = (shares[i]).verifiers := by simp [hLdef]
  have hL : ∀ l ∈ L, l.length = n := by
    intro l hl
    obtain ⟨sh, hsh, rfl⟩ := List.mem_map.1 hl
    exact hlen sh hsh
  have hjL : j < L[i].length := by rw [hLi]; exact hj
  have halt : altered = (L.set i (L[i].set j (L[i][j] + δ))).foldl vadd (List.replicate n 0) := by
    show List.foldl _ _ _ = _
    rw [foldl_vadd_map, map_set_verifiers shares i hi]
    congr 2
    simp [hLdef]
  have horig : original = L.foldl vadd (List.replicate n 0) := foldl_vadd_map shares _
  have hL' : ∀ l ∈ L.set i (L[i].set j (L[i][j] + δ)), l.length = n := by
    intro l hl
    rcases List.mem_or_eq_of_mem_set hl with h | h
    · exact hL l h
    · rw [h, List.length_set]; exact hL _ (List.getElem_mem hiL)
  have hlenA : altered.length = n := by
    rw [halt]; exact foldl_vadd_length n _ _ (List.length_replicate ..) hL'
  have hlenO : original.length = n := by
    rw [horig]; exact foldl_vadd_length n _ _ (List.length_replicate ..) hL
  have hget : ∀ k, k < n → altered.getD k 0 = original.getD k 0 + if k = j then δ else 0 := by
    intro k hk
    rw [halt, horig]
    exact foldl_vadd_set_getD n L i j hiL hjL δ hL k hk
  refine ⟨hlenA, hlenO, hjn, ?_, ?_, ?_⟩
  · simpa using hget j hjn
  · intro k hkj
    by_cases hk : k < n
    · simpa [hkj] using hget k hk
    · rw [List.getD_eq_getElem?_getD, List.getD_eq_getElem?_getD,
        List.getElem?_eq_none (by omega), List.getElem?_eq_none (by omega)]
  · intro k hkj
    by_cases hk : k < n
    · have h := hget k hk
      simp only [hkj, if_false, add_zero] at h
      have h1 : k < altered.length := by omega
      have h2 : k < original.length := by omega
      simpa [List.getD_eq_getElem?_getD, List.getElem?_eq_getElem h1, List.getElem?_eq_getElem h2]
        using h
    · rw [List.getElem?_eq_none (by omega), List.getElem?_eq_none (by omega)]

/-- the same fact in one equation: the altered sum is the original sum with `δ` added at position `j` -/
theorem tamper_sum_eq_set (cfg : Cfg) (shares : List (VerifierShare F))
    (i j : Nat) (hi : i < shares.length) (hj : j < (shares[i]).verifiers.length) (δ : F)
    (hlen : ∀ sh ∈ shares, sh.verifiers.length = cfg.t.verifierLen * cfg.numProofs) :
    (shares.set i { shares[i] with verifiers := (shares[i]).verifiers.set j ((shares[i]).verifiers[j] + δ) }).foldl
        (fun acc sh => vadd acc sh.verifiers) (List.replicate (cfg.t.verifierLen * cfg.numProofs) 0) =
      (shares.foldl (fun acc sh => vadd acc sh.verifiers)
          (List.replicate (cfg.t.verifierLen * cfg.numProofs) 0)).set j
        ((shares.foldl (fun acc sh => vadd acc sh.verifiers)
          (List.replicate (cfg.t.verifierLen * cfg.numProofs) 0)).getD j 0 + δ) := by
  obtain ⟨hA, hO, hjn, hj', _, hne⟩ := tamper_entries cfg shares i j hi hj δ hlen
  apply List.ext_getElem?
  intro k
  rw [List.getElem?_set]
  by_cases hkj : j = k
  · subst hkj
    rw [if_pos rfl, if_pos (by omega), ← hj', List.getD_eq_getElem?_getD,
      List.getElem?_eq_getElem (by omega)]
    rfl
  · rw [if_neg hkj]
    exact hne k (fun e => hkj e.symm)

/-- **The statement left open in `Props/C02.lean`**, true exactly as written there: a non-zero change of
    one element of one verifier share changes the combined verifier -/
theorem tamper_detected : Props.C02.tamper_detected_statement := by
  intro F _ _ _ _ cfg shares i j hi hj δ hδ hlen heq
  obtain ⟨_, _, _, hj', _, _⟩ := tamper_entries cfg shares i j hi hj δ hlen
  simp only at hj'
  rw [heq] at hj'
  exact hδ (by simpa using hj')

end Prio.Prio3Tamper

-- #print axioms Prio.Prio3Tamper.tamper_detected
-- #print axioms Prio.Prio3Tamper.tamper_entries
-- #print axioms Prio.Prio3Tamper.tamper_sum_eq_set
