import PrioProofs.Prio3
import PrioProofs.Props.C01
import PrioProofs.Props.C02
import PrioProofs.Props.C05
import Mathlib.Tactic.Ring
import Mathlib.Data.List.Basic

/-! # Prio3 end to end on the executable model

Every honest report (a `shard` of an encoding the validity circuit accepts) is accepted by every aggregator, and
the output shares add up to the truncation of the encoding. -/
set_option linter.unusedSectionVars false

namespace Prio.Prio3E2E
open Prio.Prio3 Prio.Flp Prio

/-! ## Part 0: vectors, chunks, sums -/

section vectors
variable {F : Type} [Field F]

theorem vsub_length (a b : List F) (h : b.length = a.length) : (vsub a b).length = a.length := by
  simp [vsub, h]

theorem vadd_length (a b : List F) (h : b.length = a.length) : (vadd a b).length = a.length := by
  simp [vadd, h]

/-- `(x - h) - a = (x - a) - h`, entrywise, whatever the lengths -/
theorem vsub_vsub_comm (x h a : List F) : vsub (vsub x h) a = vsub (vsub x a) h := by
  induction x generalizing h a with
  | nil => simp [vsub]
  | cons x0 xs ih =>
    cases h with
    | nil => cases a <;> simp [vsub]
    | cons h0 hs =>
      cases a with
      | nil => simp [vsub]
      | cons a0 as =>
        have := ih hs as
        simp only [vsub, List.zipWith_cons_cons] at this ⊢
        rw [this]; congr 1; ring

theorem foldl_vsub_comm (hs : List (List F)) (x h : List F) :
    hs.foldl vsub (vsub x h) = vsub (hs.foldl vsub x) h := by
  induction hs generalizing x with
  | nil => rfl
  | cons a hs ih => simp only [List.foldl_cons]; rw [vsub_vsub_comm, ih]

theorem foldl_vsub_length (hs : List (List F)) (x : List F) (hlen : ∀ h ∈ hs, h.length = x.length) :
    (hs.foldl vsub x).length = x.length := by
  induction hs generalizing x with
  | nil => rfl
  | cons a hs ih =>
    simp only [List.foldl_cons]
    have h1 : (vsub x a).length = x.length := vsub_length x a (hlen a (by simp))
    rw [ih _ (fun h hh => by rw [h1]; exact hlen h (by simp [hh])), h1]

theorem foldl_vadd_length (hs : List (List F)) (x : List F) (hlen : ∀ h ∈ hs, h.length = x.length) :
    (hs.foldl vadd x).length = x.length := by
  induction hs generalizing x with
  | nil => rfl
  | cons a hs ih =>
    simp only [List.foldl_cons]
    have h1 : (vadd x a).length = x.length := vadd_length x a (hlen a (by simp))
    rw [ih _ (fun h hh => by rw [h1]; exact hlen h (by simp [hh])), h1]

/-- adding the subtracted shares back, in the same order, gives the original vector -/
theorem add_back' (hms : List (List F)) (lm : List F) (hlen : ∀ hm ∈ hms, hm.length = lm.length) :
    hms.foldl vadd (hms.foldl vsub lm) = lm := by
  induction hms generalizing lm with
  | nil => rfl
  | cons hm hms ih =>
    simp only [List.foldl_cons]
    have hl : (hms.foldl vsub lm).length = hm.length := by
      rw [foldl_vsub_length hms lm (fun h hh => hlen h (by simp [hh])), hlen hm (by simp)]
    rw [foldl_vsub_comm, Props.C01.vsub_vadd_cancel _ _ hl]
    exact ih lm (fun h hh => hlen h (by simp [hh]))

/-! ### `vsum` -/

theorem vsum_eq (n : Nat) (vs : List (List F)) : vsum n vs = vs.foldl vadd (List.replicate n 0) := rfl

theorem zero_vadd (x : List F) : vadd (List.replicate x.length (0 : F)) x = x := zipWith_zero_add x

theorem vsum_cons (n : Nat) (x : List F) (xs : List (List F)) (hx : x.length = n) :
    vsum n (x :: xs) = xs.foldl vadd x := by
  rw [vsum_eq, List.foldl_cons, ← hx, zero_vadd]

/-! ### `chunk` -/

theorem chunk_zipWith (f : F → F → F) (a b : List F) (k L : Nat) :
    chunk (List.zipWith f a b) k L = List.zipWith f (chunk a k L) (chunk b k L) := by
  simp [chunk, List.drop_zipWith, List.take_zipWith]

theorem chunk_vadd (a b : List F) (k L : Nat) : chunk (vadd a b) k L = vadd (chunk a k L) (chunk b k L) :=
  chunk_zipWith _ a b k L

theorem chunk_replicate (z : F) (N k L : Nat) (h : (k + 1) * L ≤ N) :
    chunk (List.replicate N z) k L = List.replicate L z := by
  simp only [chunk, List.drop_replicate, List.take_replicate]
  congr 1
  have : (k + 1) * L = k * L + L := by ring
  omega

theorem chunk_foldl (vs : List (List F)) (acc : List F) (k L : Nat) :
    chunk (vs.foldl vadd acc) k L = (vs.map (chunk · k L)).foldl vadd (chunk acc k L) := by
  induction vs generalizing acc with
  | nil => rfl
  | cons v vs ih => simp only [List.foldl_cons, List.map_cons]; rw [ih, chunk_vadd]

theorem chunk_vsum (N k L : Nat) (h : (k + 1) * L ≤ N) (vs : List (List F)) :
    chunk (vsum N vs) k L = vsum L (vs.map (chunk · k L)) := by
  rw [vsum_eq, vsum_eq, chunk_foldl, chunk_replicate 0 N k L h]

omit [Field F] in
theorem chunk_length {α : Type} (l : List α) (k L : Nat) (h : (k + 1) * L ≤ l.length) : (chunk l k L).length = L := by
  simp only [chunk, List.length_take, List.length_drop]
  have : (k + 1) * L = k * L + L := by ring
  omega

omit [Field F] in
theorem chunk_append_left {α : Type} (a b : List α) (k L : Nat) (h : (k + 1) * L ≤ a.length) :
    chunk (a ++ b) k L = chunk a k L := by
  have e : (k + 1) * L = k * L + L := by ring
  simp only [chunk]
  rw [List.drop_append_of_le_length (by omega), List.take_append_of_le_length (by simp; omega)]

omit [Field F] in
theorem chunk_append_right {α : Type} (a b : List α) (k L : Nat) (ha : a.length = k * L) (hb : b.length = L) :
    chunk (a ++ b) k L = b := by
  simp only [chunk]
  rw [← ha, List.drop_left, ← hb, List.take_length]

end vectors

/-! ### concatenating loops (`allProofs`, `viVerifiers`) -/

section cat
variable {α : Type}

/-- one iteration of a loop that appends the result of `g k` -/
def catStep (g : Nat → Prio.Flp.Res (List α)) (acc : Prio.Res (List α)) (k : Nat) : Prio.Res (List α) :=
  match acc with
  | .ok soFar =>
    match g k with
    | .ok v => .ok (soFar ++ v)
    | .err => .err
    | .panic => .panic
  | e => e

theorem catFold_spec (g : Nat → Prio.Flp.Res (List α)) (L : Nat) (hL : ∀ k v, g k = .ok v → v.length = L) :
    ∀ (n : Nat) (out : List α), (List.range n).foldl (catStep g) (.ok []) = .ok out →
      out.length = L * n ∧ ∀ k, k < n → g k = .ok (chunk out k L) := by
  intro n
  induction n with
  | zero =>
    intro out h
    simp only [List.range_zero, List.foldl_nil, Prio.Res.ok.injEq] at h
    subst h
    exact ⟨by simp, fun k hk => absurd hk (by omega)⟩
  | succ n ih =>
    intro out h
    rw [List.range_succ, List.foldl_append, List.foldl_cons, List.foldl_nil] at h
    cases hprev : (List.range n).foldl (catStep g) (.ok []) with
    | err => rw [hprev] at h; cases h
    | panic => rw [hprev] at h; cases h
    | ok soFar =>
      rw [hprev] at h
      obtain ⟨l1, l2⟩ := ih soFar hprev
      cases hg : g n with
      | err => simp [catStep, hg] at h
      | panic => simp [catStep, hg] at h
      | ok v =>
        simp only [catStep, hg, Prio.Res.ok.injEq] at h
        subst h
        have hv := hL n v hg
        refine ⟨by rw [List.length_append, l1, hv]; ring, ?_⟩
        intro k hk
        rcases Nat.lt_succ_iff_lt_or_eq.mp hk with hk' | rfl
        · rw [chunk_append_left _ _ _ _ (by rw [l1, Nat.mul_comm L n]; exact Nat.mul_le_mul_right L hk')]
          exact l2 k hk'
        · rw [chunk_append_right _ _ _ _ (by rw [l1, Nat.mul_comm]) hv]
          exact hg

end cat


/-! ## Part 1: the client -/

section client
variable {F : Type} [Field F] [BEq F]

theorem take_length (S : Stream) (p mask sz fuel : Nat) :
    ∀ (n : Nat) (st : PrngState) (xs : List Nat) (st' : PrngState),
      PrngState.take S p mask sz fuel n st = some (xs, st') → xs.length = n := by
  intro n
  induction n with
  | zero =>
    intro st xs st' h
    simp only [PrngState.take, Option.some.injEq, Prod.mk.injEq] at h
    rw [← h.1]; rfl
  | succ n ih =>
    intro st xs st' h
    simp only [PrngState.take] at h
    cases hg : st.get S p mask sz fuel with
    | none => rw [hg] at h; cases h
    | some r =>
      obtain ⟨x, st1⟩ := r
      rw [hg] at h
      simp only at h
      cases ht : PrngState.take S p mask sz fuel n st1 with
      | none => rw [ht] at h; cases h
      | some r2 =>
        obtain ⟨ys, st2⟩ := r2
        rw [ht] at h
        simp only [Option.some.injEq, Prod.mk.injEq] at h
        rw [← h.1, List.length_cons, ih st1 ys st2 ht]

/-- an XOF expansion that succeeds has the requested length -/
theorem expand_length (cfg : Cfg) (cv : Conv F) (xof : Xof) (seed dstv binder : Bytes) (n : Nat) (xs : List F)
    (h : expand cfg cv xof seed dstv binder n = some xs) : xs.length = n := by
  unfold expand at h
  cases hi : intoFieldVec (xof seed dstv binder) cfg.p cfg.mask cfg.sz (n + 64) n with
  | none => rw [hi] at h; cases h
  | some r =>
    obtain ⟨ys, st⟩ := r
    rw [hi] at h
    simp only [Option.some.injEq] at h
    rw [← h, List.length_map]
    exact take_length _ _ _ _ _ _ _ _ _ hi

/-- the seed of helper `id` inside the sharding randomness -/
def sd (cfg : Cfg) (random : Bytes) (id : Nat) : Bytes :=
  chunk random ((id - 1) * (if cfg.t.jointRandLen > 0 then 2 else 1)) cfg.seedSize

/-- the blind of helper `id` inside the sharding randomness -/
def blc (cfg : Cfg) (random : Bytes) (id : Nat) : Bytes :=
  chunk random ((id - 1) * (if cfg.t.jointRandLen > 0 then 2 else 1) + 1) cfg.seedSize

/-- the blind field of helper `id`'s input share -/
def bl (cfg : Cfg) (random : Bytes) (id : Nat) : Option Bytes :=
  if cfg.t.jointRandLen > 0 then some (blc cfg random id) else none

theorem shardStep_eq (cfg : Cfg) (cv : Conv F) (xof : Xof) (ctx nonce random : Bytes)
    (lm : List F) (sh : List (InputShare F)) (pt : List Bytes) (id : Nat) :
    shardStep cfg cv xof ctx nonce random (some (lm, sh, pt)) id =
      match expand cfg cv xof (sd cfg random id) (dst cfg usageMeasShare ctx) [id] lm.length with
      | none => none
      | some hm => some (vsub lm hm, sh ++ [.helper (sd cfg random id) (bl cfg random id)],
          pt ++ (if cfg.t.jointRandLen > 0 then [jointRandPart cfg cv xof ctx (blc cfg random id) id nonce hm] else [])) := by
  unfold shardStep sd bl blc
  simp only
  cases expand cfg cv xof (chunk random ((id - 1) * if cfg.t.jointRandLen > 0 then 2 else 1) cfg.seedSize)
      (dst cfg usageMeasShare ctx) [id] lm.length with
  | none => rfl
  | some hm =>
    simp only
    split <;> simp

/-- the helper loop of `shard`: what it subtracts, the helper shares and the helper parts it produces -/
theorem shardLoop_spec (cfg : Cfg) (cv : Conv F) (xof : Xof) (ctx nonce random : Bytes) (ids : List Nat) :
    ∀ (lm : List F) (sh : List (InputShare F)) (pt : List Bytes) (r : _),
      ids.foldl (shardStep cfg cv xof ctx nonce random) (some (lm, sh, pt)) = some r →
      ∃ hms : List (List F), hms.length = ids.length ∧ (∀ hm ∈ hms, hm.length = lm.length) ∧
        (∀ i (hi : i < ids.length) (hi' : i < hms.length),
          expand cfg cv xof (sd cfg random ids[i]) (dst cfg usageMeasShare ctx) [ids[i]] lm.length = some hms[i]) ∧
        r.1 = hms.foldl vsub lm ∧
        r.2.1 = sh ++ ids.map (fun id => .helper (sd cfg random id) (bl cfg random id)) ∧
        r.2.2 = pt ++ (if cfg.t.jointRandLen > 0 then
          List.zipWith (fun id hm => jointRandPart cfg cv xof ctx (blc cfg random id) id nonce hm) ids hms else []) := by
  induction ids with
  | nil =>
    intro lm sh pt r h
    simp only [List.foldl_nil, Option.some.injEq] at h
    subst h
    exact ⟨[], rfl, by simp, by intro i hi; simp at hi, rfl, by simp, by simp⟩
  | cons id ids ih =>
    intro lm sh pt r h
    simp only [List.foldl_cons] at h
    rw [shardStep_eq] at h
    cases he : expand cfg cv xof (sd cfg random id) (dst cfg usageMeasShare ctx) [id] lm.length with
    | none => rw [he] at h; simp only at h; rw [foldl_none] at h; cases h
    | some hm =>
      rw [he] at h
      simp only at h
      have hlm : hm.length = lm.length := expand_length _ _ _ _ _ _ _ _ he
      have hl1 : (vsub lm hm).length = lm.length := vsub_length lm hm hlm
      obtain ⟨hms, h1, h2, h3, h4, h5, h6⟩ := ih _ _ _ r h
      rw [hl1] at h2 h3
      refine ⟨hm :: hms, by simp [h1], ?_, ?_, by simpa using h4, by rw [h5]; simp, ?_⟩
      · intro x hx
        rcases List.mem_cons.mp hx with rfl | hx
        · exact hlm
        · exact h2 x hx
      · intro i hi hi'
        cases i with
        | zero => simpa using he
        | succ i => simpa using h3 i (by simpa using hi) (by simpa using hi')
      · rw [h6]
        by_cases hj : cfg.t.jointRandLen > 0
        · simp [hj]
        · simp [hj]

/-- the seed of a helper share -/
def seedOf : InputShare F → Bytes
  | .helper s _ => s
  | .leader _ _ _ => []

/-- one iteration of the loop of `leaderProofsShare` -/
def lpStep (cfg : Cfg) (cv : Conv F) (xof : Xof) (ctx : Bytes) (hs : List (InputShare F))
    (st : Option (List F)) (j : Nat) : Option (List F) :=
  match st, hs.getD j (.helper [] none) with
  | some lp, .helper seed _ =>
    match expand cfg cv xof seed (dst cfg usageProofShare ctx) [cfg.numProofs, j + 1] (cfg.t.proofLen * cfg.numProofs) with
    | some hp => if hp.length ≠ lp.length then none else some (vsub lp hp)
    | none => none
  | _, _ => none

theorem leaderProofsShare_eq (cfg : Cfg) (cv : Conv F) (xof : Xof) (ctx : Bytes) (hs : List (InputShare F))
    (proofs : List F) :
    leaderProofsShare cfg cv xof ctx hs proofs = (List.range hs.length).foldl (lpStep cfg cv xof ctx hs) (some proofs) := rfl

theorem leaderProofs_spec (cfg : Cfg) (cv : Conv F) (xof : Xof) (ctx : Bytes) (hs : List (InputShare F))
    (proofs : List F) (hall : ∀ x ∈ hs, ∃ s b, x = .helper s b) :
    ∀ (k : Nat), k ≤ hs.length → ∀ lp, (List.range k).foldl (lpStep cfg cv xof ctx hs) (some proofs) = some lp →
      ∃ hps : List (List F), hps.length = k ∧ (∀ hp ∈ hps, hp.length = proofs.length) ∧
        (∀ j (_ : j < k) (_ : j < hps.length) (_ : j < hs.length),
          expand cfg cv xof (seedOf hs[j]) (dst cfg usageProofShare ctx) [cfg.numProofs, j + 1]
            (cfg.t.proofLen * cfg.numProofs) = some hps[j]) ∧
        lp = hps.foldl vsub proofs := by
  intro k
  induction k with
  | zero =>
    intro _ lp h
    simp only [List.range_zero, List.foldl_nil, Option.some.injEq] at h
    subst h
    exact ⟨[], rfl, by simp, by intro j hj; omega, rfl⟩
  | succ k ih =>
    intro hk lp h
    rw [List.range_succ, List.foldl_append, List.foldl_cons, List.foldl_nil] at h
    cases hprev : (List.range k).foldl (lpStep cfg cv xof ctx hs) (some proofs) with
    | none => rw [hprev] at h; simp [lpStep] at h
    | some lp' =>
      rw [hprev] at h
      obtain ⟨hps, h1, h2, h3, h4⟩ := ih (by omega) lp' hprev
      have hk' : k < hs.length := by omega
      obtain ⟨seed, b, hsb⟩ := hall hs[k] (List.getElem_mem hk')
      have hget : hs.getD k (.helper [] none) = .helper seed b := by
        rw [List.getD_eq_getElem _ _ hk', hsb]
      simp only [lpStep, hget] at h
      cases he : expand cfg cv xof seed (dst cfg usageProofShare ctx) [cfg.numProofs, k + 1]
          (cfg.t.proofLen * cfg.numProofs) with
      | none => rw [he] at h; cases h
      | some hp =>
        rw [he] at h
        simp only at h
        by_cases hl : hp.length ≠ lp'.length
        · rw [if_pos hl] at h; cases h
        · rw [if_neg hl] at h
          simp only [Option.some.injEq] at h
          have hl' : hp.length = proofs.length := by
            have := foldl_vsub_length hps proofs h2
            rw [← h4] at this
            omega
          refine ⟨hps ++ [hp], by simp [h1], ?_, ?_, ?_⟩
          · intro x hx
            rcases List.mem_append.mp hx with hx | hx
            · exact h2 x hx
            · simp only [List.mem_singleton] at hx; rw [hx]; exact hl'
          · intro j hj hj' hj''
            rcases Nat.lt_succ_iff_lt_or_eq.mp hj with hjk | rfl
            · rw [List.getElem_append_left (by omega)]
              exact h3 j hjk (by omega) hj''
            · rw [List.getElem_append_right (by omega)]
              simp only [h1, Nat.sub_self, List.getElem_cons_zero]
              rw [hsb]
              exact he
          · rw [List.foldl_append, ← h4, ← h]; rfl

theorem allProofs_eq (C : FieldCtx F) (cfg : Cfg) (encoded pr jr : List F) :
    allProofs C cfg encoded pr jr = (List.range cfg.numProofs).foldl
      (catStep fun pi => prove C cfg.t encoded (chunk pr pi cfg.t.proveRandLen) (chunk jr pi cfg.t.jointRandLen))
      (.ok []) := rfl

/-- the concatenated proofs: each slice is the proof made with the matching slices of the randomness -/
theorem allProofs_spec (C : FieldCtx F) (cfg : Cfg) (encoded pr jr proofs : List F)
    (h : allProofs C cfg encoded pr jr = .ok proofs) :
    proofs.length = cfg.t.proofLen * cfg.numProofs ∧
    ∀ k, k < cfg.numProofs →
      prove C cfg.t encoded (chunk pr k cfg.t.proveRandLen) (chunk jr k cfg.t.jointRandLen) =
        .ok (chunk proofs k cfg.t.proofLen) := by
  rw [allProofs_eq] at h
  exact catFold_spec _ cfg.t.proofLen (fun k v hv => (prove_shape C cfg.t _ _ _ v hv).2) _ _ h

/-- the leader's blind inside the sharding randomness -/
def lbc (cfg : Cfg) (random : Bytes) : Bytes :=
  chunk random ((cfg.numAgg - 1) * (if cfg.t.jointRandLen > 0 then 2 else 1)) cfg.seedSize

/-- everything the proof needs to know about the outcome of `shard` -/
structure ShardView (C : FieldCtx F) (cfg : Cfg) (cv : Conv F) (xof : Xof) (ctx nonce random : Bytes)
    (encoded : List F) (out : ShardOut F) (hms hps : List (List F)) (proofs jointRand proveRands : List F) : Prop where
  hmsLen : hms.length = cfg.numAgg - 1
  hpsLen : hps.length = cfg.numAgg - 1
  hmsEach : ∀ hm ∈ hms, hm.length = encoded.length
  hpsEach : ∀ hp ∈ hps, hp.length = proofs.length
  hmsExp : ∀ j (_ : j < cfg.numAgg - 1) (_ : j < hms.length),
    expand cfg cv xof (sd cfg random (j + 1)) (dst cfg usageMeasShare ctx) [j + 1] encoded.length = some hms[j]
  hpsExp : ∀ j (_ : j < cfg.numAgg - 1) (_ : j < hps.length),
    expand cfg cv xof (sd cfg random (j + 1)) (dst cfg usageProofShare ctx) [cfg.numProofs, j + 1]
      (cfg.t.proofLen * cfg.numProofs) = some hps[j]
  shares : out.shares = .leader (hms.foldl vsub encoded) (hps.foldl vsub proofs)
      (if cfg.t.jointRandLen > 0 then some (lbc cfg random) else none) ::
    (List.range (cfg.numAgg - 1)).map (fun j => .helper (sd cfg random (j + 1)) (bl cfg random (j + 1)))
  parts : out.jointRandParts = (if cfg.t.jointRandLen > 0 then
      some (jointRandPart cfg cv xof ctx (lbc cfg random) 0 nonce (hms.foldl vsub encoded) ::
        List.zipWith (fun id hm => jointRandPart cfg cv xof ctx (blc cfg random id) id nonce hm)
          ((List.range (cfg.numAgg - 1)).map (· + 1)) hms)
    else none)
  jr : clientJointRand cfg cv xof ctx out.jointRandParts = some jointRand
  pr : clientProveRands cfg cv xof ctx random = some proveRands
  proofs : allProofs C cfg encoded proveRands jointRand = .ok proofs

theorem shard_view (C : FieldCtx F) (cfg : Cfg) (cv : Conv F) (xof : Xof) (ctx nonce random : Bytes)
    (encoded : List F) (out : ShardOut F) (h : shard C cfg cv xof ctx nonce random encoded = .ok out) :
    ∃ hms hps proofs jointRand proveRands,
      ShardView C cfg cv xof ctx nonce random encoded out hms hps proofs jointRand proveRands := by
  unfold shard at h
  simp only at h
  by_cases hr : random.length ≠ (if cfg.t.jointRandLen > 0 then 2 * cfg.numAgg * cfg.seedSize else cfg.numAgg * cfg.seedSize)
  · rw [if_pos hr] at h; cases h
  rw [if_neg hr] at h
  cases hm : shardMeas cfg cv xof ctx nonce random encoded with
  | none => rw [hm] at h; cases h
  | some ms =>
    rw [hm] at h
    simp only at h
    obtain ⟨hp, hfold, hlb, hparts⟩ := shardMeas_some cfg cv xof ctx nonce random encoded ms hm
    obtain ⟨hms, g1, g2, g3, g4, g5, g6⟩ := shardLoop_spec cfg cv xof ctx nonce random _ encoded [] [] _ hfold
    simp only [List.length_map, List.length_range] at g1 g3
    simp only [List.nil_append] at g5 g6
    -- the proofs stage
    unfold shardProofs at h
    cases hjr : clientJointRand cfg cv xof ctx ms.parts with
    | none => rw [hjr] at h; cases h
    | some jointRand =>
      cases hpr : clientProveRands cfg cv xof ctx random with
      | none => rw [hjr, hpr] at h; cases h
      | some proveRands =>
        rw [hjr, hpr] at h
        simp only at h
        cases hap : allProofs C cfg encoded proveRands jointRand with
        | err => rw [hap] at h; cases h
        | panic => rw [hap] at h; cases h
        | ok proofs =>
          rw [hap] at h
          simp only at h
          cases hlp : leaderProofsShare cfg cv xof ctx ms.helperShares proofs with
          | none => rw [hlp] at h; cases h
          | some lp =>
            rw [hlp] at h
            simp only [Res.ok.injEq] at h
            rw [leaderProofsShare_eq] at hlp
            have hall : ∀ x ∈ ms.helperShares, ∃ s b, x = InputShare.helper s b := by
              intro x hx
              rw [g5] at hx
              obtain ⟨id, _, rfl⟩ := List.mem_map.mp hx
              exact ⟨_, _, rfl⟩
            obtain ⟨hps, p1, p2, p3, p4⟩ := leaderProofs_spec cfg cv xof ctx ms.helperShares proofs hall
              ms.helperShares.length (le_refl _) lp hlp
            have hsl : ms.helperShares.length = cfg.numAgg - 1 := by rw [g5]; simp
            have hg4 : ms.leaderMeas = hms.foldl vsub encoded := g4
            refine ⟨hms, hps, proofs, jointRand, proveRands, ?_⟩
            subst h
            refine ⟨g1, by rw [p1, hsl], g2, p2, ?_, ?_, ?_, ?_, hjr, hpr, hap⟩
            · intro j hj hj'
              have := g3 j hj hj'
              simpa using this
            · intro j hj hj'
              have := p3 j (by omega) hj' (by omega)
              simp only [g5, List.getElem_map, List.getElem_range, seedOf] at this
              exact this
            · simp only
              rw [hg4, p4, hlb, g5, List.map_map]
              rfl
            · simp only
              rw [hparts, hlb]
              by_cases hj : cfg.t.jointRandLen > 0
              · simp only [hj, if_true]
                rw [hg4]
                have g6' : hp = _ := g6
                rw [g6', if_pos hj]
                simp only [lbc, hj, if_true]
              · simp only [hj, if_false]

end client

/-! ## Part 2: the aggregators, generic facts -/

section agg
variable {F : Type} [Field F] [BEq F]

theorem verifyInit_inv (C : FieldCtx F) (cfg : Cfg) (cv : Conv F) (xof : Xof) (sumLW : Nat) (key ctx : Bytes)
    (aggId : Nat) (nonce : Bytes) (pub : Option (List Bytes)) (msg : InputShare F)
    (st : VerifyState F) (vsh : VerifierShare F)
    (h : verifyInit C cfg cv xof sumLW key ctx aggId nonce pub msg = .ok (st, vsh)) :
    aggId < cfg.numAgg ∧ ∃ m p jrSeed jrPart jr qr v sh,
      viShares cfg cv xof ctx aggId msg = some (m, p) ∧ p.length = cfg.t.proofLen * cfg.numProofs ∧
      viJointRand cfg cv xof ctx aggId nonce pub msg.blind m = .ok (jrSeed, jrPart, jr) ∧
      viQueryRands cfg cv xof key ctx nonce = some qr ∧
      viVerifiers C cfg m p qr jr = .ok v ∧
      viStateShare C cfg sumLW msg = .ok sh ∧
      st = ⟨sh, jrSeed, aggId, v.length⟩ ∧ vsh = ⟨v, jrPart⟩ := by
  unfold verifyInit at h
  by_cases c1 : aggId ≥ cfg.numAgg
  · rw [if_pos c1] at h; cases h
  rw [if_neg c1] at h
  refine ⟨by omega, ?_⟩
  cases h1 : viShares cfg cv xof ctx aggId msg with
  | none => rw [h1] at h; cases h
  | some mp =>
    obtain ⟨m, p⟩ := mp
    rw [h1] at h
    simp only at h
    by_cases c2 : p.length ≠ cfg.t.proofLen * cfg.numProofs
    · rw [if_pos c2] at h; cases h
    rw [if_neg c2] at h
    cases h2 : viJointRand cfg cv xof ctx aggId nonce pub msg.blind m with
    | err => rw [h2] at h; cases h
    | panic => rw [h2] at h; cases h
    | ok r =>
      obtain ⟨jrSeed, jrPart, jr⟩ := r
      rw [h2] at h
      simp only at h
      cases h3 : viQueryRands cfg cv xof key ctx nonce with
      | none => rw [h3] at h; cases h
      | some qr =>
        rw [h3] at h
        simp only at h
        cases h4 : viVerifiers C cfg m p qr jr with
        | err => rw [h4] at h; cases h
        | panic => rw [h4] at h; cases h
        | ok v =>
          rw [h4] at h
          simp only at h
          cases h5 : viStateShare C cfg sumLW msg with
          | err => rw [h5] at h; cases h
          | panic => rw [h5] at h; cases h
          | ok sh =>
            rw [h5] at h
            simp only [Prio.Res.ok.injEq, Prod.mk.injEq] at h
            exact ⟨m, p, jrSeed, jrPart, jr, qr, v, sh, rfl, by omega, h2, rfl, h4, rfl, h.1.symm, h.2.symm⟩

theorem viVerifiers_eq (C : FieldCtx F) (cfg : Cfg) (m p qr jr : List F) :
    viVerifiers C cfg m p qr jr = (List.range cfg.numProofs).foldl
      (catStep fun pi =>
        if (pi + 1) * cfg.t.proofLen > p.length then .panic
        else query C cfg.t m (chunk p pi cfg.t.proofLen) (chunk qr pi cfg.t.queryRandLen)
          (chunk jr pi cfg.t.jointRandLen) cfg.numAgg)
      (.ok []) := by
  unfold viVerifiers
  congr 1
  funext acc pi
  cases acc with
  | ok soFar =>
    simp only [catStep]
    split
    · rfl
    · rfl
  | err => rfl
  | panic => rfl

/-- the concatenated verifier shares: each slice is the `query` on the matching slices -/
theorem viVerifiers_spec (C : FieldCtx F) (cfg : Cfg) (m p qr jr v : List F)
    (h : viVerifiers C cfg m p qr jr = .ok v) :
    v.length = cfg.t.verifierLen * cfg.numProofs ∧
    ∀ k, k < cfg.numProofs →
      query C cfg.t m (chunk p k cfg.t.proofLen) (chunk qr k cfg.t.queryRandLen)
        (chunk jr k cfg.t.jointRandLen) cfg.numAgg = .ok (chunk v k cfg.t.verifierLen) := by
  rw [viVerifiers_eq] at h
  have hL : ∀ k w, (if (k + 1) * cfg.t.proofLen > p.length then Prio.Flp.Res.panic
        else query C cfg.t m (chunk p k cfg.t.proofLen) (chunk qr k cfg.t.queryRandLen)
          (chunk jr k cfg.t.jointRandLen) cfg.numAgg) = .ok w → w.length = cfg.t.verifierLen := by
    intro k w hw
    split at hw
    · cases hw
    · exact (query_shape C cfg.t _ _ _ _ w _ hw).2
  obtain ⟨l1, l2⟩ := catFold_spec _ cfg.t.verifierLen hL _ _ h
  refine ⟨l1, fun k hk => ?_⟩
  have := l2 k hk
  split at this
  · cases this
  · exact this

/-! ### `query` on additive shares, forward direction -/

theorem fold_lin_fwd (C : FieldCtx F) (t : TypeSpec) (qr jr : List F) (κ : F) :
    ∀ (inputs proofs vs : List (List F)) (A P : List F) (κA : F) (vA : List F),
      inputs.length = proofs.length → vs.length = inputs.length →
      (∀ x ∈ inputs, x.length = A.length) → (∀ x ∈ proofs, x.length = P.length) →
      queryK C t A P qr jr κA = .ok vA →
      (∀ i (_ : i < inputs.length) (_ : i < proofs.length) (_ : i < vs.length),
          queryK C t (inputs[i]) (proofs[i]) qr jr κ = .ok (vs[i])) →
      queryK C t (inputs.foldl (List.zipWith (· + ·)) A) (proofs.foldl (List.zipWith (· + ·)) P) qr jr
        (κA + (inputs.length : F) * κ) = .ok (vs.foldl (List.zipWith (· + ·)) vA) := by
  intro inputs
  induction inputs with
  | nil =>
    intro proofs vs A P κA vA hlen hvl _ _ hA _
    cases proofs with
    | cons p ps => simp at hlen
    | nil =>
      cases vs with
      | cons v vs => simp at hvl
      | nil => simpa using hA
  | cons x xs ih =>
    intro proofs vs A P κA vA hlen hvl hin hpr hA hq
    cases proofs with
    | nil => simp at hlen
    | cons p ps =>
      cases vs with
      | nil => simp at hvl
      | cons v vs =>
        have hxA : A.length = x.length := (hin x (by simp)).symm
        have hpP : P.length = p.length := (hpr p (by simp)).symm
        simp only [List.foldl_cons]
        have hκ : κA + (((x :: xs).length : Nat) : F) * κ = (κA + κ) + (xs.length : F) * κ := by
          simp only [List.length_cons]; push_cast; ring
        rw [hκ]
        have h3 := queryK_lin C t (L3.zipWith_add hxA) (L3.zipWith_add hpP) qr jr (rfl : S3 κA κ (κA + κ))
        have h0 := hq 0 (by simp) (by simp) (by simp)
        simp only [List.getElem_cons_zero] at h0
        rw [hA, h0] at h3
        generalize hr : queryK C t (List.zipWith (· + ·) A x) (List.zipWith (· + ·) P p) qr jr (κA + κ) = r3 at h3
        cases h3 with
        | @ok a b c hsum =>
          rw [← hsum.eq_zipWith]
          refine ih ps vs _ _ _ c (by simpa using hlen) (by simpa using hvl)
            (fun y hy => by rw [List.length_zipWith, ← hxA, Nat.min_self]; exact hin y (by simp [hy]))
            (fun y hy => by rw [List.length_zipWith, ← hpP, Nat.min_self]; exact hpr y (by simp [hy])) hr ?_
          intro i h1 h2 h3'
          have := hq (i + 1) (by simpa using h1) (by simpa using h2) (by simpa using h3')
          simpa using this

/-- if every aggregator's `query` on its shares (with `num_shares = n`) succeeds, then `query` on the sums (with
    `num_shares = 1`) succeeds and its verifier is the sum of the verifier shares -/
theorem query_share_linear_fwd [LawfulBEq F] (C : FieldCtx F)
    (hC : ∀ n, C.ofNat n = (n : F)) (t : TypeSpec) (inputs proofs vs : List (List F)) (qr jr : List F)
    (hlen : inputs.length = proofs.length) (hvl : vs.length = inputs.length) (hne : inputs ≠ [])
    (hin : ∀ x ∈ inputs, x.length = t.inputLen) (hpr : ∀ x ∈ proofs, x.length = t.proofLen)
    (hns : ((inputs.length : Nat) : F) ≠ 0)
    (hq : ∀ i (_ : i < inputs.length) (_ : i < proofs.length) (_ : i < vs.length),
          query C t (inputs[i]) (proofs[i]) qr jr inputs.length = .ok (vs[i])) :
    query C t (vsum t.inputLen inputs) (vsum t.proofLen proofs) qr jr 1 = .ok (vsum t.verifierLen vs) := by
  cases inputs with
  | nil => exact absurd rfl hne
  | cons x xs =>
    cases proofs with
    | nil => simp at hlen
    | cons p ps =>
      cases vs with
      | nil => simp at hvl
      | cons v vs =>
        have hx : x.length = t.inputLen := hin x (by simp)
        have hp : p.length = t.proofLen := hpr p (by simp)
        set κ : F := (((x :: xs).length : Nat) : F)⁻¹ with hκdef
        have hκ : κ + (xs.length : F) * κ = 1 := by
          have : κ + (xs.length : F) * κ = (((x :: xs).length : Nat) : F) * κ := by
            simp only [List.length_cons]; push_cast; ring
          rw [this, hκdef]
          exact mul_inv_cancel₀ hns
        have h0 := hq 0 (by simp) (by simp) (by simp)
        rw [query_eq, hC] at h0
        simp only [List.getElem_cons_zero] at h0
        have hv : v.length = t.verifierLen := queryK_ok_length C t x p qr jr _ v h0
        rw [query_eq, hC 1]
        simp only [vsum, List.foldl_cons, Nat.cast_one, inv_one]
        rw [← hx, ← hp, ← hv, zipWith_zero_add, zipWith_zero_add, zipWith_zero_add, ← hκ]
        refine fold_lin_fwd C t qr jr κ xs ps vs x p κ v (by simpa using hlen) (by simpa using hvl)
          (fun y hy => by rw [hx]; exact hin y (by simp [hy]))
          (fun y hy => by rw [hp]; exact hpr y (by simp [hy])) h0 ?_
        intro i h1 h2 h3
        have := hq (i + 1) (by simpa using h1) (by simpa using h2) (by simpa using h3)
        rw [query_eq, hC] at this
        simp only [List.getElem_cons_succ] at this
        exact this

/-! ### a successful `prove` means the plain circuit evaluates -/

theorem proveShim_ok_inv (g : Gadget F) (p : Nat) : ∀ (args : List (List F)) (st : ShimState F) (r : _),
    (args.mapM (proveShimEval g p)).run st = .ok r → ∀ a ∈ args, g.eval a = .ok (evalD g a) := by
  intro args
  induction args with
  | nil => intro st r _ a ha; cases ha
  | cons a as ih =>
    intro st r h b hb
    rw [List.mapM_cons] at h
    simp only [StateT.run_bind] at h
    obtain ⟨r1, h1, h2⟩ := Res.bind_eq_ok _ _ _ h
    obtain ⟨r2, h3, _⟩ := Res.bind_eq_ok _ _ _ h2
    have ha : g.eval a = .ok (evalD g a) := by
      unfold proveShimEval StateT.run at h1
      dsimp only at h1
      split at h1
      · cases h1
      · cases hg : g.eval a with
        | ok v => rw [evalD_of_ok g a v hg]
        | err => rw [hg] at h1; cases h1
        | panic => rw [hg] at h1; cases h1
    rcases List.mem_cons.mp hb with rfl | hb
    · exact ha
    · exact ih _ _ h3 b hb

theorem prove_ok_valid (C : FieldCtx F) (t : TypeSpec) (input pr jr proof : List F)
    (h : prove C t input pr jr = .ok proof) : ∃ o, valid C t input jr 1 = .ok o := by
  obtain ⟨hpc, _⟩ := prove_shape C t input pr jr proof h
  obtain ⟨hin, hjr, _, x, st, gp, hrun, _, _⟩ := proveCore_shape C t input pr jr proof hpc
  rw [validCircuit_nf, StateT.run_bind] at hrun
  obtain ⟨r1, h1, _⟩ := Res.bind_eq_ok _ _ _ hrun
  have hev := proveShim_ok_inv _ _ _ _ _ h1
  refine ⟨assemble C t input 1 ((gadgetArgs C t input jr 1).map (evalD (t.gadget C))), ?_⟩
  unfold valid
  rw [if_neg (by omega), validCircuit_nf, mapM_ok _ _ _ hev]
  rfl

/-! ### `decideAll`, `sumShares` -/

/-- one iteration of the loop of `decideAll` -/
def dStep (C : FieldCtx F) (cfg : Cfg) (vs : List F) (st : Prio.Res Bool) (pi : Nat) : Prio.Res Bool :=
  match st with
  | .ok true =>
    match Prio.Flp.decide C cfg.t (chunk vs pi cfg.t.verifierLen) with
    | .ok b => .ok b
    | .err => .err
    | .panic => .panic
  | e => e

theorem decideAll_eq (C : FieldCtx F) (cfg : Cfg) (vs : List F) :
    decideAll C cfg vs = (List.range cfg.numProofs).foldl (dStep C cfg vs) (.ok true) := rfl

theorem decideAll_true (C : FieldCtx F) (cfg : Cfg) (vs : List F)
    (h : ∀ k, k < cfg.numProofs → Prio.Flp.decide C cfg.t (chunk vs k cfg.t.verifierLen) = .ok true) :
    decideAll C cfg vs = .ok true := by
  rw [decideAll_eq]
  generalize cfg.numProofs = n at h
  induction n with
  | zero => rfl
  | succ n ih =>
    rw [List.range_succ, List.foldl_append, List.foldl_cons, List.foldl_nil, ih (fun k hk => h k (by omega))]
    simp only [dStep, h n (by omega)]

theorem sumShares_fwd (cfg : Cfg) (shares : List (VerifierShare F))
    (h1 : ∀ sh ∈ shares, sh.verifiers.length = cfg.t.verifierLen * cfg.numProofs)
    (h2 : cfg.t.jointRandLen > 0 → ∀ sh ∈ shares, ∃ p, sh.jointRandPart = some p) :
    ∀ (vs0 : List F) (parts0 : List Bytes) (c0 : Nat),
      shares.foldl (sumStep cfg) (.ok (vs0, parts0, c0)) =
        .ok (shares.foldl (fun acc sh => vadd acc sh.verifiers) vs0,
          parts0 ++ (if cfg.t.jointRandLen > 0 then shares.filterMap (·.jointRandPart) else []),
          c0 + shares.length) := by
  induction shares with
  | nil => intro vs0 parts0 c0; simp
  | cons sh rest ih =>
    intro vs0 parts0 c0
    simp only [List.foldl_cons]
    have hv := h1 sh (by simp)
    have ih' := ih (fun s hs => h1 s (by simp [hs])) (fun hj s hs => h2 hj s (by simp [hs]))
    by_cases hj : cfg.t.jointRandLen > 0
    · obtain ⟨p, hp⟩ := h2 hj sh (by simp)
      have step : sumStep cfg (.ok (vs0, parts0, c0)) sh = .ok (vadd vs0 sh.verifiers, parts0 ++ [p], c0 + 1) := by
        unfold sumStep; simp only []; rw [if_neg (by omega), if_pos hj, hp]
      rw [step, ih']
      simp only [hj, if_true, List.filterMap_cons, hp, List.length_cons, List.append_assoc, List.singleton_append]
      congr 3
      omega
    · have step : sumStep cfg (.ok (vs0, parts0, c0)) sh = .ok (vadd vs0 sh.verifiers, parts0, c0 + 1) := by
        unfold sumStep; simp only []; rw [if_neg (by omega), if_neg hj]
      rw [step, ih']
      simp only [hj, if_false, List.length_cons]
      congr 3
      omega

/-! ### truncation -/

/-- the truncation with the error cases defaulted -/
def truncD (C : FieldCtx F) (t : TypeSpec) (lw : Nat) (a : List F) : List F :=
  match truncateWith C t lw a with
  | .ok x => x
  | _ => []

theorem truncate_total (C : FieldCtx F) (t : TypeSpec) (lw : Nat) (a : List F) (ha : a.length = t.inputLen) :
    truncateWith C t lw a = .ok (truncD C t lw a) := by
  unfold truncD truncateWith
  rw [if_neg (by omega)]
  cases t <;> rfl

omit [BEq F] in
theorem chunksOf_length {α : Type} (bits : Nat) (hb : 0 < bits) :
    ∀ (k fuel : Nat) (l : List α), l.length = bits * k → k ≤ fuel → (chunksOf bits fuel l).length = k := by
  intro k
  induction k with
  | zero =>
    intro fuel l hl _
    have : l = [] := List.eq_nil_of_length_eq_zero (by simpa using hl)
    subst this
    cases fuel <;> simp [chunksOf]
  | succ k ih =>
    intro fuel l hl hf
    cases fuel with
    | zero => omega
    | succ fuel =>
      have hpos : 0 < l.length := by rw [hl]; positivity
      have hne : l ≠ [] := by intro h; rw [h] at hpos; simp at hpos
      have hc : ¬ (l.isEmpty ∨ bits = 0) := by
        simp only [List.isEmpty_iff]; rintro (h | h)
        · exact hne h
        · omega
      simp only [chunksOf]
      rw [if_neg hc, List.length_cons, ih fuel (l.drop bits) (by rw [List.length_drop, hl]; ring_nf; omega) (by omega)]

/-- under well-formedness the truncation has the declared output length -/
theorem truncate_length (C : FieldCtx F) (t : TypeSpec) (hwf : t.WellFormed) (lw : Nat) (a ta : List F)
    (h : truncateWith C t lw a = .ok ta) : ta.length = t.outputLen := by
  unfold truncateWith at h
  by_cases ha : a.length ≠ t.inputLen
  · rw [if_pos ha] at h; cases h
  rw [if_neg ha] at h
  simp only [ne_eq, Decidable.not_not] at ha
  unfold TypeSpec.WellFormed at hwf
  cases t with
  | count => simp only [Prio.Res.ok.injEq] at h; subst h; exact ha
  | sum bits => simp only [Prio.Res.ok.injEq] at h; subst h; rfl
  | histogram l c => simp only [Prio.Res.ok.injEq] at h; subst h; exact ha
  | multihot l bw w c =>
    simp only [Prio.Res.ok.injEq] at h; subst h
    simp only [TypeSpec.inputLen] at ha
    simp only [List.length_take, TypeSpec.outputLen]; omega
  | sumVec len bits w c =>
    simp only [Prio.Res.ok.injEq] at h; subst h
    simp only [TypeSpec.inputLen] at ha
    simp only [TypeSpec.gadgetCalls] at hwf
    have hpos : 0 < bits * len := by
      rcases Nat.eq_zero_or_pos (bits * len) with h0 | h0
      · rw [h0] at hwf; simp [divCeil] at hwf
        rcases Nat.eq_zero_or_pos c with rfl | hc
        · simp at hwf
        · have : (c - 1) / c = 0 := Nat.div_eq_of_lt (by omega)
          omega
      · exact h0
    have hb : 0 < bits := Nat.pos_of_mul_pos_right hpos
    have hl : 0 < len := Nat.pos_of_mul_pos_left hpos
    simp only [List.length_map, TypeSpec.outputLen]
    exact chunksOf_length bits hb len _ a ha (by rw [ha]; exact Nat.le_mul_of_pos_left len hb)
  | l1BoundSum mlen bits w c =>
    simp only [Prio.Res.ok.injEq] at h; subst h
    simp only [TypeSpec.inputLen] at ha
    simp only [TypeSpec.gadgetCalls] at hwf
    have hpos : 0 < bits * (mlen + 1) := by
      rcases Nat.eq_zero_or_pos (bits * (mlen + 1)) with h0 | h0
      · rw [h0] at hwf; simp [divCeil] at hwf
        rcases Nat.eq_zero_or_pos c with rfl | hc
        · simp at hwf
        · have : (c - 1) / c = 0 := Nat.div_eq_of_lt (by omega)
          omega
      · exact h0
    have hb : 0 < bits := Nat.pos_of_mul_pos_right hpos
    simp only [List.length_map, List.length_take, TypeSpec.outputLen]
    rw [chunksOf_length bits hb (mlen + 1) _ a ha (by rw [ha]; exact Nat.le_mul_of_pos_left _ hb)]
    omega

/-- **truncation is additive**, for every type -/
theorem truncate_add (C : FieldCtx F) (t : TypeSpec) (lw : Nat) (a b : List F)
    (ha : a.length = t.inputLen) (hb : b.length = t.inputLen) :
    truncateWith C t lw (vadd a b) = .ok (vadd (truncD C t lw a) (truncD C t lw b)) ∧
    (truncD C t lw b).length = (truncD C t lw a).length := by
  have hab : (vadd a b).length = t.inputLen := by simp [vadd, ha, hb]
  have h3 : L3 S3 a b (vadd a b) := L3.zipWith_add (by rw [ha, hb])
  have e1 := truncate_total C t lw a ha
  have e2 := truncate_total C t lw b hb
  have e3 := truncate_total C t lw _ hab
  rw [e3]
  suffices hs : L3 S3 (truncD C t lw a) (truncD C t lw b) (truncD C t lw (vadd a b)) by
    exact ⟨by rw [hs.eq_zipWith]; rfl, hs.length_b⟩
  unfold truncateWith at e1 e2 e3
  rw [if_neg (by omega)] at e1 e2 e3
  cases t with
  | count =>
    simp only [Prio.Res.ok.injEq] at e1 e2 e3
    rw [← e1, ← e2, ← e3]; exact h3
  | sum bits =>
    simp only [Prio.Res.ok.injEq] at e1 e2 e3
    rw [← e1, ← e2, ← e3]
    exact .cons (decodeRangeCheckedInt_lin h3 _) .nil
  | histogram l c =>
    simp only [Prio.Res.ok.injEq] at e1 e2 e3
    rw [← e1, ← e2, ← e3]; exact h3
  | multihot l bw w c =>
    simp only [Prio.Res.ok.injEq] at e1 e2 e3
    rw [← e1, ← e2, ← e3]; exact h3.take l
  | sumVec len bits w c =>
    simp only [Prio.Res.ok.injEq] at e1 e2 e3
    rw [← e1, ← e2, ← e3, ha, hb, hab]
    exact L3.map (fun _ _ _ hc => decodeRangeCheckedInt_lin hc _) (chunksOf_lin bits _ h3)
  | l1BoundSum mlen bits w c =>
    simp only [Prio.Res.ok.injEq] at e1 e2 e3
    rw [← e1, ← e2, ← e3, ha, hb, hab]
    exact L3.map (fun _ _ _ hc => decodeRangeCheckedInt_lin hc _) ((chunksOf_lin bits _ h3).take mlen)

/-- the truncation of a sum of shares is the sum of the truncations -/
theorem truncate_fold (C : FieldCtx F) (t : TypeSpec) (lw : Nat) :
    ∀ (xs : List (List F)) (x : List F), x.length = t.inputLen → (∀ y ∈ xs, y.length = t.inputLen) →
      truncateWith C t lw (xs.foldl vadd x) = .ok ((xs.map (truncD C t lw)).foldl vadd (truncD C t lw x)) := by
  intro xs
  induction xs with
  | nil => intro x hx _; exact truncate_total C t lw x hx
  | cons y ys ih =>
    intro x hx hall
    simp only [List.foldl_cons, List.map_cons]
    have hy := hall y (by simp)
    have hxy : (vadd x y).length = t.inputLen := by simp [vadd, hx, hy]
    rw [ih (vadd x y) hxy (fun z hz => hall z (by simp [hz]))]
    have h1 := (truncate_add C t lw x y hx hy).1
    rw [truncate_total C t lw _ hxy] at h1
    simp only [Prio.Res.ok.injEq] at h1
    rw [h1]

/-- acceptance at the combiner from its ingredients -/
theorem sharesToMessage_ok (C : FieldCtx F) (cfg : Cfg) (xof : Xof) (ctx : Bytes) (shares : List (VerifierShare F))
    (h1 : ∀ sh ∈ shares, sh.verifiers.length = cfg.t.verifierLen * cfg.numProofs)
    (h2 : cfg.t.jointRandLen > 0 → ∀ sh ∈ shares, ∃ p, sh.jointRandPart = some p)
    (hc : shares.length = cfg.numAgg)
    (hd : decideAll C cfg (shares.foldl (fun acc sh => vadd acc sh.verifiers)
      (List.replicate (cfg.t.verifierLen * cfg.numProofs) 0)) = .ok true) :
    sharesToMessage C cfg xof ctx shares =
      .ok (if cfg.t.jointRandLen > 0 then some (jointRandSeed cfg xof ctx (shares.filterMap (·.jointRandPart)))
        else none) := by
  unfold sharesToMessage sumShares
  rw [sumShares_fwd cfg shares h1 h2]
  simp only [Nat.zero_add, List.nil_append]
  rw [if_neg (by omega), hd]
  simp only
  by_cases hj : cfg.t.jointRandLen > 0
  · simp only [hj, if_true]
  · simp only [hj, if_false]

/-- **one proof is accepted**: the `k`-th slice of the sum of the aggregators' verifier shares is the verifier of
    the whole measurement with the whole `k`-th proof (`query` is linear), which `decide` accepts (the FLP is
    complete) -/
theorem decide_at [LawfulBEq F] (C : FieldCtx F) (ω : Nat → F) (hC : CtxOk C ω) (cfg : Cfg)
    (hwf : cfg.t.WellFormed) (hInv : ((cfg.numAgg : Nat) : F) ≠ 0) (hN : 1 ≤ cfg.numAgg)
    (encoded pr jr qr proofs : List F) (M P Vs : List (List F))
    (hM : M.length = cfg.numAgg) (hP : P.length = cfg.numAgg) (hVs : Vs.length = cfg.numAgg)
    (hMlen : ∀ x ∈ M, x.length = cfg.t.inputLen)
    (hPlen : ∀ x ∈ P, x.length = cfg.t.proofLen * cfg.numProofs)
    (hMsum : vsum cfg.t.inputLen M = encoded)
    (hPsum : vsum (cfg.t.proofLen * cfg.numProofs) P = proofs)
    (hvalid : ∀ jr o, valid C cfg.t encoded jr 1 = .ok o → ∀ x ∈ o, x = 0)
    (hprove : allProofs C cfg encoded pr jr = .ok proofs)
    (hV : ∀ i (_ : i < M.length) (_ : i < P.length) (_ : i < Vs.length),
      viVerifiers C cfg M[i] P[i] qr jr = .ok Vs[i])
    (k : Nat) (hk : k < cfg.numProofs) :
    Prio.Flp.decide C cfg.t (chunk (vsum (cfg.t.verifierLen * cfg.numProofs) Vs) k cfg.t.verifierLen) = .ok true := by
  obtain ⟨_, hpk⟩ := allProofs_spec C cfg encoded pr jr proofs hprove
  have hp := hpk k hk
  obtain ⟨o, ho⟩ := prove_ok_valid C cfg.t _ _ _ _ hp
  have hkP : (k + 1) * cfg.t.proofLen ≤ cfg.t.proofLen * cfg.numProofs := by
    rw [Nat.mul_comm cfg.t.proofLen]; exact Nat.mul_le_mul_right _ hk
  have hkV : (k + 1) * cfg.t.verifierLen ≤ cfg.t.verifierLen * cfg.numProofs := by
    rw [Nat.mul_comm cfg.t.verifierLen]; exact Nat.mul_le_mul_right _ hk
  have hne : M ≠ [] := by intro h; rw [h] at hM; simp at hM; omega
  have hq := query_share_linear_fwd C hC.ofNat cfg.t M (P.map (chunk · k cfg.t.proofLen))
    (Vs.map (chunk · k cfg.t.verifierLen)) (chunk qr k cfg.t.queryRandLen) (chunk jr k cfg.t.jointRandLen)
    (by simp [hM, hP]) (by simp [hM, hVs]) hne hMlen
    (by
      intro x hx
      obtain ⟨y, hy, rfl⟩ := List.mem_map.mp hx
      exact chunk_length y k _ (by rw [hPlen y hy]; exact hkP))
    (by rw [hM]; exact hInv)
    (by
      intro i h1 h2 h3
      simp only [List.getElem_map]
      rw [hM]
      exact (viVerifiers_spec C cfg _ _ _ _ _ (hV i h1 (by simpa using h2) (by simpa using h3))).2 k hk)
  rw [hMsum, ← chunk_vsum _ k _ hkP P, hPsum, ← chunk_vsum _ k _ hkV Vs] at hq
  exact flp_complete C ω hC cfg.t hwf encoded _ _ _ _ _ o ho (hvalid _ o ho) hp hq

end agg

/-! ## Part 3: every aggregator, seen through the client's computation -/

section e2e
variable {F : Type} [Field F] [BEq F]

/-- the joint randomness parts in the public share -/
def ppOf (cfg : Cfg) (cv : Conv F) (xof : Xof) (ctx nonce random : Bytes) (lm : List F) (hms : List (List F)) :
    List Bytes :=
  jointRandPart cfg cv xof ctx (lbc cfg random) 0 nonce lm ::
    List.zipWith (fun id hm => jointRandPart cfg cv xof ctx (blc cfg random id) id nonce hm)
      ((List.range (cfg.numAgg - 1)).map (· + 1)) hms

/-- the input share of aggregator `i` -/
def shareAt (cfg : Cfg) (random : Bytes) (lm lp : List F) (i : Nat) : InputShare F :=
  match i with
  | 0 => .leader lm lp (if cfg.t.jointRandLen > 0 then some (lbc cfg random) else none)
  | j + 1 => .helper (sd cfg random (j + 1)) (bl cfg random (j + 1))

theorem ppOf_length (cfg : Cfg) (cv : Conv F) (xof : Xof) (ctx nonce random : Bytes) (lm : List F)
    (hms : List (List F)) (hl : hms.length = cfg.numAgg - 1) (hN : 1 ≤ cfg.numAgg) :
    (ppOf cfg cv xof ctx nonce random lm hms).length = cfg.numAgg := by
  simp [ppOf, hl]; omega

/-- the part aggregator `i` recomputes from its own share and blind is the `i`-th part of the public share -/
theorem own_part (cfg : Cfg) (cv : Conv F) (xof : Xof) (ctx nonce random : Bytes) (lm lp : List F)
    (hms : List (List F)) (hj : cfg.t.jointRandLen > 0) (i : Nat)
    (h : i < (ppOf cfg cv xof ctx nonce random lm hms).length) (h' : i < (lm :: hms).length) :
    ∃ b, (shareAt cfg random lm lp i).blind = some b ∧
      jointRandPart cfg cv xof ctx b i nonce (lm :: hms)[i] = (ppOf cfg cv xof ctx nonce random lm hms)[i] := by
  cases i with
  | zero =>
    refine ⟨lbc cfg random, by simp [shareAt, InputShare.blind, hj], ?_⟩
    simp [ppOf]
  | succ j =>
    refine ⟨blc cfg random (j + 1), by simp [shareAt, InputShare.blind, bl, hj], ?_⟩
    simp [ppOf]

theorem take_getElem_drop {α : Type} (l : List α) (i : Nat) (h : i < l.length) :
    l.take i ++ [l[i]] ++ l.drop (i + 1) = l := by
  rw [List.append_assoc, List.singleton_append, ← List.drop_eq_getElem_cons h, List.take_append_drop]

/-- what `viJointRand` returns for aggregator `i` of an honest report -/
theorem viJointRand_at (cfg : Cfg) (cv : Conv F) (xof : Xof) (ctx nonce random : Bytes) (lm lp : List F)
    (hms : List (List F)) (jointRand : List F) (hl : hms.length = cfg.numAgg - 1) (hN : 1 ≤ cfg.numAgg)
    (hjr1 : cfg.t.jointRandLen > 0 →
      jointRands cfg cv xof ctx (ppOf cfg cv xof ctx nonce random lm hms) =
        some (jointRandSeed cfg xof ctx (ppOf cfg cv xof ctx nonce random lm hms), jointRand))
    (hjr0 : ¬ cfg.t.jointRandLen > 0 → jointRand = [])
    (i : Nat) (hi : i < cfg.numAgg) (h' : i < (lm :: hms).length) :
    viJointRand cfg cv xof ctx i nonce
        (if cfg.t.jointRandLen > 0 then some (ppOf cfg cv xof ctx nonce random lm hms) else none)
        (shareAt cfg random lm lp i).blind (lm :: hms)[i] =
      .ok (if cfg.t.jointRandLen > 0 then some (jointRandSeed cfg xof ctx (ppOf cfg cv xof ctx nonce random lm hms))
            else none,
          if cfg.t.jointRandLen > 0 then (ppOf cfg cv xof ctx nonce random lm hms)[i]? else none, jointRand) := by
  unfold viJointRand
  by_cases hj : cfg.t.jointRandLen > 0
  · have hpl := ppOf_length cfg cv xof ctx nonce random lm hms hl hN
    have hip : i < (ppOf cfg cv xof ctx nonce random lm hms).length := by omega
    obtain ⟨b, hb, hown⟩ := own_part cfg cv xof ctx nonce random lm lp hms hj i hip h'
    rw [hb]
    simp only [hj, if_true, Option.getD_some]
    rw [hown, take_getElem_drop _ i hip, hjr1 hj]
    simp only [List.getElem?_eq_getElem hip]
  · simp only [hj, if_false]
    rw [hjr0 hj]

/-- the measurement and proofs shares aggregator `i` works with are the ones the client computed -/
theorem viShares_at (cfg : Cfg) (cv : Conv F) (xof : Xof) (ctx random : Bytes) (lm lp : List F)
    (hms hps : List (List F)) (_hl : hms.length = cfg.numAgg - 1) (_hl' : hps.length = cfg.numAgg - 1)
    (hmsExp : ∀ j (_ : j < cfg.numAgg - 1) (_ : j < hms.length),
      expand cfg cv xof (sd cfg random (j + 1)) (dst cfg usageMeasShare ctx) [j + 1] cfg.t.inputLen = some hms[j])
    (hpsExp : ∀ j (_ : j < cfg.numAgg - 1) (_ : j < hps.length),
      expand cfg cv xof (sd cfg random (j + 1)) (dst cfg usageProofShare ctx) [cfg.numProofs, j + 1]
        (cfg.t.proofLen * cfg.numProofs) = some hps[j])
    (i : Nat) (hi : i < cfg.numAgg) (h1 : i < (lm :: hms).length) (h2 : i < (lp :: hps).length) :
    viShares cfg cv xof ctx i (shareAt cfg random lm lp i) = some ((lm :: hms)[i], (lp :: hps)[i]) := by
  cases i with
  | zero => rfl
  | succ j =>
    simp only [shareAt, viShares, List.getElem_cons_succ]
    rw [hmsExp j (by omega) (by simpa using h1), hpsExp j (by omega) (by simpa using h2)]

/-- the output share of aggregator `i`: the truncation of its measurement share -/
theorem verifyNext_at [LawfulBEq F] (C : FieldCtx F) (cfg : Cfg) (cv : Conv F) (xof : Xof) (sumLW : Nat)
    (ctx random : Bytes) (lm lp : List F) (hms : List (List F)) (hl : hms.length = cfg.numAgg - 1)
    (hmsExp : ∀ j (_ : j < cfg.numAgg - 1) (_ : j < hms.length),
      expand cfg cv xof (sd cfg random (j + 1)) (dst cfg usageMeasShare ctx) [j + 1] cfg.t.inputLen = some hms[j])
    (hlen : ∀ x ∈ lm :: hms, x.length = cfg.t.inputLen)
    (seed : Bytes) (i : Nat) (hi : i < cfg.numAgg) (h1 : i < (lm :: hms).length)
    (sh : Sum (List F) Bytes) (vl : Nat)
    (hsh : viStateShare C cfg sumLW (shareAt cfg random lm lp i) = .ok sh) :
    verifyNext C cfg cv xof sumLW ctx
        ⟨sh, if cfg.t.jointRandLen > 0 then some seed else none, i, vl⟩
        (if cfg.t.jointRandLen > 0 then some seed else none) =
      .ok (truncD C cfg.t sumLW (lm :: hms)[i]) := by
  unfold verifyNext
  cases i with
  | zero =>
    simp only [shareAt, viStateShare] at hsh
    have ht := truncate_total C cfg.t sumLW lm (hlen lm (by simp))
    rw [ht] at hsh
    simp only [Prio.Res.ok.injEq] at hsh
    subst hsh
    by_cases hj : cfg.t.jointRandLen > 0
    · simp [hj]
    · simp [hj]
  | succ j =>
    simp only [shareAt, viStateShare, Prio.Res.ok.injEq] at hsh
    subst hsh
    have hj1 : j < hms.length := by simpa using h1
    have hexp := hmsExp j (by omega) hj1
    have ht := truncate_total C cfg.t sumLW hms[j] (hlen _ (List.mem_cons_of_mem _ (List.getElem_mem hj1)))
    by_cases hj : cfg.t.jointRandLen > 0
    · simp [hj, hexp, ht]
    · simp [hj, hexp, ht]

/-- **Prio3 end to end.**  For a lawful field context, at least one aggregator whose number is invertible in the
    field, at least one proof, a well-formed type and an encoded measurement the validity circuit accepts for every
    joint randomness: if `shard` succeeds and every aggregator's `verifyInit` on its input share succeeds, then the
    combiner accepts, every `verifyNext` succeeds, and the output shares add up to the truncated encoding. -/
theorem prio3_e2e [LawfulBEq F] (C : FieldCtx F) (ω : Nat → F) (hC : CtxOk C ω) (cfg : Cfg) (cv : Conv F)
    (xof : Xof) (sumLW : Nat) (key ctx nonce random : Bytes) (encoded : List F) (out : ShardOut F)
    (hN : 1 ≤ cfg.numAgg) (hInv : ((cfg.numAgg : Nat) : F) ≠ 0) (hNP : 1 ≤ cfg.numProofs)
    (hwf : cfg.t.WellFormed)
    (hvalid : ∀ jr o, valid C cfg.t encoded jr 1 = .ok o → ∀ x ∈ o, x = 0)
    (hshard : shard C cfg cv xof ctx nonce random encoded = .ok out)
    (states : List (VerifyState F)) (vshares : List (VerifierShare F))
    (hSl : states.length = cfg.numAgg) (hVl : vshares.length = cfg.numAgg)
    (hinit : ∀ i (h1 : i < out.shares.length) (h2 : i < states.length) (h3 : i < vshares.length),
      verifyInit C cfg cv xof sumLW key ctx i nonce out.jointRandParts out.shares[i] = .ok (states[i], vshares[i])) :
    out.shares.length = cfg.numAgg ∧
    ∃ m, sharesToMessage C cfg xof ctx vshares = .ok m ∧
      ∃ outs : List (List F), outs.length = cfg.numAgg ∧
        (∀ i (h1 : i < states.length) (h2 : i < outs.length),
          verifyNext C cfg cv xof sumLW ctx states[i] m = .ok outs[i]) ∧
        truncateWith C cfg.t sumLW encoded = .ok (outs.foldl vadd (List.replicate cfg.t.outputLen 0)) := by
  obtain ⟨hms, hps, proofs, jointRand, proveRands, V⟩ := shard_view C cfg cv xof ctx nonce random encoded out hshard
  generalize hlm : hms.foldl vsub encoded = lm
  generalize hlp : hps.foldl vsub proofs = lp
  -- lengths
  obtain ⟨hpl, hpk⟩ := allProofs_spec C cfg encoded proveRands jointRand proofs V.proofs
  have hE : encoded.length = cfg.t.inputLen := by
    have hp0 := hpk 0 (by omega)
    obtain ⟨hpc, _⟩ := prove_shape _ _ _ _ _ _ hp0
    exact (proveCore_shape _ _ _ _ _ _ hpc).1
  have hMlen : ∀ x ∈ lm :: hms, x.length = cfg.t.inputLen := by
    intro x hx
    rcases List.mem_cons.mp hx with rfl | hx
    · rw [← hlm, foldl_vsub_length hms encoded V.hmsEach, hE]
    · rw [V.hmsEach x hx, hE]
  have hPlen : ∀ x ∈ lp :: hps, x.length = cfg.t.proofLen * cfg.numProofs := by
    intro x hx
    rcases List.mem_cons.mp hx with rfl | hx
    · rw [← hlp, foldl_vsub_length hps proofs V.hpsEach, hpl]
    · rw [V.hpsEach x hx, hpl]
  have hMsum : vsum cfg.t.inputLen (lm :: hms) = encoded := by
    rw [vsum_cons _ _ _ (hMlen lm (by simp)), ← hlm]; exact add_back' hms encoded V.hmsEach
  have hPsum : vsum (cfg.t.proofLen * cfg.numProofs) (lp :: hps) = proofs := by
    rw [vsum_cons _ _ _ (hPlen lp (by simp)), ← hlp]; exact add_back' hps proofs V.hpsEach
  have hML : (lm :: hms).length = cfg.numAgg := by simp [V.hmsLen]; omega
  have hPL : (lp :: hps).length = cfg.numAgg := by simp [V.hpsLen]; omega
  -- shares and parts
  have hsh0 := V.shares
  rw [hlm, hlp] at hsh0
  have hshl : out.shares.length = cfg.numAgg := by rw [hsh0]; simp; omega
  have hshare : ∀ i (h : i < out.shares.length), out.shares[i] = shareAt cfg random lm lp i := by
    intro i h
    rw [List.getElem_of_eq hsh0 h]
    cases i with
    | zero => rfl
    | succ j => simp [shareAt]
  have hparts : out.jointRandParts =
      if cfg.t.jointRandLen > 0 then some (ppOf cfg cv xof ctx nonce random lm hms) else none := by
    rw [V.parts, hlm]; rfl
  have hppl := ppOf_length cfg cv xof ctx nonce random lm hms V.hmsLen hN
  -- the client's joint randomness
  have hjr1 : cfg.t.jointRandLen > 0 →
      jointRands cfg cv xof ctx (ppOf cfg cv xof ctx nonce random lm hms) =
        some (jointRandSeed cfg xof ctx (ppOf cfg cv xof ctx nonce random lm hms), jointRand) := by
    intro hj
    have := V.jr
    rw [hparts, if_pos hj] at this
    simp only [clientJointRand] at this
    unfold jointRands at this ⊢
    simp only at this ⊢
    cases he : expand cfg cv xof (jointRandSeed cfg xof ctx (ppOf cfg cv xof ctx nonce random lm hms))
        (dst cfg usageJointRandomness ctx) [cfg.numProofs] (cfg.t.jointRandLen * cfg.numProofs) with
    | none => rw [he] at this; simp at this
    | some v => rw [he] at this; simp only [Option.map_some, Option.some.injEq] at this; rw [this]
  have hjr0 : ¬ cfg.t.jointRandLen > 0 → jointRand = [] := by
    intro hj
    have := V.jr
    rw [hparts, if_neg hj] at this
    simp only [clientJointRand, Option.some.injEq] at this
    exact this.symm
  have hmsExp' : ∀ j (_ : j < cfg.numAgg - 1) (_ : j < hms.length),
      expand cfg cv xof (sd cfg random (j + 1)) (dst cfg usageMeasShare ctx) [j + 1] cfg.t.inputLen = some hms[j] := by
    intro j a b; rw [← hE]; exact V.hmsExp j a b
  refine ⟨hshl, ?_⟩
  -- the query randomness, common to all aggregators
  cases hqr : viQueryRands cfg cv xof key ctx nonce with
  | none =>
    exfalso
    have h0 := hinit 0 (by omega) (by omega) (by omega)
    obtain ⟨_, m, p, jrSeed, jrPart, jr, qr', v, sh, _, _, _, e4, _⟩ := verifyInit_inv _ _ _ _ _ _ _ _ _ _ _ _ _ h0
    rw [hqr] at e4; cases e4
  | some qr =>
    -- what each aggregator computed
    have hagg : ∀ i (_ : i < cfg.numAgg) (h1 : i < (lm :: hms).length) (h2 : i < (lp :: hps).length)
        (h3 : i < states.length) (h4 : i < vshares.length),
        ∃ v sh, viVerifiers C cfg (lm :: hms)[i] (lp :: hps)[i] qr jointRand = .ok v ∧
          viStateShare C cfg sumLW (shareAt cfg random lm lp i) = .ok sh ∧
          states[i] = ⟨sh, if cfg.t.jointRandLen > 0 then
              some (jointRandSeed cfg xof ctx (ppOf cfg cv xof ctx nonce random lm hms)) else none, i, v.length⟩ ∧
          vshares[i] = ⟨v, if cfg.t.jointRandLen > 0 then (ppOf cfg cv xof ctx nonce random lm hms)[i]? else none⟩ := by
      intro i hi h1 h2 h3 h4
      have h0 := hinit i (by omega) h3 h4
      rw [hshare i _, hparts] at h0
      obtain ⟨_, m, p, jrSeed, jrPart, jr, qr', v, sh, e1, _, e3, e4, e5, e6, e7, e8⟩ :=
        verifyInit_inv _ _ _ _ _ _ _ _ _ _ _ _ _ h0
      rw [viShares_at cfg cv xof ctx random lm lp hms hps V.hmsLen V.hpsLen hmsExp' V.hpsExp i hi h1 h2] at e1
      simp only [Option.some.injEq, Prod.mk.injEq] at e1
      obtain ⟨rfl, rfl⟩ := e1
      rw [viJointRand_at cfg cv xof ctx nonce random lm lp hms jointRand V.hmsLen hN hjr1 hjr0 i hi h1] at e3
      simp only [Prio.Res.ok.injEq, Prod.mk.injEq] at e3
      obtain ⟨rfl, rfl, rfl⟩ := e3
      rw [hqr] at e4
      simp only [Option.some.injEq] at e4
      subst e4
      exact ⟨v, sh, e5, e6, e7, e8⟩
    -- the verifier shares
    have hV : ∀ i (h1 : i < (lm :: hms).length) (h2 : i < (lp :: hps).length)
        (h3 : i < (vshares.map (·.verifiers)).length),
        viVerifiers C cfg (lm :: hms)[i] (lp :: hps)[i] qr jointRand = .ok (vshares.map (·.verifiers))[i] := by
      intro i h1 h2 h3
      have h4 : i < vshares.length := by simpa using h3
      obtain ⟨v, sh, e1, _, _, e4⟩ := hagg i (by omega) h1 h2 (by omega) h4
      rw [List.getElem_map, e4]
      exact e1
    have hvl : ∀ sh ∈ vshares, sh.verifiers.length = cfg.t.verifierLen * cfg.numProofs := by
      intro sh hsh
      obtain ⟨i, hi, rfl⟩ := List.getElem_of_mem hsh
      obtain ⟨v, sh', e1, _, _, e4⟩ := hagg i (by omega) (by omega) (by omega) (by omega) hi
      rw [e4]
      exact (viVerifiers_spec C cfg _ _ _ _ _ e1).1
    have hvp : cfg.t.jointRandLen > 0 → ∀ sh ∈ vshares, ∃ p, sh.jointRandPart = some p := by
      intro hj sh hsh
      obtain ⟨i, hi, rfl⟩ := List.getElem_of_mem hsh
      obtain ⟨v, sh', _, _, _, e4⟩ := hagg i (by omega) (by omega) (by omega) (by omega) hi
      rw [e4]
      simp only [hj, if_true]
      exact ⟨_, List.getElem?_eq_getElem (by omega)⟩
    have hd : decideAll C cfg (vshares.foldl (fun acc sh => vadd acc sh.verifiers)
        (List.replicate (cfg.t.verifierLen * cfg.numProofs) 0)) = .ok true := by
      apply decideAll_true
      intro k hk
      have e : vshares.foldl (fun acc sh => vadd acc sh.verifiers)
          (List.replicate (cfg.t.verifierLen * cfg.numProofs) 0) =
          vsum (cfg.t.verifierLen * cfg.numProofs) (vshares.map (·.verifiers)) := by
        rw [vsum_eq, List.foldl_map]
      rw [e]
      exact decide_at C ω hC cfg hwf hInv hN encoded proveRands jointRand qr proofs (lm :: hms) (lp :: hps)
        (vshares.map (·.verifiers)) hML hPL (by simpa using hVl) hMlen hPlen hMsum hPsum hvalid V.proofs hV k hk
    have hmsg := sharesToMessage_ok C cfg xof ctx vshares hvl hvp hVl hd
    have hfm : cfg.t.jointRandLen > 0 →
        vshares.filterMap (·.jointRandPart) = ppOf cfg cv xof ctx nonce random lm hms := by
      intro hj
      have hmap : vshares.map (·.jointRandPart) = (ppOf cfg cv xof ctx nonce random lm hms).map some := by
        apply List.ext_getElem
        · simp [hVl, hppl]
        · intro i h1 h2
          have hi : i < vshares.length := by simpa using h1
          obtain ⟨v, sh', _, _, _, e4⟩ := hagg i (by omega) (by omega) (by omega) (by omega) hi
          rw [List.getElem_map, List.getElem_map, e4]
          simp only [hj, if_true]
          exact List.getElem?_eq_getElem (by omega)
      have : vshares.filterMap (·.jointRandPart) = (vshares.map (·.jointRandPart)).filterMap id := by
        rw [List.filterMap_map]; rfl
      rw [this, hmap, List.filterMap_map]
      simp
    refine ⟨_, hmsg, (lm :: hms).map (truncD C cfg.t sumLW), by simpa using hML, ?_, ?_⟩
    · intro i h1 h2
      have hiM : i < (lm :: hms).length := by simpa using h2
      obtain ⟨v, sh, _, e2, e3, _⟩ := hagg i (by omega) hiM (by omega) h1 (by omega)
      rw [e3, List.getElem_map]
      by_cases hj : cfg.t.jointRandLen > 0
      · rw [hfm hj]
        exact verifyNext_at C cfg cv xof sumLW ctx random lm lp hms V.hmsLen hmsExp' hMlen _ i (by omega) hiM sh _ e2
      · have := verifyNext_at C cfg cv xof sumLW ctx random lm lp hms V.hmsLen hmsExp' hMlen [] i (by omega) hiM
          sh v.length e2
        simp only [hj, if_false] at this ⊢
        exact this
    · have hlmI := hMlen lm (by simp)
      have hout : (truncD C cfg.t sumLW lm).length = cfg.t.outputLen :=
        truncate_length C cfg.t hwf sumLW lm _ (truncate_total C cfg.t sumLW lm hlmI)
      have e : ((lm :: hms).map (truncD C cfg.t sumLW)).foldl vadd (List.replicate cfg.t.outputLen 0) =
          (hms.map (truncD C cfg.t sumLW)).foldl vadd (truncD C cfg.t sumLW lm) := by
        rw [List.map_cons, ← vsum_eq, vsum_cons _ _ _ hout]
      rw [e, ← hMsum, vsum_cons _ _ _ hlmI]
      exact truncate_fold C cfg.t sumLW hms lm hlmI (fun y hy => hMlen y (by simp [hy]))

end e2e

end Prio.Prio3E2E

/-! ## The corrected closed statement

`Props.C01.prio3_e2e_first_formulation` (in `PrioProofs/Props/C01.lean`) is only stated there.  As written it cannot be
proved: it allows an arbitrary `FieldCtx` (with a wrong `half` or wrong roots `query` still answers, but `decide`
rejects), it asks for validity only under the joint randomness `[]` (for the types with joint randomness
`valid … [] 1` is `.err`, so the hypothesis is vacuous and the statement would accept every measurement), it does
not ask for the number of aggregators to be invertible in the field (the circuits divide by it) nor for a
well-formed type.  The statement below repairs these points, drops the upper bounds on the numbers of aggregators
and proofs (not needed) and is proved. -/
namespace Props.C01
open Prio.Prio3 Prio.Flp

/-- corrected full-strength statement: for a lawful field context (`CtxOk`), a number of aggregators that is at least
    one and invertible in the field, at least one proof, a well-formed type instance, every XOF, key, context, nonce
    and sharding randomness, and every encoded measurement the validity circuit accepts for every joint randomness:
    if `shard` succeeds and every aggregator's `verifyInit` succeeds (no query randomness refused, no XOF expansion
    out of fuel), then the combiner accepts, every `verifyNext` succeeds and the output shares add up to the
    truncation of the encoded measurement -/
def prio3_e2e_statement_corrected : Prop :=
  ∀ (F : Type) [Field F] [BEq F] [LawfulBEq F] (C : FieldCtx F) (ω : Nat → F) (cfg : Cfg) (cv : Conv F) (xof : Xof)
    (sumLW : Nat) (key ctx nonce random : Prio.Prio3.Bytes) (encoded : List F) (out : ShardOut F),
    CtxOk C ω → 1 ≤ cfg.numAgg → ((cfg.numAgg : Nat) : F) ≠ 0 → 1 ≤ cfg.numProofs → cfg.t.WellFormed →
    (∀ jr o, valid C cfg.t encoded jr 1 = .ok o → ∀ x ∈ o, x = 0) →
    shard C cfg cv xof ctx nonce random encoded = .ok out →
    ∀ (states : List (VerifyState F)) (vshares : List (VerifierShare F)),
      states.length = cfg.numAgg → vshares.length = cfg.numAgg →
      (∀ i (h1 : i < out.shares.length) (h2 : i < states.length) (h3 : i < vshares.length),
        verifyInit C cfg cv xof sumLW key ctx i nonce out.jointRandParts out.shares[i] = .ok (states[i], vshares[i])) →
      out.shares.length = cfg.numAgg ∧
      ∃ m, sharesToMessage C cfg xof ctx vshares = .ok m ∧
        ∃ outs : List (List F), outs.length = cfg.numAgg ∧
          (∀ i (h1 : i < states.length) (h2 : i < outs.length), verifyNext C cfg cv xof sumLW ctx states[i] m = .ok outs[i]) ∧
          truncateWith C cfg.t sumLW encoded = .ok (outs.foldl vadd (List.replicate cfg.t.outputLen 0))

theorem prio3_e2e_statement_corrected_holds : prio3_e2e_statement_corrected := by
  intro F _ _ _ C ω cfg cv xof sumLW key ctx nonce random encoded out hC hN hInv hNP hwf hvalid hshard
    states vshares hSl hVl hinit
  exact Prio.Prio3E2E.prio3_e2e C ω hC cfg cv xof sumLW key ctx nonce random encoded out hN hInv hNP hwf hvalid hshard
    states vshares hSl hVl hinit

end Props.C01

-- #print axioms Prio.Prio3E2E.prio3_e2e                          -- [propext, Classical.choice, Quot.sound]
-- #print axioms Props.C01.prio3_e2e_statement_corrected_holds    -- [propext, Classical.choice, Quot.sound]
