import PrioProofs.Props.C04
import Mathlib.Algebra.MvPolynomial.SchwartzZippel
import Mathlib.Algebra.MvPolynomial.CommRing
import Mathlib.Algebra.MvPolynomial.Degrees
import Mathlib.Tactic.Ring
import Mathlib.Tactic.Positivity

/-! # The probabilistic half of Poplar1 robustness as a counting theorem

`Props.C04.robust_core` shows that a sketch polynomial `P y w K c0` vanishing at *every* verification
randomness `r` forces the honest shape of `(y, w, c0)`.  Here we bound the number of `r ∈ Fⁿ` at which a
sketch polynomial that is *not* identically zero vanishes: at most `2·|F|^(n-1)` of the `|F|^n` points,
i.e. acceptance probability `≤ 2/|F|`.

Route: `P` is the evaluation of the explicit `MvPolynomial (Fin n) F` `sketchPoly` of total degree `≤ 2`;
Mathlib's `MvPolynomial.schwartz_zippel_totalDegree` (stated with `ℚ≥0` fractions) is restated as a
division-free counting inequality over `ℕ` (`schwartz_zippel_card`, `schwartz_zippel_card_univ`).
-/

namespace Prio.SketchSoundness
open Finset MvPolynomial

section General
variable {R : Type*} [CommRing R] [IsDomain R] [DecidableEq R]

/-- **Schwartz–Zippel**, division-free counting form over a finite subset `S` of an integral domain:
`#{x ∈ Sⁿ | p x = 0} · #S ≤ totalDegree p · #Sⁿ` for `p ≠ 0`. -/
theorem schwartz_zippel_card {n : Nat} {p : MvPolynomial (Fin n) R} (hp : p ≠ 0) (S : Finset R) :
    (#{f ∈ Fintype.piFinset fun _ : Fin n => S | eval f p = 0}) * #S ≤ p.totalDegree * #S ^ n := by
  rcases Nat.eq_zero_or_pos (#S) with h0 | hpos
  · simp [h0]
  have h := schwartz_zippel_totalDegree hp S
  have hS : (0 : ℚ≥0) < (#S : ℚ≥0) := by exact_mod_cast hpos
  have hSn : (0 : ℚ≥0) < (#S : ℚ≥0) ^ n := pow_pos hS n
  rw [div_le_div_iff₀ hSn hS] at h
  exact_mod_cast h

/-- **Schwartz–Zippel** over a finite integral domain (all points of `Rⁿ`). -/
theorem schwartz_zippel_card_univ [Fintype R] {n : Nat} {p : MvPolynomial (Fin n) R} (hp : p ≠ 0) :
    (#{f : Fin n → R | eval f p = 0}) * Fintype.card R ≤ p.totalDegree * Fintype.card R ^ n := by
  have h := schwartz_zippel_card hp (Finset.univ : Finset R)
  rw [Fintype.piFinset_univ] at h
  simpa using h

/-- same with an a-priori degree bound `d` -/
theorem schwartz_zippel_card_univ_le [Fintype R] {n d : Nat} {p : MvPolynomial (Fin n) R} (hp : p ≠ 0)
    (hd : p.totalDegree ≤ d) :
    (#{f : Fin n → R | eval f p = 0}) * Fintype.card R ≤ d * Fintype.card R ^ n :=
  (schwartz_zippel_card_univ hp).trans (Nat.mul_le_mul_right _ hd)

end General

variable {F : Type} [Field F]

/-- the sketch polynomial as an explicit multivariate polynomial in the verification randomness -/
noncomputable def sketchPoly {n : Nat} (y w : Fin n → F) (K c0 : F) : MvPolynomial (Fin n) F :=
  (∑ i, X i * C (y i)) ^ 2 - ∑ i, X i ^ 2 * C (y i) + C K * ∑ i, X i * C (y i) - ∑ i, X i * C (w i) + C c0

theorem eval_sketchPoly {n : Nat} (y w : Fin n → F) (K c0 : F) (r : Fin n → F) :
    eval r (sketchPoly y w K c0) = Props.C04.P y w K c0 r := by
  simp [sketchPoly, Props.C04.P, map_sum]

theorem totalDegree_lin_le {n : Nat} (a : Fin n → F) :
    (∑ i, (X i : MvPolynomial (Fin n) F) * C (a i)).totalDegree ≤ 1 := by
  refine (totalDegree_finsetSum _ _).trans (Finset.sup_le fun i _ => ?_)
  refine (totalDegree_mul _ _).trans ?_
  simp

theorem totalDegree_sq_le {n : Nat} (a : Fin n → F) :
    (∑ i, (X i : MvPolynomial (Fin n) F) ^ 2 * C (a i)).totalDegree ≤ 2 := by
  refine (totalDegree_finsetSum _ _).trans (Finset.sup_le fun i _ => ?_)
  refine (totalDegree_mul _ _).trans ?_
  simp

/-- the sketch polynomial has total degree at most 2 -/
theorem totalDegree_sketchPoly_le {n : Nat} (y w : Fin n → F) (K c0 : F) :
    (sketchPoly y w K c0).totalDegree ≤ 2 := by
  unfold sketchPoly
  have h1 := totalDegree_lin_le y
  have h1w := totalDegree_lin_le w
  have h2 := totalDegree_sq_le y
  have hp : ((∑ i, (X i : MvPolynomial (Fin n) F) * C (y i)) ^ 2).totalDegree ≤ 2 :=
    (totalDegree_pow _ _).trans (by omega)
  have hK : (C K * ∑ i, (X i : MvPolynomial (Fin n) F) * C (y i)).totalDegree ≤ 2 :=
    (totalDegree_mul _ _).trans (by rw [totalDegree_C]; omega)
  refine (totalDegree_add _ _).trans (max_le ?_ (by rw [totalDegree_C]; omega))
  refine (totalDegree_sub _ _).trans (max_le ?_ (by omega))
  refine (totalDegree_add _ _).trans (max_le ?_ hK)
  exact (totalDegree_sub _ _).trans (max_le hp h2)

/-- a sketch polynomial with a non-zero value is a non-zero polynomial -/
theorem sketchPoly_ne_zero {n : Nat} (y w : Fin n → F) (K c0 : F)
    (hne : ∃ r : Fin n → F, Props.C04.P y w K c0 r ≠ 0) : sketchPoly y w K c0 ≠ 0 := by
  obtain ⟨r, hr⟩ := hne
  intro h0
  apply hr
  rw [← eval_sketchPoly, h0, map_zero]

variable [Fintype F] [DecidableEq F]

/-- a sketch polynomial that is not identically zero vanishes on at most 2·|F|^(n-1) of the |F|^n points -/
theorem sketch_zero_count {n : Nat} (y w : Fin n → F) (K c0 : F)
    (hne : ∃ r : Fin n → F, Props.C04.P y w K c0 r ≠ 0) :
    (Finset.univ.filter fun r : Fin n → F => Props.C04.P y w K c0 r = 0).card * Fintype.card F
      ≤ 2 * Fintype.card F ^ n := by
  have h := schwartz_zippel_card_univ_le (sketchPoly_ne_zero y w K c0 hne)
    (totalDegree_sketchPoly_le y w K c0)
  simpa only [eval_sketchPoly] using h

/-- for `n = 0` the zero set of a not identically zero sketch polynomial is empty -/
theorem sketch_zero_count_zero (y w : Fin 0 → F) (K c0 : F)
    (hne : ∃ r : Fin 0 → F, Props.C04.P y w K c0 r ≠ 0) :
    (Finset.univ.filter fun r : Fin 0 → F => Props.C04.P y w K c0 r = 0).card = 0 := by
  obtain ⟨r, hr⟩ := hne
  rw [Finset.card_eq_zero, Finset.filter_eq_empty_iff]
  intro s _
  rwa [Subsingleton.elim s r]

/-- Poplar1 robustness, counting form: a report whose summed data does not have the honest shape is
accepted by at most `2·|F|^(n-1)` of the `|F|^n` choices of verification randomness. -/
theorem robust_counting {n : Nat} (h2 : (2 : F) ≠ 0) (y w : Fin n → F) (K c0 : F)
    (hbad : ¬ (c0 = 0 ∧ (∀ i, y i = 0 ∨ y i = 1) ∧ (∀ i j, i ≠ j → y i * y j = 0) ∧ (∀ i, w i = K * y i))) :
    (Finset.univ.filter fun r : Fin n → F => Props.C04.P y w K c0 r = 0).card * Fintype.card F
      ≤ 2 * Fintype.card F ^ n := by
  apply sketch_zero_count
  by_contra hall
  exact hbad (Props.C04.robust_core h2 y w K c0 fun r => by
    by_contra hr
    exact hall ⟨r, hr⟩)

/-- the same as a probability bound: the fraction of accepting `r` is at most `2/|F|` -/
theorem robust_fraction {n : Nat} (h2 : (2 : F) ≠ 0) (y w : Fin n → F) (K c0 : F)
    (hbad : ¬ (c0 = 0 ∧ (∀ i, y i = 0 ∨ y i = 1) ∧ (∀ i j, i ≠ j → y i * y j = 0) ∧ (∀ i, w i = K * y i))) :
    ((Finset.univ.filter fun r : Fin n → F => Props.C04.P y w K c0 r = 0).card : ℚ)
        / (Fintype.card F : ℚ) ^ n ≤ 2 / (Fintype.card F : ℚ) := by
  have h := robust_counting h2 y w K c0 hbad
  have hF : (0 : ℚ) < (Fintype.card F : ℚ) := by exact_mod_cast Fintype.card_pos
  rw [div_le_div_iff₀ (pow_pos hF n) hF]
  exact_mod_cast h

end Prio.SketchSoundness

-- #print axioms Prio.SketchSoundness.schwartz_zippel_card
-- #print axioms Prio.SketchSoundness.schwartz_zippel_card_univ
-- #print axioms Prio.SketchSoundness.sketch_zero_count
-- #print axioms Prio.SketchSoundness.sketch_zero_count_zero
-- #print axioms Prio.SketchSoundness.robust_counting
-- #print axioms Prio.SketchSoundness.robust_fraction
