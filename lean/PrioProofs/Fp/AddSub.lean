import PrioModel.Gen.FpOps
import Mathlib.Tactic.Ring
import Mathlib.Tactic.Linarith

/-! Specification of the translated `FieldOps::add`, `sub`, `neg`, `modp` for every word modulus `R`
    and every modulus `0 < p < R`. -/
namespace Gen

theorem add_spec (R p x y : Nat) (hp0 : 0 < p) (hpR : p < R) (hx : x < p) (hy : y < p) :
    add R p x y = (x + y) % p := by
  unfold add
  by_cases h1 : x + y < p
  · have hz : (x + y) % R = x + y := Nat.mod_eq_of_lt (by omega)
    have hc : ¬ R ≤ x + y := by omega
    simp only [hz, hc, if_false, h1, if_true]
    simp [Nat.mod_eq_of_lt h1]
  · have hmodp : (x + y) % p = x + y - p := by
      rw [Nat.mod_eq_sub_mod (by omega)]; exact Nat.mod_eq_of_lt (by omega)
    by_cases h2 : x + y < R
    · have hz : (x + y) % R = x + y := Nat.mod_eq_of_lt h2
      have hc : ¬ R ≤ x + y := by omega
      have hs : (x + y + R - p) % R = x + y - p := by
        have : x + y + R - p = (x + y - p) + R := by omega
        rw [this, Nat.add_mod_right]; exact Nat.mod_eq_of_lt (by omega)
      simp only [hz, hc, if_false, h1, hs, hmodp]
      simp
    · have hz : (x + y) % R = x + y - R := by
        rw [Nat.mod_eq_sub_mod (by omega)]; exact Nat.mod_eq_of_lt (by omega)
      have hc : R ≤ x + y := by omega
      have hlt : x + y - R < p := by omega
      have hs : (x + y - R + R - p) % R = x + y - p := by
        have : x + y - R + R - p = x + y - p := by omega
        rw [this]; exact Nat.mod_eq_of_lt (by omega)
      simp only [hz, hc, if_true, hlt, hs, hmodp]
      simp

theorem add_lt (R p x y : Nat) (hp0 : 0 < p) (hpR : p < R) (hx : x < p) (hy : y < p) :
    add R p x y < p := by
  rw [add_spec R p x y hp0 hpR hx hy]; exact Nat.mod_lt _ hp0

/-- `sub` for a minuend below `R` (not only below `p`): this is what `modp` needs. -/
theorem sub_general (R p x y : Nat) (hpR : p < R) (hx : x < R) (hy : y ≤ p) :
    sub R p x y = if y ≤ x then x - y else (x + p - y) % R := by
  unfold sub
  by_cases h : y ≤ x
  · have hz : (x + R - y) % R = x - y := by
      have : x + R - y = (x - y) + R := by omega
      rw [this, Nat.add_mod_right]; exact Nat.mod_eq_of_lt (by omega)
    have hb : ¬ x < y := by omega
    simp only [hz, hb, if_false, h, if_true]
    simp
    exact Nat.mod_eq_of_lt (by omega)
  · have hz : (x + R - y) % R = x + R - y := Nat.mod_eq_of_lt (by omega)
    have hb : x < y := by omega
    simp only [hz, hb, if_true, h, if_false]
    have : x + R - y + p = (x + p - y) + R := by omega
    rw [this, Nat.add_mod_right]

theorem sub_spec (R p x y : Nat) (hp0 : 0 < p) (hpR : p < R) (hx : x < p) (hy : y < p) :
    sub R p x y = (x + p - y) % p := by
  rw [sub_general R p x y hpR (by omega) (by omega)]
  by_cases h : y ≤ x
  · simp only [h, if_true]
    have : x + p - y = (x - y) + p := by omega
    rw [this, Nat.add_mod_right]; exact (Nat.mod_eq_of_lt (by omega)).symm
  · simp only [h, if_false]
    rw [Nat.mod_eq_of_lt (by omega : x + p - y < R), Nat.mod_eq_of_lt (by omega : x + p - y < p)]

theorem sub_lt (R p x y : Nat) (hp0 : 0 < p) (hpR : p < R) (hx : x < p) (hy : y < p) :
    sub R p x y < p := by
  rw [sub_spec R p x y hp0 hpR hx hy]; exact Nat.mod_lt _ hp0

theorem neg_spec (R p x : Nat) (hp0 : 0 < p) (hpR : p < R) (hx : x < p) :
    neg R p x = (p - x) % p := by
  unfold neg
  rw [sub_spec R p 0 x hp0 hpR hp0 hx]; simp

/-- `modp` is the conditional subtraction: identity below `p`, minus `p` in `[p, 2p)`. -/
theorem modp_spec (R p x : Nat) (hp0 : 0 < p) (hpR : p < R) (hx : x < R) (hx2 : x < 2 * p) :
    modp R p x = x % p := by
  unfold modp
  rw [sub_general R p x p hpR hx (le_refl _)]
  by_cases h : p ≤ x
  · simp only [h, if_true]
    rw [Nat.mod_eq_sub_mod h]; exact (Nat.mod_eq_of_lt (by omega)).symm
  · simp only [h, if_false]
    have : x + p - p = x := by omega
    rw [this, Nat.mod_eq_of_lt hx, Nat.mod_eq_of_lt (by omega : x < p)]

end Gen
