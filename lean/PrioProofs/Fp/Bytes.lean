import PrioModel.Field
import Mathlib.Tactic.Ring
import Mathlib.Tactic.Linarith

/-! Little-endian byte conversions of `make_field!`. -/
namespace Prio

theorem leBytes_length (n k : Nat) : (leBytes n k).length = k := by
  induction k generalizing n with
  | zero => rfl
  | succ k ih => simp [leBytes, ih]

theorem leBytes_lt (n k : Nat) : ∀ b ∈ leBytes n k, b < 256 := by
  induction k generalizing n with
  | zero => intro b hb; simp [leBytes] at hb
  | succ k ih =>
    intro b hb
    simp only [leBytes, List.mem_cons] at hb
    rcases hb with h | h
    · omega
    · exact ih _ b h

theorem leNat_leBytes (n k : Nat) : leNat (leBytes n k) = n % 256 ^ k := by
  induction k generalizing n with
  | zero => simp [leBytes, leNat, Nat.mod_one]
  | succ k ih =>
    simp only [leBytes, leNat, ih]
    rw [Nat.mod_mod, Nat.pow_succ, Nat.mul_comm (256 ^ k) 256, Nat.mod_mul]

theorem leNat_lt (bs : List Nat) : leNat bs < 256 ^ bs.length := by
  induction bs with
  | nil => simp [leNat]
  | cons b bs ih =>
    simp only [leNat, List.length_cons, Nat.pow_succ]
    have : b % 256 < 256 := Nat.mod_lt _ (by norm_num)
    nlinarith

/-- the byte string of a value is unique: decoding is injective on byte lists of equal length -/
theorem leBytes_leNat (bs : List Nat) (h : ∀ b ∈ bs, b < 256) : leBytes (leNat bs) bs.length = bs := by
  induction bs with
  | nil => rfl
  | cons b bs ih =>
    have hb : b < 256 := h b (by simp)
    have ih' := ih (fun c hc => h c (by simp [hc]))
    simp only [leNat, List.length_cons, leBytes]
    have e1 : (b % 256 + 256 * leNat bs) % 256 = b := by omega
    have e2 : (b % 256 + 256 * leNat bs) / 256 = leNat bs := by omega
    rw [e1, e2, ih']

end Prio
