import PrioModel.Gen.FpOps
import Mathlib.Tactic.Ring
import Mathlib.Tactic.Linarith
import Mathlib.Data.Nat.ModEq

/-! Single-word Montgomery multiplication: a clean reference form `Mont.mulSWR`, its specification for
    all `R p mu x y` (REDC), and the proof that the translated `Gen.mulSW` equals it on in-range
    operands. -/
namespace Mont

/-- `overflowing_add` on words modulo `R`: (wrapped sum, carry as 0/1). -/
def oadd (R a b : Nat) : Nat × Nat := ((a + b) % R, if R ≤ a + b then 1 else 0)
/-- `overflowing_sub` on words modulo `R`: (wrapped difference, borrow as 0/1). -/
def osub (R a b : Nat) : Nat × Nat := ((a + R - b) % R, if a < b then 1 else 0)

def mulSWR (R p mu x y : Nat) : Nat :=
  let z := x * y
  let z1 := z / R
  let z0 := z % R
  let w := (mu * z0) % R
  let r := p * w
  let r1 := r / R
  let r0 := r % R
  let carry := if R ≤ z0 + r0 then 1 else 0
  let t := z1 + r1 + carry
  let cc := t / R
  let zz := t % R
  let s0 := (zz + R - p) % R
  let b0 := if zz < p then 1 else 0
  let b1 := if cc < b0 then 1 else 0
  if b1 = 1 then zz else s0

def mulSW (W p mu x y : Nat) : Nat := mulSWR (2^W) p mu x y

end Mont

namespace Mont

/-- value-level REDC fact: the reduced sum `t` satisfies `t*R = x*y + p*w` and `t < 2p`. -/
theorem redc_core (R p mu x y : Nat) (hR : 0 < R) (hp0 : 0 < p) (hpR : p < R)
    (hmu : (p * mu) % R = R - 1) (hx : x < R) (hy : y < p) :
    let z := x * y
    let w := (mu * (z % R)) % R
    let r := p * w
    let q := (z % R + r % R) / R
    (z % R + r % R = R * q) ∧ q < 2 ∧
    ((z / R + r / R + q) * R = z + r) ∧ (z / R + r / R + q < 2 * p) := by
  intro z w r q
  have hz0lt : z % R < R := Nat.mod_lt _ hR
  have hr0lt : r % R < R := Nat.mod_lt _ hR
  have hwlt : w < R := Nat.mod_lt _ hR
  have h1 : r ≡ (R - 1) * (z % R) [MOD R] := by
    have a : w ≡ mu * (z % R) [MOD R] := Nat.mod_modEq _ _
    have b : p * w ≡ p * (mu * (z % R)) [MOD R] := a.mul_left p
    have c : p * mu ≡ R - 1 [MOD R] := by
      unfold Nat.ModEq; rw [hmu]; exact (Nat.mod_eq_of_lt (by omega)).symm
    have d : p * (mu * (z % R)) = (p * mu) * (z % R) := by ring
    rw [d] at b
    exact b.trans (c.mul_right _)
  have h2 : (z % R + r % R) % R = 0 := by
    have e : z % R + r ≡ z % R + (R - 1) * (z % R) [MOD R] := h1.add_left _
    have f : z % R + (R - 1) * (z % R) = R * (z % R) := by
      have : R - 1 + 1 = R := Nat.sub_add_cancel hR
      calc z % R + (R - 1) * (z % R) = (R - 1 + 1) * (z % R) := by ring
        _ = R * (z % R) := by rw [this]
    rw [f] at e
    have g : (z % R + r) % R = 0 := by
      have := e
      unfold Nat.ModEq at this
      rw [this]; simp
    rw [Nat.add_mod, Nat.mod_mod] at g
    exact g
  have hq : z % R + r % R = R * q := by
    have := Nat.div_add_mod (z % R + r % R) R
    rw [h2] at this
    simpa using this.symm
  have hq2 : q < 2 := by
    apply Nat.div_lt_of_lt_mul
    omega
  refine ⟨hq, hq2, ?_, ?_⟩
  · have hzd := Nat.div_add_mod z R
    have hrd := Nat.div_add_mod r R
    have : (z / R + r / R + q) * R = R * (z / R) + R * (r / R) + R * q := by ring
    rw [this]
    omega
  · have hzd := Nat.div_add_mod z R
    have hrd := Nat.div_add_mod r R
    have hxy : x * y < R * p := Nat.mul_lt_mul'' hx hy
    have hpw : p * w < p * R := (Nat.mul_lt_mul_left hp0).mpr hwlt
    have hsum : (z / R + r / R + q) * R < (2 * p) * R := by
      have e : (z / R + r / R + q) * R = R * (z / R) + R * (r / R) + R * q := by ring
      rw [e]
      have : (2 * p) * R = R * p + p * R := by ring
      rw [this]
      have hz' : z = x * y := rfl
      have hr' : r = p * w := rfl
      omega
    exact Nat.lt_of_mul_lt_mul_right hsum

theorem mulSWR_spec (R p mu x y : Nat) (hR : 0 < R) (hp0 : 0 < p) (hpR : p < R)
    (hmu : (p * mu) % R = R - 1) (hx : x < R) (hy : y < p) :
    mulSWR R p mu x y < p ∧ (mulSWR R p mu x y * R) % p = (x * y) % p := by
  obtain ⟨hq, hq2, hT, hT2⟩ := redc_core R p mu x y hR hp0 hpR hmu hx hy
  have hcarry : (if R ≤ x * y % R + p * (mu * (x * y % R) % R) % R then 1 else 0)
      = (x * y % R + p * (mu * (x * y % R) % R) % R) / R := by
    generalize (x * y % R + p * (mu * (x * y % R) % R) % R) / R = q at *
    rw [hq]
    have hq01 : q = 0 ∨ q = 1 := by omega
    rcases hq01 with h | h
    · subst h; simp; omega
    · subst h; simp
  unfold mulSWR
  simp only [hcarry]
  generalize (x * y % R + p * (mu * (x * y % R) % R) % R) / R = q at *
  generalize ht : x * y / R + p * (mu * (x * y % R) % R) / R + q = t at *
  have hmodp : (t * R) % p = (x * y) % p := by
    rw [hT]; simp
  by_cases h1 : t < p
  · have htR : t < R := by omega
    have hcc : t / R = 0 := Nat.div_eq_of_lt htR
    have hzz : t % R = t := Nat.mod_eq_of_lt htR
    simp [hcc, hzz, h1, hmodp]
  · have h1' : p ≤ t := Nat.le_of_not_lt h1
    have key : ((t - p) * R) % p = (x * y) % p := by
      have : (t - p) * R + p * R = t * R := by
        rw [← Nat.add_mul]; congr 1; omega
      rw [← hmodp, ← this]; simp
    by_cases h2 : t < R
    · have hcc : t / R = 0 := Nat.div_eq_of_lt h2
      have hzz : t % R = t := Nat.mod_eq_of_lt h2
      have hs0 : (t + R - p) % R = t - p := by
        have : t + R - p = (t - p) + R := by omega
        rw [this, Nat.add_mod_right]; exact Nat.mod_eq_of_lt (by omega)
      simp only [hcc, hzz, hs0, h1]
      simp
      exact ⟨by omega, key⟩
    · have h2' : R ≤ t := Nat.le_of_not_lt h2
      have hcc : t / R = 1 := by
        apply Nat.div_eq_of_lt_le <;> omega
      have hzz : t % R = t - R := by
        rw [Nat.mod_eq_sub_mod h2']; exact Nat.mod_eq_of_lt (by omega)
      have hlt : t - R < p := by omega
      have hs0 : (t - R + R - p) % R = t - p := by
        have : t - R + R - p = t - p := by omega
        rw [this]; exact Nat.mod_eq_of_lt (by omega)
      simp only [hcc, hzz, hs0, hlt]
      simp
      exact ⟨by omega, key⟩

theorem mulSW_spec (W p mu x y : Nat) (hp0 : 0 < p) (hpR : p < 2^W)
    (hmu : (p * mu) % 2^W = 2^W - 1) (hx : x < 2^W) (hy : y < p) :
    mulSW W p mu x y < p ∧ (mulSW W p mu x y * 2^W) % p = (x * y) % p :=
  mulSWR_spec (2^W) p mu x y (Nat.two_pow_pos W) hp0 hpR hmu hx hy

end Mont

namespace Gen
open Mont

/-- The translated single-word multiplier equals the clean REDC form whenever `x < R`, `y < p < R`. -/
theorem mulSW_eq_clean (R p mu x y : Nat) (hR : 0 < R) (hp0 : 0 < p) (hpR : p < R)
    (hmu : (p * mu) % R = R - 1) (hx : x < R) (hy : y < p) :
    mulSW R p mu x y = mulSWR R p mu x y := by
  obtain ⟨_, _, _, hT2⟩ := redc_core R p mu x y hR hp0 hpR hmu hx hy
  have hxy : x * y < R * R := by
    have : x * y < R * p := Nat.mul_lt_mul'' hx hy
    have : R * p < R * R := (Nat.mul_lt_mul_left hR).mpr hpR
    omega
  have h1 : x * y / R % R = x * y / R := Nat.mod_eq_of_lt (Nat.div_lt_of_lt_mul hxy)
  have hw : mu * (x * y % R) % R < R := Nat.mod_lt _ hR
  have hpw : p * (mu * (x * y % R) % R) < R * R := by
    have : p * (mu * (x * y % R) % R) < R * R := Nat.mul_lt_mul'' hpR hw
    exact this
  have h2 : p * (mu * (x * y % R) % R) / R % R = p * (mu * (x * y % R) % R) / R :=
    Nat.mod_eq_of_lt (Nat.div_lt_of_lt_mul hpw)
  unfold mulSW mulSWR
  simp only [h1, h2]
  generalize hq : (if R ≤ x * y % R + p * (mu * (x * y % R) % R) % R then 1 else 0) = c at *
  have hcq : c = (x * y % R + p * (mu * (x * y % R) % R) % R) / R := by
    rw [← hq]
    split
    · rename_i h
      have : x * y % R < R := Nat.mod_lt _ hR
      have : p * (mu * (x * y % R) % R) % R < R := Nat.mod_lt _ hR
      symm; apply Nat.div_eq_of_lt_le <;> omega
    · rename_i h
      symm; exact Nat.div_eq_of_lt (by omega)
  rw [← hcq] at hT2
  have h3 : (x * y / R + p * (mu * (x * y % R) % R) / R + c) / R % R
      = (x * y / R + p * (mu * (x * y % R) % R) / R + c) / R := by
    apply Nat.mod_eq_of_lt
    have : (x * y / R + p * (mu * (x * y % R) % R) / R + c) / R < 2 := by
      apply Nat.div_lt_of_lt_mul; omega
    omega
  simp only [h3]

theorem mulSW_spec (R p mu x y : Nat) (hR : 0 < R) (hp0 : 0 < p) (hpR : p < R)
    (hmu : (p * mu) % R = R - 1) (hx : x < R) (hy : y < p) :
    mulSW R p mu x y < p ∧ (mulSW R p mu x y * R) % p = (x * y) % p := by
  rw [mulSW_eq_clean R p mu x y hR hp0 hpR hmu hx hy]
  exact mulSWR_spec R p mu x y hR hp0 hpR hmu hx hy

end Gen
