import PrioModel.Gen.FpOps
import Mathlib.Tactic.Ring
import Mathlib.Tactic.Linarith
import Mathlib.Tactic.LinearCombination
import Mathlib.Data.Nat.ModEq

/-! Split-word Montgomery multiplication (the FP128 path): specification of the translated
    `Gen.mulSplit` for every half-word base `B`, modulus `p` with `p + B ≤ B*B`, and operands below `p`. -/
namespace Gen

/-- hi/lo decomposition of a product of two half-words with an added carry below `B`. -/
theorem hi_lt_of_mul_add (B a b c h l : Nat) (hB : 0 < B) (ha : a < B) (hb : b < B) (hc : c < B)
    (h1 : h * B + l = a * b + c) : h < B := by
  have : a * b ≤ (B - 1) * (B - 1) := Nat.mul_le_mul (by omega) (by omega)
  have h2 : (B - 1) * (B - 1) + (B - 1) = (B - 1) * B := by
    have : B - 1 + 1 = B := Nat.sub_add_cancel hB
    calc (B - 1) * (B - 1) + (B - 1) = (B - 1) * (B - 1 + 1) := by ring
      _ = (B - 1) * B := by rw [this]
  have h3 : h * B ≤ (B - 1) * B := by omega
  have : h ≤ B - 1 := Nat.le_of_mul_le_mul_right h3 hB
  omega

/-- Montgomery step: `z0 + (p0 * (mu*z0 % B)) % B` is a multiple of `B`. -/
theorem redc_low_zero0 (B p mu z0 : Nat) (hB : 0 < B) (hmu : (p * mu) % B = B - 1) :
    (z0 + (p % B * ((mu * z0) % B)) % B) % B = 0 := by
  have h1 : p % B * ((mu * z0) % B) ≡ (B - 1) * z0 [MOD B] := by
    have a : (mu * z0) % B ≡ mu * z0 [MOD B] := Nat.mod_modEq _ _
    have a' : p % B ≡ p [MOD B] := Nat.mod_modEq _ _
    have b : p % B * ((mu * z0) % B) ≡ p * (mu * z0) [MOD B] := a'.mul a
    have c : p * mu ≡ B - 1 [MOD B] := by
      unfold Nat.ModEq; rw [hmu]; exact (Nat.mod_eq_of_lt (by omega)).symm
    have d : p * (mu * z0) = (p * mu) * z0 := by ring
    rw [d] at b
    exact b.trans (c.mul_right _)
  have e : z0 + p % B * ((mu * z0) % B) ≡ z0 + (B - 1) * z0 [MOD B] := h1.add_left _
  have f : z0 + (B - 1) * z0 = B * z0 := by
    have : B - 1 + 1 = B := Nat.sub_add_cancel hB
    calc z0 + (B - 1) * z0 = (B - 1 + 1) * z0 := by ring
      _ = B * z0 := by rw [this]
  rw [f] at e
  have g : (z0 + p % B * ((mu * z0) % B)) % B = 0 := by
    have := e; unfold Nat.ModEq at this; rw [this]; simp
  rw [Nat.add_mod, Nat.mod_mod]
  rw [Nat.add_mod] at g
  exact g


/-- the form the translator emits: `z0.as_()` truncates the (already small) limb to a half word -/
theorem redc_low_zero (B p mu z0 : Nat) (hB : 0 < B) (hmu : (p * mu) % B = B - 1) :
    (z0 + (p % B * ((mu * (z0 % B)) % B)) % B) % B = 0 := by
  have h : (mu * (z0 % B)) % B = (mu * z0) % B := Nat.mul_mod_mod mu z0 B
  rw [h]; exact redc_low_zero0 B p mu z0 hB hmu

/-- room for the first reduction round: this is where `p + B ≤ B*B` is needed -/
theorem split_room (B p xy pw : Nat) (hB0 : 0 < B) (hpR : p + B ≤ B * B)
    (h1 : xy + p ≤ (B * B) * p) (h2 : pw + p ≤ p * B) : xy + pw < B ^ 4 := by
  have h3 : (p + B) * (B * B + B) ≤ (B * B) * (B * B + B) := Nat.mul_le_mul_right _ hpR
  have e1 : (p + B) * (B * B + B) = p * (B * B) + p * B + B * (B * B) + B * B := by ring
  have e2 : (B * B) * (B * B + B) = B ^ 4 + B * (B * B) := by ring
  have e3 : (B * B) * p = p * (B * B) := by ring
  have hBB : 0 < B * B := Nat.mul_pos hB0 hB0
  rw [e1, e2] at h3
  rw [e3] at h1
  linarith

theorem lt_of_mul_pow_le (B r v : Nat) (hB : 0 < B) (k : Nat) (h : B ^ k * r ≤ v) (hv : v < B ^ (k+1)) :
    r < B := by
  by_contra hc
  have hc' : B ≤ r := Nat.le_of_not_lt hc
  have : B ^ k * B ≤ B ^ k * r := Nat.mul_le_mul_left _ hc'
  have e : B ^ (k+1) = B ^ k * B := by ring
  omega

theorem mulSplit_value (B p mu x y : Nat) (hB : 1 < B) (hp0 : 0 < p) (hpR : p + B ≤ B * B)
    (hmu : (p * mu) % B = B - 1) (hx : x < B * B) (hy : y < p) :
    ∃ t w, t * (B * B) = x * y + p * w ∧ w < B * B ∧
      mulSplit B p mu x y =
        (let prod := t % (B*B); let cc := t / (B*B);
         let s0 := (prod + B*B - p) % (B*B)
         let b0 := if prod < p then 1 else 0
         let b1 := if cc < b0 then 1 else 0
         if b1 = 1 then prod else s0) := by
  have hB0 : 0 < B := by omega
  have hpBB : p < B * B := by omega
  unfold mulSplit
  extract_lets R x1 x0 y1 y0 r1 carry1 z0 r2 hi2 lo2 r3 z1a cc3 r4 z2a r5 hi5 lo5 r6 z1b cc6 r7 carry7 r8 hi8 lo8 r9 lo9 cc9 r10 hi10 r11 z2b cc11 r12 z3a w1 p0 r13 hi13 lo13 r14 cc14 r15 carry15 p1 r16 hi16 lo16 r17 lo17 cc17 r18 hi18 r19 z1c cc19 r20 z2c cc20 r21 z3b w2 r22 hi22 lo22 r23 cc23 r24 carry24 r25 hi25 lo25 r26 lo26 cc26 r27 hi27 r28 z2d cc28 r29 z3c cc prod s0 b0 b1
  -- limbs of the operands
  have hx0 : x0 < B := Nat.mod_lt _ hB0
  have hy0 : y0 < B := Nat.mod_lt _ hB0
  have hx1 : x1 < B := Nat.div_lt_of_lt_mul (by omega)
  have hy1 : y1 < B := Nat.div_lt_of_lt_mul (by omega)
  have ex : x1 * B + x0 = x := Nat.div_add_mod' x B
  have ey : y1 * B + y0 = y := Nat.div_add_mod' y B
  have hp0' : p0 < B := Nat.mod_lt _ hB0
  have hp1 : p1 < B := Nat.div_lt_of_lt_mul (by omega)
  have ep : p1 * B + p0 = p := Nat.div_add_mod' p B
  -- multiplication
  have e1 : carry1 * B + z0 = x0 * y0 := Nat.div_add_mod' r1 B
  have hz0 : z0 < B := Nat.mod_lt _ hB0
  have hcarry1 : carry1 < B := hi_lt_of_mul_add B x0 y0 0 carry1 z0 hB0 hx0 hy0 hB0 (by omega)
  have e2 : hi2 * B + lo2 = x0 * y1 := Nat.div_add_mod' r2 B
  have e3 : cc3 * B + z1a = lo2 + carry1 := Nat.div_add_mod' r3 B
  have hz1a : z1a < B := Nat.mod_lt _ hB0
  have hr4 : r4 < B := hi_lt_of_mul_add B x0 y1 carry1 r4 z1a hB0 hx0 hy1 hcarry1 (by
    show (hi2 + cc3) * B + z1a = x0 * y1 + carry1
    linear_combination e2 + e3)
  have ez2a : z2a = r4 := Nat.mod_eq_of_lt hr4
  have e5 : hi5 * B + lo5 = x1 * y0 := Nat.div_add_mod' r5 B
  have e6 : cc6 * B + z1b = z1a + lo5 := Nat.div_add_mod' r6 B
  have hz1b : z1b < B := Nat.mod_lt _ hB0
  have hr7 : r7 < B := hi_lt_of_mul_add B x1 y0 z1a r7 z1b hB0 hx1 hy0 hz1a (by
    show (hi5 + cc6) * B + z1b = x1 * y0 + z1a
    linear_combination e5 + e6)
  have ecarry7 : carry7 = r7 := Nat.mod_eq_of_lt hr7
  have e8 : hi8 * B + lo8 = x1 * y1 := Nat.div_add_mod' r8 B
  have e9 : cc9 * B + lo9 = lo8 + carry7 := Nat.div_add_mod' r9 B
  have hlo9 : lo9 < B := Nat.mod_lt _ hB0
  have hr10 : r10 < B := hi_lt_of_mul_add B x1 y1 carry7 r10 lo9 hB0 hx1 hy1 (by omega) (by
    show (hi8 + cc9) * B + lo9 = x1 * y1 + carry7
    linear_combination e8 + e9)
  have ehi10 : hi10 = r10 := Nat.mod_eq_of_lt hr10
  have e11 : cc11 * B + z2b = z2a + lo9 := Nat.div_add_mod' r11 B
  have hz2b : z2b < B := Nat.mod_lt _ hB0
  have eprod : z0 + B * z1b + B^2 * z2b + B^3 * r12 = x * y := by
    have e12 : r12 = hi10 + cc11 := rfl
    have e7 : r7 = hi5 + cc6 := rfl
    have e10 : r10 = hi8 + cc9 := rfl
    have e4 : r4 = hi2 + cc3 := rfl
    rw [← ex, ← ey, e12, ehi10, e10]
    linear_combination e1 + B * e2 + B * e3 + B * e5 + B * e6 + B^2 * e8 + B^2 * e9 + B^2 * e11
      + B^2 * ez2a + B^2 * e4 + B^2 * ecarry7 + B^2 * e7
  have hxy : x * y < B^4 := by
    have : x * y < (B*B) * (B*B) := Nat.mul_lt_mul'' (by omega) (by omega)
    have e : B^4 = (B*B)*(B*B) := by ring
    omega
  have hr12 : r12 < B := lt_of_mul_pow_le B r12 (x*y) hB0 3 (by omega) hxy
  have ez3a : z3a = r12 := Nat.mod_eq_of_lt hr12
  -- reduction round 1
  have hw1 : w1 < B := Nat.mod_lt _ hB0
  have e13 : hi13 * B + lo13 = p0 * w1 := Nat.div_add_mod' r13 B
  have h14 : r14 % B = 0 := redc_low_zero B p mu z0 hB0 hmu
  have e14 : cc14 * B = z0 + lo13 := by
    have := Nat.div_add_mod' r14 B
    rw [h14] at this
    simpa using this
  have hr15 : r15 < B := hi_lt_of_mul_add B p0 w1 z0 r15 0 hB0 hp0' hw1 hz0 (by
    show (hi13 + cc14) * B + 0 = p0 * w1 + z0
    linear_combination e13 + e14)
  have ecarry15 : carry15 = r15 := Nat.mod_eq_of_lt hr15
  have e16 : hi16 * B + lo16 = p1 * w1 := Nat.div_add_mod' r16 B
  have e17 : cc17 * B + lo17 = lo16 + carry15 := Nat.div_add_mod' r17 B
  have hlo17 : lo17 < B := Nat.mod_lt _ hB0
  have hr18 : r18 < B := hi_lt_of_mul_add B p1 w1 carry15 r18 lo17 hB0 hp1 hw1 (by omega) (by
    show (hi16 + cc17) * B + lo17 = p1 * w1 + carry15
    linear_combination e16 + e17)
  have ehi18 : hi18 = r18 := Nat.mod_eq_of_lt hr18
  have e19 : cc19 * B + z1c = z1b + lo17 := Nat.div_add_mod' r19 B
  have hz1c : z1c < B := Nat.mod_lt _ hB0
  have e20 : cc20 * B + z2c = z2b + hi18 + cc19 := Nat.div_add_mod' r20 B
  have hz2c : z2c < B := Nat.mod_lt _ hB0
  have eT1 : (z1c + B * z2c + B^2 * r21) * B = x * y + p * w1 := by
    have e21 : r21 = z3a + cc20 := rfl
    have e15 : r15 = hi13 + cc14 := rfl
    have e18 : r18 = hi16 + cc17 := rfl
    rw [← eprod, ← ep, e21, ez3a]
    linear_combination e13 + e14 + B * e16 + B * e17 + B * e19 + B^2 * e20 + B * ecarry15 + B * e15
      + B^2 * ehi18 + B^2 * e18
  have hT1 : x * y + p * w1 < B^4 := by
    have h1 : x * y + p ≤ (B * B) * p := by
      have a : x * y ≤ x * p := Nat.mul_le_mul_left _ (by omega)
      have b : (x + 1) * p ≤ (B * B) * p := Nat.mul_le_mul_right _ (by omega)
      linarith
    have h2 : p * w1 + p ≤ p * B := by
      have : p * (w1 + 1) ≤ p * B := Nat.mul_le_mul_left _ (by omega)
      linarith
    exact split_room B p (x * y) (p * w1) hB0 hpR h1 h2
  have hr21 : r21 < B := by
    apply lt_of_mul_pow_le B r21 (x * y + p * w1) hB0 3 _ hT1
    rw [← eT1]
    have : B^3 * r21 ≤ (B ^ 2 * r21) * B := by
      have : B^3 * r21 = (B^2 * r21) * B := by ring
      omega
    have h' : (B ^ 2 * r21) * B ≤ (z1c + B * z2c + B ^ 2 * r21) * B :=
      Nat.mul_le_mul_right _ (by omega)
    omega
  have ez3b : z3b = r21 := Nat.mod_eq_of_lt hr21
  -- reduction round 2
  have hw2 : w2 < B := Nat.mod_lt _ hB0
  have e22 : hi22 * B + lo22 = p0 * w2 := Nat.div_add_mod' r22 B
  have h23 : r23 % B = 0 := redc_low_zero B p mu z1c hB0 hmu
  have e23 : cc23 * B = z1c + lo22 := by
    have := Nat.div_add_mod' r23 B
    rw [h23] at this
    simpa using this
  have hr24 : r24 < B := hi_lt_of_mul_add B p0 w2 z1c r24 0 hB0 hp0' hw2 hz1c (by
    show (hi22 + cc23) * B + 0 = p0 * w2 + z1c
    linear_combination e22 + e23)
  have ecarry24 : carry24 = r24 := Nat.mod_eq_of_lt hr24
  have e25 : hi25 * B + lo25 = p1 * w2 := Nat.div_add_mod' r25 B
  have e26 : cc26 * B + lo26 = lo25 + carry24 := Nat.div_add_mod' r26 B
  have hlo26 : lo26 < B := Nat.mod_lt _ hB0
  have hr27 : r27 < B := hi_lt_of_mul_add B p1 w2 carry24 r27 lo26 hB0 hp1 hw2 (by omega) (by
    show (hi25 + cc26) * B + lo26 = p1 * w2 + carry24
    linear_combination e25 + e26)
  have ehi27 : hi27 = r27 := Nat.mod_eq_of_lt hr27
  have e28 : cc28 * B + z2d = z2c + lo26 := Nat.div_add_mod' r28 B
  have hz2d : z2d < B := Nat.mod_lt _ hB0
  have e29 : cc * B + z3c = z3b + hi27 + cc28 := Nat.div_add_mod' r29 B
  have hz3c : z3c < B := Nat.mod_lt _ hB0
  have eT2 : (z2d + B * z3c + B^2 * cc) * B = (z1c + B * z2c + B^2 * z3b) + p * w2 := by
    have e24 : r24 = hi22 + cc23 := rfl
    have e27 : r27 = hi25 + cc26 := rfl
    rw [← ep]
    linear_combination e22 + e23 + B * e25 + B * e26 + B * e28 + B^2 * e29 + B * ecarry24 + B * e24
      + B^2 * ehi27 + B^2 * e27
  have hprod : prod < B * B := by
    show z2d + z3c * B < B * B
    have : z3c * B ≤ (B - 1) * B := Nat.mul_le_mul_right _ (by omega)
    have e : (B - 1) * B + B = B * B := by
      have : B - 1 + 1 = B := Nat.sub_add_cancel hB0
      calc (B - 1) * B + B = (B - 1 + 1) * B := by ring
        _ = B * B := by rw [this]
    omega
  refine ⟨prod + cc * (B * B), w1 + w2 * B, ?_, ?_, ?_⟩
  · have eprod' : prod = z2d + z3c * B := rfl
    rw [eprod']
    rw [ez3b] at eT2
    linear_combination B * eT2 + eT1
  · have : w2 * B ≤ (B - 1) * B := Nat.mul_le_mul_right _ (by omega)
    have e : (B - 1) * B + B = B * B := by
      have : B - 1 + 1 = B := Nat.sub_add_cancel hB0
      calc (B - 1) * B + B = (B - 1 + 1) * B := by ring
        _ = B * B := by rw [this]
    omega
  · have hBB : 0 < B * B := Nat.mul_pos hB0 hB0
    have hm : (prod + cc * (B * B)) % (B * B) = prod := by
      rw [Nat.add_mul_mod_self_right]; exact Nat.mod_eq_of_lt hprod
    have hd : (prod + cc * (B * B)) / (B * B) = cc := by
      rw [Nat.add_mul_div_right _ _ hBB, Nat.div_eq_of_lt hprod]; simp
    simp only [hm, hd]
    rfl

/-- The branch-free final subtraction selects `t` or `t - p`. -/
theorem final_select (R p t : Nat) (hpR : p < R) (ht : t < 2 * p) :
    (let prod := t % R; let cc := t / R
     let s0 := (prod + R - p) % R
     let b0 := if prod < p then 1 else 0
     let b1 := if cc < b0 then 1 else 0
     if b1 = 1 then prod else s0) = if t < p then t else t - p := by
  simp only []
  by_cases h1 : t < p
  · have htR : t < R := by omega
    simp [Nat.div_eq_of_lt htR, Nat.mod_eq_of_lt htR, h1]
  · have h1' : p ≤ t := Nat.le_of_not_lt h1
    by_cases h2 : t < R
    · have hs0 : (t + R - p) % R = t - p := by
        have : t + R - p = (t - p) + R := by omega
        rw [this, Nat.add_mod_right]; exact Nat.mod_eq_of_lt (by omega)
      simp [Nat.div_eq_of_lt h2, Nat.mod_eq_of_lt h2, h1, hs0]
    · have h2' : R ≤ t := Nat.le_of_not_lt h2
      have hcc : t / R = 1 := by apply Nat.div_eq_of_lt_le <;> omega
      have hzz : t % R = t - R := by
        rw [Nat.mod_eq_sub_mod h2']; exact Nat.mod_eq_of_lt (by omega)
      have hlt : t - R < p := by omega
      have hs0 : (t - R + R - p) % R = t - p := by
        have : t - R + R - p = t - p := by omega
        rw [this]; exact Nat.mod_eq_of_lt (by omega)
      simp [hcc, hzz, hlt, hs0, h1]

theorem mulSplit_spec (B p mu x y : Nat) (hB : 1 < B) (hp0 : 0 < p) (hpR : p + B ≤ B * B)
    (hmu : (p * mu) % B = B - 1) (hx : x < B * B) (hy : y < p) :
    mulSplit B p mu x y < p ∧ (mulSplit B p mu x y * (B * B)) % p = (x * y) % p := by
  obtain ⟨t, w, ht, hw, hres⟩ := mulSplit_value B p mu x y hB hp0 hpR hmu hx hy
  have hpBB : p < B * B := by omega
  have ht2 : t < 2 * p := by
    have h1 : x * y < (B * B) * p := Nat.mul_lt_mul'' hx hy
    have h2 : p * w < p * (B * B) := (Nat.mul_lt_mul_left hp0).mpr hw
    have h4 : t * (B * B) < (2 * p) * (B * B) := by
      have : (2 * p) * (B * B) = (B * B) * p + p * (B * B) := by ring
      omega
    exact Nat.lt_of_mul_lt_mul_right h4
  rw [hres, final_select (B * B) p t hpBB ht2]
  have hmodp : (t * (B * B)) % p = (x * y) % p := by rw [ht]; simp
  by_cases h1 : t < p
  · simp [h1, hmodp]
  · have h1' : p ≤ t := Nat.le_of_not_lt h1
    simp only [h1, if_false]
    refine ⟨by omega, ?_⟩
    have : (t - p) * (B * B) + p * (B * B) = t * (B * B) := by
      rw [← Nat.add_mul]; congr 1; omega
    rw [← hmodp, ← this]; simp

end Gen
