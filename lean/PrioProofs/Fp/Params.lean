import PrioProofs.Fp.Repr
import Mathlib.Data.Nat.Prime.Basic

/-! Well-formedness of a parameter set (a decidable check on the translated constants) and the
    consequence that its multiplier is a Montgomery multiplier. -/
namespace Gen
open Prio

/-- the checks `src/fp.rs`'s test `check_consistency` performs, plus the split-word precondition -/
def FpParams.wf (P : FpParams) : Bool :=
  decide (2 ≤ P.bits) && decide (1 < P.prime) && decide (P.prime < 2 ^ P.bits) &&
  (if P.split then
     decide (P.bits % 2 = 0) && decide (P.prime + 2 ^ (P.bits / 2) ≤ 2 ^ (P.bits / 2) * 2 ^ (P.bits / 2)) &&
     decide ((P.prime * P.mu) % 2 ^ (P.bits / 2) = 2 ^ (P.bits / 2) - 1)
   else decide ((P.prime * P.mu) % 2 ^ P.bits = 2 ^ P.bits - 1)) &&
  decide (P.r2 = (2 ^ P.bits * 2 ^ P.bits) % P.prime) &&
  decide (P.one = 2 ^ P.bits % P.prime)

theorem odd_of_mul_mod_pow (p mu k : Nat) (hk : 0 < k) (h : (p * mu) % 2 ^ k = 2 ^ k - 1) : p % 2 = 1 := by
  have h2 : 2 ∣ 2 ^ k := dvd_pow_self 2 (by omega)
  have hpos : 2 ≤ 2 ^ k := by
    calc 2 = 2 ^ 1 := by norm_num
      _ ≤ 2 ^ k := Nat.pow_le_pow_right (by norm_num) hk
  have : (p * mu) % 2 = 1 := by
    have e := Nat.mod_mod_of_dvd (p * mu) h2
    rw [h] at e
    rw [← e]
    obtain ⟨c, hc⟩ := h2
    omega
  by_contra hne
  have : p % 2 = 0 := by omega
  have : (p * mu) % 2 = 0 := by rw [Nat.mul_mod, this]; simp
  omega

theorem coprime_two_pow (p k : Nat) (h : p % 2 = 1) : Nat.gcd p (2 ^ k) = 1 := by
  apply Nat.Coprime.pow_right
  exact Nat.coprime_two_right.mpr (Nat.odd_iff.mpr h)

theorem FpParams.isMont {P : FpParams} (h : P.wf = true) : IsMont P.R P.prime P.mul := by
  unfold FpParams.wf at h
  simp only [Bool.and_eq_true, decide_eq_true_eq] at h
  obtain ⟨⟨⟨⟨⟨hbits, hp1⟩, hpR⟩, hmul⟩, _⟩, _⟩ := h
  have hR : 0 < P.R := Nat.two_pow_pos _
  by_cases hs : P.split = true
  · simp only [hs, if_true, Bool.and_eq_true, decide_eq_true_eq] at hmul
    obtain ⟨⟨heven, hroom⟩, hmu⟩ := hmul
    have hBB : P.B * P.B = P.R := by
      unfold FpParams.B FpParams.R
      rw [← Nat.pow_add]; congr 1; omega
    have hB : 1 < P.B := by
      unfold FpParams.B
      calc 1 < 2 ^ 1 := by norm_num
        _ ≤ 2 ^ (P.bits / 2) := Nat.pow_le_pow_right (by norm_num) (by omega)
    have hodd := odd_of_mul_mod_pow P.prime P.mu (P.bits / 2) (by omega) hmu
    refine ⟨hp1, hpR, coprime_two_pow _ _ hodd, ?_, ?_⟩
    · intro x y hx hy
      unfold FpParams.mul; simp only [hs, if_true]
      exact (mulSplit_spec P.B P.prime P.mu x y hB (by omega) hroom hmu (hBB ▸ hx) hy).1
    · intro x y hx hy
      unfold FpParams.mul; simp only [hs, if_true]
      have := (mulSplit_spec P.B P.prime P.mu x y hB (by omega) hroom hmu (hBB ▸ hx) hy).2
      rw [hBB] at this
      exact this
  · simp only [hs] at hmul
    have hmu : (P.prime * P.mu) % P.R = P.R - 1 := by unfold FpParams.R; simpa using hmul
    have hodd := odd_of_mul_mod_pow P.prime P.mu P.bits (by omega) hmu
    refine ⟨hp1, hpR, coprime_two_pow _ _ hodd, ?_, ?_⟩
    · intro x y hx hy
      unfold FpParams.mul; simp only [hs]
      exact (mulSW_spec P.R P.prime P.mu x y hR (by omega) hpR hmu hx hy).1
    · intro x y hx hy
      unfold FpParams.mul; simp only [hs]
      exact (mulSW_spec P.R P.prime P.mu x y hR (by omega) hpR hmu hx hy).2

theorem FpParams.r2_ok {P : FpParams} (h : P.wf = true) : P.r2 = (P.R * P.R) % P.prime := by
  unfold FpParams.wf at h
  simp only [Bool.and_eq_true, decide_eq_true_eq] at h
  exact h.1.2

theorem FpParams.one_ok {P : FpParams} (h : P.wf = true) : P.one = P.R % P.prime := by
  unfold FpParams.wf at h
  simp only [Bool.and_eq_true, decide_eq_true_eq] at h
  exact h.2

end Gen
