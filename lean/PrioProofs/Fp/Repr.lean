import PrioModel.Field
import PrioProofs.Fp.AddSub
import PrioProofs.Fp.MontSW
import PrioProofs.Fp.MontSplit
import Mathlib.Data.Nat.ModEq
import Mathlib.Data.Nat.GCD.Basic
import Mathlib.Algebra.Ring.Parity

/-! The Montgomery representation: from "the multiplier is a REDC" to "stored words are integers
    modulo `p` under the map `val = residue`", for add, sub, neg, mul, pow, montgomery, residue. -/
namespace Gen
open Prio

/-- what the limb-level theorems establish about a multiplier -/
structure IsMont (R p : Nat) (mul : Nat → Nat → Nat) : Prop where
  p_gt : 1 < p
  p_lt : p < R
  cop : Nat.gcd p R = 1
  mul_lt : ∀ x y, x < R → y < p → mul x y < p
  mul_eq : ∀ x y, x < R → y < p → mul x y * R ≡ x * y [MOD p]

variable {R p : Nat} {mul : Nat → Nat → Nat}

theorem IsMont.cancel (h : IsMont R p mul) {a b : Nat} (hab : a * R ≡ b * R [MOD p]) : a ≡ b [MOD p] :=
  Nat.ModEq.cancel_right_of_coprime h.cop hab

theorem eq_of_modEq_lt {a b p : Nat} (h : a ≡ b [MOD p]) (ha : a < p) (hb : b < p) : a = b := by
  have := h; unfold Nat.ModEq at this
  rwa [Nat.mod_eq_of_lt ha, Nat.mod_eq_of_lt hb] at this

theorem IsMont.residue_eq (h : IsMont R p mul) {x : Nat} (hx : x < R) :
    residue mul R p x = mul x 1 := by
  unfold residue
  have hl := h.mul_lt x 1 hx h.p_gt
  rw [modp_spec R p _ (by have := h.p_gt; omega) h.p_lt (by have := h.p_lt; omega) (by omega)]
  exact Nat.mod_eq_of_lt hl

theorem IsMont.residue_lt (h : IsMont R p mul) {x : Nat} (hx : x < R) : residue mul R p x < p := by
  rw [h.residue_eq hx]; exact h.mul_lt x 1 hx h.p_gt

theorem IsMont.residue_spec (h : IsMont R p mul) {x : Nat} (hx : x < R) :
    residue mul R p x * R ≡ x [MOD p] := by
  rw [h.residue_eq hx]; simpa using h.mul_eq x 1 hx h.p_gt

/-- `montgomery x` is `x·R mod p`, for every word `x` (reduced or not) -/
theorem IsMont.montgomery_spec (h : IsMont R p mul) {r2 x : Nat} (hr2 : r2 = (R * R) % p) (hx : x < R) :
    montgomery mul R p r2 x = (x * R) % p := by
  have hp0 : 0 < p := by have := h.p_gt; omega
  have hr2lt : r2 < p := by rw [hr2]; exact Nat.mod_lt _ hp0
  unfold montgomery
  have hl := h.mul_lt x r2 hx hr2lt
  rw [modp_spec R p _ hp0 h.p_lt (by have := h.p_lt; omega) (by omega), Nat.mod_eq_of_lt hl]
  apply eq_of_modEq_lt _ hl (Nat.mod_lt _ hp0)
  apply h.cancel
  have e1 := h.mul_eq x r2 hx hr2lt
  have e2 : x * r2 ≡ x * (R * R) [MOD p] := by
    rw [hr2]; exact (Nat.mod_modEq _ _).mul_left x
  have e3 : (x * R) % p * R ≡ x * R * R [MOD p] := (Nat.mod_modEq _ _).mul_right R
  have e4 : x * (R * R) = x * R * R := by ring
  exact e1.trans (e2.trans (e4 ▸ e3.symm))

theorem IsMont.montgomery_lt (h : IsMont R p mul) {r2 x : Nat} (hr2 : r2 = (R * R) % p) (hx : x < R) :
    montgomery mul R p r2 x < p := by
  rw [h.montgomery_spec hr2 hx]; exact Nat.mod_lt _ (by have := h.p_gt; omega)

/-- integer → field element → integer is reduction modulo `p` -/
theorem IsMont.residue_montgomery (h : IsMont R p mul) {r2 x : Nat} (hr2 : r2 = (R * R) % p) (hx : x < R) :
    residue mul R p (montgomery mul R p r2 x) = x % p := by
  have hp0 : 0 < p := by have := h.p_gt; omega
  have hm := h.montgomery_lt hr2 hx
  have hmR : montgomery mul R p r2 x < R := by have := h.p_lt; omega
  apply eq_of_modEq_lt _ (h.residue_lt hmR) (Nat.mod_lt _ hp0)
  apply h.cancel
  have e1 := h.residue_spec hmR
  rw [h.montgomery_spec hr2 hx] at e1 ⊢
  exact e1.trans ((Nat.mod_modEq _ _).trans ((Nat.mod_modEq _ _).symm.mul_right R))

/-- field element → integer → field element is the identity: the stored word is determined by the
    value, so `==`, `Hash`, `ct_eq` and the encoding all agree with equality modulo `p` -/
theorem IsMont.montgomery_residue (h : IsMont R p mul) {r2 a : Nat} (hr2 : r2 = (R * R) % p) (ha : a < p) :
    montgomery mul R p r2 (residue mul R p a) = a := by
  have hp0 : 0 < p := by have := h.p_gt; omega
  have haR : a < R := by have := h.p_lt; omega
  have hr := h.residue_lt haR
  rw [h.montgomery_spec hr2 (by have := h.p_lt; omega)]
  have := h.residue_spec haR
  unfold Nat.ModEq at this
  rw [this, Nat.mod_eq_of_lt ha]

theorem IsMont.residue_injective (h : IsMont R p mul) {a b : Nat} (ha : a < p) (hb : b < p)
    (hab : residue mul R p a = residue mul R p b) : a = b := by
  have e := h.montgomery_residue rfl ha
  rw [hab, h.montgomery_residue rfl hb] at e
  exact e.symm

theorem IsMont.val_mul (h : IsMont R p mul) {a b : Nat} (ha : a < p) (hb : b < p) :
    residue mul R p (mul a b) = (residue mul R p a * residue mul R p b) % p := by
  have hp0 : 0 < p := by have := h.p_gt; omega
  have hpR := h.p_lt
  have hm := h.mul_lt a b (by omega) hb
  apply eq_of_modEq_lt _ (h.residue_lt (by omega)) (Nat.mod_lt _ hp0)
  refine Nat.ModEq.trans ?_ (Nat.mod_modEq _ _).symm
  apply h.cancel; apply h.cancel
  have e1 : residue mul R p (mul a b) * R * R ≡ mul a b * R [MOD p] :=
    (h.residue_spec (by omega : mul a b < R)).mul_right R
  have e2 := h.mul_eq a b (by omega) hb
  have e3 : residue mul R p a * R * (residue mul R p b * R) ≡ a * b [MOD p] :=
    (h.residue_spec (by omega : a < R)).mul (h.residue_spec (by omega : b < R))
  have e4 : residue mul R p a * residue mul R p b * R * R
      = residue mul R p a * R * (residue mul R p b * R) := by ring
  rw [e4]
  exact e1.trans (e2.trans e3.symm)

theorem IsMont.val_add (h : IsMont R p mul) {a b : Nat} (ha : a < p) (hb : b < p) :
    residue mul R p (add R p a b) = (residue mul R p a + residue mul R p b) % p := by
  have hp0 : 0 < p := by have := h.p_gt; omega
  have hpR := h.p_lt
  have hs := add_lt R p a b hp0 hpR ha hb
  apply eq_of_modEq_lt _ (h.residue_lt (by omega)) (Nat.mod_lt _ hp0)
  refine Nat.ModEq.trans ?_ (Nat.mod_modEq _ _).symm
  apply h.cancel
  have e1 := h.residue_spec (by omega : add R p a b < R)
  rw [add_spec R p a b hp0 hpR ha hb] at e1 ⊢
  have e3 : (residue mul R p a + residue mul R p b) * R ≡ a + b [MOD p] := by
    rw [Nat.add_mul]
    exact (h.residue_spec (by omega : a < R)).add (h.residue_spec (by omega : b < R))
  exact e1.trans ((Nat.mod_modEq _ _).trans e3.symm)

theorem IsMont.val_sub (h : IsMont R p mul) {a b : Nat} (ha : a < p) (hb : b < p) :
    residue mul R p (sub R p a b) = (residue mul R p a + p - residue mul R p b) % p := by
  have hp0 : 0 < p := by have := h.p_gt; omega
  have hpR := h.p_lt
  have hs := sub_lt R p a b hp0 hpR ha hb
  have hrb := h.residue_lt (by omega : b < R)
  apply eq_of_modEq_lt _ (h.residue_lt (by omega)) (Nat.mod_lt _ hp0)
  refine Nat.ModEq.trans ?_ (Nat.mod_modEq _ _).symm
  apply h.cancel
  -- add `val b * R` on both sides
  apply Nat.ModEq.add_right_cancel' (residue mul R p b * R)
  have e1 := h.residue_spec (by omega : sub R p a b < R)
  rw [sub_spec R p a b hp0 hpR ha hb] at e1 ⊢
  have eb := h.residue_spec (by omega : b < R)
  have ea := h.residue_spec (by omega : a < R)
  have lhs : residue mul R p ((a + p - b) % p) * R + residue mul R p b * R ≡ (a + p - b) + b [MOD p] :=
    (e1.trans (Nat.mod_modEq _ _)).add eb
  have rhs : (residue mul R p a + p - residue mul R p b) * R + residue mul R p b * R
      = residue mul R p a * R + p * R := by
    generalize residue mul R p a = va at *
    generalize residue mul R p b = vb at *
    have e : va + p - vb + vb = va + p := by omega
    rw [← Nat.add_mul, ← Nat.add_mul, e]
  rw [rhs]
  have e5 : a + p - b + b = a + p := by omega
  rw [e5] at lhs
  have e6 : residue mul R p a * R + p * R ≡ a + p [MOD p] := by
    have : p * R ≡ p [MOD p] := by
      unfold Nat.ModEq; simp
    exact ea.add this
  exact lhs.trans e6.symm

theorem IsMont.val_neg (h : IsMont R p mul) {a : Nat} (ha : a < p) :
    residue mul R p (neg R p a) = (p - residue mul R p a) % p := by
  have hp0 : 0 < p := by have := h.p_gt; omega
  unfold neg
  rw [h.val_sub hp0 ha]
  have h0 : residue mul R p 0 = 0 := by
    have hl := h.residue_lt (by have := h.p_lt; omega : 0 < R)
    have := h.residue_spec (by have := h.p_lt; omega : 0 < R)
    have h2 : residue mul R p 0 ≡ 0 [MOD p] := by
      apply h.cancel; simpa using this
    exact eq_of_modEq_lt h2 hl hp0
  rw [h0]; simp

/-- the `pow` loop computes the power, on values -/
theorem IsMont.val_powLoop (h : IsMont R p mul) {x : Nat} (hx : x < p) (e : Nat) :
    ∀ (i t : Nat), t < p →
      powLoop mul x e i t < p ∧
      residue mul R p (powLoop mul x e i t)
        = (residue mul R p t ^ (2 ^ i) * residue mul R p x ^ (e % 2 ^ i)) % p := by
  have hp0 : 0 < p := by have := h.p_gt; omega
  have hpR := h.p_lt
  intro i
  induction i with
  | zero =>
    intro t ht
    simp only [powLoop, pow_zero, pow_one, Nat.mod_one, mul_one]
    exact ⟨ht, (Nat.mod_eq_of_lt (h.residue_lt (by omega))).symm⟩
  | succ i ih =>
    intro t ht
    simp only [powLoop]
    have htt := h.mul_lt t t (by omega) ht
    have vtt := h.val_mul ht ht
    have hbit : e % 2 ^ (i + 1) = 2 ^ i * (if e.testBit i then 1 else 0) + e % 2 ^ i := by
      rw [Nat.testBit_eq_decide_div_mod_eq, Nat.mod_pow_succ]
      have : e / 2 ^ i % 2 = 0 ∨ e / 2 ^ i % 2 = 1 := by omega
      rcases this with h0 | h1
      · rw [h0]; simp
      · rw [h1]; simp; omega
    generalize hvt : residue mul R p t = vt at *
    generalize hvx : residue mul R p x = vx at *
    generalize hk : e % 2 ^ i = k at *
    by_cases hb : e.testBit i = true
    · simp only [hb, ↓reduceIte] at hbit ⊢
      have hm := h.mul_lt (mul t t) x (by omega) hx
      obtain ⟨h1, h2⟩ := ih (mul (mul t t) x) hm
      refine ⟨h1, ?_⟩
      rw [h2, h.val_mul htt hx, vtt, hvx, hbit]
      show Nat.ModEq p _ _
      have A : vt * vt % p * vx % p ≡ vt * vt * vx [MOD p] :=
        (Nat.mod_modEq _ _).trans ((Nat.mod_modEq _ _).mul_right vx)
      have B := (A.pow (2 ^ i)).mul_right (vx ^ k)
      have C : (vt * vt * vx) ^ 2 ^ i * vx ^ k = vt ^ 2 ^ (i + 1) * vx ^ (2 ^ i * 1 + k) := by ring
      rw [C] at B
      exact B
    · have hb' : e.testBit i = false := by simpa using hb
      simp only [hb', Bool.false_eq_true, ↓reduceIte] at hbit ⊢
      obtain ⟨h1, h2⟩ := ih (mul t t) htt
      refine ⟨h1, ?_⟩
      rw [h2, vtt, hbit]
      show Nat.ModEq p _ _
      have A : vt * vt % p ≡ vt * vt [MOD p] := Nat.mod_modEq _ _
      have B := (A.pow (2 ^ i)).mul_right (vx ^ k)
      have C : (vt * vt) ^ 2 ^ i * vx ^ k = vt ^ 2 ^ (i + 1) * vx ^ (2 ^ i * 0 + k) := by ring
      rw [C] at B
      exact B

end Gen
