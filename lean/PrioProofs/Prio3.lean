import PrioModel.Prio3
import Mathlib.Algebra.Group.Basic
import Mathlib.Algebra.Ring.Basic
import Mathlib.Tactic.Abel
import Mathlib.Tactic.Ring
import Mathlib.Data.List.Basic

/-! Lemmas about the Prio3 model: the helper loop of sharding, additivity of the sharing,
    linearity of truncation, the decision logic of verification. -/
namespace Prio.Prio3
open Prio.Flp

variable {F : Type} [Field F] [BEq F]

/-- the helper loop, seen from the outside: helper shares and joint randomness parts depend on the
    leader's running share only through its length -/
theorem shardStep_shape (cfg : Cfg) (cv : Conv F) (xof : Xof) (ctx nonce random : Bytes) (aggId : Nat)
    (lm lm' : List F) (sh : List (InputShare F)) (pt : List Bytes) (hl : lm.length = lm'.length) :
    (shardStep cfg cv xof ctx nonce random (some (lm, sh, pt)) aggId).map (fun r => (r.2.1, r.2.2, r.1.length)) =
    (shardStep cfg cv xof ctx nonce random (some (lm', sh, pt)) aggId).map (fun r => (r.2.1, r.2.2, r.1.length)) := by
  simp only [shardStep, hl]
  cases he : expand cfg cv xof (chunk random ((aggId - 1) * if cfg.t.jointRandLen > 0 then 2 else 1) cfg.seedSize)
      (dst cfg usageMeasShare ctx) [aggId] lm'.length with
  | none => rfl
  | some hm =>
    simp only
    split <;> simp [vsub, List.length_zipWith, hl]

/-- the share the leader ends with, the helper shares and the helper parts after the loop over `ids` -/
theorem shardLoop_shape (cfg : Cfg) (cv : Conv F) (xof : Xof) (ctx nonce random : Bytes) (ids : List Nat) :
    ∀ (lm lm' : List F) (sh : List (InputShare F)) (pt : List Bytes), lm.length = lm'.length →
      (ids.foldl (shardStep cfg cv xof ctx nonce random) (some (lm, sh, pt))).map (fun r => (r.2.1, r.2.2, r.1.length)) =
      (ids.foldl (shardStep cfg cv xof ctx nonce random) (some (lm', sh, pt))).map (fun r => (r.2.1, r.2.2, r.1.length)) := by
  induction ids with
  | nil => intro lm lm' sh pt hl; simp [hl]
  | cons id ids ih =>
    intro lm lm' sh pt hl
    simp only [List.foldl_cons]
    have hs := shardStep_shape cfg cv xof ctx nonce random id lm lm' sh pt hl
    cases h1 : shardStep cfg cv xof ctx nonce random (some (lm, sh, pt)) id with
    | none =>
      cases h2 : shardStep cfg cv xof ctx nonce random (some (lm', sh, pt)) id with
      | none => rfl
      | some r2 => rw [h1, h2] at hs; simp at hs
    | some r1 =>
      cases h2 : shardStep cfg cv xof ctx nonce random (some (lm', sh, pt)) id with
      | none => rw [h1, h2] at hs; simp at hs
      | some r2 =>
        rw [h1, h2] at hs
        simp only [Option.map_some, Option.some.injEq, Prod.mk.injEq] at hs
        obtain ⟨a1, b1, c1⟩ := r1
        obtain ⟨a2, b2, c2⟩ := r2
        simp only at hs
        obtain ⟨e1, e2, e3⟩ := hs
        subst e1 e2
        exact ih a1 a2 b1 c1 e3

theorem foldl_none (cfg : Cfg) (cv : Conv F) (xof : Xof) (ctx nonce random : Bytes) (ids : List Nat) :
    ids.foldl (shardStep cfg cv xof ctx nonce random) none = none := by
  induction ids with
  | nil => rfl
  | cons id ids ih => simp [List.foldl_cons, shardStep, ih]

/-- the leader's share moves with the measurement: for two encodings of equal length the leader
    shares after the loop differ exactly by the difference of the encodings -/
theorem shardLoop_leader (cfg : Cfg) (cv : Conv F) (xof : Xof) (ctx nonce random : Bytes) (ids : List Nat) :
    ∀ (lm lm' : List F) (sh : List (InputShare F)) (pt : List Bytes), lm.length = lm'.length →
      ∀ r r', ids.foldl (shardStep cfg cv xof ctx nonce random) (some (lm, sh, pt)) = some r →
        ids.foldl (shardStep cfg cv xof ctx nonce random) (some (lm', sh, pt)) = some r' →
        r.1.length = r'.1.length ∧ vsub r.1 r'.1 = (vsub lm lm').take r.1.length := by
  induction ids with
  | nil =>
    intro lm lm' sh pt hl r r' h h'
    simp only [List.foldl_nil, Option.some.injEq] at h h'
    subst h h'
    refine ⟨hl, ?_⟩
    symm; apply List.take_of_length_le
    simp [vsub, List.length_zipWith, hl]
  | cons id ids ih =>
    intro lm lm' sh pt hl r r' h h'
    simp only [List.foldl_cons] at h h'
    cases h1 : shardStep cfg cv xof ctx nonce random (some (lm, sh, pt)) id with
    | none => rw [h1, foldl_none] at h; cases h
    | some s1 =>
      cases h2 : shardStep cfg cv xof ctx nonce random (some (lm', sh, pt)) id with
      | none => rw [h2, foldl_none] at h'; cases h'
      | some s2 =>
        rw [h1] at h; rw [h2] at h'
        -- one step: both subtract the same helper share
        simp only [shardStep, hl] at h1 h2
        cases he : expand cfg cv xof (chunk random ((id - 1) * if cfg.t.jointRandLen > 0 then 2 else 1) cfg.seedSize)
            (dst cfg usageMeasShare ctx) [id] lm'.length with
        | none => rw [he] at h1; cases h1
        | some hm =>
          rw [he] at h1 h2
          simp only at h1 h2
          have key : ∃ sh2 pt2, s1 = (vsub lm hm, sh2, pt2) ∧ s2 = (vsub lm' hm, sh2, pt2) := by
            split at h1
            · rename_i hj
              simp only [hj, if_true, Option.some.injEq] at h1 h2
              exact ⟨_, _, h1.symm, h2.symm⟩
            · rename_i hj
              simp only [hj, if_false, Option.some.injEq] at h1 h2
              exact ⟨_, _, h1.symm, h2.symm⟩
          obtain ⟨sh2, pt2, rfl, rfl⟩ := key
          have hl2 : (vsub lm hm).length = (vsub lm' hm).length := by simp [vsub, List.length_zipWith, hl]
          obtain ⟨g1, g2⟩ := ih (vsub lm hm) (vsub lm' hm) sh2 pt2 hl2 r r' h h'
          refine ⟨g1, ?_⟩
          rw [g2]
          -- (lm - hm) - (lm' - hm) = lm - lm' on the common length
          have : ∀ (a b c : List F), a.length = b.length →
              vsub (vsub a c) (vsub b c) = (vsub a b).take (min a.length c.length) := by
            intro a
            induction a with
            | nil => intro b c _; simp [vsub]
            | cons x xs iha =>
              intro b c hab
              cases b with
              | nil => simp at hab
              | cons y ys =>
                cases c with
                | nil => simp [vsub]
                | cons z zs =>
                  have := iha ys zs (by simpa using hab)
                  simp only [vsub] at this ⊢
                  simp only [List.zipWith_cons_cons, List.length_cons, Nat.add_min_add_right, List.take_succ_cons]
                  rw [this]; congr 1; ring
          rw [this lm lm' hm hl, List.take_take]
          congr 1
          have hlen : r.1.length ≤ (vsub lm hm).length := by
            -- the loop never lengthens the leader share
            have : ∀ (ids : List Nat) (a : List F) (s : List (InputShare F)) (p : List Bytes) (q : _),
                ids.foldl (shardStep cfg cv xof ctx nonce random) (some (a, s, p)) = some q → q.1.length ≤ a.length := by
              intro ids
              induction ids with
              | nil => intro a s p q hq; simp only [List.foldl_nil, Option.some.injEq] at hq; subst hq; exact le_refl _
              | cons i is ihh =>
                intro a s p q hq
                simp only [List.foldl_cons] at hq
                cases hs : shardStep cfg cv xof ctx nonce random (some (a, s, p)) i with
                | none => rw [hs, foldl_none] at hq; cases hq
                | some t =>
                  rw [hs] at hq
                  obtain ⟨ta, ts, tp⟩ := t
                  have h3 := ihh ta ts tp q hq
                  have h4 : ta.length ≤ a.length := by
                    simp only [shardStep] at hs
                    split at hs
                    · cases hs
                    · split at hs <;> simp only [Option.some.injEq, Prod.mk.injEq] at hs <;>
                        (obtain ⟨rfl, _, _⟩ := hs; simp [vsub, List.length_zipWith])
                  omega
            exact this ids _ _ _ _ h
          simp only [vsub, List.length_zipWith] at hlen ⊢
          omega

/-! ### truncation is linear -/

omit [BEq F] in
theorem decodeBitvector_add (a b : List F) (h : a.length = b.length) :
    decodeBitvector (vadd a b) = decodeBitvector a + decodeBitvector b := by
  unfold decodeBitvector
  suffices ∀ (a b : List F) (s1 s2 w : F), a.length = b.length →
      ((vadd a b).foldl (fun (st : F × F) v => (st.1 + v * st.2, st.2 * (1 + 1))) (s1 + s2, w)).1 =
      (a.foldl (fun (st : F × F) v => (st.1 + v * st.2, st.2 * (1 + 1))) (s1, w)).1 +
      (b.foldl (fun (st : F × F) v => (st.1 + v * st.2, st.2 * (1 + 1))) (s2, w)).1 by
    have := this a b 0 0 1 h
    simpa using this
  intro a
  induction a with
  | nil => intro b s1 s2 w hab; cases b <;> simp_all [vadd]
  | cons x xs ih =>
    intro b s1 s2 w hab
    cases b with
    | nil => simp at hab
    | cons y ys =>
      simp only [vadd, List.zipWith_cons_cons, List.foldl_cons]
      have e : s1 + s2 + (x + y) * w = (s1 + x * w) + (s2 + y * w) := by ring
      rw [e]
      exact ih ys _ _ _ (by simpa using hab)

/-- `verify_next` releases an output share only if the joint randomness seed it recomputed equals the
    one in the verifier message (when the type uses joint randomness) -/
theorem verifyNext_ok_implies (C : FieldCtx F) (cfg : Cfg) (cv : Conv F) (xof : Xof) (sumLW : Nat) (ctx : Bytes)
    (st : VerifyState F) (msg : Option Bytes) (o : List F)
    (h : verifyNext C cfg cv xof sumLW ctx st msg = .ok o) (hj : cfg.t.jointRandLen > 0) :
    ∃ s, st.jointRandSeed = some s ∧ msg = some s := by
  unfold verifyNext at h
  simp only [hj, if_true] at h
  cases hs : st.jointRandSeed with
  | none => simp [hs] at h
  | some a =>
    cases hm : msg with
    | none => simp [hs, hm] at h
    | some b =>
      simp only [hs, hm] at h
      by_cases hab : (a == b) = true
      · exact ⟨a, rfl, by rw [eq_of_beq hab]⟩
      · simp [hab] at h

end Prio.Prio3

namespace Prio.Prio3
open Prio.Flp
variable {F : Type} [Field F] [BEq F]

theorem shardProofs_ok (C : FieldCtx F) (cfg : Cfg) (cv : Conv F) (xof : Xof) (ctx random : Bytes) (encoded : List F)
    (ms : MeasStage F) (out : ShardOut F) (h : shardProofs C cfg cv xof ctx random encoded ms = .ok out) :
    ∃ lp, out = ⟨ms.parts, .leader ms.leaderMeas lp ms.leaderBlind :: ms.helperShares⟩ := by
  unfold shardProofs at h
  generalize clientJointRand cfg cv xof ctx ms.parts = jr at h
  generalize clientProveRands cfg cv xof ctx random = pr at h
  cases jr with
  | none => cases h
  | some j =>
    cases pr with
    | none => cases h
    | some p =>
      simp only at h
      cases hap : allProofs C cfg encoded p j with
      | err => rw [hap] at h; cases h
      | panic => rw [hap] at h; cases h
      | ok proofs =>
        rw [hap] at h
        simp only at h
        cases hl : leaderProofsShare cfg cv xof ctx ms.helperShares proofs with
        | none => rw [hl] at h; cases h
        | some lp =>
          rw [hl] at h
          simp only [Res.ok.injEq] at h
          exact ⟨lp, h.symm⟩

/-- a successful `shard` consists of the measurement stage plus a leader proofs share -/
theorem shard_ok (C : FieldCtx F) (cfg : Cfg) (cv : Conv F) (xof : Xof) (ctx nonce random : Bytes) (encoded : List F)
    (out : ShardOut F) (h : shard C cfg cv xof ctx nonce random encoded = .ok out) :
    ∃ ms lp, shardMeas cfg cv xof ctx nonce random encoded = some ms ∧ out.jointRandParts = ms.parts ∧
      out.shares = .leader ms.leaderMeas lp ms.leaderBlind :: ms.helperShares := by
  unfold shard at h
  simp only at h
  by_cases hr : random.length ≠ (if cfg.t.jointRandLen > 0 then 2 * cfg.numAgg * cfg.seedSize else cfg.numAgg * cfg.seedSize)
  · rw [if_pos hr] at h; cases h
  · rw [if_neg hr] at h
    cases hm : shardMeas cfg cv xof ctx nonce random encoded with
    | none => rw [hm] at h; cases h
    | some ms =>
      rw [hm] at h
      obtain ⟨lp, rfl⟩ := shardProofs_ok C cfg cv xof ctx random encoded ms out h
      exact ⟨ms, lp, rfl, rfl, rfl⟩

theorem shardMeas_some (cfg : Cfg) (cv : Conv F) (xof : Xof) (ctx nonce random : Bytes) (encoded : List F)
    (ms : MeasStage F) (h : shardMeas cfg cv xof ctx nonce random encoded = some ms) :
    ∃ hp, ((List.range (cfg.numAgg - 1)).map (· + 1)).foldl (shardStep cfg cv xof ctx nonce random) (some (encoded, [], []))
        = some (ms.leaderMeas, ms.helperShares, hp) ∧
      ms.leaderBlind = (if cfg.t.jointRandLen > 0 then
        some (chunk random ((cfg.numAgg - 1) * (if cfg.t.jointRandLen > 0 then 2 else 1)) cfg.seedSize) else none) ∧
      ms.parts = (match ms.leaderBlind with
        | some b => some (jointRandPart cfg cv xof ctx b 0 nonce ms.leaderMeas :: hp)
        | none => none) := by
  unfold shardMeas at h
  simp only at h
  split at h
  · cases h
  · rename_i lm hs hp hf
    simp only [Option.some.injEq] at h
    subst h
    exact ⟨hp, hf, rfl, rfl⟩

end Prio.Prio3
