import PrioModel.Flp
import Mathlib.Algebra.Field.Defs
import Mathlib.Tactic.Ring

/-! Normal form of the validity circuits: every circuit calls its gadget on a list of argument
    vectors that depends only on the input, the joint randomness and the number of shares — never on
    earlier gadget outputs — and then assembles its output from the gadget outputs.  This is what lets
    the runs under the prover's shim, the verifier's shim and the plain gadget be compared. -/
namespace Prio.Flp
open Prio.Ntt

variable {F : Type} [Field F]

/-- the argument vector of one ParallelSum call: chunk `chunk` with joint randomness `r` -/
def rcCallArgs (chunkLength : Nat) (nsInv : F) (chunk : List F) (r : F) : List F :=
  (chunk.foldl (fun (st : List F × F) x => (st.1 ++ [st.2 * x, x - nsInv], st.2 * r)) (([] : List F), r)).1 ++
    (List.replicate (chunkLength - chunk.length) [(0 : F), -nsInv]).flatten

def rcArgs (input jointRand : List F) (chunkLength : Nat) (nsInv : F) : List (List F) :=
  ((chunksOf chunkLength input.length input).zip jointRand).map fun cr => rcCallArgs chunkLength nsInv cr.1 cr.2

/-- the gadget calls a circuit makes, in order -/
def gadgetArgs (C : FieldCtx F) (t : TypeSpec) (input jointRand : List F) (ns : Nat) : List (List F) :=
  let nsInv : F := (C.ofNat ns)⁻¹
  match t with
  | .count => [[input.getD 0 0, input.getD 0 0]]
  | .sum _ => input.map fun bit => [bit]
  | .histogram _ chunk => rcArgs input jointRand chunk nsInv
  | .multihot _ _ _ chunk => rcArgs input jointRand chunk nsInv
  | .sumVec _ _ _ chunk => rcArgs input jointRand chunk nsInv
  | .l1BoundSum _ _ _ chunk => rcArgs input jointRand chunk nsInv

/-- the circuit output as a function of the gadget outputs -/
def assemble (C : FieldCtx F) (t : TypeSpec) (input : List F) (ns : Nat) (outs : List F) : List F :=
  let nsInv : F := (C.ofNat ns)⁻¹
  let rc := outs.foldl (· + ·) 0
  match t with
  | .count => [outs.getD 0 0 - input.getD 0 0]
  | .sum _ => outs
  | .histogram _ _ => [rc, input.foldl (fun acc v => acc + v) (-nsInv)]
  | .multihot length _ lastWeight _ =>
    [rc, (input.take length).foldl (fun a b => a + b) 0 - decodeRangeCheckedInt (input.drop length) (C.ofNat lastWeight)]
  | .sumVec _ _ _ _ => [rc]
  | .l1BoundSum mlen bits lastWeight _ =>
    let decoded := (chunksOf bits input.length input).map fun c => decodeRangeCheckedInt c (C.ofNat lastWeight)
    [rc, (decoded.take mlen).foldl (fun a b => a + b) 0 - ((decoded.drop mlen).take 1).foldl (fun a b => a + b) 0]

instance : LawfulMonad Res := LawfulMonad.mk'
  (id_map := by intro α x; cases x <;> rfl)
  (pure_bind := by intro α β x f; rfl)
  (bind_assoc := by intro α β γ x f g; cases x <;> rfl)

theorem mapM_ok {α β : Type} (f : α → Res β) (g : α → β) (l : List α) (h : ∀ x ∈ l, f x = .ok (g x)) :
    l.mapM f = .ok (l.map g) := by
  induction l with
  | nil => rfl
  | cons x xs ih =>
    rw [List.mapM_cons, h x (by simp), ih (fun y hy => h y (by simp [hy]))]
    rfl

section nf
variable {m : Type → Type} [Monad m] [LawfulMonad m]

theorem foldlM_calls {α : Type} (g : List F → m F) (f : α → List F) (l : List α) (a : F) :
    l.foldlM (fun (output : F) (x : α) => do let o ← g (f x); pure (output + o)) a =
      (l.map f).mapM g >>= fun outs => pure (outs.foldl (· + ·) a) := by
  induction l generalizing a with
  | nil => simp
  | cons x xs ih =>
    simp only [List.foldlM_cons, List.map_cons, List.mapM_cons, bind_assoc, pure_bind, List.foldl_cons]
    congr 1
    funext o
    rw [ih]

theorem rangeChecks_nf (g : List F → m F) (input jointRand : List F) (chunkLength : Nat) (nsInv : F) :
    parallelSumRangeChecks g input jointRand chunkLength nsInv =
      (rcArgs input jointRand chunkLength nsInv).mapM g >>= fun outs => pure (outs.foldl (· + ·) 0) := by
  unfold parallelSumRangeChecks rcArgs
  exact foldlM_calls g (fun (cr : List F × F) => rcCallArgs chunkLength nsInv cr.1 cr.2) _ 0

theorem validCircuit_nf (C : FieldCtx F) (t : TypeSpec) (g : List F → m F) (input jointRand : List F) (ns : Nat) :
    validCircuit C t g input jointRand ns =
      (gadgetArgs C t input jointRand ns).mapM g >>= fun outs => pure (assemble C t input ns outs) := by
  cases t with
  | count => simp [validCircuit, gadgetArgs, assemble]
  | sum bits =>
    simp only [validCircuit, gadgetArgs, assemble, List.mapM_map, bind_pure]
    rfl
  | histogram l c => simp [validCircuit, gadgetArgs, assemble, rangeChecks_nf]
  | multihot l b w c => simp [validCircuit, gadgetArgs, assemble, rangeChecks_nf]
  | sumVec l b w c => simp [validCircuit, gadgetArgs, assemble, rangeChecks_nf]
  | l1BoundSum l b w c => simp [validCircuit, gadgetArgs, assemble, rangeChecks_nf]

end nf

/-! ## the circuits under the two shims -/

/-- the shim state after recording a sequence of calls -/
def recordAll (st : ShimState F) (args : List (List F)) : ShimState F := args.foldl recordCall st

theorem recordAll_numCalls (args : List (List F)) (st : ShimState F) :
    (recordAll st args).numCalls = st.numCalls + args.length := by
  induction args generalizing st with
  | nil => rfl
  | cons a as ih =>
    unfold recordAll at ih ⊢
    rw [List.foldl_cons, ih]
    simp [recordCall]; omega

/-- gadget value with the error cases defaulted (used only where evaluation succeeds) -/
def evalD (g : Gadget F) (a : List F) : F :=
  match g.eval a with
  | .ok v => v
  | _ => 0

/-- the prover's shim: records every call and returns the gadget's value -/
theorem proveShim_run (g : Gadget F) (p : Nat) : ∀ (args : List (List F)) (st : ShimState F),
    st.numCalls + args.length < p → (∀ a ∈ args, g.eval a = .ok (evalD g a)) →
    (args.mapM (proveShimEval g p)).run st = .ok (args.map (evalD g), recordAll st args) := by
  intro args
  induction args with
  | nil => intro st _ _; rfl
  | cons a as ih =>
    intro st hlen hev
    rw [List.mapM_cons]
    simp only [StateT.run_bind, StateT.run_pure]
    have h1 : (proveShimEval g p a).run st = .ok (evalD g a, recordCall st a) := by
      unfold proveShimEval StateT.run
      simp only [List.length_cons] at hlen
      dsimp only
      rw [if_neg (by omega), hev a (by simp)]
    rw [h1]
    show (do let r ← (List.mapM (proveShimEval g p) as).run (recordCall st a); pure (evalD g a :: r.1, r.2)) = _
    rw [ih (recordCall st a) (by simp only [List.length_cons] at hlen; simp [recordCall]; omega)
      (fun b hb => hev b (by simp [hb]))]
    rfl

/-- the verifier's shim: records every call and returns the tabulated value at the call's node -/
theorem queryShim_run (gp : Array F) (step p : Nat) : ∀ (args : List (List F)) (st : ShimState F),
    st.numCalls + args.length < p → (st.numCalls + args.length) * step < gp.size →
    (args.mapM (queryShimEval gp step p)).run st =
      .ok ((List.range args.length).map (fun i => gp.getD ((st.numCalls + 1 + i) * step) 0), recordAll st args) := by
  intro args
  induction args with
  | nil => intro st _ _; rfl
  | cons a as ih =>
    intro st hlen hsz
    rw [List.mapM_cons]
    simp only [StateT.run_bind, StateT.run_pure]
    simp only [List.length_cons] at hlen hsz
    have hle : (st.numCalls + 1) * step ≤ (st.numCalls + (as.length + 1)) * step :=
      Nat.mul_le_mul_right _ (by omega)
    have h1 : (queryShimEval gp step p a).run st = .ok (gp.getD ((st.numCalls + 1) * step) 0, recordCall st a) := by
      unfold queryShimEval StateT.run
      have hc : (recordCall st a).numCalls = st.numCalls + 1 := rfl
      dsimp only
      rw [if_neg (by omega), hc, if_neg (by omega)]
    rw [h1]
    show (do let r ← (List.mapM (queryShimEval gp step p) as).run (recordCall st a);
             pure (gp.getD ((st.numCalls + 1) * step) 0 :: r.1, r.2)) = _
    have e : (recordCall st a).numCalls = st.numCalls + 1 := rfl
    have e2 : st.numCalls + 1 + as.length = st.numCalls + (as.length + 1) := by omega
    rw [ih (recordCall st a) (by rw [e]; omega) (by rw [e, e2]; exact hsz)]
    show Res.ok _ = Res.ok _
    congr 2
    rw [e, List.length_cons, List.range_succ_eq_map, List.map_cons, List.map_map]
    congr 1
    apply List.map_congr_left
    intro i _
    simp only [Function.comp]
    congr 2; omega

end Prio.Flp
