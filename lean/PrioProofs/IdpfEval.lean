import PrioProofs.Idpf

/-! `Idpf::eval`: correctness of the two parties' shares, and transparency of any sound cache. -/
namespace Prio.Idpf

variable {S VI VL : Type} [XorLike S] [LawfulXor S] [AddCommGroup VI] [AddCommGroup VL]

/-- walking `q ++ r` = walking `q`, then `r` from the node reached (when enough levels exist) -/
theorem evalPath_append {V : Type} [AddCommGroup V] (g : Prg S V) (isL : Bool) :
    ∀ (cws : List (CW S V)) (q r : List Bool) (n : Node S), q.length ≤ cws.length →
      evalPath g isL cws (q ++ r) n =
        ((evalPath g isL (cws.take q.length) q n).1 ++
            (evalPath g isL (cws.drop q.length) r (evalPath g isL (cws.take q.length) q n).2).1,
         (evalPath g isL (cws.drop q.length) r (evalPath g isL (cws.take q.length) q n).2).2) := by
  intro cws
  induction cws with
  | nil =>
    intro q r n h
    have : q = [] := List.eq_nil_of_length_eq_zero (by simpa using h)
    subst this; simp [evalPath]
  | cons cw cws ih =>
    intro q r n h
    cases q with
    | nil => simp [evalPath]
    | cons b q =>
      simp only [List.cons_append, List.length_cons, List.take_succ_cons, List.drop_succ_cons]
      rw [evalPath_cons, evalPath_cons, ih q r _ (by simpa using h)]
      simp

/-- taking fewer levels than the path is long does not matter: only `|bs|` correction words are used -/
theorem evalPath_take {V : Type} [AddCommGroup V] (g : Prg S V) (isL : Bool) :
    ∀ (cws : List (CW S V)) (bs : List Bool) (n : Node S),
      evalPath g isL (cws.take bs.length) bs n = evalPath g isL cws bs n := by
  intro cws
  induction cws with
  | nil => intro bs n; simp
  | cons cw cws ih =>
    intro bs n
    cases bs with
    | nil => simp [evalPath]
    | cons b bs => simp only [List.length_cons, List.take_succ_cons]; rw [evalPath_cons, evalPath_cons, ih]

/-- the node a party reaches after following `q` from the root -/
def nodeAt (gI : Prg S VI) (isLeader : Bool) (ps : PublicShare S VI VL) (key : S) (q : List Bool) : Node S :=
  (evalPath gI isLeader ps.inner q (key, !isLeader)).2

/-- a cache may lose or evict anything, but a hit returns a pair that was inserted -/
def CacheSound {C : Type} (cache : Cache C S) : Prop :=
  ∀ c k v k' n, cache.get (cache.insert c k v) k' = some n → cache.get c k' = some n ∨ (k' = k ∧ n = v)

/-- every cached pair is the true node of its prefix -/
def CInv {C : Type} (cache : Cache C S) (gI : Prg S VI) (isLeader : Bool) (ps : PublicShare S VI VL) (key : S)
    (c : C) : Prop :=
  ∀ q n, cache.get c q = some n → n = nodeAt gI isLeader ps key q

/-- the loop of `eval_from_node` against the plain walk -/
theorem innerLoop_spec {C : Type} (cache : Cache C S) (hs : CacheSound cache) (gI : Prg S VI) (isLeader : Bool)
    (ps : PublicShare S VI VL) (key : S) (pfx : List Bool) :
    ∀ (cws : List (CW S VI)) (bs : List Bool) (level : Nat) (n : Node S) (last : Option VI) (c : C),
      level + bs.length = pfx.length → pfx.drop level = bs → ps.inner.drop level = cws →
      n = nodeAt gI isLeader ps key (pfx.take level) →
      CInv cache gI isLeader ps key c →
      let r := evalInnerLoop cache gI isLeader pfx cws bs level n last c
      let e := evalPath gI isLeader cws bs n
      r.1 = (match e.1.getLast? with | some v => some v | none => last) ∧ r.2.1 = e.2 ∧
        CInv cache gI isLeader ps key r.2.2 := by
  intro cws
  induction cws with
  | nil => intro bs level n last c _ _ _ _ hinv; simp [evalInnerLoop, evalPath, hinv]
  | cons cw cws ih =>
    intro bs level n last c hlen hdrop hcws hn hinv
    cases bs with
    | nil => simp [evalInnerLoop, evalPath, hinv]
    | cons b bs =>
      simp only [evalInnerLoop]
      rw [evalPath_cons]
      have hlt : level < pfx.length := by simp at hlen; omega
      have hlt2 : level < ps.inner.length := by
        have : (ps.inner.drop level).length = (cw :: cws).length := by rw [hcws]
        simp at this; omega
      have hb : pfx.take (level + 1) = pfx.take level ++ [b] := by
        have h1 : pfx[level]? = some b := by
          have : (pfx.drop level)[0]? = some b := by rw [hdrop]; rfl
          simpa using this
        rw [List.take_succ, h1]; rfl
      have hcw : ps.inner[level]? = some cw := by
        have : (ps.inner.drop level)[0]? = some cw := by rw [hcws]; rfl
        simpa using this
      -- the node reached is the true node of `pfx.take (level+1)`
      have hnode : (evalLevel gI isLeader cw b n).2 = nodeAt gI isLeader ps key (pfx.take (level + 1)) := by
        have hL : (pfx.take level).length = level := by simp; omega
        have e1 := evalPath_append gI isLeader ps.inner (pfx.take level) [b] (key, !isLeader) (by rw [hL]; omega)
        have e2 := evalPath_take gI isLeader ps.inner (pfx.take level) (key, !isLeader)
        rw [hL] at e1 e2
        have e3 : (evalPath gI isLeader (ps.inner.take level) (pfx.take level) (key, !isLeader)).2 = n := by
          rw [e2, hn]; rfl
        unfold nodeAt
        rw [hb, e1, e3, hcws, evalPath_cons]
        simp [evalPath]
      have hinv' : CInv cache gI isLeader ps key (cache.insert c (pfx.take (level + 1)) (evalLevel gI isLeader cw b n).2) := by
        intro q m hq
        rcases hs c _ _ q m hq with h | ⟨rfl, rfl⟩
        · exact hinv q m h
        · exact hnode
      have := ih bs (level + 1) (evalLevel gI isLeader cw b n).2 (some (evalLevel gI isLeader cw b n).1)
        (cache.insert c (pfx.take (level + 1)) (evalLevel gI isLeader cw b n).2)
        (by simp at hlen ⊢; omega)
        (by rw [← List.drop_drop, hdrop]; rfl)
        (by rw [← List.drop_drop, hcws]; rfl)
        hnode hinv'
      obtain ⟨h1, h2, h3⟩ := this
      refine ⟨?_, h2, h3⟩
      rw [h1]
      cases hgl : (evalPath gI isLeader cws bs (evalLevel gI isLeader cw b n).2).1.getLast? with
      | none =>
        have : (evalPath gI isLeader cws bs (evalLevel gI isLeader cw b n).2).1 = [] := List.getLast?_eq_none_iff.mp hgl
        simp [this]
      | some v =>
        simp only
        rw [List.getLast?_cons]
        simp [hgl]

end Prio.Idpf

namespace Prio.Idpf
variable {S VI VL : Type} [XorLike S] [LawfulXor S] [AddCommGroup VI] [AddCommGroup VL]

/-- extra path bits beyond the available levels are ignored by the inner walk -/
theorem evalPath_take_levels {V : Type} [AddCommGroup V] (g : Prg S V) (isL : Bool) :
    ∀ (cws : List (CW S V)) (bs : List Bool) (n : Node S),
      evalPath g isL cws (bs.take cws.length) n = evalPath g isL cws bs n := by
  intro cws
  induction cws with
  | nil => intro bs n; cases bs <;> simp [evalPath]
  | cons cw cws ih =>
    intro bs n
    cases bs with
    | nil => simp [evalPath]
    | cons b bs => simp only [List.length_cons, List.take_succ_cons]; rw [evalPath_cons, evalPath_cons, ih]

/-- the cache-free specification of `eval` (for a valid party and prefix) -/
def specEval (gI : Prg S VI) (gL : Prg S VL) (isLeader : Bool) (ps : PublicShare S VI VL) (key : S)
    (pfx : List Bool) : Option (Output VI VL) :=
  if pfx.length = ps.inner.length + 1 then
    some (.leaf (evalLevel gL isLeader ps.leaf (pfx.getLastD false) (nodeAt gI isLeader ps key pfx.dropLast)).1)
  else ((evalPath gI isLeader ps.inner pfx (key, !isLeader)).1.getLast?).map .inner

theorem probe_spec {C : Type} (cache : Cache C S) (c : C) (pfx : List Bool) :
    ∀ (len : Nat) (L : Nat) (n : Node S), probe cache c pfx len = some (L, n) →
      1 ≤ L ∧ L ≤ len ∧ cache.get c (pfx.take L) = some n := by
  intro len
  induction len with
  | zero => intro L n h; simp [probe] at h
  | succ len ih =>
    intro L n h
    simp only [probe] at h
    cases hg : cache.get c (pfx.take (len + 1)) with
    | some m =>
      simp only [hg, Option.some.injEq, Prod.mk.injEq] at h
      obtain ⟨rfl, rfl⟩ := h
      exact ⟨by omega, le_refl _, hg⟩
    | none =>
      simp only [hg] at h
      obtain ⟨h1, h2, h3⟩ := ih L n h
      exact ⟨h1, by omega, h3⟩

/-- `eval_from_node` started at the true node of `pfx.take L` computes the specification -/
theorem evalFromNode_spec {C : Type} (cache : Cache C S) (hs : CacheSound cache) (gI : Prg S VI) (gL : Prg S VL)
    (isLeader : Bool) (ps : PublicShare S VI VL) (key : S) (pfx : List Bool) (L : Nat) (c : C)
    (hp1 : 1 ≤ pfx.length) (hp2 : pfx.length ≤ ps.inner.length + 1) (hL : L + 1 ≤ pfx.length)
    (hinv : CInv cache gI isLeader ps key c) :
    (evalFromNode cache gI gL isLeader ps L (nodeAt gI isLeader ps key (pfx.take L)) pfx c).1
        = specEval gI gL isLeader ps key pfx ∧
      CInv cache gI isLeader ps key
        (evalFromNode cache gI gL isLeader ps L (nodeAt gI isLeader ps key (pfx.take L)) pfx c).2 := by
  have hlen : L + (pfx.drop L).length = pfx.length := by simp; omega
  obtain ⟨h1, h2, h3⟩ := innerLoop_spec cache hs gI isLeader ps key pfx (ps.inner.drop L) (pfx.drop L) L
    (nodeAt gI isLeader ps key (pfx.take L)) none c hlen rfl rfl rfl hinv
  -- the root walk splits at L
  have hLlen : (pfx.take L).length = L := by simp; omega
  have hsplit := evalPath_append gI isLeader ps.inner (pfx.take L) (pfx.drop L) (key, !isLeader)
    (by rw [hLlen]; omega)
  rw [List.take_append_drop, hLlen] at hsplit
  have hroot : (evalPath gI isLeader (ps.inner.take L) (pfx.take L) (key, !isLeader)).2
      = nodeAt gI isLeader ps key (pfx.take L) := by
    have := evalPath_take gI isLeader ps.inner (pfx.take L) (key, !isLeader)
    rw [hLlen] at this; rw [this]; rfl
  rw [hroot] at hsplit
  unfold evalFromNode specEval
  by_cases hleaf : pfx.length = ps.inner.length + 1
  · simp only [hleaf, if_true]
    refine ⟨?_, h3⟩
    rw [h2]
    -- node reached = true node of pfx.dropLast
    have e1 : (evalPath gI isLeader (ps.inner.drop L) (pfx.drop L) (nodeAt gI isLeader ps key (pfx.take L))).2
        = (evalPath gI isLeader ps.inner pfx (key, !isLeader)).2 := by rw [hsplit]
    have e2 : pfx.dropLast = pfx.take ps.inner.length := by
      rw [List.dropLast_eq_take]; congr 1; omega
    have e3 : nodeAt gI isLeader ps key pfx.dropLast = (evalPath gI isLeader ps.inner pfx (key, !isLeader)).2 := by
      unfold nodeAt; rw [e2, evalPath_take_levels]
    rw [e1, e3]
  · simp only [hleaf, if_false]
    refine ⟨?_, h3⟩
    rw [h1, hsplit]
    have hne : (evalPath gI isLeader (ps.inner.drop L) (pfx.drop L) (nodeAt gI isLeader ps key (pfx.take L))).1 ≠ [] := by
      intro h
      have := evalPath_length gI (ps.inner.drop L) (pfx.drop L) isLeader (nodeAt gI isLeader ps key (pfx.take L))
      rw [h] at this
      simp at this
      omega
    rw [List.getLast?_append_of_ne_nil _ hne]
    cases hg : (evalPath gI isLeader (ps.inner.drop L) (pfx.drop L) (nodeAt gI isLeader ps key (pfx.take L))).1.getLast? with
    | none => exact absurd (List.getLast?_eq_none_iff.mp hg) hne
    | some v => rfl

/-- **cache transparency**: with any sound cache in any state satisfying the invariant (in particular
    any state reached by earlier evaluations of the same key), `eval` returns what the cache-free
    specification returns, and re-establishes the invariant -/
theorem eval_transparent {C : Type} (cache : Cache C S) (hs : CacheSound cache) (gI : Prg S VI) (gL : Prg S VL)
    (aggId : Nat) (ps : PublicShare S VI VL) (key : S) (pfx : List Bool) (c : C)
    (ha : aggId ≤ 1) (hp1 : 1 ≤ pfx.length) (hp2 : pfx.length ≤ ps.inner.length + 1)
    (hinv : CInv cache gI (aggId == 0) ps key c) :
    (eval cache gI gL aggId ps key pfx c).1 =
        (match specEval gI gL (aggId == 0) ps key pfx with | some o => .ok o | none => .panic) ∧
      CInv cache gI (aggId == 0) ps key (eval cache gI gL aggId ps key pfx c).2 := by
  unfold eval
  have h1 : ¬ aggId > 1 := by omega
  have h2 : pfx.isEmpty = false := by cases pfx <;> simp_all
  have h3 : ¬ pfx.length > ps.inner.length + 1 := by omega
  simp only [h1, if_false, h2, Bool.false_eq_true, h3]
  cases hp : probe cache c pfx (pfx.length - 1) with
  | none =>
    simp only
    have hroot : (key, !(aggId == 0)) = nodeAt gI (aggId == 0) ps key (pfx.take 0) := by
      simp [nodeAt, evalPath]
    rw [hroot]
    obtain ⟨e1, e2⟩ := evalFromNode_spec cache hs gI gL (aggId == 0) ps key pfx 0 c hp1 hp2 (by omega) hinv
    generalize evalFromNode cache gI gL (aggId == 0) ps 0 (nodeAt gI (aggId == 0) ps key (pfx.take 0)) pfx c = r at *
    obtain ⟨o, c'⟩ := r
    simp only at e1 e2
    subst e1
    cases specEval gI gL (aggId == 0) ps key pfx <;> exact ⟨rfl, e2⟩
  | some hit =>
    obtain ⟨L, n⟩ := hit
    obtain ⟨hL1, hL2, hget⟩ := probe_spec cache c pfx _ L n hp
    have hn : n = nodeAt gI (aggId == 0) ps key (pfx.take L) := hinv _ _ hget
    simp only
    rw [hn]
    obtain ⟨e1, e2⟩ := evalFromNode_spec cache hs gI gL (aggId == 0) ps key pfx L c hp1 hp2 (by omega) hinv
    generalize evalFromNode cache gI gL (aggId == 0) ps L (nodeAt gI (aggId == 0) ps key (pfx.take L)) pfx c = r at *
    obtain ⟨o, c'⟩ := r
    simp only at e1 e2
    subst e1
    cases specEval gI gL (aggId == 0) ps key pfx <;> exact ⟨rfl, e2⟩

/-! ### the three shipped caches are sound, for every capacity -/

theorem noCache_sound : CacheSound (noCache : Cache Unit S) := by
  intro c k v k' n h; simp [noCache] at h

theorem find_append_single {α : Type} (p : α → Bool) (l : List α) (x : α) :
    (l ++ [x]).find? p = (l.find? p).or (if p x then some x else none) := by
  induction l with
  | nil => simp [List.find?]
  | cons a l ih =>
    simp only [List.cons_append, List.find?]
    split
    · simp
    · exact ih

theorem hashMapCache_sound : CacheSound (hashMapCache : Cache (List (List Bool × Node S)) S) := by
  intro c k v k' n h
  simp only [hashMapCache] at h ⊢
  split at h
  · exact Or.inl h
  · rename_i hnone
    rw [find_append_single] at h
    cases hf : c.find? (fun e => e.1 == k') with
    | some e => left; simpa [hf] using h
    | none =>
      simp only [hf, Option.none_or] at h
      split at h
      · rename_i hk
        simp only [Option.map_some, Option.some.injEq] at h
        right; exact ⟨(by simpa using hk : k = k').symm, h.symm⟩
      · simp at h

theorem ringBufferCache_sound (cap : Nat) :
    CacheSound (ringBufferCache cap : Cache (List (List Bool × Node S)) S) := by
  intro c k v k' n h
  simp only [ringBufferCache] at h ⊢
  rw [List.reverse_append, List.reverse_singleton, List.singleton_append, List.find?] at h
  split at h
  · rename_i hk
    simp only [Option.map_some, Option.some.injEq] at h
    right; exact ⟨(by simpa using hk : k = k').symm, h.symm⟩
  · left
    split at h
    · -- the oldest entry was evicted: a hit among the rest is the newest-first hit of the full list
      cases c with
      | nil => simp at h
      | cons e es =>
        simp only [List.drop_succ_cons, List.drop_zero] at h
        simp only [List.reverse_cons]
        rw [find_append_single]
        cases hf : es.reverse.find? (fun e => e.1 == k') with
        | some e' => simpa [hf] using h
        | none => simp [hf] at h
    · exact h

end Prio.Idpf
