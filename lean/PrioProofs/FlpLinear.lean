import PrioModel.Flp
import PrioProofs.NttDft
import Mathlib.Algebra.Field.Defs
import Mathlib.Algebra.Field.Basic
import Mathlib.Tactic.Ring
import Mathlib.Tactic.Set

/-! `query` of the FLP model is linear over additive shares.

Method: a ternary "additive" logical relation `c = a + b` (`S3`), lifted to lists (`L3`), arrays (`Arr3`),
results (`Res3`, `R3`, `O3`), the shim state (`St3`) and the shim state monad (`M3`).  Every routine used by
`query` maps related arguments to related results, where the share-count constant `(C.ofNat ns)⁻¹` is treated as
one more additive argument (`validCircuitK`, `queryK`).  The statement for `ns` shares follows by induction on
the list of shares (`fold_lin`) and `ns * ns⁻¹ = 1`. -/
namespace Prio.Flp
open Prio.Ntt

/-! ## ternary "additive" relations -/

open Lean Elab Tactic Meta in
/-- `gen3 h with x y z`: for `h : Rel … e1 e2 e3`, replace `e1 e2 e3` by variables `x y z` in `h` and
    the goal, so that `cases h` applies -/
elab "gen3 " h:ident " with " x:ident y:ident z:ident : tactic => withMainContext do
  let hdecl ← getLocalDeclFromUserName h.getId
  let ty ← instantiateMVars hdecl.type
  let args := ty.getAppArgs
  let n := args.size
  unless n ≥ 3 do throwError "gen3: not a ternary relation"
  let s1 ← Term.exprToSyntax args[n-3]!
  let s2 ← Term.exprToSyntax args[n-2]!
  let s3 ← Term.exprToSyntax args[n-1]!
  evalTactic (← `(tactic| (revert $h:ident; generalize $s1 = $x; generalize $s2 = $y; generalize $s3 = $z;
                            intro $h:ident)))

section rel
variable {F : Type} [Field F]

/-- `c = a + b` -/
def S3 (a b c : F) : Prop := c = a + b

theorem S3.add {a b c a' b' c' : F} (h : S3 a b c) (h' : S3 a' b' c') : S3 (a + a') (b + b') (c + c') := by
  unfold S3 at *; subst h h'; ring
theorem S3.sub {a b c a' b' c' : F} (h : S3 a b c) (h' : S3 a' b' c') : S3 (a - a') (b - b') (c - c') := by
  unfold S3 at *; subst h h'; ring
theorem S3.neg {a b c : F} (h : S3 a b c) : S3 (-a) (-b) (-c) := by
  unfold S3 at *; subst h; ring
theorem S3.mul_left (w : F) {a b c : F} (h : S3 a b c) : S3 (w * a) (w * b) (w * c) := by
  unfold S3 at *; subst h; ring
theorem S3.mul_right (w : F) {a b c : F} (h : S3 a b c) : S3 (a * w) (b * w) (c * w) := by
  unfold S3 at *; subst h; ring
theorem S3.zero : S3 (0 : F) 0 0 := by unfold S3; ring

/-- ternary pointwise relation on lists -/
inductive L3 {α : Type} (R : α → α → α → Prop) : List α → List α → List α → Prop
  | nil : L3 R [] [] []
  | cons {a b c : α} {as bs cs : List α} : R a b c → L3 R as bs cs → L3 R (a :: as) (b :: bs) (c :: cs)

/-- arrays: same size, entries add up -/
structure Arr3 (a b c : Array F) : Prop where
  sb : b.size = a.size
  sc : c.size = a.size
  h : ∀ i, S3 (a.getD i 0) (b.getD i 0) (c.getD i 0)

inductive Res3 {α : Type} (R : α → α → α → Prop) : Res α → Res α → Res α → Prop
  | ok {a b c : α} : R a b c → Res3 R (.ok a) (.ok b) (.ok c)
  | err : Res3 R .err .err .err
  | panic : Res3 R .panic .panic .panic

inductive R3 {α : Type} (R : α → α → α → Prop) : Ntt.R α → Ntt.R α → Ntt.R α → Prop
  | ok {a b c : α} : R a b c → R3 R (.ok a) (.ok b) (.ok c)
  | err (e : NttError) : R3 R (.err e) (.err e) (.err e)
  | panic : R3 R .panic .panic .panic

inductive O3 {α : Type} (R : α → α → α → Prop) : Option α → Option α → Option α → Prop
  | some {a b c : α} : R a b c → O3 R (some a) (some b) (some c)
  | none : O3 R none none none

theorem foldl_same {β γ : Type} {S : β → β → β → Prop} (l : List γ) (f1 f2 f3 : β → γ → β)
    (hf : ∀ s1 s2 s3 x, S s1 s2 s3 → S (f1 s1 x) (f2 s2 x) (f3 s3 x)) :
    ∀ s1 s2 s3, S s1 s2 s3 → S (l.foldl f1 s1) (l.foldl f2 s2) (l.foldl f3 s3) := by
  induction l with
  | nil => intro s1 s2 s3 h; simpa using h
  | cons x xs ih =>
    intro s1 s2 s3 h
    simp only [List.foldl_cons]
    exact ih _ _ _ (hf _ _ _ x h)

/-! ### arrays -/

theorem Arr3.getD {a b c : Array F} (h : Arr3 a b c) (i : Nat) : S3 (a.getD i 0) (b.getD i 0) (c.getD i 0) := h.h i

theorem Arr3.set {a b c : Array F} (h : Arr3 a b c) (i : Nat) {x y z : F} (hx : S3 x y z) :
    Arr3 (a.setIfInBounds i x) (b.setIfInBounds i y) (c.setIfInBounds i z) := by
  refine ⟨by simp [h.sb], by simp [h.sc], fun j => ?_⟩
  rw [getD_set, getD_set, getD_set, h.sb, h.sc]
  split
  · exact hx
  · exact h.h j

theorem Arr3.replicate (n : Nat) : Arr3 (Array.replicate n (0 : F)) (Array.replicate n 0) (Array.replicate n 0) := by
  refine ⟨rfl, rfl, fun i => ?_⟩
  have : (Array.replicate n (0 : F)).getD i 0 = 0 := by
    simp only [Array.getD_eq_getD_getElem?, Array.getElem?_replicate]
    split <;> rfl
  rw [this]; exact S3.zero

theorem getD_ofFn {n : Nat} (f : Fin n → F) (i : Nat) :
    (Array.ofFn f).getD i 0 = if h : i < n then f ⟨i, h⟩ else 0 := by
  simp only [Array.getD_eq_getD_getElem?, Array.getElem?_ofFn]
  split <;> rfl

theorem Arr3.ofFn {n1 n2 n3 : Nat} (e2 : n2 = n1) (e3 : n3 = n1) (f1 : Fin n1 → F) (f2 : Fin n2 → F)
    (f3 : Fin n3 → F)
    (h : ∀ i (h1 : i < n1) (h2 : i < n2) (h3 : i < n3), S3 (f1 ⟨i, h1⟩) (f2 ⟨i, h2⟩) (f3 ⟨i, h3⟩)) :
    Arr3 (Array.ofFn f1) (Array.ofFn f2) (Array.ofFn f3) := by
  subst e2 e3
  refine ⟨by simp, by simp, fun i => ?_⟩
  rw [getD_ofFn, getD_ofFn, getD_ofFn]
  split
  · exact h i _ _ _
  · exact S3.zero

/-! ### NTT loops -/

theorem butterfly_lin {a b c : Array F} (h : Arr3 a b c) (x y : Nat) (w : F) :
    Arr3 (butterfly a x y w) (butterfly b x y w) (butterfly c x y w) := by
  unfold butterfly
  exact ((h.set _ ((h.getD _).add ((h.getD _).mul_left w))).set _ ((h.getD _).sub ((h.getD _).mul_left w)))

theorem jLoop_lin (l y i : Nat) (w : F) : ∀ n j {a b c : Array F}, Arr3 a b c →
    Arr3 (jLoop l y i w n j a) (jLoop l y i w n j b) (jLoop l y i w n j c) := by
  intro n
  induction n with
  | zero => intro j a b c h; simpa [jLoop] using h
  | succ n ih => intro j a b c h; simp only [jLoop]; exact ih _ (butterfly_lin h _ _ _)

theorem iLoop_lin (l y chunk : Nat) (r : F) : ∀ n i (w : F) {a b c : Array F}, Arr3 a b c →
    Arr3 (iLoop l y chunk r n i w a) (iLoop l y chunk r n i w b) (iLoop l y chunk r n i w c) := by
  intro n
  induction n with
  | zero => intro i w a b c h; simpa [iLoop] using h
  | succ n ih => intro i w a b c h; simp only [iLoop]; exact ih _ _ (jLoop_lin _ _ _ _ _ _ h)

theorem lLoop_lin (root : Nat → Option F) (size : Nat) (setS : Bool) : ∀ n l {a b c : Array F}, Arr3 a b c →
    O3 Arr3 (lLoop root size setS n l a) (lLoop root size setS n l b) (lLoop root size setS n l c) := by
  intro n
  induction n with
  | zero => intro l a b c h; simp only [lLoop]; exact .some h
  | succ n ih =>
    intro l a b c h
    simp only [lLoop]
    split
    · exact ih _ (iLoop_lin _ _ _ _ _ _ _ (jLoop_lin _ _ _ _ _ _ h))
    · exact .none

theorem nttInternal_lin (root : Nat → Option F) (outLen : Nat) {o1 o2 o3 i1 i2 i3 : Array F}
    (ho : Arr3 o1 o2 o3) (hi : Arr3 i1 i2 i3) (size : Nat) (setS : Bool) :
    R3 Arr3 (nttInternal root outLen o1 i1 size setS) (nttInternal root outLen o2 i2 size setS)
      (nttInternal root outLen o3 i3 size setS) := by
  unfold nttInternal
  simp only [getD_pad]
  split
  · exact .panic
  split
  · exact .err _
  split
  · exact .err _
  split
  · exact .err _
  rw [hi.sb, hi.sc]
  have hinit : O3 Arr3
      (if log2ceil size > 0 then
          some ((List.range size).foldl (fun o i => o.setIfInBounds i (i1.getD (bitrev (log2ceil size) i) 0)) o1)
        else if i1.size = 0 then none else some (o1.setIfInBounds 0 (i1.getD 0 0)))
      (if log2ceil size > 0 then
          some ((List.range size).foldl (fun o i => o.setIfInBounds i (i2.getD (bitrev (log2ceil size) i) 0)) o2)
        else if i1.size = 0 then none else some (o2.setIfInBounds 0 (i2.getD 0 0)))
      (if log2ceil size > 0 then
          some ((List.range size).foldl (fun o i => o.setIfInBounds i (i3.getD (bitrev (log2ceil size) i) 0)) o3)
        else if i1.size = 0 then none else some (o3.setIfInBounds 0 (i3.getD 0 0))) := by
    split
    · refine .some (foldl_same (S := Arr3) _ _ _ _ ?_ _ _ _ ho)
      intro s1 s2 s3 x hs
      exact hs.set _ (hi.getD _)
    · split
      · exact .none
      · exact .some (ho.set _ (hi.getD _))
  revert hinit
  generalize (if log2ceil size > 0 then
          some ((List.range size).foldl (fun o i => o.setIfInBounds i (i1.getD (bitrev (log2ceil size) i) 0)) o1)
        else if i1.size = 0 then none else some (o1.setIfInBounds 0 (i1.getD 0 0))) = x1
  generalize (if log2ceil size > 0 then
          some ((List.range size).foldl (fun o i => o.setIfInBounds i (i2.getD (bitrev (log2ceil size) i) 0)) o2)
        else if i1.size = 0 then none else some (o2.setIfInBounds 0 (i2.getD 0 0))) = x2
  generalize (if log2ceil size > 0 then
          some ((List.range size).foldl (fun o i => o.setIfInBounds i (i3.getD (bitrev (log2ceil size) i) 0)) o3)
        else if i1.size = 0 then none else some (o3.setIfInBounds 0 (i3.getD 0 0))) = x3
  intro hinit
  cases hinit with
  | none => exact .panic
  | some hx =>
    simp only
    have hl := lLoop_lin root size setS (log2ceil size) 1 hx
    revert hl
    generalize lLoop root size setS (log2ceil size) 1 _ = y1
    generalize lLoop root size setS (log2ceil size) 1 _ = y2
    generalize lLoop root size setS (log2ceil size) 1 _ = y3
    intro hl
    cases hl with
    | none => exact .panic
    | some hy => exact .ok hy

end rel

/-! ## polynomial routines: `nttInv`, `doubleEvaluations`, `extendValues`, `polyEvalLagrange` -/

section poly
variable {F : Type} [Field F]

theorem nttInvFinish_lin {a b c : Array F} (h : Arr3 a b c) (size : Nat) (sizeInv : F) :
    Arr3 (nttInvFinish a size sizeInv) (nttInvFinish b size sizeInv) (nttInvFinish c size sizeInv) := by
  unfold nttInvFinish
  have a1 := h.set 0 ((h.getD 0).mul_right sizeInv)
  have a2 := a1.set (size / 2) ((a1.getD (size / 2)).mul_right sizeInv)
  refine foldl_same (S := Arr3) _ _ _ _ ?_ _ _ _ a2
  intro s1 s2 s3 k hs
  exact (hs.set _ ((hs.getD _).mul_right _)).set _ ((hs.getD _).mul_right _)

theorem nttInv_lin (root : Nat → Option F) {o1 o2 o3 i1 i2 i3 : Array F} (ho : Arr3 o1 o2 o3)
    (hi : Arr3 i1 i2 i3) (size : Nat) (sizeInv : F) :
    R3 Arr3 (nttInv root o1 i1 size sizeInv) (nttInv root o2 i2 size sizeInv) (nttInv root o3 i3 size sizeInv) := by
  unfold nttInv
  rw [ho.sb, ho.sc]
  have h := nttInternal_lin root o1.size ho hi size false
  gen3 h with x1 x2 x3
  cases h with
  | ok h => exact .ok (nttInvFinish_lin h _ _)
  | err e => exact .err e
  | panic => exact .panic

theorem doubleEvaluations_lin (root : Nat → Option F) (outLen : Nat) {e1 e2 e3 : Array F} (he : Arr3 e1 e2 e3)
    (sizeInv : F) :
    R3 Arr3 (doubleEvaluations root outLen e1 sizeInv) (doubleEvaluations root outLen e2 sizeInv)
      (doubleEvaluations root outLen e3 sizeInv) := by
  unfold doubleEvaluations
  simp only [he.sb, he.sc]
  split
  · exact .err _
  split
  · exact .err _
  have h1 := nttInv_lin root (Arr3.replicate e1.size) he e1.size sizeInv
  gen3 h1 with x1 x2 x3
  cases h1 with
  | err e => exact .err e
  | panic => exact .panic
  | ok hf =>
    simp only
    have h2 := nttInternal_lin root e1.size (Arr3.replicate e1.size) hf e1.size true
    gen3 h2 with z1 z2 z3
    cases h2 with
    | err e => exact .err e
    | panic => exact .panic
    | ok hb =>
      refine .ok (Arr3.ofFn (by first | rfl | rw [he.sb]) (by first | rfl | rw [he.sc]) _ _ _ ?_)
      intro i h1 h2 h3
      simp only
      split
      · exact he.getD _
      · exact hb.getD _

/-- the state relation of the `(num, den)` loop of `extendValues` -/
def ND3 (n1 n2 n3 : F × F) : Prop := n1.2 = n2.2 ∧ n1.2 = n3.2 ∧ S3 n1.1 n2.1 n3.1

/-- the state relation of the outer loop of `extendValues`: same weights, additive values -/
def WP3 (s1 s2 s3 : Array F × Array F) : Prop := s1.1 = s2.1 ∧ s1.1 = s3.1 ∧ Arr3 s1.2 s2.2 s3.2

theorem extendValues_lin (roots : Array F) {p1 p2 p3 : Array F} (hp : Arr3 p1 p2 p3) (nv : Nat) :
    Arr3 (extendValues roots p1 nv) (extendValues roots p2 nv) (extendValues roots p3 nv) := by
  unfold extendValues
  simp only [hp.sb, hp.sc]
  generalize (List.range nv).foldl _ (Array.replicate p1.size (0 : F)) = w0
  have key : WP3
      ((List.range (p1.size - nv)).foldl (fun (st : Array F × Array F) t =>
        let k := nv + t
        let (w, poly) := st
        let w := (List.range k).foldl (fun (w : Array F) i =>
          w.setIfInBounds i (w.getD i 0 * (roots.getD i 0 - roots.getD k 0))) w
        let (num, den) := (List.range k).foldl (fun (nd : F × F) i =>
          let (num, den) := nd
          (num * w.getD i 0 + den * poly.getD i 0, den * w.getD i 0)) ((0 : F), (1 : F))
        let wk := (List.range k).foldl (fun acc j => acc * (roots.getD k 0 - roots.getD j 0)) (1 : F)
        let w := w.setIfInBounds k wk
        (w, poly.setIfInBounds k (-wk * num * den⁻¹))) (w0, p1))
      ((List.range (p1.size - nv)).foldl (fun (st : Array F × Array F) t =>
        let k := nv + t
        let (w, poly) := st
        let w := (List.range k).foldl (fun (w : Array F) i =>
          w.setIfInBounds i (w.getD i 0 * (roots.getD i 0 - roots.getD k 0))) w
        let (num, den) := (List.range k).foldl (fun (nd : F × F) i =>
          let (num, den) := nd
          (num * w.getD i 0 + den * poly.getD i 0, den * w.getD i 0)) ((0 : F), (1 : F))
        let wk := (List.range k).foldl (fun acc j => acc * (roots.getD k 0 - roots.getD j 0)) (1 : F)
        let w := w.setIfInBounds k wk
        (w, poly.setIfInBounds k (-wk * num * den⁻¹))) (w0, p2))
      ((List.range (p1.size - nv)).foldl (fun (st : Array F × Array F) t =>
        let k := nv + t
        let (w, poly) := st
        let w := (List.range k).foldl (fun (w : Array F) i =>
          w.setIfInBounds i (w.getD i 0 * (roots.getD i 0 - roots.getD k 0))) w
        let (num, den) := (List.range k).foldl (fun (nd : F × F) i =>
          let (num, den) := nd
          (num * w.getD i 0 + den * poly.getD i 0, den * w.getD i 0)) ((0 : F), (1 : F))
        let wk := (List.range k).foldl (fun acc j => acc * (roots.getD k 0 - roots.getD j 0)) (1 : F)
        let w := w.setIfInBounds k wk
        (w, poly.setIfInBounds k (-wk * num * den⁻¹))) (w0, p3)) := by
    refine foldl_same (S := WP3) _ _ _ _ ?_ _ _ _ ⟨rfl, rfl, hp⟩
    rintro ⟨w1, q1⟩ ⟨w2, q2⟩ ⟨w3, q3⟩ t ⟨e2, e3, hq⟩
    simp only at e2 e3
    subst e2 e3
    simp only
    generalize (List.range (nv + t)).foldl (fun (w : Array F) i =>
          w.setIfInBounds i (w.getD i 0 * (roots.getD i 0 - roots.getD (nv + t) 0))) w1 = w'
    have hnd : ND3
        ((List.range (nv + t)).foldl (fun (nd : F × F) i =>
          let (num, den) := nd
          (num * w'.getD i 0 + den * q1.getD i 0, den * w'.getD i 0)) ((0 : F), (1 : F)))
        ((List.range (nv + t)).foldl (fun (nd : F × F) i =>
          let (num, den) := nd
          (num * w'.getD i 0 + den * q2.getD i 0, den * w'.getD i 0)) ((0 : F), (1 : F)))
        ((List.range (nv + t)).foldl (fun (nd : F × F) i =>
          let (num, den) := nd
          (num * w'.getD i 0 + den * q3.getD i 0, den * w'.getD i 0)) ((0 : F), (1 : F))) := by
      refine foldl_same (S := ND3) _ _ _ _ ?_ _ _ _ ⟨rfl, rfl, S3.zero⟩
      rintro ⟨a1, b1⟩ ⟨a2, b2⟩ ⟨a3, b3⟩ i ⟨e2, e3, ha⟩
      simp only at e2 e3
      subst e2 e3
      exact ⟨rfl, rfl, (ha.mul_right _).add ((hq.getD _).mul_left _)⟩
    gen3 hnd with n1 n2 n3
    obtain ⟨a1, b1⟩ := n1
    obtain ⟨a2, b2⟩ := n2
    obtain ⟨a3, b3⟩ := n3
    obtain ⟨e2, e3, ha⟩ := hnd
    simp only at e2 e3 ha
    subst e2 e3
    exact ⟨rfl, rfl, hq.set _ ((ha.mul_left _).mul_right _)⟩
  gen3 key with s1 s2 s3
  obtain ⟨a1, b1⟩ := s1
  obtain ⟨a2, b2⟩ := s2
  obtain ⟨a3, b3⟩ := s3
  exact key.2.2

/-- the state relation of the loop of `polyEvalLagrange` -/
def LDU3 (s1 s2 s3 : F × F × F) : Prop :=
  s1.1 = s2.1 ∧ s1.1 = s3.1 ∧ s1.2.1 = s2.2.1 ∧ s1.2.1 = s3.2.1 ∧ S3 s1.2.2 s2.2.2 s3.2.2

theorem polyEvalLagrange_lin (roots : Array F) (half : F) (log2n : Nat) {y1 y2 y3 : Array F} (hy : Arr3 y1 y2 y3)
    (x : F) :
    S3 (polyEvalLagrange roots half log2n y1 x) (polyEvalLagrange roots half log2n y2 x)
      (polyEvalLagrange roots half log2n y3 x) := by
  unfold polyEvalLagrange
  simp only [hy.sb, hy.sc]
  have key : LDU3
      ((List.range (roots.size - 1)).foldl (fun (st : F × F × F) k =>
        let i := k + 1
        let (l, d, u) := st
        let wn := roots.getD i 0
        let l := l * d
        let d := wn - x
        let t := l * wn
        let u := u * d
        let u := if i < y1.size then u + t * y1.getD i 0 else u
        (l, d, u)) ((1 : F), roots.getD 0 0 - x, y1.getD 0 0))
      ((List.range (roots.size - 1)).foldl (fun (st : F × F × F) k =>
        let i := k + 1
        let (l, d, u) := st
        let wn := roots.getD i 0
        let l := l * d
        let d := wn - x
        let t := l * wn
        let u := u * d
        let u := if i < y1.size then u + t * y2.getD i 0 else u
        (l, d, u)) ((1 : F), roots.getD 0 0 - x, y2.getD 0 0))
      ((List.range (roots.size - 1)).foldl (fun (st : F × F × F) k =>
        let i := k + 1
        let (l, d, u) := st
        let wn := roots.getD i 0
        let l := l * d
        let d := wn - x
        let t := l * wn
        let u := u * d
        let u := if i < y1.size then u + t * y3.getD i 0 else u
        (l, d, u)) ((1 : F), roots.getD 0 0 - x, y3.getD 0 0)) := by
    refine foldl_same (S := LDU3) _ _ _ _ ?_ _ _ _ ⟨rfl, rfl, rfl, rfl, hy.getD 0⟩
    rintro ⟨l1, d1, u1⟩ ⟨l2, d2, u2⟩ ⟨l3, d3, u3⟩ k ⟨e1, e2, e3, e4, hu⟩
    simp only at e1 e2 e3 e4 hu
    subst e1 e2 e3 e4
    simp only
    refine ⟨rfl, rfl, rfl, rfl, ?_⟩
    by_cases hk : k + 1 < y1.size
    · rw [if_pos hk, if_pos hk, if_pos hk]
      exact (hu.mul_right _).add ((hy.getD _).mul_left _)
    · rw [if_neg hk, if_neg hk, if_neg hk]
      exact hu.mul_right _
  gen3 key with s1 s2 s3
  obtain ⟨l1, d1, u1⟩ := s1
  obtain ⟨l2, d2, u2⟩ := s2
  obtain ⟨l3, d3, u3⟩ := s3
  obtain ⟨e1, e2, e3, e4, hu⟩ := key
  simp only at hu ⊢
  exact hu.mul_right _

end poly

/-! ## lists, the shim state monad, `queryShimPoly`, `queryShimEval` -/

section lists
variable {F : Type} [Field F]

/-- first components related, second components equal -/
def PairL {α β : Type} (R : α → α → α → Prop) (x y z : α × β) : Prop := R x.1 y.1 z.1 ∧ x.2 = y.2 ∧ x.2 = z.2

namespace L3
variable {α : Type} {R : α → α → α → Prop} {l1 l2 l3 : List α}

theorem length_b (h : L3 R l1 l2 l3) : l2.length = l1.length := by
  induction h with
  | nil => rfl
  | cons _ _ ih => simp [ih]

theorem length_c (h : L3 R l1 l2 l3) : l3.length = l1.length := by
  induction h with
  | nil => rfl
  | cons _ _ ih => simp [ih]

theorem append {m1 m2 m3 : List α} (h : L3 R l1 l2 l3) (h' : L3 R m1 m2 m3) :
    L3 R (l1 ++ m1) (l2 ++ m2) (l3 ++ m3) := by
  induction h with
  | nil => simpa using h'
  | cons hr _ ih => exact .cons hr ih

theorem take (h : L3 R l1 l2 l3) (n : Nat) : L3 R (l1.take n) (l2.take n) (l3.take n) := by
  induction h generalizing n with
  | nil => simpa using L3.nil
  | cons hr _ ih =>
    cases n with
    | zero => simpa using L3.nil
    | succ n => simpa using L3.cons hr (ih n)

theorem drop (h : L3 R l1 l2 l3) (n : Nat) : L3 R (l1.drop n) (l2.drop n) (l3.drop n) := by
  induction h generalizing n with
  | nil => simpa using L3.nil
  | cons hr ht ih =>
    cases n with
    | zero => simpa using L3.cons hr ht
    | succ n => simpa using ih n

theorem map {β : Type} {R' : β → β → β → Prop} {f1 f2 f3 : α → β}
    (hf : ∀ a b c, R a b c → R' (f1 a) (f2 b) (f3 c)) (h : L3 R l1 l2 l3) :
    L3 R' (l1.map f1) (l2.map f2) (l3.map f3) := by
  induction h with
  | nil => exact .nil
  | cons hr _ ih => exact .cons (hf _ _ _ hr) ih

theorem replicate (n : Nat) {a b c : α} (h : R a b c) :
    L3 R (List.replicate n a) (List.replicate n b) (List.replicate n c) := by
  induction n with
  | zero => exact .nil
  | succ n ih => simpa [List.replicate_succ] using L3.cons h ih

theorem foldl {β : Type} {S : β → β → β → Prop} {f1 f2 f3 : β → α → β}
    (hf : ∀ s1 s2 s3 a1 a2 a3, S s1 s2 s3 → R a1 a2 a3 → S (f1 s1 a1) (f2 s2 a2) (f3 s3 a3))
    (h : L3 R l1 l2 l3) :
    ∀ s1 s2 s3, S s1 s2 s3 → S (l1.foldl f1 s1) (l2.foldl f2 s2) (l3.foldl f3 s3) := by
  induction h with
  | nil => intro _ _ _ hs; exact hs
  | cons hr _ ih => intro _ _ _ hs; exact ih _ _ _ (hf _ _ _ _ _ _ hs hr)

theorem zip_same {β : Type} (h : L3 R l1 l2 l3) (q : List β) :
    L3 (PairL R) (l1.zip q) (l2.zip q) (l3.zip q) := by
  induction h generalizing q with
  | nil => simpa using L3.nil
  | cons hr _ ih =>
    cases q with
    | nil => simpa using L3.nil
    | cons x q =>
      simp only [List.zip_cons_cons]
      exact L3.cons ⟨hr, rfl, rfl⟩ (ih q)

theorem zipIdx (h : L3 R l1 l2 l3) (n : Nat) :
    L3 (PairL R) (l1.zipIdx n) (l2.zipIdx n) (l3.zipIdx n) := by
  induction h generalizing n with
  | nil => simpa using L3.nil
  | cons hr _ ih =>
    simp only [List.zipIdx_cons]
    exact L3.cons ⟨hr, rfl, rfl⟩ (ih _)

theorem reverse (h : L3 R l1 l2 l3) : L3 R l1.reverse l2.reverse l3.reverse := by
  induction h with
  | nil => simpa using L3.nil
  | cons hr _ ih =>
    simp only [List.reverse_cons]
    exact ih.append (.cons hr .nil)

theorem flatten {ll1 ll2 ll3 : List (List α)} (h : L3 (L3 R) ll1 ll2 ll3) :
    L3 R ll1.flatten ll2.flatten ll3.flatten := by
  induction h with
  | nil => simpa using L3.nil
  | cons hr _ ih =>
    simp only [List.flatten_cons]
    exact hr.append ih

theorem isEmpty_b (h : L3 R l1 l2 l3) : l2.isEmpty = l1.isEmpty := by
  cases h <;> rfl

theorem isEmpty_c (h : L3 R l1 l2 l3) : l3.isEmpty = l1.isEmpty := by
  cases h <;> rfl

theorem getD {l1 l2 l3 : List F} (h : L3 S3 l1 l2 l3) (i : Nat) :
    S3 (l1.getD i 0) (l2.getD i 0) (l3.getD i 0) := by
  induction h generalizing i with
  | nil => simpa using S3.zero
  | cons hr _ ih =>
    cases i with
    | zero => simpa using hr
    | succ i => simpa using ih i

theorem headD {l1 l2 l3 : List F} (h : L3 S3 l1 l2 l3) : S3 (l1.headD 0) (l2.headD 0) (l3.headD 0) := by
  cases h with
  | nil => exact S3.zero
  | cons hr _ => exact hr

theorem toArray {l1 l2 l3 : List F} (h : L3 S3 l1 l2 l3) : Arr3 l1.toArray l2.toArray l3.toArray := by
  refine ⟨by simp [h.length_b], by simp [h.length_c], fun i => ?_⟩
  have e : ∀ l : List F, l.toArray.getD i 0 = l.getD i 0 := by
    intro l; simp [Array.getD_eq_getD_getElem?, List.getD_eq_getElem?_getD]
  rw [e, e, e]
  exact h.getD i

theorem zipWith_add {l1 l2 : List F} (h : l1.length = l2.length) :
    L3 S3 l1 l2 (List.zipWith (· + ·) l1 l2) := by
  induction l1 generalizing l2 with
  | nil =>
    cases l2 with
    | nil => exact .nil
    | cons b l2 => simp at h
  | cons a l1 ih =>
    cases l2 with
    | nil => simp at h
    | cons b l2 =>
      simp only [List.zipWith_cons_cons]
      exact .cons rfl (ih (by simpa using h))

theorem eq_zipWith {l1 l2 l3 : List F} (h : L3 S3 l1 l2 l3) : l3 = List.zipWith (· + ·) l1 l2 := by
  induction h with
  | nil => rfl
  | cons hr _ ih =>
    simp only [List.zipWith_cons_cons]
    rw [← ih]
    unfold S3 at hr
    rw [hr]

end L3

theorem chunksOf_lin {α : Type} {R : α → α → α → Prop} (n : Nat) :
    ∀ (fuel : Nat) {l1 l2 l3 : List α}, L3 R l1 l2 l3 →
      L3 (L3 R) (chunksOf n fuel l1) (chunksOf n fuel l2) (chunksOf n fuel l3) := by
  intro fuel
  induction fuel with
  | zero => intro l1 l2 l3 h; exact .nil
  | succ fuel ih =>
    intro l1 l2 l3 h
    simp only [chunksOf]
    rw [h.isEmpty_b, h.isEmpty_c]
    split
    · exact .nil
    · exact .cons (h.take n) (ih (h.drop n))

/-! ### the shim state -/

structure St3 (s1 s2 s3 : ShimState F) : Prop where
  nb : s2.numCalls = s1.numCalls
  nc : s3.numCalls = s1.numCalls
  w : L3 Arr3 s1.wires s2.wires s3.wires

/-- the ternary relation lifted to the state monad of the shim gadgets -/
def M3 {α : Type} (R : α → α → α → Prop) (m1 m2 m3 : StateT (ShimState F) Res α) : Prop :=
  ∀ s1 s2 s3, St3 s1 s2 s3 → Res3 (fun x y z => R x.1 y.1 z.1 ∧ St3 x.2 y.2 z.2) (m1 s1) (m2 s2) (m3 s3)

theorem M3.pure {α : Type} {R : α → α → α → Prop} {a b c : α} (h : R a b c) :
    M3 (F := F) R (pure a) (pure b) (pure c) := by
  intro s1 s2 s3 hs
  exact .ok ⟨h, hs⟩

omit [Field F] in
theorem stbind_eq {α β : Type} (m : StateT (ShimState F) Res α) (f : α → StateT (ShimState F) Res β)
    (s : ShimState F) :
    (m >>= f) s = match m s with
      | .ok a => f a.1 a.2
      | .err => .err
      | .panic => .panic := by
  show StateT.bind m f s = _
  unfold StateT.bind
  generalize m s = r
  cases r with
  | ok p => obtain ⟨a, s'⟩ := p; rfl
  | err => rfl
  | panic => rfl

theorem M3.bind {α β : Type} {R : α → α → α → Prop} {S : β → β → β → Prop}
    {m1 m2 m3 : StateT (ShimState F) Res α} {f1 f2 f3 : α → StateT (ShimState F) Res β}
    (hm : M3 R m1 m2 m3) (hf : ∀ a b c, R a b c → M3 S (f1 a) (f2 b) (f3 c)) :
    M3 S (m1 >>= f1) (m2 >>= f2) (m3 >>= f3) := by
  intro s1 s2 s3 hs
  have h := hm s1 s2 s3 hs
  rw [stbind_eq, stbind_eq, stbind_eq]
  gen3 h with x1 x2 x3
  cases h with
  | err => exact .err
  | panic => exact .panic
  | ok h => exact hf _ _ _ h.1 _ _ _ h.2

theorem L3.foldlM {α β : Type} {R : α → α → α → Prop} {S : β → β → β → Prop} {l1 l2 l3 : List α}
    {f1 f2 f3 : β → α → StateT (ShimState F) Res β}
    (hf : ∀ s1 s2 s3 a1 a2 a3, S s1 s2 s3 → R a1 a2 a3 → M3 S (f1 s1 a1) (f2 s2 a2) (f3 s3 a3))
    (h : L3 R l1 l2 l3) :
    ∀ s1 s2 s3, S s1 s2 s3 → M3 S (l1.foldlM f1 s1) (l2.foldlM f2 s2) (l3.foldlM f3 s3) := by
  induction h with
  | nil => intro _ _ _ hs; simp only [List.foldlM_nil]; exact M3.pure hs
  | cons hr _ ih =>
    intro _ _ _ hs
    simp only [List.foldlM_cons]
    exact M3.bind (hf _ _ _ _ _ _ hs hr) (fun _ _ _ h => ih _ _ _ h)

theorem mapM_loop_lin {α β : Type} {R : α → α → α → Prop} {S : β → β → β → Prop} {l1 l2 l3 : List α}
    {f1 f2 f3 : α → StateT (ShimState F) Res β}
    (hf : ∀ a1 a2 a3, R a1 a2 a3 → M3 S (f1 a1) (f2 a2) (f3 a3))
    (h : L3 R l1 l2 l3) :
    ∀ acc1 acc2 acc3, L3 S acc1 acc2 acc3 →
      M3 (L3 S) (List.mapM.loop f1 l1 acc1) (List.mapM.loop f2 l2 acc2) (List.mapM.loop f3 l3 acc3) := by
  induction h with
  | nil => intro _ _ _ hs; simp only [List.mapM.loop]; exact M3.pure hs.reverse
  | cons hr _ ih =>
    intro _ _ _ hs
    simp only [List.mapM.loop]
    exact M3.bind (hf _ _ _ hr) (fun _ _ _ h => ih _ _ _ (.cons h hs))

theorem L3.mapM {α β : Type} {R : α → α → α → Prop} {S : β → β → β → Prop} {l1 l2 l3 : List α}
    {f1 f2 f3 : α → StateT (ShimState F) Res β}
    (hf : ∀ a1 a2 a3, R a1 a2 a3 → M3 S (f1 a1) (f2 a2) (f3 a3))
    (h : L3 R l1 l2 l3) : M3 (L3 S) (l1.mapM f1) (l2.mapM f2) (l3.mapM f3) := by
  unfold List.mapM
  exact mapM_loop_lin hf h _ _ _ .nil

theorem recordCall_lin {s1 s2 s3 : ShimState F} (hs : St3 s1 s2 s3) {i1 i2 i3 : List F} (hi : L3 S3 i1 i2 i3) :
    St3 (recordCall s1 i1) (recordCall s2 i2) (recordCall s3 i3) := by
  unfold recordCall
  refine ⟨by simp only [hs.nb], by simp only [hs.nc], ?_⟩
  simp only [hs.nb, hs.nc, hi.length_b, hi.length_c]
  refine L3.map ?_ (hs.w.zipIdx 0)
  rintro ⟨w1, k1⟩ ⟨w2, k2⟩ ⟨w3, k3⟩ ⟨hw, e2, e3⟩
  simp only at hw e2 e3
  subst e2 e3
  simp only
  by_cases hk : k1 < i1.length
  · rw [if_pos hk, if_pos hk, if_pos hk]
    exact hw.set _ (hi.getD _)
  · rw [if_neg hk, if_neg hk, if_neg hk]
    exact hw

theorem queryShimEval_lin {g1 g2 g3 : Array F} (hg : Arr3 g1 g2 g3) (step wireLen : Nat) {i1 i2 i3 : List F}
    (hi : L3 S3 i1 i2 i3) :
    M3 S3 (queryShimEval g1 step wireLen i1) (queryShimEval g2 step wireLen i2) (queryShimEval g3 step wireLen i3) := by
  intro s1 s2 s3 hs
  unfold queryShimEval
  have hrc := recordCall_lin hs hi
  simp only [hs.nb, hs.nc, hrc.nb, hrc.nc, hg.sb, hg.sc]
  split
  · exact .panic
  split
  · exact .panic
  exact .ok ⟨hg.getD _, hrc⟩

/-! ### `queryShimPoly` -/

theorem dbl_lin (C : FieldCtx F) (size : Nat) : ∀ (fuel : Nat) {a b c : Array F}, Arr3 a b c →
    Res3 Arr3 (queryShimPoly.dbl C size fuel a) (queryShimPoly.dbl C size fuel b) (queryShimPoly.dbl C size fuel c) := by
  intro fuel
  induction fuel with
  | zero => intro a b c h; simp only [queryShimPoly.dbl]; exact .ok h
  | succ fuel ih =>
    intro a b c h
    simp only [queryShimPoly.dbl]
    rw [h.sb, h.sc]
    split
    · have hd := doubleEvaluations_lin C.root (2 * a.size) h (C.ofNat a.size)⁻¹
      gen3 hd with x1 x2 x3
      cases hd with
      | ok hd => exact ih hd
      | err e => exact .err
      | panic => exact .panic
    · exact .ok h

theorem queryShimPoly_lin [BEq F] (C : FieldCtx F) (g : Gadget F) {p1 p2 p3 : List F} (hp : L3 S3 p1 p2 p3) :
    Res3 (PairL Arr3) (queryShimPoly C g p1) (queryShimPoly C g p2) (queryShimPoly C g p3) := by
  unfold queryShimPoly
  simp only [hp.length_b, hp.length_c]
  split
  · exact .err
  generalize nthRootPowers C.root _ = rts
  cases rts with
  | none => exact .panic
  | some roots =>
    simp only
    have hpad : Arr3 (p1 ++ List.replicate (nextPow2 p1.length - p1.length) 0).toArray
        (p2 ++ List.replicate (nextPow2 p1.length - p1.length) 0).toArray
        (p3 ++ List.replicate (nextPow2 p1.length - p1.length) 0).toArray :=
      (hp.append (L3.replicate _ S3.zero)).toArray
    have hd := dbl_lin C (nextPow2 (gadgetPolyLen g.degree (wirePolyLen g.calls))) 64
      (extendValues_lin roots hpad p1.length)
    gen3 hd with x1 x2 x3
    cases hd with
    | ok hd => exact .ok ⟨hd, rfl, rfl⟩
    | err => exact .err
    | panic => exact .panic

end lists

/-! ## the validity circuits -/

section circuits
variable {F : Type} [Field F]

/-- `validCircuit` with the share-count constant `(C.ofNat ns)⁻¹` replaced by an arbitrary `nsInv` -/
def validCircuitK {m : Type → Type} [Monad m] (C : FieldCtx F) (t : TypeSpec) (g : List F → m F)
    (input jointRand : List F) (nsInv : F) : m (List F) :=
  match t with
  | .count => do
    let x := input.getD 0 0
    let o ← g [x, x]
    pure [o - x]
  | .sum _ => input.mapM fun bit => g [bit]
  | .histogram _ chunk => do
    let rc ← parallelSumRangeChecks g input jointRand chunk nsInv
    let sumCheck := input.foldl (fun acc v => acc + v) (-nsInv)
    pure [rc, sumCheck]
  | .multihot length _ lastWeight chunk => do
    let rc ← parallelSumRangeChecks g input jointRand chunk nsInv
    let weight := (input.take length).foldl (fun a b => a + b) 0
    let reported := decodeRangeCheckedInt (input.drop length) (C.ofNat lastWeight)
    pure [rc, weight - reported]
  | .sumVec _ _ _ chunk => do
    let rc ← parallelSumRangeChecks g input jointRand chunk nsInv
    pure [rc]
  | .l1BoundSum mlen bits lastWeight chunk => do
    let rc ← parallelSumRangeChecks g input jointRand chunk nsInv
    let decoded := (chunksOf bits input.length input).map fun c => decodeRangeCheckedInt c (C.ofNat lastWeight)
    let observed := (decoded.take mlen).foldl (fun a b => a + b) 0
    let claimed := ((decoded.drop mlen).take 1).foldl (fun a b => a + b) 0
    pure [rc, observed - claimed]

theorem validCircuit_eq {m : Type → Type} [Monad m] (C : FieldCtx F) (t : TypeSpec) (g : List F → m F)
    (input jointRand : List F) (ns : Nat) :
    validCircuit C t g input jointRand ns = validCircuitK C t g input jointRand (C.ofNat ns)⁻¹ := by
  cases t <;> rfl

theorem sum_lin {x1 x2 x3 : List F} (hx : L3 S3 x1 x2 x3) {a1 a2 a3 : F} (ha : S3 a1 a2 a3) :
    S3 (x1.foldl (fun a b => a + b) a1) (x2.foldl (fun a b => a + b) a2) (x3.foldl (fun a b => a + b) a3) :=
  L3.foldl (S := S3) (f1 := fun a b => a + b) (f2 := fun a b => a + b) (f3 := fun a b => a + b)
    (fun _ _ _ _ _ _ hs hv => hs.add hv) hx _ _ _ ha

theorem decodeBitvector_lin {x1 x2 x3 : List F} (hx : L3 S3 x1 x2 x3) :
    S3 (decodeBitvector x1) (decodeBitvector x2) (decodeBitvector x3) := by
  unfold decodeBitvector
  have key := L3.foldl (S := PairL S3)
    (f1 := fun (st : F × F) v => (st.1 + v * st.2, st.2 * (1 + 1)))
    (f2 := fun (st : F × F) v => (st.1 + v * st.2, st.2 * (1 + 1)))
    (f3 := fun (st : F × F) v => (st.1 + v * st.2, st.2 * (1 + 1))) ?_ hx
    ((0 : F), (1 : F)) (0, 1) (0, 1) ⟨S3.zero, rfl, rfl⟩
  · exact key.1
  · rintro ⟨a1, p1⟩ ⟨a2, p2⟩ ⟨a3, p3⟩ v1 v2 v3 ⟨ha, e2, e3⟩ hv
    simp only at ha e2 e3
    subst e2 e3
    exact ⟨ha.add (hv.mul_right _), rfl, rfl⟩

theorem decodeRangeCheckedInt_lin {x1 x2 x3 : List F} (hx : L3 S3 x1 x2 x3) (lw : F) :
    S3 (decodeRangeCheckedInt x1 lw) (decodeRangeCheckedInt x2 lw) (decodeRangeCheckedInt x3 lw) := by
  unfold decodeRangeCheckedInt
  have hr := hx.reverse
  gen3 hr with r1 r2 r3
  cases hr with
  | nil => exact S3.zero
  | cons hl ht => exact (decodeBitvector_lin ht.reverse).add (hl.mul_right lw)

theorem psrc_args_lin {c1 c2 c3 : List F} (hc : L3 S3 c1 c2 c3) (r : F) {k1 k2 k3 : F} (hk : S3 k1 k2 k3) :
    ∀ (acc1 acc2 acc3 : List F) (p : F), L3 S3 acc1 acc2 acc3 →
      L3 S3 (c1.foldl (fun (st : List F × F) x => (st.1 ++ [st.2 * x, x - k1], st.2 * r)) (acc1, p)).1
        (c2.foldl (fun (st : List F × F) x => (st.1 ++ [st.2 * x, x - k2], st.2 * r)) (acc2, p)).1
        (c3.foldl (fun (st : List F × F) x => (st.1 ++ [st.2 * x, x - k3], st.2 * r)) (acc3, p)).1 := by
  induction hc with
  | nil => intro _ _ _ _ h; exact h
  | cons hx _ ih =>
    intro acc1 acc2 acc3 p h
    simp only [List.foldl_cons]
    exact ih _ _ _ _ (h.append (.cons (hx.mul_left p) (.cons (hx.sub hk) .nil)))

theorem psrc_lin {g1 g2 g3 : List F → StateT (ShimState F) Res F}
    (hg : ∀ a1 a2 a3, L3 S3 a1 a2 a3 → M3 S3 (g1 a1) (g2 a2) (g3 a3))
    {x1 x2 x3 : List F} (hx : L3 S3 x1 x2 x3) (jr : List F) (chunk : Nat) {k1 k2 k3 : F} (hk : S3 k1 k2 k3) :
    M3 S3 (parallelSumRangeChecks g1 x1 jr chunk k1) (parallelSumRangeChecks g2 x2 jr chunk k2)
      (parallelSumRangeChecks g3 x3 jr chunk k3) := by
  unfold parallelSumRangeChecks
  simp only [hx.length_b, hx.length_c]
  refine L3.foldlM ?_ ((chunksOf_lin chunk x1.length hx).zip_same jr) 0 0 0 S3.zero
  rintro o1 o2 o3 ⟨c1, r1⟩ ⟨c2, r2⟩ ⟨c3, r3⟩ ho ⟨hc, e2, e3⟩
  simp only at hc e2 e3
  subst e2 e3
  simp only [hc.length_b, hc.length_c]
  refine M3.bind (hg _ _ _ ?_) (fun _ _ _ h => M3.pure (ho.add h))
  refine L3.append (psrc_args_lin hc r1 hk _ _ _ _ .nil) ?_
  exact L3.flatten (L3.replicate _ (.cons S3.zero (.cons hk.neg .nil)))

theorem validCircuitK_lin (C : FieldCtx F) (t : TypeSpec) {g1 g2 g3 : List F → StateT (ShimState F) Res F}
    (hg : ∀ a1 a2 a3, L3 S3 a1 a2 a3 → M3 S3 (g1 a1) (g2 a2) (g3 a3))
    {x1 x2 x3 : List F} (hx : L3 S3 x1 x2 x3) (jr : List F) {k1 k2 k3 : F} (hk : S3 k1 k2 k3) :
    M3 (L3 S3) (validCircuitK C t g1 x1 jr k1) (validCircuitK C t g2 x2 jr k2) (validCircuitK C t g3 x3 jr k3) := by
  cases t with
  | count =>
    simp only [validCircuitK]
    exact M3.bind (hg _ _ _ (.cons (hx.getD 0) (.cons (hx.getD 0) .nil)))
      (fun _ _ _ ho => M3.pure (.cons (ho.sub (hx.getD 0)) .nil))
  | sum bits =>
    simp only [validCircuitK]
    exact L3.mapM (fun _ _ _ h => hg _ _ _ (.cons h .nil)) hx
  | histogram length chunk =>
    simp only [validCircuitK]
    exact M3.bind (psrc_lin hg hx jr chunk hk)
      (fun _ _ _ hrc => M3.pure (.cons hrc (.cons (sum_lin hx hk.neg) .nil)))
  | multihot length bw lastWeight chunk =>
    simp only [validCircuitK]
    exact M3.bind (psrc_lin hg hx jr chunk hk)
      (fun _ _ _ hrc => M3.pure (.cons hrc (.cons
        ((sum_lin (hx.take length) S3.zero).sub (decodeRangeCheckedInt_lin (hx.drop length) _)) .nil)))
  | sumVec len bits lastWeight chunk =>
    simp only [validCircuitK]
    exact M3.bind (psrc_lin hg hx jr chunk hk) (fun _ _ _ hrc => M3.pure (.cons hrc .nil))
  | l1BoundSum mlen bits lastWeight chunk =>
    simp only [validCircuitK, hx.length_b, hx.length_c]
    have hdec : L3 S3
        ((chunksOf bits x1.length x1).map fun c => decodeRangeCheckedInt c (C.ofNat lastWeight))
        ((chunksOf bits x1.length x2).map fun c => decodeRangeCheckedInt c (C.ofNat lastWeight))
        ((chunksOf bits x1.length x3).map fun c => decodeRangeCheckedInt c (C.ofNat lastWeight)) :=
      L3.map (fun _ _ _ h => decodeRangeCheckedInt_lin h _) (chunksOf_lin bits x1.length hx)
    exact M3.bind (psrc_lin hg hx jr chunk hk)
      (fun _ _ _ hrc => M3.pure (.cons hrc (.cons
        ((sum_lin (hdec.take mlen) S3.zero).sub (sum_lin ((hdec.drop mlen).take 1) S3.zero)) .nil)))

end circuits

/-! ## `query` -/

section query
variable {F : Type} [Field F] [BEq F]

/-- last part of `queryCore`: the verifier message from the circuit output and the recorded wires -/
def queryFinK (C : FieldCtx F) (eo p : Nat) (r : F) (qrValidity : List F) (gp : Array F)
    (validity : List F) (st : ShimState F) : Res (List F) :=
  if validity.length ≠ eo then .panic
  else
    let check : F :=
      if validity.length > 1 then
        (validity.zip qrValidity).foldl (fun acc vr => acc + vr.2 * vr.1) 0
      else validity.headD 0
    match nthRootPowers C.root (Nat.log2 p), nthRootPowers C.root (Nat.log2 gp.size) with
    | some rootsW, some rootsG =>
      let wireEvals := st.wires.map fun w => polyEvalLagrange rootsW C.half (Nat.log2 p) w r
      let gEval := polyEvalLagrange rootsG C.half (Nat.log2 gp.size) gp r
      .ok ([check] ++ wireEvals ++ [gEval])
    | _, _ => .panic

/-- middle part of `queryCore` (after the argument checks), with the constant `nsInv` as a parameter -/
def queryMidK (C : FieldCtx F) (t : TypeSpec) (g : Gadget F) (p : Nat)
    (input proof jointRand qrValidity : List F) (r nsInv : F) : Res (List F) :=
  let nextLen := g.arity + gadgetPolyLen g.degree p
  if nextLen > proof.length then .panic
  else
    match queryShimPoly C g ((proof.take nextLen).drop g.arity) with
    | .err => .err
    | .panic => .panic
    | .ok (gp, step) =>
      let st0 : ShimState F := ⟨(proof.take g.arity).map fun s => (Array.replicate p 0).setIfInBounds 0 s, 0⟩
      match (validCircuitK C t (queryShimEval gp step p) input jointRand nsInv).run st0 with
      | .err => .err
      | .panic => .panic
      | .ok (validity, st) => queryFinK C t.evalOutputLen p r qrValidity gp validity st

/-- `queryCore` with the share-count constant `(C.ofNat ns)⁻¹` replaced by an arbitrary `nsInv` -/
def queryCoreK (C : FieldCtx F) (t : TypeSpec) (input proof queryRand jointRand : List F) (nsInv : F) :
    Res (List F) :=
  if input.length ≠ t.inputLen then .err
  else if proof.length ≠ t.proofLen then .err
  else if queryRand.length ≠ t.queryRandLen then .err
  else
    let eo := t.evalOutputLen
    let qrValidity := if eo > 1 then queryRand.take eo else []
    let qrGadgets := if eo > 1 then queryRand.drop eo else queryRand
    if qrGadgets.length ≠ 1 then .err
    else if jointRand.length ≠ t.jointRandLen then .err
    else
      let g : Gadget F := t.gadget C
      let p := wirePolyLen g.calls
      let r := qrGadgets.getD 0 0
      if fpow r p == 1 then .err
      else queryMidK C t g p input proof jointRand qrValidity r nsInv

/-- `query` with the share-count constant replaced by an arbitrary `nsInv` -/
def queryK (C : FieldCtx F) (t : TypeSpec) (input proof queryRand jointRand : List F) (nsInv : F) : Res (List F) :=
  match queryCoreK C t input proof queryRand jointRand nsInv with
  | .ok v => checkLen t.verifierLen v
  | .err => .err
  | .panic => .panic

theorem queryCore_eq (C : FieldCtx F) (t : TypeSpec) (input proof qr jr : List F) (ns : Nat) :
    queryCore C t input proof qr jr ns = queryCoreK C t input proof qr jr (C.ofNat ns)⁻¹ := by
  unfold queryCore queryCoreK queryMidK queryFinK
  simp only [validCircuit_eq]
  rfl

theorem query_eq (C : FieldCtx F) (t : TypeSpec) (input proof qr jr : List F) (ns : Nat) :
    query C t input proof qr jr ns = queryK C t input proof qr jr (C.ofNat ns)⁻¹ := by
  unfold query queryK
  rw [queryCore_eq]
  rfl

omit [BEq F] in
theorem queryFinK_lin (C : FieldCtx F) (eo p : Nat) (r : F) (qrV : List F) {gp1 gp2 gp3 : Array F}
    (hgp : Arr3 gp1 gp2 gp3) {val1 val2 val3 : List F} (hval : L3 S3 val1 val2 val3)
    {st1 st2 st3 : ShimState F} (hst : St3 st1 st2 st3) :
    Res3 (L3 S3) (queryFinK C eo p r qrV gp1 val1 st1) (queryFinK C eo p r qrV gp2 val2 st2)
      (queryFinK C eo p r qrV gp3 val3 st3) := by
  unfold queryFinK
  simp only [hval.length_b, hval.length_c, hgp.sb, hgp.sc]
  split
  · exact .panic
  generalize nthRootPowers C.root (Nat.log2 p) = rW
  generalize nthRootPowers C.root (Nat.log2 gp1.size) = rG
  cases rW with
  | none => cases rG <;> exact .panic
  | some rootsW =>
    cases rG with
    | none => exact .panic
    | some rootsG =>
      refine .ok (L3.append (L3.append (.cons ?_ .nil) ?_) (.cons ?_ .nil))
      · split
        · refine L3.foldl (S := S3) ?_ (hval.zip_same _) _ _ _ S3.zero
          rintro s1 s2 s3 ⟨a1, b1⟩ ⟨a2, b2⟩ ⟨a3, b3⟩ hs ⟨ha, e2, e3⟩
          simp only at ha e2 e3
          subst e2 e3
          exact hs.add (ha.mul_left _)
        · exact hval.headD
      · exact L3.map (fun _ _ _ hw => polyEvalLagrange_lin _ _ _ hw _) hst.w
      · exact polyEvalLagrange_lin _ _ _ hgp _

theorem queryMidK_lin (C : FieldCtx F) (t : TypeSpec) (g : Gadget F) (p : Nat) {x1 x2 x3 : List F}
    (hx : L3 S3 x1 x2 x3) {p1 p2 p3 : List F} (hp : L3 S3 p1 p2 p3) (jr qrV : List F) (r : F)
    {k1 k2 k3 : F} (hk : S3 k1 k2 k3) :
    Res3 (L3 S3) (queryMidK C t g p x1 p1 jr qrV r k1) (queryMidK C t g p x2 p2 jr qrV r k2)
      (queryMidK C t g p x3 p3 jr qrV r k3) := by
  unfold queryMidK
  simp only [hp.length_b, hp.length_c]
  split
  · exact .panic
  have hq := queryShimPoly_lin C g ((hp.take (g.arity + gadgetPolyLen g.degree p)).drop g.arity)
  gen3 hq with q1 q2 q3
  cases hq with
  | err => exact .err
  | panic => exact .panic
  | @ok a b c hq =>
    obtain ⟨gp1, step1⟩ := a
    obtain ⟨gp2, step2⟩ := b
    obtain ⟨gp3, step3⟩ := c
    obtain ⟨hgp, e2, e3⟩ := hq
    simp only at hgp e2 e3
    subst e2 e3
    simp only [StateT.run]
    have hst0 : St3 (F := F)
        ⟨(p1.take g.arity).map fun s => (Array.replicate p 0).setIfInBounds 0 s, 0⟩
        ⟨(p2.take g.arity).map fun s => (Array.replicate p 0).setIfInBounds 0 s, 0⟩
        ⟨(p3.take g.arity).map fun s => (Array.replicate p 0).setIfInBounds 0 s, 0⟩ :=
      ⟨rfl, rfl, L3.map (fun _ _ _ h => (Arr3.replicate _).set 0 h) (hp.take _)⟩
    have hv := validCircuitK_lin C t
      (g1 := queryShimEval gp1 step1 p) (g2 := queryShimEval gp2 step1 p) (g3 := queryShimEval gp3 step1 p)
      (fun _ _ _ h => queryShimEval_lin hgp step1 p h) hx jr hk _ _ _ hst0
    gen3 hv with v1 v2 v3
    cases hv with
    | err => exact .err
    | panic => exact .panic
    | @ok a b c hv =>
      obtain ⟨val1, st1⟩ := a
      obtain ⟨val2, st2⟩ := b
      obtain ⟨val3, st3⟩ := c
      obtain ⟨hval, hst⟩ := hv
      exact queryFinK_lin C _ p r qrV hgp hval hst

theorem queryCoreK_lin (C : FieldCtx F) (t : TypeSpec) {x1 x2 x3 : List F} (hx : L3 S3 x1 x2 x3)
    {p1 p2 p3 : List F} (hp : L3 S3 p1 p2 p3) (qr jr : List F) {k1 k2 k3 : F} (hk : S3 k1 k2 k3) :
    Res3 (L3 S3) (queryCoreK C t x1 p1 qr jr k1) (queryCoreK C t x2 p2 qr jr k2)
      (queryCoreK C t x3 p3 qr jr k3) := by
  unfold queryCoreK
  simp only [hx.length_b, hx.length_c, hp.length_b, hp.length_c]
  repeat' split
  all_goals first | exact .err | exact queryMidK_lin C t _ _ hx hp jr _ _ hk

theorem queryK_lin (C : FieldCtx F) (t : TypeSpec) {x1 x2 x3 : List F} (hx : L3 S3 x1 x2 x3)
    {p1 p2 p3 : List F} (hp : L3 S3 p1 p2 p3) (qr jr : List F) {k1 k2 k3 : F} (hk : S3 k1 k2 k3) :
    Res3 (L3 S3) (queryK C t x1 p1 qr jr k1) (queryK C t x2 p2 qr jr k2) (queryK C t x3 p3 qr jr k3) := by
  unfold queryK
  have h := queryCoreK_lin C t hx hp qr jr hk
  gen3 h with q1 q2 q3
  cases h with
  | err => exact .err
  | panic => exact .panic
  | @ok a b c h =>
    simp only [checkLen, h.length_b, h.length_c]
    split
    · exact .panic
    · exact .ok h

theorem queryK_ok_length (C : FieldCtx F) (t : TypeSpec) (x p qr jr : List F) (k : F) (v : List F)
    (h : queryK C t x p qr jr k = .ok v) : v.length = t.verifierLen := by
  unfold queryK at h
  generalize queryCoreK C t x p qr jr k = r at h
  cases r with
  | err => simp at h
  | panic => simp at h
  | ok w =>
    simp only [checkLen] at h
    split at h
    · simp at h
    · rename_i hl
      simp only [Res.ok.injEq] at h
      subst h
      simpa using hl

theorem Res3.ok_inv {α : Type} {R : α → α → α → Prop} {r1 r2 : Res α} {c : α} (h : Res3 R r1 r2 (.ok c)) :
    ∃ a b, r1 = .ok a ∧ r2 = .ok b ∧ R a b c := by
  cases h with
  | ok h => exact ⟨_, _, rfl, rfl, h⟩

theorem fold_lin (C : FieldCtx F) (t : TypeSpec) (qr jr : List F) (κ : F) :
    ∀ (inputs proofs : List (List F)) (A P : List F) (κA : F) (whole : List F),
      inputs.length = proofs.length → (∀ x ∈ inputs, x.length = A.length) → (∀ x ∈ proofs, x.length = P.length) →
      queryK C t (inputs.foldl (List.zipWith (· + ·)) A) (proofs.foldl (List.zipWith (· + ·)) P) qr jr
        (κA + (inputs.length : F) * κ) = .ok whole →
      ∃ (vA : List F) (vs : List (List F)), queryK C t A P qr jr κA = .ok vA ∧ vs.length = inputs.length ∧
        (∀ i (hi : i < inputs.length) (hp : i < proofs.length) (h : i < vs.length),
          queryK C t (inputs[i]) (proofs[i]) qr jr κ = .ok (vs[i])) ∧
        vs.foldl (List.zipWith (· + ·)) vA = whole := by
  intro inputs
  induction inputs with
  | nil =>
    intro proofs A P κA whole hlen _ _ hq
    cases proofs with
    | cons p ps => simp at hlen
    | nil =>
      simp only [List.foldl_nil, List.length_nil, Nat.cast_zero, zero_mul, add_zero] at hq
      exact ⟨whole, [], hq, rfl, fun i hi => absurd hi (by simp), rfl⟩
  | cons x xs ih =>
    intro proofs A P κA whole hlen hin hpr hq
    cases proofs with
    | nil => simp at hlen
    | cons p ps =>
      have hxA : A.length = x.length := (hin x (by simp)).symm
      have hpP : P.length = p.length := (hpr p (by simp)).symm
      simp only [List.foldl_cons] at hq
      have hκ : κA + (((x :: xs).length : Nat) : F) * κ = (κA + κ) + (xs.length : F) * κ := by
        simp only [List.length_cons]; push_cast; ring
      rw [hκ] at hq
      obtain ⟨vA', vs', hA', hlen', hidx', hfold'⟩ := ih ps (List.zipWith (· + ·) A x) (List.zipWith (· + ·) P p)
        (κA + κ) whole (by simpa using hlen)
        (fun y hy => by rw [List.length_zipWith, ← hxA, Nat.min_self]; exact hin y (by simp [hy]))
        (fun y hy => by rw [List.length_zipWith, ← hpP, Nat.min_self]; exact hpr y (by simp [hy])) hq
      have h3 := queryK_lin C t (L3.zipWith_add hxA) (L3.zipWith_add hpP) qr jr (rfl : S3 κA κ (κA + κ))
      rw [hA'] at h3
      obtain ⟨vA, v, e1, e2, hsum⟩ := h3.ok_inv
      refine ⟨vA, v :: vs', e1, by simp [hlen'], ?_, ?_⟩
      · intro i hi hp h
        cases i with
        | zero => simpa using e2
        | succ i =>
          simp only [List.getElem_cons_succ]
          exact hidx' i (by simpa using hi) (by simpa using hp) (by simpa using h)
      · simp only [List.foldl_cons]
        rw [← hsum.eq_zipWith]
        exact hfold'

omit [BEq F] in
theorem zipWith_zero_add (x : List F) : List.zipWith (· + ·) (List.replicate x.length (0 : F)) x = x := by
  induction x with
  | nil => rfl
  | cons a x ih => simp [List.replicate_succ, ih]

end query

/-- entrywise sum of a list of vectors of length n -/
def vsum {F : Type} [Add F] [Zero F] (n : Nat) (vs : List (List F)) : List F :=
  vs.foldl (List.zipWith (· + ·)) (List.replicate n 0)

theorem query_share_linear {F : Type} [Field F] [BEq F] [LawfulBEq F] (C : FieldCtx F)
    (hC : ∀ n, C.ofNat n = (n : F)) (t : TypeSpec) (inputs proofs : List (List F)) (qr jr whole : List F)
    (hlen : inputs.length = proofs.length) (hne : inputs ≠ [])
    (hin : ∀ x ∈ inputs, x.length = t.inputLen) (hpr : ∀ x ∈ proofs, x.length = t.proofLen)
    (hns : ((inputs.length : Nat) : F) ≠ 0)
    (hq : query C t (vsum t.inputLen inputs) (vsum t.proofLen proofs) qr jr 1 = .ok whole) :
    ∃ vs : List (List F), vs.length = inputs.length ∧
      (∀ i (hi : i < inputs.length) (hp : i < proofs.length) (h : i < vs.length),
          query C t (inputs[i]) (proofs[i]) qr jr inputs.length = .ok (vs[i])) ∧
      vsum t.verifierLen vs = whole := by
  cases inputs with
  | nil => exact absurd rfl hne
  | cons x xs =>
    cases proofs with
    | nil => simp at hlen
    | cons p ps =>
      have hx : x.length = t.inputLen := hin x (by simp)
      have hp : p.length = t.proofLen := hpr p (by simp)
      set κ : F := (((x :: xs).length : Nat) : F)⁻¹ with hκdef
      have hκ : κ + (xs.length : F) * κ = 1 := by
        have : κ + (xs.length : F) * κ = (((x :: xs).length : Nat) : F) * κ := by
          simp only [List.length_cons]; push_cast; ring
        rw [this, hκdef]
        exact mul_inv_cancel₀ hns
      rw [query_eq, hC 1] at hq
      simp only [vsum, List.foldl_cons, Nat.cast_one, inv_one] at hq
      rw [← hx, ← hp, zipWith_zero_add, zipWith_zero_add, ← hκ] at hq
      obtain ⟨vA, vs, hA, hlen', hidx, hfold⟩ := fold_lin C t qr jr κ xs ps x p κ whole (by simpa using hlen)
        (fun y hy => by rw [hx]; exact hin y (by simp [hy]))
        (fun y hy => by rw [hp]; exact hpr y (by simp [hy])) hq
      have hvA := queryK_ok_length C t x p qr jr κ vA hA
      refine ⟨vA :: vs, by simp [hlen'], ?_, ?_⟩
      · intro i hi hp' h
        rw [query_eq, hC]
        cases i with
        | zero =>
          simp only [List.getElem_cons_zero]
          exact hA
        | succ i =>
          simp only [List.getElem_cons_succ]
          exact hidx i (by simpa using hi) (by simpa using hp') (by simpa using h)
      · simp only [vsum, List.foldl_cons]
        rw [← hvA, zipWith_zero_add]
        exact hfold

end Prio.Flp

-- #print axioms Prio.Flp.query_share_linear   -- [propext, Classical.choice, Quot.sound]
-- #print axioms Prio.Flp.queryK_lin           -- [propext, Classical.choice, Quot.sound]
-- #print axioms Prio.Flp.query_eq             -- [propext, Classical.choice, Quot.sound]
