import PrioModel.Prng
import PrioProofs.Prng
import Mathlib.Tactic.Ring
import Mathlib.Tactic.Linarith
import Mathlib.Data.List.Basic
import Mathlib.Data.List.GetD

/-! XOF framing (what is absorbed depends only on concatenations and determines seed, tag and binder)
    and the block-wise fill of the fixed-key AES stream. -/
namespace Prio

theorem le16_inj (a b : Nat) (ha : a < 65536) (hb : b < 65536) (h : le16 a = le16 b) : a = b := by
  simp only [le16, List.cons.injEq, and_true] at h
  omega

/-- splitting the tag or the binder into parts does not matter -/
theorem turboShake_concat (seed : List Nat) (dp bp : List (List Nat)) :
    turboShakeAbsorbed seed dp bp = turboShakeAbsorbed seed [dp.flatten] [bp.flatten] := by
  simp [turboShakeAbsorbed]

theorem fixedKey_concat (dp bp : List (List Nat)) :
    fixedKeyAbsorbed dp bp = fixedKeyAbsorbed [dp.flatten] [bp.flatten] := by
  simp [fixedKeyAbsorbed]

theorem hmac_concat (dp bp : List (List Nat)) :
    hmacAbsorbed dp bp = hmacAbsorbed [dp.flatten] [bp.flatten] := by
  simp [hmacAbsorbed]

/-- the absorbed message determines (seed, concatenated tag, concatenated binder): domain separation
    is injective -/
theorem turboShake_injective (s s' : List Nat) (dp dp' bp bp' : List (List Nat)) (m : List Nat)
    (h : turboShakeAbsorbed s dp bp = some m) (h' : turboShakeAbsorbed s' dp' bp' = some m) :
    s = s' ∧ dp.flatten = dp'.flatten ∧ bp.flatten = bp'.flatten := by
  unfold turboShakeAbsorbed at h h'
  simp only at h h'
  split at h
  · cases h
  · split at h'
    · cases h'
    · rename_i h1 h2
      simp only [Option.some.injEq] at h h'
      have hm := h.trans h'.symm
      simp only [not_or, not_le] at h1 h2
      simp only [List.append_assoc] at hm
      have e1 := List.append_inj hm (by simp [le16])
      have hdl := le16_inj _ _ h1.1 h2.1 e1.1
      have e2 := List.append_inj e1.2 hdl
      have e3 := List.append_inj e2.2 (by simp)
      have hsl : s.length = s'.length := by simpa using e3.1
      have e4 := List.append_inj e3.2 hsl
      exact ⟨e4.1, e2.1, e4.2⟩

theorem fixedKey_injective (dp dp' bp bp' : List (List Nat)) (m : List Nat)
    (h : fixedKeyAbsorbed dp bp = some m) (h' : fixedKeyAbsorbed dp' bp' = some m) :
    dp.flatten = dp'.flatten ∧ bp.flatten = bp'.flatten := by
  unfold fixedKeyAbsorbed at h h'
  simp only at h h'
  split at h
  · cases h
  · split at h'
    · cases h'
    · rename_i h1 h2
      simp only [Option.some.injEq] at h h'
      have hm := h.trans h'.symm
      simp only [List.append_assoc] at hm
      have e1 := List.append_inj hm (by simp [le16])
      have hdl := le16_inj _ _ (by omega) (by omega) e1.1
      have e2 := List.append_inj e1.2 hdl
      exact ⟨e2.1, e2.2⟩

/-! ### fixed-key fill -/

/-- the stream formed by the 16-byte blocks -/
def blockStream (block : Nat → List Nat) : Stream := fun i => (block (i / 16)).getD (i % 16) 0

theorem block_slice (block : Nat → List Nat) (hb : ∀ c, (block c).length = 16) (ctr off r : Nat)
    (h : off + r ≤ 16) : ((block ctr).drop off).take r = (blockStream block).read (ctr * 16 + off) r := by
  apply List.ext_getElem
  · simp [read_length, hb]; omega
  · intro i h1 h2
    simp only [List.getElem_take, List.getElem_drop, Stream.read, List.getElem_map, List.getElem_range,
      blockStream]
    have hi : i < r := by simpa [read_length] using h2
    have e1 : (ctr * 16 + off + i) / 16 = ctr := by omega
    have e2 : (ctr * 16 + off + i) % 16 = off + i := by omega
    rw [e1, e2]
    have hlt : off + i < (block ctr).length := by rw [hb]; omega
    exact (List.getD_eq_getElem (l := block ctr) (d := 0) hlt).symm

theorem fillLoop_spec (block : Nat → List Nat) (hb : ∀ c, (block c).length = 16) (start want : Nat) :
    ∀ (fuel ctr off : Nat) (acc : List Nat), off < 16 → acc.length ≤ want →
      acc = (blockStream block).read start acc.length →
      (acc.length = want ∨ start + acc.length = ctr * 16 + off) →
      want - acc.length ≤ fuel * 16 - off →
      fixedKeyFillLoop block want fuel ctr off acc = (blockStream block).read start want := by
  intro fuel
  induction fuel with
  | zero =>
    intro ctr off acc _ hle hacc _ hfuel
    simp only [fixedKeyFillLoop]
    have : acc.length = want := by omega
    rw [← this]; exact hacc
  | succ fuel ih =>
    intro ctr off acc hoff hle hacc hpos hfuel
    simp only [fixedKeyFillLoop]
    rcases hpos with hfull | hpos
    · -- nothing left to copy
      have hr : min (16 - off) (want - acc.length) = 0 := by omega
      rw [hr]; simp only [List.take_zero, List.append_nil]
      exact ih (ctr + 1) 0 acc (by omega) hle hacc (Or.inl hfull) (by omega)
    · set r := min (16 - off) (want - acc.length) with hr
      have hslice := block_slice block hb ctr off r (by omega)
      rw [hslice, ← hpos]
      have hnew : acc ++ (blockStream block).read (start + acc.length) r
          = (blockStream block).read start (acc.length + r) := by
        rw [read_append, ← hacc]
      apply ih (ctr + 1) 0 _ (by omega)
      · simp [read_length]; omega
      · simp only [List.length_append, read_length]; exact hnew
      · simp only [List.length_append, read_length]
        by_cases hc : r = 16 - off
        · right; omega
        · left; omega
      · simp only [List.length_append, read_length]; omega

/-- **one `fill` call returns exactly the next `n` bytes of the block stream**, whatever the offset
    inside a block the previous calls left -/
theorem fixedKeyFill_spec (block : Nat → List Nat) (hb : ∀ c, (block c).length = 16) (consumed n : Nat) :
    fixedKeyFill block consumed n = ((blockStream block).read consumed n, consumed + n) := by
  unfold fixedKeyFill
  simp only [Prod.mk.injEq, and_true]
  apply fillLoop_spec block hb consumed n _ _ _ [] (Nat.mod_lt _ (by norm_num)) (by simp)
    (by simp [Stream.read])
  · right; simp only [List.length_nil, Nat.add_zero]; omega
  · simp only [List.length_nil, Nat.sub_zero]; omega

/-- **read-size independence**: any sequence of reads returns consecutive pieces of the same stream -/
theorem fixedKeyReads_spec (block : Nat → List Nat) (hb : ∀ c, (block c).length = 16) :
    ∀ (ns : List Nat) (consumed : Nat),
      (fixedKeyReads block consumed ns).flatten = (blockStream block).read consumed ns.sum := by
  intro ns
  induction ns with
  | nil => intro c; simp [fixedKeyReads, Stream.read]
  | cons n ns ih =>
    intro c
    simp only [fixedKeyReads, fixedKeyFill_spec block hb, List.flatten_cons, List.sum_cons, ih]
    rw [read_append]

end Prio
