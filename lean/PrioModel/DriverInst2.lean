import PrioModel.Flp
import PrioModel.FieldInst
import PrioModel.Prio3
import PrioModel.Prio2
import PrioModel.Poplar1

/-! The protocol layers (`PrioModel/Prio3.lean`, `Prio2.lean`, `Poplar1.lean`) as the driver (`Main.lean`:
    `handleP3`, `handleC19`, `handlePop`) instantiates them: at `Fin (q + 1)` (Poplar1: at `Fin (qi + 1)` for the inner
    levels and `Fin (ql + 1)` for the leaf level), with the instances that instance resolution finds in this import-free
    context (core `Fin` arithmetic, `Prio.finInv q`, `instBEqOfDecidableEq`).  `PrioProofs/Bridge2.lean` proves that these
    are, term for term (`rfl`), the functions it identifies with the `ZMod (q + 1)` instances the theorems are about.
    Same style as `PrioModel/DriverInst.lean`.  Import-free. -/
namespace Prio.Driver
open Prio.Flp Prio.Ntt

/-! ### Prio3 (`handleP3`) -/

section prio3
variable (q : Nat)

def p3shard (C : FieldCtx (Fin (q + 1))) (cfg : Prio3.Cfg) (cv : Prio3.Conv (Fin (q + 1))) (xof : Prio3.Xof)
    (ctx nonce random : Prio3.Bytes) (encoded : List (Fin (q + 1))) :=
  Prio3.shard C cfg cv xof ctx nonce random encoded
def p3verifyInit (C : FieldCtx (Fin (q + 1))) (cfg : Prio3.Cfg) (cv : Prio3.Conv (Fin (q + 1))) (xof : Prio3.Xof)
    (sumLW : Nat) (verifyKey ctx : Prio3.Bytes) (aggId : Nat) (nonce : Prio3.Bytes)
    (pubParts : Option (List Prio3.Bytes)) (msg : Prio3.InputShare (Fin (q + 1))) :=
  Prio3.verifyInit C cfg cv xof sumLW verifyKey ctx aggId nonce pubParts msg
def p3sharesToMessage (C : FieldCtx (Fin (q + 1))) (cfg : Prio3.Cfg) (xof : Prio3.Xof) (ctx : Prio3.Bytes)
    (shares : List (Prio3.VerifierShare (Fin (q + 1)))) :=
  Prio3.sharesToMessage C cfg xof ctx shares
def p3verifyNext (C : FieldCtx (Fin (q + 1))) (cfg : Prio3.Cfg) (cv : Prio3.Conv (Fin (q + 1))) (xof : Prio3.Xof)
    (sumLW : Nat) (ctx : Prio3.Bytes) (st : Prio3.VerifyState (Fin (q + 1))) (msg : Option Prio3.Bytes) :=
  Prio3.verifyNext C cfg cv xof sumLW ctx st msg
def p3truncateWith (C : FieldCtx (Fin (q + 1))) (t : TypeSpec) (sumLastWeight : Nat) (input : List (Fin (q + 1))) :=
  Prio3.truncateWith C t sumLastWeight input
/-- addition of output shares (what `aggregate` / `mergeVector` do elementwise) -/
def p3vadd (a b : List (Fin (q + 1))) := Prio3.vadd a b
/-- the zero of the driver's field -/
def zero : Fin (q + 1) := 0

end prio3

/-! ### Prio2 (`handleC19`) -/

section prio2
variable (q : Nat)

def p2constructProof (C : FieldCtx (Fin (q + 1))) (data : List (Fin (q + 1))) (f0 g0 : Fin (q + 1)) :=
  Prio2.constructProof C data f0 g0
def p2generateVerificationMessage (C : FieldCtx (Fin (q + 1))) (dim : Nat) (evalAt : Fin (q + 1))
    (proof : List (Fin (q + 1))) (isFirst : Bool) :=
  Prio2.generateVerificationMessage C dim evalAt proof isFirst
def p2isValidShare (v1 v2 : Prio2.VerificationMessage (Fin (q + 1))) :=
  Prio2.isValidShare v1 v2
def p2leaderShare (proof helper : List (Fin (q + 1))) :=
  Prio2.leaderShare proof helper
/-- the one of the driver's field -/
def one : Fin (q + 1) := 1

end prio2

/-! ### Poplar1 (`handlePop`): inner field `Fin (qi + 1)`, leaf field `Fin (ql + 1)` -/

section poplar1
open Prio.Idpf
variable (qi ql : Nat)

def popShard (cfg : Poplar1.Cfg) (ofI : Nat → Fin (qi + 1)) (ofL : Nat → Fin (ql + 1)) (xof : Poplar1.Xof)
    (gI : Prg Poplar1.Bytes (Pair (Fin (qi + 1)))) (gL : Prg Poplar1.Bytes (Pair (Fin (ql + 1))))
    (ctx : Poplar1.Bytes) (input : List Bool) (nonce k0 k1 pr0 pr1 pr2 : Poplar1.Bytes) :=
  Poplar1.shard cfg ofI ofL xof gI gL ctx input nonce k0 k1 pr0 pr1 pr2
def popVerifyInit (cfg : Poplar1.Cfg) (ofI : Nat → Fin (qi + 1)) (ofL : Nat → Fin (ql + 1)) (xof : Poplar1.Xof)
    (gI : Prg Poplar1.Bytes (Pair (Fin (qi + 1)))) (gL : Prg Poplar1.Bytes (Pair (Fin (ql + 1))))
    (verifyKey ctx : Poplar1.Bytes) (aggId : Nat) (ap : Poplar1.AggParam) (nonce : Poplar1.Bytes)
    (pub : Poplar1.PubShare (Fin (qi + 1)) (Fin (ql + 1))) (share : Poplar1.InputShare (Fin (qi + 1)) (Fin (ql + 1))) :=
  Poplar1.verifyInit cfg ofI ofL xof gI gL verifyKey ctx aggId ap nonce pub share
def popSharesToMessage (shares : List (Poplar1.FieldVec (Fin (qi + 1)) (Fin (ql + 1)))) :=
  Poplar1.sharesToMessage shares
def popVerifyNext (st : Poplar1.State (Fin (qi + 1)) (Fin (ql + 1))) (msg : Poplar1.Message (Fin (qi + 1)) (Fin (ql + 1))) :=
  Poplar1.verifyNext st msg
/-- elementwise addition of two output shares of the inner / of the leaf field -/
def popAddI (a b : List (Fin (qi + 1))) : List (Fin (qi + 1)) := List.zipWith (· + ·) a b
def popAddL (a b : List (Fin (ql + 1))) : List (Fin (ql + 1)) := List.zipWith (· + ·) a b

end poplar1

end Prio.Driver
