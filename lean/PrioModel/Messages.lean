import PrioModel.Codec
import PrioModel.Gen.FpParams

/-! Every protocol message of libprio-rs as a wire format computed from its decoding parameters.
    Each definition names the Rust `decode_with_param` it mirrors.  Import-free. -/
namespace Prio
namespace Msg

/-- a field as the codec sees it: modulus and encoded size -/
structure FieldSpec where
  p : Nat
  sz : Nat

def P255 : Nat := 2 ^ 255 - 19

def fieldSpec (name : String) : Option FieldSpec :=
  match name with
  | "FP32" => some ⟨Gen.FP32.prime, 4⟩
  | "FP64" => some ⟨Gen.FP64.prime, 8⟩
  | "FP128" => some ⟨Gen.FP128.prime, 16⟩
  | "F255" => some ⟨P255, 32⟩
  | _ => none

def felem (F : FieldSpec) : Fmt := .felem F.p F.sz
def fvec (F : FieldSpec) (n : Nat) : Fmt := Fmt.rep n (felem F)
def seed (n : Nat) : Fmt := .bytes n
def optSeed (present : Bool) (n : Nat) : Fmt := if present then seed n else .unit

/-- `Share::decode_with_param(ShareDecodingParameter)` (src/vdaf.rs) -/
def share (F : FieldSpec) (seedSize : Nat) (leaderLen : Option Nat) : Fmt :=
  match leaderLen with
  | some n => fvec F n
  | none => seed seedSize

/-- `Prio3PublicShare::decode_with_param` -/
def prio3PublicShare (seedSize numAgg jointRandLen : Nat) : Fmt :=
  if jointRandLen > 0 then Fmt.rep numAgg (seed seedSize) else .unit

/-- `Prio3InputShare::decode_with_param((prio3, agg_id))`; `role_try_from` rejects ids ≥ num_aggregators -/
def prio3InputShare (F : FieldSpec) (seedSize numAgg aggId inputLen proofsLen jointRandLen : Nat) : Fmt :=
  if aggId ≥ numAgg then .fail
  else if aggId = 0 then
    .pair (fvec F inputLen) (.pair (fvec F proofsLen) (optSeed (jointRandLen > 0) seedSize))
  else .pair (seed seedSize) (optSeed (jointRandLen > 0) seedSize)

/-- `Prio3VerifierShare::decode_with_param(state)` -/
def prio3VerifierShare (F : FieldSpec) (seedSize verifiersLen : Nat) (hasJointRand : Bool) : Fmt :=
  .pair (fvec F verifiersLen) (optSeed hasJointRand seedSize)

/-- `Prio3VerifierMessage::decode_with_param(state)` -/
def prio3VerifierMessage (seedSize : Nat) (hasJointRand : Bool) : Fmt := optSeed hasJointRand seedSize

/-- `Prio3VerifyState::decode_with_param((prio3, agg_id))` -/
def prio3VerifyState (F : FieldSpec) (seedSize numAgg aggId outputLen jointRandLen : Nat) : Fmt :=
  if aggId ≥ numAgg then .fail
  else .pair (share F seedSize (if aggId = 0 then some outputLen else none)) (optSeed (jointRandLen > 0) seedSize)

/-- `OutputShare` / `AggregateShare` decoders of Prio3 and Prio2 -/
def fieldVecMsg (F : FieldSpec) (len : Nat) : Fmt := fvec F len

/-- `Prio2VerifierState::decode_with_param((prio2, agg_id))`: any non-zero id is a helper -/
def prio2VerifyState (F : FieldSpec) (aggId inputLen : Nat) : Fmt :=
  share F 32 (if aggId = 0 then some inputLen else none)

/-- `Share<FieldPrio2,32>::decode_with_param((prio2, agg_id))` (the Prio2 input share) -/
def prio2InputShare (F : FieldSpec) (aggId proofLen : Nat) : Fmt :=
  if aggId = 0 then fvec F proofLen else if aggId = 1 then seed 32 else .fail

def prio2VerifierShare (F : FieldSpec) : Fmt := fvec F 3

/-- `IdpfPublicShare::decode_with_param(bits)`: packed control bits, seeds, inner payloads (pairs of
    Field64), leaf payload (pair of Field255).  `fixed` selects the repaired behaviour for `bits = 0`
    (an error) instead of the arithmetic panic. -/
def idpfPublicShare (FI FL : FieldSpec) (bits : Nat) (zeroBitsPanics : Bool) : Fmt :=
  if bits = 0 then (if zeroBitsPanics then .panic else .fail)
  else
    .pair (.bitsLsb (2 * bits))
      (.pair (Fmt.rep bits (seed 16))
        (.pair (Fmt.rep (bits - 1) (fvec FI 2)) (fvec FL 2)))

/-- `Poplar1InputShare::decode_with_param` -/
def poplar1InputShare (FI FL : FieldSpec) (seedSize bits : Nat) (zeroBitsPanics : Bool) : Fmt :=
  if bits = 0 then
    -- the two seeds are read first; then `bits - 1` is evaluated
    .pair (seed 16) (.pair (seed seedSize) (if zeroBitsPanics then .panic else .fail))
  else .pair (seed 16) (.pair (seed seedSize) (.pair (Fmt.rep (bits - 1) (fvec FI 2)) (fvec FL 2)))

def tagOf : Val → Nat
  | .num n => n
  | _ => 0

/-- `SketchState::decode_with_param`: tag 0 = RoundOne{A_share,B_share}, 1 = RoundTwo -/
def sketchState (F : FieldSpec) : Fmt :=
  .dep (.uint 1) fun t => if tagOf t = 0 then fvec F 2 else if tagOf t = 1 then .unit else .fail

/-- `VerifierState<F>::decode_with_param`: sketch, u32 count, that many elements -/
def verifierStateF (F : FieldSpec) : Fmt :=
  .pair (sketchState F) (.dep (.uint 4) fun n => fvec F (tagOf n))

/-- `Poplar1VerifierState` (`VerifierStateVariant`): tag 0 = Inner (Field64), 1 = Leaf (Field255) -/
def poplar1VerifyState (FI FL : FieldSpec) : Fmt :=
  .dep (.uint 1) fun t =>
    if tagOf t = 0 then verifierStateF FI else if tagOf t = 1 then verifierStateF FL else .fail

/-- round of a decoded `Poplar1VerifierState` value: (isLeaf, isRoundTwo) -/
def stateKind : Val → Bool × Bool
  | .pair (.num t) (.pair (.pair (.num r) _) _) => (t == 1, r == 1)
  | _ => (false, false)

/-- `Poplar1VerifierMessage::decode_with_param(state)`: three elements in round one, nothing in round two -/
def poplar1VerifierMessage (FI FL : FieldSpec) (isLeaf roundTwo : Bool) : Fmt :=
  if roundTwo then .unit else fvec (if isLeaf then FL else FI) 3

/-- `Poplar1FieldVec::decode_with_param(state)` (a verifier share): three elements, then one -/
def poplar1VerifierShare (FI FL : FieldSpec) (isLeaf roundTwo : Bool) : Fmt :=
  fvec (if isLeaf then FL else FI) (if roundTwo then 1 else 3)

/-- `PingPongContinuation::decode_with_param` for Poplar1: state, then the message the state expects -/
def poplar1Continuation (FI FL : FieldSpec) : Fmt :=
  .dep (poplar1VerifyState FI FL) fun st =>
    poplar1VerifierMessage FI FL (stateKind st).1 (stateKind st).2

/-- bit lists are compared as `bitvec` does for equal lengths: lexicographically, `false < true` -/
def bitsLt : List Bool → List Bool → Bool
  | [], _ => false
  | _ :: _, [] => false
  | a :: as, b :: bs => if a == b then bitsLt as bs else (!a && b)

def prefixesOf : Val → List (List Bool)
  | .pair (.bits b) (.pair .unit rest) => b :: prefixesOf rest
  | _ => []

def strictlyIncreasing : List (List Bool) → Bool
  | [] => true
  | [_] => true
  | a :: b :: rest => bitsLt a b && strictlyIncreasing (b :: rest)

/-- `Poplar1AggregationParam::decode`: u16 level, u32 count, `count` prefixes of `level+1` bits packed
    MSB-first with zero padding, accepted iff non-empty and strictly increasing
    (`try_from_prefixes`).  `levelOverflowPanics`: the unrepaired code evaluates `level + 1` in `u16`. -/
def poplar1AggParam (levelOverflowPanics : Bool) : Fmt :=
  .dep (.uint 2) fun level =>
    if tagOf level + 1 ≥ 65536 ∧ levelOverflowPanics then .dep (.uint 4) fun _ => .panic
    else
      .dep (.uint 4) fun n =>
        .refine (Fmt.rep (tagOf n) (.bitsMsb (tagOf level + 1)))
          fun v => decide (tagOf n > 0) && strictlyIncreasing (prefixesOf v)

/-- `decode_u32_items::<(), u8>`: a u32 byte length and that many bytes -/
def opaque32 : Fmt := .dep (.uint 4) fun n => .bytes (tagOf n)

/-- `PingPongMessage::decode` -/
def pingPongMessage : Fmt :=
  .dep (.uint 1) fun t =>
    if tagOf t = 0 then opaque32
    else if tagOf t = 1 then .pair opaque32 opaque32
    else if tagOf t = 2 then opaque32
    else .fail

/-! ### `encoded_len()` as the Rust code computes it -/

/-- `Poplar1InputShare::encoded_len`; `idpfKeyCounted` is what the code adds for the 16-byte IDPF key -/
def poplar1InputShareLen (idpfKeyCounted seedSize corrInnerLen : Nat) : Nat :=
  idpfKeyCounted + seedSize + corrInnerLen * 2 * 8 + 2 * 32

/-- `Poplar1AggregationParam::encoded_len` -/
def poplar1AggParamLen (level numPrefixes : Nat) : Nat :=
  6 + ((level + 1 + 7) / 8) * numPrefixes

/-- `IdpfPublicShare::encoded_len` for Poplar1 payloads -/
def idpfPublicShareLen (bits : Nat) : Nat :=
  (bits * 2 + 7) / 8 + bits * 16 + (bits - 1) * 16 + 64

/-- `PingPongMessage::encoded_len` -/
def pingPongLen (tag a b : Nat) : Nat :=
  if tag = 1 then 1 + 4 + a + 4 + b else 1 + 4 + a

end Msg
end Prio
