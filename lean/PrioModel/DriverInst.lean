import PrioModel.Flp
import PrioModel.FieldInst

/-! The field-polymorphic model functions as the driver (`Main.lean`) instantiates them: at `Fin (q + 1)`, with the
    instances that instance resolution finds in this import-free context.  `PrioProofs/BridgeCheck.lean` proves that
    these are, term for term, the functions `PrioProofs/Bridge.lean` identifies with the `ZMod (q + 1)` instances the
    theorems are about.  Import-free. -/
namespace Prio.Driver
open Prio.Flp Prio.Ntt

variable (q : Nat)

def valid (C : FieldCtx (Fin (q + 1))) (t : TypeSpec) (input jr : List (Fin (q + 1))) (ns : Nat) :=
  Flp.valid C t input jr ns
def prove (C : FieldCtx (Fin (q + 1))) (t : TypeSpec) (input pr jr : List (Fin (q + 1))) :=
  Flp.prove C t input pr jr
def query (C : FieldCtx (Fin (q + 1))) (t : TypeSpec) (input proof qr jr : List (Fin (q + 1))) (ns : Nat) :=
  Flp.query C t input proof qr jr ns
def decide (C : FieldCtx (Fin (q + 1))) (t : TypeSpec) (v : List (Fin (q + 1))) :=
  Flp.decide C t v
def nttInternal (root : Nat → Option (Fin (q + 1))) (outLen : Nat) (outp inp : Array (Fin (q + 1))) (size : Nat) (setS : Bool) :=
  Ntt.nttInternal root outLen outp inp size setS
def nttInv (root : Nat → Option (Fin (q + 1))) (outp inp : Array (Fin (q + 1))) (size : Nat) (sizeInv : Fin (q + 1)) :=
  Ntt.nttInv root outp inp size sizeInv

end Prio.Driver
