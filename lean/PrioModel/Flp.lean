import PrioModel.Poly
import PrioModel.FieldInst

/-! Fully linear proofs: gadgets (src/flp/gadgets.rs), validity circuits (src/flp/types.rs,
    src/flp/types/l1boundsum.rs) and `prove` / `query` / `decide` with their shims (src/flp.rs).
    Generic in the field; import-free. -/
namespace Prio.Flp
open Prio.Ntt

variable {F : Type} [Add F] [Sub F] [Mul F] [Neg F] [Zero F] [One F] [Inv F] [BEq F]

/-- what the generic code needs from an NTT-friendly field -/
structure FieldCtx (F : Type) where
  root : Nat → Option F
  half : F
  ofNat : Nat → F

/-- outcome: value, `Err(FlpError)`, panic -/
inductive Res (α : Type) where
  | ok (a : α)
  | err
  | panic
  deriving Repr

instance : Monad Res where
  pure := .ok
  bind r f := match r with
    | .ok a => f a
    | .err => .err
    | .panic => .panic

def ofR {α : Type} : R α → Res α
  | .ok a => .ok a
  | .err _ => .err
  | .panic => .panic

def nextPow2 (n : Nat) : Nat := if n ≤ 1 then 1 else 2 ^ (Nat.log2 (n - 1) + 1)

/-- `wire_poly_len` -/
def wirePolyLen (calls : Nat) : Nat := nextPow2 (1 + calls)
/-- `gadget_poly_len` -/
def gadgetPolyLen (degree wireLen : Nat) : Nat := degree * (wireLen - 1) + 1

/-! ### gadgets -/

inductive GadgetKind (F : Type) where
  | mul
  | polyEval (poly : List F)
  | parallelSumMul (chunks : Nat)

structure Gadget (F : Type) where
  kind : GadgetKind F
  calls : Nat

def Gadget.arity (g : Gadget F) : Nat :=
  match g.kind with
  | .mul => 2
  | .polyEval _ => 1
  | .parallelSumMul chunks => chunks * 2

def Gadget.degree (g : Gadget F) : Nat :=
  match g.kind with
  | .mul => 2
  | .polyEval p => polyDeg p
  | .parallelSumMul _ => 2

/-- `Gadget::eval` (with `gadget_eval_check`) -/
def Gadget.eval (g : Gadget F) (inp : List F) : Res F :=
  if inp.length ≠ g.arity ∨ inp.length = 0 then .err
  else
    match g.kind with
    | .mul => .ok (inp.getD 0 0 * inp.getD 1 0)
    | .polyEval p => .ok (polyEvalMonomial p (inp.getD 0 0))
    | .parallelSumMul _ =>
      let rec go : List F → F → F
        | a :: b :: rest, acc => go rest (acc + a * b)
        | _, acc => acc
      .ok (go inp 0)

/-- `Gadget::eval_poly(outp, inp)` (with `gadget_eval_poly_check`); `outLen = outp.len()` -/
def Gadget.evalPoly (C : FieldCtx F) (g : Gadget F) (outLen : Nat) (inp : List (Array F)) : Res (Array F) :=
  if inp.length ≠ g.arity ∨ inp.length = 0 then .err
  else
    let len0 := (inp.headD #[]).size
    if inp.any (fun w => w.size != len0) then .err
    else if outLen ≠ nextPow2 (gadgetPolyLen g.degree len0) then .err
    else
      let sizeInv := (C.ofNat len0)⁻¹
      match g.kind with
      | .mul => ofR (polyMulLagrange C.root outLen (inp.getD 0 #[]) (inp.getD 1 #[]) sizeInv)
      | .polyEval p =>
        let w := inp.getD 0 #[]
        match nttInv C.root (Array.replicate len0 0) w len0 sizeInv with
        | .ok mono =>
          let n := nextPow2 (gadgetPolyLen g.degree (wirePolyLen g.calls))
          match nttInternal C.root n (Array.replicate n 0) mono n false with
          | .ok ext =>
            .ok (Array.ofFn (n := outLen) fun k => if k.val < ext.size then polyEvalMonomial p (ext.getD k.val 0) else 0)
          | .err _ => .err
          | .panic => .panic
        | .err _ => .err
        | .panic => .panic
      | .parallelSumMul _ =>
        let rec go : List (Array F) → Array F → Res (Array F)
          | a :: b :: rest, acc =>
            match ofR (polyMulLagrange C.root outLen a b sizeInv) with
            | .ok part => go rest (Array.ofFn (n := outLen) fun k => acc.getD k.val 0 + part.getD k.val 0)
            | .err => .err
            | .panic => .panic
          | _, acc => .ok acc
        go inp (Array.replicate outLen 0)

/-! ### validity circuits -/

/-- the FLP types with the parameters their circuits use -/
inductive TypeSpec where
  | count
  | sum (bits : Nat)
  | histogram (length chunk : Nat)
  | multihot (length bitsForWeight lastWeight chunk : Nat)
  | sumVec (len bits lastWeight chunk : Nat)
  | l1BoundSum (mlen bits lastWeight chunk : Nat)
  deriving Repr, BEq

def divCeil (a b : Nat) : Nat := (a + b - 1) / b

def TypeSpec.gadgetCalls : TypeSpec → Nat
  | .count => 1
  | .sum bits => bits
  | .histogram length chunk => divCeil length chunk
  | .multihot length bw _ chunk => divCeil (length + bw) chunk
  | .sumVec len bits _ chunk => divCeil (bits * len) chunk
  | .l1BoundSum mlen bits _ chunk => divCeil (bits * (mlen + 1)) chunk

def TypeSpec.gadget (C : FieldCtx F) (t : TypeSpec) : Gadget F :=
  match t with
  | .count => ⟨.mul, 1⟩
  | .sum bits => ⟨.polyEval [0, -(C.ofNat 1), 1], bits⟩      -- poly_range_check(0, 2) = x(x-1)
  | .histogram _ chunk => ⟨.parallelSumMul chunk, t.gadgetCalls⟩
  | .multihot _ _ _ chunk => ⟨.parallelSumMul chunk, t.gadgetCalls⟩
  | .sumVec _ _ _ chunk => ⟨.parallelSumMul chunk, t.gadgetCalls⟩
  | .l1BoundSum _ _ _ chunk => ⟨.parallelSumMul chunk, t.gadgetCalls⟩

def TypeSpec.inputLen : TypeSpec → Nat
  | .count => 1
  | .sum bits => bits
  | .histogram length _ => length
  | .multihot length bw _ _ => length + bw
  | .sumVec len bits _ _ => bits * len
  | .l1BoundSum mlen bits _ _ => bits * (mlen + 1)

def TypeSpec.chunkLen : TypeSpec → Nat
  | .histogram _ c => c
  | .multihot _ _ _ c => c
  | .sumVec _ _ _ c => c
  | .l1BoundSum _ _ _ c => c
  | _ => 0

/-- `proof_len()` as written in each type -/
def TypeSpec.proofLen : TypeSpec → Nat
  | .count => 5
  | .sum bits => 2 * (nextPow2 (1 + bits) - 1) + 2
  | t => t.chunkLen * 2 + 2 * (nextPow2 (1 + t.gadgetCalls) - 1) + 1

def TypeSpec.verifierLen : TypeSpec → Nat
  | .count => 4
  | .sum _ => 3
  | t => 2 + t.chunkLen * 2

def TypeSpec.jointRandLen : TypeSpec → Nat
  | .count => 0
  | .sum _ => 0
  | t => t.gadgetCalls

def TypeSpec.evalOutputLen : TypeSpec → Nat
  | .count => 1
  | .sum bits => bits
  | .sumVec _ _ _ _ => 1
  | _ => 2

def TypeSpec.proveRandLen : TypeSpec → Nat
  | .count => 2
  | .sum _ => 1
  | t => t.chunkLen * 2

/-- `query_rand_len()` (default method of `Flp`) -/
def TypeSpec.queryRandLen (t : TypeSpec) : Nat :=
  1 + (if t.evalOutputLen > 1 then t.evalOutputLen else 0)

def TypeSpec.outputLen : TypeSpec → Nat
  | .count => 1
  | .sum _ => 1
  | .histogram length _ => length
  | .multihot length _ _ _ => length
  | .sumVec len _ _ _ => len
  | .l1BoundSum mlen _ _ _ => mlen

/-- `decode_bitvector`: Σ bitᵢ·2ⁱ -/
def decodeBitvector (input : List F) : F :=
  (input.foldl (fun (st : F × F) v => (st.1 + v * st.2, st.2 * (1 + 1))) ((0 : F), (1 : F))).1

/-- `decode_range_checked_int(input, last_weight)` -/
def decodeRangeCheckedInt (input : List F) (lastWeight : F) : F :=
  match input.reverse with
  | [] => 0
  | last :: restRev => decodeBitvector restRev.reverse + last * lastWeight

def chunksOf {α : Type} (n : Nat) : Nat → List α → List (List α)
  | 0, _ => []
  | fuel + 1, l => if l.isEmpty ∨ n = 0 then [] else l.take n :: chunksOf n fuel (l.drop n)

section circuits
variable {m : Type → Type} [Monad m]

/-- `parallel_sum_range_checks` against any gadget-call interface `g` -/
def parallelSumRangeChecks (g : List F → m F) (input jointRand : List F) (chunkLength : Nat) (nsInv : F) : m F :=
  let chunks := chunksOf chunkLength input.length input
  (chunks.zip jointRand).foldlM (fun (output : F) (cr : List F × F) =>
    let (chunk, r) := cr
    let args : List F := (chunk.foldl (fun (st : List F × F) x => (st.1 ++ [st.2 * x, x - nsInv], st.2 * r)) (([] : List F), r)).1
    let pad : List F := (List.replicate (chunkLength - chunk.length) [(0 : F), -nsInv]).flatten
    do
      let o ← g (args ++ pad)
      pure (output + o)) 0

/-- `Flp::valid` of every type, after `valid_call_check`; `ns` is `num_shares` -/
def validCircuit (C : FieldCtx F) (t : TypeSpec) (g : List F → m F) (input jointRand : List F) (ns : Nat) :
    m (List F) :=
  let nsInv : F := (C.ofNat ns)⁻¹
  match t with
  | .count => do
    let x := input.getD 0 0
    let o ← g [x, x]
    pure [o - x]
  | .sum _ => input.mapM fun bit => g [bit]
  | .histogram _ chunk => do
    let rc ← parallelSumRangeChecks g input jointRand chunk nsInv
    let sumCheck := input.foldl (fun acc v => acc + v) (-nsInv)
    pure [rc, sumCheck]
  | .multihot length _ lastWeight chunk => do
    let rc ← parallelSumRangeChecks g input jointRand chunk nsInv
    let weight := (input.take length).foldl (fun a b => a + b) 0
    let reported := decodeRangeCheckedInt (input.drop length) (C.ofNat lastWeight)
    pure [rc, weight - reported]
  | .sumVec _ _ _ chunk => do
    let rc ← parallelSumRangeChecks g input jointRand chunk nsInv
    pure [rc]
  | .l1BoundSum mlen bits lastWeight chunk => do
    let rc ← parallelSumRangeChecks g input jointRand chunk nsInv
    let decoded := (chunksOf bits input.length input).map fun c => decodeRangeCheckedInt c (C.ofNat lastWeight)
    let observed := (decoded.take mlen).foldl (fun a b => a + b) 0
    let claimed := ((decoded.drop mlen).take 1).foldl (fun a b => a + b) 0
    pure [rc, observed - claimed]

end circuits

/-- `Flp::valid` with plain gadgets -/
def valid (C : FieldCtx F) (t : TypeSpec) (input jointRand : List F) (ns : Nat) : Res (List F) :=
  if input.length ≠ t.inputLen ∨ jointRand.length ≠ t.jointRandLen then .err
  else validCircuit C t (fun args => (t.gadget C).eval args) input jointRand ns

/-! ### prove -/

/-- state of a shim gadget: the recorded wire values (one array per wire) and the call counter -/
structure ShimState (F : Type) where
  wires : List (Array F)
  numCalls : Nat

def recordCall (st : ShimState F) (inp : List F) : ShimState F :=
  let n := st.numCalls + 1
  { wires := (st.wires.zipIdx.map fun (w, k) => if k < inp.length then w.setIfInBounds n (inp.getD k 0) else w),
    numCalls := n }

/-- `ProveShimGadget::eval`: record the inputs, evaluate the real gadget.  A call beyond the declared
    number of calls would index out of bounds. -/
def proveShimEval (g : Gadget F) (wireLen : Nat) (inp : List F) : StateT (ShimState F) Res F := fun st =>
  if st.numCalls + 1 ≥ wireLen then .panic
  else
    match g.eval inp with
    | .ok v => .ok (v, recordCall st inp)
    | .err => .err
    | .panic => .panic

/-- the final `assert_eq!(…len(), self.…_len())` of `prove` and `query` -/
def checkLen (n : Nat) (l : List F) : Res (List F) := if l.length ≠ n then .panic else .ok l

/-- `Flp::prove` up to the final length assertion -/
def proveCore (C : FieldCtx F) (t : TypeSpec) (input proveRand jointRand : List F) : Res (List F) :=
  if input.length ≠ t.inputLen then .err
  else if proveRand.length ≠ t.proveRandLen then .err
  else if jointRand.length ≠ t.jointRandLen then .err
  else
    let g : Gadget F := t.gadget C
    if g.arity > proveRand.length then .err
    else if g.arity ≠ t.proveRandLen then .panic        -- assert_eq!(prove_rand_len, self.prove_rand_len())
    else
      let p := wirePolyLen g.calls
      let st0 : ShimState F := ⟨(proveRand.take g.arity).map fun r => (Array.replicate p 0).setIfInBounds 0 r, 0⟩
      match (validCircuit C t (proveShimEval g p) input jointRand 1).run st0 with
      | .err => .err
      | .panic => .panic
      | .ok (_, st) =>
        let seeds := st.wires.map fun w => w.getD 0 0
        let gpl := gadgetPolyLen g.degree p
        match g.evalPoly C (nextPow2 gpl) st.wires with
        | .err => .err
        | .panic => .panic
        | .ok gp =>
          .ok (seeds ++ gp.toList.take gpl)

/-- `Flp::prove` -/
def prove (C : FieldCtx F) (t : TypeSpec) (input proveRand jointRand : List F) : Res (List F) :=
  match proveCore C t input proveRand jointRand with
  | .ok proof => checkLen t.proofLen proof       -- assert_eq!(used_proof_len, self.proof_len())
  | .err => .err
  | .panic => .panic

/-! ### query -/

/-- `QueryShimGadget::new`: gadget polynomial evaluations on the wire domain -/
def queryShimPoly (C : FieldCtx F) (g : Gadget F) (gadgetPoly : List F) : Res (Array F × Nat) :=
  let p := wirePolyLen g.calls
  let np2 := nextPow2 gadgetPoly.length
  let padded : Array F := (gadgetPoly ++ List.replicate (np2 - gadgetPoly.length) 0).toArray
  if np2 > 2 ^ maxRoots then .err            -- the roots needed to extend the polynomial are not tabulated
  else
  match nthRootPowers C.root (Nat.log2 np2) with
  | none => .panic
  | some roots =>
    let ext := extendValues roots padded gadgetPoly.length
    let size := nextPow2 (gadgetPolyLen g.degree p)
    let rec dbl : Nat → Array F → Res (Array F)
      | 0, a => .ok a
      | fuel + 1, a =>
        if a.size < size then
          match doubleEvaluations C.root (2 * a.size) a (C.ofNat a.size)⁻¹ with
          | .ok b => dbl fuel b
          | .err _ => .err
          | .panic => .panic
        else .ok a
    match dbl 64 ext with
    | .ok evals => .ok (evals, size / p)
    | .err => .err
    | .panic => .panic

/-- `QueryShimGadget::eval` -/
def queryShimEval (gadgetPoly : Array F) (step wireLen : Nat) (inp : List F) : StateT (ShimState F) Res F := fun st =>
  if st.numCalls + 1 ≥ wireLen then .panic
  else
    let st' := recordCall st inp
    if st'.numCalls * step ≥ gadgetPoly.size then .panic
    else .ok (gadgetPoly.getD (st'.numCalls * step) 0, st')

/-- `Flp::query` up to the final length assertion -/
def queryCore (C : FieldCtx F) (t : TypeSpec) (input proof queryRand jointRand : List F) (ns : Nat) : Res (List F) :=
  if input.length ≠ t.inputLen then .err
  else if proof.length ≠ t.proofLen then .err
  else if queryRand.length ≠ t.queryRandLen then .err
  else
    let eo := t.evalOutputLen
    let qrValidity := if eo > 1 then queryRand.take eo else []
    let qrGadgets := if eo > 1 then queryRand.drop eo else queryRand
    if qrGadgets.length ≠ 1 then .err
    else if jointRand.length ≠ t.jointRandLen then .err
    else
      let g : Gadget F := t.gadget C
      let p := wirePolyLen g.calls
      let r := qrGadgets.getD 0 0
      if fpow r p == 1 then .err
      else
        let nextLen := g.arity + gadgetPolyLen g.degree p
        if nextLen > proof.length then .panic
        else
          match queryShimPoly C g ((proof.take nextLen).drop g.arity) with
          | .err => .err
          | .panic => .panic
          | .ok (gp, step) =>
            let st0 : ShimState F := ⟨(proof.take g.arity).map fun s => (Array.replicate p 0).setIfInBounds 0 s, 0⟩
            match (validCircuit C t (queryShimEval gp step p) input jointRand ns).run st0 with
            | .err => .err
            | .panic => .panic
            | .ok (validity, st) =>
              if validity.length ≠ eo then .panic
              else
                let check : F :=
                  if validity.length > 1 then
                    (validity.zip qrValidity).foldl (fun acc vr => acc + vr.2 * vr.1) 0
                  else validity.headD 0
                match nthRootPowers C.root (Nat.log2 p), nthRootPowers C.root (Nat.log2 gp.size) with
                | some rootsW, some rootsG =>
                  let wireEvals := st.wires.map fun w => polyEvalLagrange rootsW C.half (Nat.log2 p) w r
                  let gEval := polyEvalLagrange rootsG C.half (Nat.log2 gp.size) gp r
                  .ok ([check] ++ wireEvals ++ [gEval])
                | _, _ => .panic

/-- `Flp::query` -/
def query (C : FieldCtx F) (t : TypeSpec) (input proof queryRand jointRand : List F) (ns : Nat) : Res (List F) :=
  match queryCore C t input proof queryRand jointRand ns with
  | .ok v => checkLen t.verifierLen v            -- assert_eq!(verifier.len(), self.verifier_len())
  | .err => .err
  | .panic => .panic

/-- `Flp::decide` -/
def decide (C : FieldCtx F) (t : TypeSpec) (verifier : List F) : Res Bool :=
  if verifier.length ≠ t.verifierLen then .err
  else if !(verifier.headD 0 == 0) then .ok false
  else
    let g : Gadget F := t.gadget C
    let wireChecks := (verifier.drop 1).take g.arity
    if 1 + g.arity ≥ verifier.length then .panic
    else
      let gadgetCheck := verifier.getD (1 + wireChecks.length) 0
      match g.eval wireChecks with
      | .ok v => .ok (v == gadgetCheck)
      | .err => .err
      | .panic => .panic

end Prio.Flp
