import PrioModel.Flp
import PrioModel.Prng
import PrioModel.Messages
import PrioModel.Agg

/-! Prio3 (src/vdaf/prio3.rs): sharding, verification, aggregation over an abstract XOF.
    `xof seed dst binder` is the output stream of the XOF keyed by `seed`, with domain-separation tag
    `dst` and binder `binder` (C11 shows that only these three byte strings matter).  Import-free. -/
namespace Prio.Prio3
open Prio.Flp

abbrev Bytes := List Nat

/-- an extendable-output function: (seed, dst, binder) ↦ stream -/
abbrev Xof := Bytes → Bytes → Bytes → Stream

structure Cfg where
  t : TypeSpec
  numAgg : Nat
  numProofs : Nat
  algId : Nat
  seedSize : Nat := 32
  /-- field modulus, sampling mask, encoded size -/
  p : Nat
  mask : Nat
  sz : Nat

def be (n k : Nat) : Bytes := beBytes n k

/-- `domain_separation_tag(usage)` followed by the context string -/
def dst (cfg : Cfg) (usage : Nat) (ctx : Bytes) : Bytes := [18, 0] ++ be cfg.algId 4 ++ be usage 2 ++ ctx

def usageMeasShare : Nat := 1
def usageProofShare : Nat := 2
def usageJointRandomness : Nat := 3
def usageProveRandomness : Nat := 4
def usageQueryRandomness : Nat := 5
def usageJointRandSeed : Nat := 6
def usageJointRandPart : Nat := 7

variable {F : Type} [Add F] [Sub F] [Mul F] [Neg F] [Zero F] [One F] [Inv F] [BEq F]

/-- how field elements are read from / written to bytes -/
structure Conv (F : Type) where
  ofNat : Nat → F
  toNat : F → Nat

def encVec (cfg : Cfg) (cv : Conv F) (v : List F) : Bytes := v.flatMap fun x => leBytesC (cv.toNat x) cfg.sz

/-- `seed_stream(...).into_field_vec(n)`; `none` if the rejection loop would not terminate within the fuel -/
def expand (cfg : Cfg) (cv : Conv F) (xof : Xof) (seed dstv binder : Bytes) (n : Nat) : Option (List F) :=
  match intoFieldVec (xof seed dstv binder) cfg.p cfg.mask cfg.sz (n + 64) n with
  | some (xs, _) => some (xs.map cv.ofNat)
  | none => none

/-- `into_seed()` -/
def deriveSeed (cfg : Cfg) (xof : Xof) (seed dstv binder : Bytes) : Bytes :=
  (xof seed dstv binder).read 0 cfg.seedSize

def zeroSeed (cfg : Cfg) : Bytes := List.replicate cfg.seedSize 0

def vsub (a b : List F) : List F := List.zipWith (· - ·) a b
def vadd (a b : List F) : List F := List.zipWith (· + ·) a b

/-- joint randomness part of aggregator `aggId`: hash of blind, id, nonce and the measurement share -/
def jointRandPart (cfg : Cfg) (cv : Conv F) (xof : Xof) (ctx blind : Bytes) (aggId : Nat) (nonce : Bytes)
    (measShare : List F) : Bytes :=
  deriveSeed cfg xof blind (dst cfg usageJointRandPart ctx) ([aggId] ++ nonce ++ encVec cfg cv measShare)

/-- `derive_joint_rand_seed` -/
def jointRandSeed (cfg : Cfg) (xof : Xof) (ctx : Bytes) (parts : List Bytes) : Bytes :=
  deriveSeed cfg xof (zeroSeed cfg) (dst cfg usageJointRandSeed ctx) parts.flatten

/-- `derive_joint_rands` -/
def jointRands (cfg : Cfg) (cv : Conv F) (xof : Xof) (ctx : Bytes) (parts : List Bytes) : Option (Bytes × List F) :=
  let seed := jointRandSeed cfg xof ctx parts
  match expand cfg cv xof seed (dst cfg usageJointRandomness ctx) [cfg.numProofs] (cfg.t.jointRandLen * cfg.numProofs) with
  | some v => some (seed, v)
  | none => none

inductive InputShare (F : Type) where
  | leader (meas proofs : List F) (blind : Option Bytes)
  | helper (seed : Bytes) (blind : Option Bytes)

structure ShardOut (F : Type) where
  jointRandParts : Option (List Bytes)
  shares : List (InputShare F)

def chunk {α : Type} (l : List α) (i n : Nat) : List α := (l.drop (i * n)).take n

/-- one iteration of the helper loop of `shard_with_random`: helper `aggId` takes its seed(s) from
    `random`, its expanded measurement share is subtracted from the leader's -/
def shardStep (cfg : Cfg) (cv : Conv F) (xof : Xof) (ctx nonce random : Bytes)
    (st : Option (List F × List (InputShare F) × List Bytes)) (aggId : Nat) :
    Option (List F × List (InputShare F) × List Bytes) :=
  let hasJR := cfg.t.jointRandLen > 0
  let perHelper := if hasJR then 2 else 1
  match st with
  | none => none
  | some (leaderMeas, shares, parts) =>
    let base := (aggId - 1) * perHelper
    let seed := chunk random base cfg.seedSize
    match expand cfg cv xof seed (dst cfg usageMeasShare ctx) [aggId] leaderMeas.length with
    | none => none
    | some helperMeas =>
      let leaderMeas' := vsub leaderMeas helperMeas
      if hasJR then
        let blind := chunk random (base + 1) cfg.seedSize
        let part := jointRandPart cfg cv xof ctx blind aggId nonce helperMeas
        some (leaderMeas', shares ++ [.helper seed (some blind)], parts ++ [part])
      else some (leaderMeas', shares ++ [.helper seed none], parts)

/-- result of the measurement-sharing half of `shard_with_random` -/
structure MeasStage (F : Type) where
  leaderMeas : List F
  helperShares : List (InputShare F)
  leaderBlind : Option Bytes
  parts : Option (List Bytes)

/-- first half of `shard_with_random`: measurement shares, blinds, joint randomness parts -/
def shardMeas (cfg : Cfg) (cv : Conv F) (xof : Xof) (ctx nonce random : Bytes) (encoded : List F) :
    Option (MeasStage F) :=
  let hasJR := cfg.t.jointRandLen > 0
  let perHelper := if hasJR then 2 else 1
  match ((List.range (cfg.numAgg - 1)).map (· + 1)).foldl (shardStep cfg cv xof ctx nonce random) (some (encoded, [], [])) with
  | none => none
  | some (leaderMeas, helperShares, helperParts) =>
    let nextSeed := (cfg.numAgg - 1) * perHelper
    let leaderBlind : Option Bytes := if hasJR then some (chunk random nextSeed cfg.seedSize) else none
    let parts : Option (List Bytes) :=
      match leaderBlind with
      | some b => some (jointRandPart cfg cv xof ctx b 0 nonce leaderMeas :: helperParts)
      | none => none
    some ⟨leaderMeas, helperShares, leaderBlind, parts⟩

/-- the proofs of the encoded measurement, concatenated (`num_proofs` of them) -/
def allProofs (C : FieldCtx F) (cfg : Cfg) (encoded proveRands jointRand : List F) : Res (List F) :=
  (List.range cfg.numProofs).foldl (fun acc pi =>
    match acc with
    | .ok soFar =>
      match prove C cfg.t encoded (chunk proveRands pi cfg.t.proveRandLen) (chunk jointRand pi cfg.t.jointRandLen) with
      | .ok pf => .ok (soFar ++ pf)
      | .err => .err
      | .panic => .panic
    | e => e) (.ok [])

/-- the leader's proofs share: the proofs minus every helper's expanded proofs share -/
def leaderProofsShare (cfg : Cfg) (cv : Conv F) (xof : Xof) (ctx : Bytes) (helperShares : List (InputShare F))
    (proofs : List F) : Option (List F) :=
  let total := cfg.t.proofLen * cfg.numProofs
  (List.range helperShares.length).foldl (fun (st : Option (List F)) j =>
    match st, helperShares.getD j (.helper [] none) with
    | some lp, .helper seed _ =>
      match expand cfg cv xof seed (dst cfg usageProofShare ctx) [cfg.numProofs, j + 1] total with
      | some hp => if hp.length ≠ lp.length then none else some (vsub lp hp)
      | none => none
    | _, _ => none) (some proofs)

/-- the joint randomness the client derives from the parts (empty without joint randomness) -/
def clientJointRand (cfg : Cfg) (cv : Conv F) (xof : Xof) (ctx : Bytes) (parts : Option (List Bytes)) : Option (List F) :=
  match parts with
  | some ps => (jointRands cfg cv xof ctx ps).map (·.2)
  | none => some []

/-- `derive_prove_rands` from the last seed of the sharding randomness -/
def clientProveRands (cfg : Cfg) (cv : Conv F) (xof : Xof) (ctx random : Bytes) : Option (List F) :=
  let hasJR := cfg.t.jointRandLen > 0
  let nextSeed := (cfg.numAgg - 1) * (if hasJR then 2 else 1)
  expand cfg cv xof (chunk random (nextSeed + (if hasJR then 1 else 0)) cfg.seedSize)
    (dst cfg usageProveRandomness ctx) [cfg.numProofs] (cfg.t.proveRandLen * cfg.numProofs)

/-- second half of `shard_with_random`: joint randomness, proofs, proof shares -/
def shardProofs (C : FieldCtx F) (cfg : Cfg) (cv : Conv F) (xof : Xof) (ctx random : Bytes) (encoded : List F)
    (ms : MeasStage F) : Res (ShardOut F) :=
  match clientJointRand cfg cv xof ctx ms.parts, clientProveRands cfg cv xof ctx random with
  | some jointRand, some proveRands =>
    match allProofs C cfg encoded proveRands jointRand with
    | .ok proofs =>
      match leaderProofsShare cfg cv xof ctx ms.helperShares proofs with
      | some lp => .ok ⟨ms.parts, .leader ms.leaderMeas lp ms.leaderBlind :: ms.helperShares⟩
      | none => .panic
    | .err => .err
    | .panic => .panic
  | _, _ => .panic

/-- `shard_with_random` given the encoded measurement -/
def shard (C : FieldCtx F) (cfg : Cfg) (cv : Conv F) (xof : Xof) (ctx nonce random : Bytes) (encoded : List F) :
    Res (ShardOut F) :=
  let hasJR := cfg.t.jointRandLen > 0
  let randomSize := if hasJR then 2 * cfg.numAgg * cfg.seedSize else cfg.numAgg * cfg.seedSize
  if random.length ≠ randomSize then .err
  else
    match shardMeas cfg cv xof ctx nonce random encoded with
    | none => .panic
    | some ms => shardProofs C cfg cv xof ctx random encoded ms

/-- wire encodings -/
def encodePublicShare (out : ShardOut F) : Bytes :=
  match out.jointRandParts with
  | some ps => ps.flatten
  | none => []

def encodeInputShare (cfg : Cfg) (cv : Conv F) : InputShare F → Bytes
  | .leader m p b => encVec cfg cv m ++ encVec cfg cv p ++ b.getD []
  | .helper s b => s ++ b.getD []

structure VerifyState (F : Type) where
  share : Sum (List F) Bytes          -- leader: truncated measurement share; helper: seed
  jointRandSeed : Option Bytes
  aggId : Nat
  verifiersLen : Nat

structure VerifierShare (F : Type) where
  verifiers : List F
  jointRandPart : Option Bytes

/-- `Type::truncate`; `Sum` needs its last weight, which `TypeSpec.sum` does not carry -/
def truncateWith (C : FieldCtx F) (t : TypeSpec) (sumLastWeight : Nat) (input : List F) : Res (List F) :=
  if input.length ≠ t.inputLen then .err
  else
    match t with
    | .count => .ok input
    | .sum _ => .ok [decodeRangeCheckedInt input (C.ofNat sumLastWeight)]
    | .histogram _ _ => .ok input
    | .multihot length _ _ _ => .ok (input.take length)
    | .sumVec _ bits lw _ => .ok ((chunksOf bits input.length input).map fun c => decodeRangeCheckedInt c (C.ofNat lw))
    | .l1BoundSum mlen bits lw _ =>
      .ok (((chunksOf bits input.length input).take mlen).map fun c => decodeRangeCheckedInt c (C.ofNat lw))

/-- the measurement and proofs shares an aggregator works with: the leader's are explicit, a
    helper's are expanded from its seed -/
def viShares (cfg : Cfg) (cv : Conv F) (xof : Xof) (ctx : Bytes) (aggId : Nat) (msg : InputShare F) :
    Option (List F × List F) :=
  match msg with
  | .leader m p _ => some (m, p)
  | .helper seed _ =>
    match expand cfg cv xof seed (dst cfg usageMeasShare ctx) [aggId] cfg.t.inputLen,
          expand cfg cv xof seed (dst cfg usageProofShare ctx) [cfg.numProofs, aggId] (cfg.t.proofLen * cfg.numProofs) with
    | some m, some p => some (m, p)
    | _, _ => none

def InputShare.blind : InputShare F → Option Bytes
  | .leader _ _ b => b
  | .helper _ b => b

/-- joint randomness as the aggregator recomputes it: its own part replaces the public share's -/
def viJointRand (cfg : Cfg) (cv : Conv F) (xof : Xof) (ctx : Bytes) (aggId : Nat) (nonce : Bytes)
    (pubParts : Option (List Bytes)) (blind : Option Bytes) (measShare : List F) :
    Res (Option Bytes × Option Bytes × List F) :=
  if cfg.t.jointRandLen > 0 then
    match blind with
    | none => .err                                     -- input share without the blind
    | some b =>
      let own := jointRandPart cfg cv xof ctx b aggId nonce measShare
      let pp := pubParts.getD []
      let corrected := pp.take aggId ++ [own] ++ pp.drop (aggId + 1)
      match jointRands cfg cv xof ctx corrected with
      | some (seed, rands) => .ok (some seed, some own, rands)
      | none => .panic
  else .ok (none, none, [])

/-- `derive_query_rands` -/
def viQueryRands (cfg : Cfg) (cv : Conv F) (xof : Xof) (verifyKey ctx nonce : Bytes) : Option (List F) :=
  expand cfg cv xof verifyKey (dst cfg usageQueryRandomness ctx) ([cfg.numProofs] ++ nonce) (cfg.t.queryRandLen * cfg.numProofs)

/-- one `query` per proof, concatenated -/
def viVerifiers (C : FieldCtx F) (cfg : Cfg) (measShare proofsShare queryRands jointRand : List F) : Res (List F) :=
  (List.range cfg.numProofs).foldl (fun acc pi =>
    match acc with
    | .ok soFar =>
      if (pi + 1) * cfg.t.proofLen > proofsShare.length then .panic     -- slice out of range
      else
        match query C cfg.t measShare (chunk proofsShare pi cfg.t.proofLen)
            (chunk queryRands pi cfg.t.queryRandLen) (chunk jointRand pi cfg.t.jointRandLen) cfg.numAgg with
        | .ok v => .ok (soFar ++ v)
        | .err => .err
        | .panic => .panic
    | e => e) (.ok [])

/-- the share kept in the verify state: the leader's truncated measurement share, a helper's seed -/
def viStateShare (C : FieldCtx F) (cfg : Cfg) (sumLW : Nat) (msg : InputShare F) : Res (Sum (List F) Bytes) :=
  match msg with
  | .leader m _ _ =>
    match truncateWith C cfg.t sumLW m with
    | .ok tr => .ok (.inl tr)
    | .err => .err
    | .panic => .panic
  | .helper seed _ => .ok (.inr seed)

/-- `verify_init`.  `pubParts`: the joint randomness parts of the public share (if any). -/
def verifyInit (C : FieldCtx F) (cfg : Cfg) (cv : Conv F) (xof : Xof) (sumLW : Nat) (verifyKey ctx : Bytes)
    (aggId : Nat) (nonce : Bytes) (pubParts : Option (List Bytes)) (msg : InputShare F) :
    Res (VerifyState F × VerifierShare F) :=
  if aggId ≥ cfg.numAgg then .err
  else
    match viShares cfg cv xof ctx aggId msg with
    | none => .panic
    | some (measShare, proofsShare) =>
      if proofsShare.length ≠ cfg.t.proofLen * cfg.numProofs then .err
      else
      match viJointRand cfg cv xof ctx aggId nonce pubParts msg.blind measShare with
      | .err => .err
      | .panic => .panic
      | .ok (jrSeed, jrPart, jointRand) =>
        match viQueryRands cfg cv xof verifyKey ctx nonce with
        | none => .panic
        | some queryRands =>
          match viVerifiers C cfg measShare proofsShare queryRands jointRand with
          | .err => .err
          | .panic => .panic
          | .ok vs =>
            match viStateShare C cfg sumLW msg with
            | .ok sh => .ok (⟨sh, jrSeed, aggId, vs.length⟩, ⟨vs, jrPart⟩)
            | .err => .err
            | .panic => .panic

/-- one iteration of the loop of `verifier_shares_to_message`: running sum, collected joint
    randomness parts, share count -/
def sumStep (cfg : Cfg) (st : Res (List F × List Bytes × Nat)) (sh : VerifierShare F) : Res (List F × List Bytes × Nat) :=
  match st with
  | .ok (vs, parts, count) =>
    if sh.verifiers.length ≠ cfg.t.verifierLen * cfg.numProofs then .err
    else if cfg.t.jointRandLen > 0 then
      match sh.jointRandPart with
      | none => .err                                         -- share without its part
      | some p => .ok (vadd vs sh.verifiers, parts ++ [p], count + 1)
    else .ok (vadd vs sh.verifiers, parts, count + 1)
  | .err => .err
  | .panic => .panic

def sumShares (cfg : Cfg) (shares : List (VerifierShare F)) : Res (List F × List Bytes × Nat) :=
  shares.foldl (sumStep cfg) (.ok (List.replicate (cfg.t.verifierLen * cfg.numProofs) 0, [], 0))

/-- `decide` on each proof's verifier -/
def decideAll (C : FieldCtx F) (cfg : Cfg) (vs : List F) : Res Bool :=
  (List.range cfg.numProofs).foldl (fun st pi =>
    match st with
    | .ok true =>
      match decide C cfg.t (chunk vs pi cfg.t.verifierLen) with
      | .ok b => .ok b
      | .err => .err
      | .panic => .panic
    | e => e) (.ok true)

/-- `verifier_shares_to_message`; the result is the joint randomness seed (if any) -/
def sharesToMessage (C : FieldCtx F) (cfg : Cfg) (xof : Xof) (ctx : Bytes) (shares : List (VerifierShare F)) :
    Res (Option Bytes) :=
  match sumShares cfg shares with
  | .err => .err
  | .panic => .panic
  | .ok (vs, parts, count) =>
    if count ≠ cfg.numAgg then .err
    else
      match decideAll C cfg vs with
      | .err => .err
      | .panic => .panic
      | .ok false => .err
      | .ok true =>
        if cfg.t.jointRandLen > 0 then .ok (some (jointRandSeed cfg xof ctx parts)) else .ok none

/-- `verify_next`: the output share -/
def verifyNext (C : FieldCtx F) (cfg : Cfg) (cv : Conv F) (xof : Xof) (sumLW : Nat) (ctx : Bytes)
    (st : VerifyState F) (msg : Option Bytes) : Res (List F) :=
  let check : Res Unit :=
    if cfg.t.jointRandLen > 0 then
      match st.jointRandSeed, msg with
      | some a, some b => if a == b then .ok () else .err
      | _, _ => .err                                         -- state or message without the seed
    else .ok ()
  match check with
  | .err => .err
  | .panic => .panic
  | .ok () =>
    match st.share with
    | .inl data => .ok data
    | .inr seed =>
      match expand cfg cv xof seed (dst cfg usageMeasShare ctx) [st.aggId] cfg.t.inputLen with
      | some m => truncateWith C cfg.t sumLW m
      | none => .panic

end Prio.Prio3
