import PrioModel.Messages

/-! Aggregation parameters: `Poplar1AggregationParam::try_from_prefixes`, `is_agg_param_valid` of
    Poplar1, Prio3 and Prio2 (src/vdaf/poplar1.rs, prio3.rs, prio2.rs).  Import-free. -/
namespace Prio

structure AggParam where
  level : Nat
  prefixes : List (List Bool)
  deriving Repr, BEq, DecidableEq

/-- all prefixes have length `len`, and each is strictly greater than its predecessor (the loop of
    `try_from_prefixes`; the order is `bitvec`'s, which on equal lengths is lexicographic) -/
def prefixLoop (len : Nat) : Option (List Bool) → List (List Bool) → Bool
  | _, [] => true
  | last, p :: ps =>
    if p.length != len then false
    else
      match last with
      | some l => if Msg.bitsLt l p then prefixLoop len (some p) ps else false
      | none => prefixLoop len (some p) ps

/-- `Poplar1AggregationParam::try_from_prefixes` -/
def AggParam.tryFromPrefixes (ps : List (List Bool)) : Res AggParam :=
  match ps with
  | [] => .err
  | p0 :: _ =>
    if ps.length ≥ 2 ^ 32 then .err
    else if !prefixLoop p0.length none ps then .err
    else if p0.length = 0 then .err
    else if p0.length - 1 ≥ 2 ^ 16 then .err
    else .ok ⟨p0.length - 1, ps⟩

/-- `Poplar1::is_agg_param_valid(cur, prev)`; `prev` is ordered from least to most recently used -/
def AggParam.isValid (cur : AggParam) (prev : List AggParam) : Bool :=
  match prev.getLast? with
  | none => true
  | some last =>
    if cur.level ≤ last.level then false
    else cur.prefixes.all fun p => last.prefixes.contains (p.take (last.level + 1))

/-- `Prio3::is_agg_param_valid`, `Prio2::is_agg_param_valid`: the unit parameter is valid once -/
def unitParamIsValid (prev : List Unit) : Bool := prev.isEmpty

/-- wire encoding (`Encode for Poplar1AggregationParam`) through the generic codec -/
def AggParam.toVal (a : AggParam) : Val :=
  .pair (.num a.level) (.pair (.num a.prefixes.length)
    (a.prefixes.foldr (fun p acc => .pair (.bits p) (.pair .unit acc)) .unit))

def AggParam.encode (a : AggParam) : List Nat := Prio.encode (Msg.poplar1AggParam false) a.toVal

end Prio
