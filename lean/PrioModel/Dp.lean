import PrioModel.Prng

/-! Differential-privacy samplers (src/dp/distributions.rs, src/dp/rand_bigint.rs) and the noise
    application of src/flp/types/dp.rs.

    The samplers are written once, as programs (`Samp`) over a single primitive — a uniform draw below
    a bound — exactly following the Rust control flow, with fuel for the unbounded loops.  Two
    semantics are given to these programs: `run` executes them on a tape of random bytes the way the
    Rust code consumes its `Rng` (`random_biguint_below`: whole 32-bit words, little-endian digits,
    top word shifted, rejection), which is what the correspondence check compares with the code; the
    proofs give them their exact probability mass.  Import-free. -/
namespace Prio.Dp

/-- non-negative rationals in lowest terms, as `num-rational` keeps them -/
structure Q where
  num : Nat
  den : Nat
  deriving Repr, BEq, DecidableEq

/-- `Ratio::new(n, d)` (reduces) -/
def Q.mk' (n d : Nat) : Q := ⟨n / Nat.gcd n d, d / Nat.gcd n d⟩

def Q.one : Q := ⟨1, 1⟩
def Q.ofNat (n : Nat) : Q := ⟨n, 1⟩
def Q.isZero (q : Q) : Bool := q.num == 0
def Q.le (a b : Q) : Bool := a.num * b.den ≤ b.num * a.den
def Q.lt (a b : Q) : Bool := a.num * b.den < b.num * a.den
def Q.floor (q : Q) : Nat := q.num / q.den
def Q.divNat (q : Q) (k : Nat) : Q := Q.mk' q.num (q.den * k)
def Q.mul (a b : Q) : Q := Q.mk' (a.num * b.num) (a.den * b.den)
def Q.div (a b : Q) : Q := Q.mk' (a.num * b.den) (a.den * b.num)
def Q.add (a b : Q) : Q := Q.mk' (a.num * b.den + b.num * a.den) (a.den * b.den)
/-- `a - b` for `b ≤ a` -/
def Q.sub (a b : Q) : Q := Q.mk' (a.num * b.den - b.num * a.den) (a.den * b.den)
def Q.recip (q : Q) : Q := ⟨q.den, q.num⟩
def Q.frac (q : Q) : Q := Q.sub q (Q.ofNat q.floor)

/-- sampler programs: return a value, draw uniformly below `n` and continue, or stop because the
    fuel ran out (`none` results) -/
inductive Samp (α : Type) where
  | pure : α → Samp α
  | unif : (n : Nat) → (Nat → Samp α) → Samp α

namespace Samp
def bind {α β : Type} : Samp α → (α → Samp β) → Samp β
  | .pure a, f => f a
  | .unif n k, f => .unif n (fun i => bind (k i) f)
end Samp

open Samp

/-- `sample_bernoulli(γ)`: `s` uniform in `1..=den`, return `s ≤ num` -/
def bernoulli (γ : Q) : Samp Bool := .unif γ.den (fun i => .pure (decide (i + 1 ≤ γ.num)))

/-- `sample_bernoulli_exp1(γ)` from loop index `k`; `none` = fuel exhausted -/
def bexp1 (γ : Q) : Nat → Nat → Samp (Option Bool)
  | 0, _ => .pure none
  | f + 1, k => bind (bernoulli (γ.divNat k)) fun b =>
      if b then bexp1 γ f (k + 1) else .pure (some (decide (k % 2 = 1)))

/-- `sample_bernoulli_exp(γ)`: `floor γ` rounds of `exp1(1)`, then `exp1(frac γ)` -/
def bexpLoop (fuel : Nat) : Nat → Samp (Option Bool) → Samp (Option Bool)
  | 0, last => last
  | n + 1, last => bind (bexp1 Q.one fuel 1) fun r =>
      match r with
      | none => .pure none
      | some false => .pure (some false)
      | some true => bexpLoop fuel n last

def bexp (γ : Q) (fuel : Nat) : Samp (Option Bool) :=
  bexpLoop fuel γ.floor (bexp1 γ.frac fuel 1)

/-- the first loop of `sample_geometric_exp`: redraw `u` below `t` until `exp1(u/t)` succeeds -/
def geoU (t : Nat) (fuel : Nat) : Nat → Samp (Option Nat)
  | 0 => .pure none
  | n + 1 => .unif t fun u =>
      bind (bexp1 (Q.mk' u t) fuel 1) fun r =>
        match r with
        | none => .pure none
        | some true => .pure (some u)
        | some false => geoU t fuel n

/-- the second loop: count successes of `exp1(1)` -/
def geoV (fuel : Nat) : Nat → Nat → Samp (Option Nat)
  | 0, _ => .pure none
  | n + 1, v => bind (bexp1 Q.one fuel 1) fun r =>
      match r with
      | none => .pure none
      | some true => geoV fuel n (v + 1)
      | some false => .pure (some v)

/-- `sample_geometric_exp(γ)` with `γ = s/t` -/
def geometric (γ : Q) (fuel : Nat) : Samp (Option Nat) :=
  if γ.isZero then .pure (some 0)
  else
    bind (geoU γ.den fuel fuel) fun ou =>
      match ou with
      | none => .pure none
      | some u => bind (geoV fuel fuel 0) fun ov =>
          match ov with
          | none => .pure none
          | some v => .pure (some ((u + γ.den * v) / γ.num))

/-- `sample_discrete_laplace(scale)`: sign, magnitude, retry on "negative zero" -/
def laplace (scale : Q) (fuel : Nat) : Nat → Samp (Option Int)
  | 0 => .pure none
  | n + 1 =>
    if scale.isZero then .pure (some 0)
    else
      bind (bernoulli ⟨1, 2⟩) fun negative =>
        bind (geometric scale.recip fuel) fun oy =>
          match oy with
          | none => .pure none
          | some y =>
            if negative && y == 0 then laplace scale fuel n
            else .pure (some (if negative then -(y : Int) else (y : Int)))

/-- the acceptance parameter of the Gaussian rejection step: `(|y| - σ²/t)² / (2σ²)` -/
def gaussProb (σ : Q) (t : Nat) (yAbs : Nat) : Q :=
  let summand := (σ.mul σ).div (Q.ofNat t)
  let y := Q.ofNat yAbs
  let term := if y.lt summand then summand.sub y else y.sub summand
  (term.mul term).mul ((σ.mul σ).mul (Q.ofNat 2)).recip

/-- `sample_discrete_gaussian(σ)` -/
def gaussian (σ : Q) (fuel : Nat) : Nat → Samp (Option Int)
  | 0 => .pure none
  | n + 1 =>
    if σ.isZero then .pure (some 0)
    else
      let t := σ.floor + 1
      bind (laplace (Q.ofNat t) fuel fuel) fun oy =>
        match oy with
        | none => .pure none
        | some y =>
          bind (bexp (gaussProb σ t y.natAbs) fuel) fun acc =>
            match acc with
            | none => .pure none
            | some true => .pure (some y)
            | some false => gaussian σ fuel n

/-! ### execution on a tape of random bytes -/

/-- `BigUint::bits()` -/
def bitLen (n : Nat) : Nat := if n = 0 then 0 else Nat.log2 n + 1

/-- little-endian value of `k` bytes at `pos` -/
def leAt (S : Stream) (pos k : Nat) : Nat := (List.range k).foldr (fun i acc => S (pos + i) + 256 * acc) 0

/-- `random_biguint(rng, bits)`: whole 32-bit words, the last one shifted right -/
def randomBiguint (S : Stream) (pos bits : Nat) : Nat × Nat :=
  let digits := bits / 32
  let rem := bits % 32
  let len := digits + (if rem > 0 then 1 else 0)
  if rem > 0 then
    let low := leAt S pos (4 * (len - 1))
    let top := leAt S (pos + 4 * (len - 1)) 4 / 2 ^ (32 - rem)
    (low + top * 2 ^ (32 * (len - 1)), pos + 4 * len)
  else (leAt S pos (4 * len), pos + 4 * len)

/-- `random_biguint_below(rng, bound)`: rejection; `none` = fuel exhausted or `bound = 0` (assert) -/
def below (S : Stream) (bound : Nat) : Nat → Nat → Option (Nat × Nat)
  | 0, _ => none
  | fuel + 1, pos =>
    if bound = 0 then none
    else
      let (n, pos') := randomBiguint S pos (bitLen bound)
      if n < bound then some (n, pos') else below S bound fuel pos'

/-- run a sampler program on the tape from `pos`; returns the value and the position after it.
    Stream positions beyond what the harness supplies hold the marker 511, which the driver reports. -/
def run {α : Type} (S : Stream) : Samp α → Nat → Option (α × Nat)
  | .pure a, pos => some (a, pos)
  | .unif n k, pos =>
    match below S n 64 pos with
    | none => none
    | some (i, pos') => run S (k i) pos'

/-! ### noise on an aggregate share -/

/-- `noise.mod_floor(modulus)` projected into the field and added to the entry -/
def addNoiseElem (p : Nat) (x : Nat) (noise : Int) : Nat := (x + (noise % (p : Int)).toNat) % p

/-- `add_iid_noise_to_field_vec`: one independent draw per coordinate, consuming the tape in order -/
def addIidNoise (S : Stream) (p : Nat) (sampler : Samp (Option Int)) : List Nat → Nat → Option (List Nat × Nat)
  | [], pos => some ([], pos)
  | x :: xs, pos =>
    match run S sampler pos with
    | some (some noise, pos') =>
      match addIidNoise S p sampler xs pos' with
      | some (ys, pos'') => some (addNoiseElem p x noise :: ys, pos'')
      | none => none
    | _ => none

/-- sensitivities the types use: `SumVec`: `(2^bits - 1)·len`; `Histogram`: 2; `L1BoundSum`: `2·max` -/
def sumVecSensitivity (bits len : Nat) : Nat := (2 ^ bits - 1) * len
def histogramSensitivity : Nat := 2
def l1Sensitivity (max : Nat) : Nat := 2 * max

/-- `PureDpDiscreteLaplace::create_distribution(sensitivity)`: scale = sensitivity / ε;
    `none` = `DpError` (zero scale) -/
def laplaceScale (sensitivity : Nat) (eps : Q) : Option Q :=
  let s := (Q.ofNat sensitivity).div eps
  if s.isZero then none else some s

end Prio.Dp
