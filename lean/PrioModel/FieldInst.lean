import PrioModel.Codec
import PrioModel.Messages

/-! The executable field instance used by the driver for every generic (field-polymorphic) model
    function: `Fin (q+1)` with the core `Add/Sub/Mul/Neg/OfNat` instances (arithmetic modulo `q+1`)
    and inversion by exponentiation.  Import-free. -/
namespace Prio

/-- square-and-multiply -/
def fpow {F : Type} [Mul F] [One F] (x : F) (n : Nat) : F :=
  if h : n = 0 then 1
  else
    let r := fpow (x * x) (n / 2)
    if n % 2 = 1 then x * r else r
termination_by n
decreasing_by omega

/-- inversion in `GF(q+1)` as the library computes it: `x^(p-2)` -/
instance finInv (q : Nat) : Inv (Fin (q + 1)) := ⟨fun a => fpow a (q + 1 - 2)⟩

/-- field vector <-> bytes (little-endian elements of `sz` bytes) -/
def decodeFieldVec (q sz : Nat) : List Nat → Option (List (Fin (q + 1)))
  | [] => some []
  | bs =>
    if sz = 0 ∨ bs.length < sz then none
    else
      let x := leNatC (bs.take sz)
      if h : x < q + 1 then
        match decodeFieldVec q sz (bs.drop sz) with
        | some rest => some (⟨x, h⟩ :: rest)
        | none => none
      else none
termination_by bs => bs.length
decreasing_by simp_all; omega

def encodeFieldVec {q : Nat} (sz : Nat) (v : List (Fin (q + 1))) : List Nat :=
  v.flatMap fun x => leBytesC x.val sz

end Prio
