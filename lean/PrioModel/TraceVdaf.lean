import PrioModel.PingPong
import PrioModel.Messages

/-! An order-sensitive, multi-round, role- and round-tagged toy aggregator (the same one is
    implemented against the `Aggregator` trait in harness/src/c12.rs) and an interpreter for delivery
    scripts, used to compare the model of the ping-pong topology with the real routines.  Import-free. -/
namespace Prio.Trace
open Prio.PP

structure St where
  role : Nat
  round : Nat
  acc : Nat
  deriving Repr, BEq, DecidableEq

structure Sh where
  role : Nat
  round : Nat
  val : Nat
  deriving Repr, BEq

structure Msg where
  round : Nat
  val : Nat
  deriving Repr, BEq

structure Out where
  role : Nat
  acc : Nat
  deriving Repr, BEq

def shareOf (role round acc : Nat) : Sh := ⟨role, round, (acc * 7 + role + 1) % 256⟩

/-- the toy aggregator with `rounds` rounds and the two input-share secrets -/
def agg (rounds sL sH : Nat) : Agg St Sh Msg Out where
  init id :=
    if id = 0 then some (⟨0, 0, sL⟩, shareOf 0 0 sL)
    else if id = 1 then some (⟨1, 0, sH⟩, shareOf 1 0 sH)
    else none
  combine shares :=
    match shares with
    | [a, b] =>
      if a.role = 0 ∧ b.role = 1 ∧ a.round = b.round then some ⟨a.round, (a.val * 3 + b.val * 5 + 1) % 256⟩
      else none
    | _ => none
  next st m :=
    if m.round ≠ st.round then none
    else
      let acc' := (st.acc * 31 + m.val + st.role) % 256
      if st.round + 1 = rounds then some (.fin ⟨st.role, acc'⟩)
      else some (.cont ⟨st.role, st.round + 1, acc'⟩ (shareOf st.role (st.round + 1) acc'))
  encSh s := [s.role, s.round, s.val, (s.role * 17 + s.round * 29 + s.val * 53 + 101) % 256]
  decSh st b :=
    match b with
    | [r, k, v, c] =>
      if k = st.round ∧ c = (r * 17 + k * 29 + v * 53 + 101) % 256 then some ⟨r, k, v⟩ else none
    | _ => none
  encMsg m := [m.round, m.val, (m.round * 29 + m.val * 53 + 7) % 256]
  decMsg st b :=
    match b with
    | [k, v, c] => if k = st.round ∧ c = (k * 29 + v * 53 + 7) % 256 then some ⟨k, v⟩ else none
    | _ => none

def encSt (s : St) : Bytes := [s.role, s.round, s.acc]

/-! ### ping-pong messages on the wire (through the generic codec) -/

def msgToVal : Message → Val
  | .init s => .pair (.num 0) (.pair (.num s.length) (.bytes s))
  | .cont m s => .pair (.num 1) (.pair (.pair (.num m.length) (.bytes m)) (.pair (.num s.length) (.bytes s)))
  | .fin m => .pair (.num 2) (.pair (.num m.length) (.bytes m))

def valToMsg : Val → Option Message
  | .pair (.num 0) (.pair _ (.bytes s)) => some (.init s)
  | .pair (.num 1) (.pair (.pair _ (.bytes m)) (.pair _ (.bytes s))) => some (.cont m s)
  | .pair (.num 2) (.pair _ (.bytes m)) => some (.fin m)
  | _ => none

def encodeMessage (m : Message) : Bytes := Prio.encode Msg.pingPongMessage (msgToVal m)

def decodeMessage (b : Bytes) : Option Message :=
  match getDecoded Msg.pingPongMessage b with
  | .ok v => valToMsg v
  | _ => none

/-! ### delivery scripts -/

inductive PartySt where
  | notStarted
  | waiting (st : St)
  | finished (o : Out)
  deriving Repr

structure World where
  leader : PartySt := .notStarted
  helper : PartySt := .notStarted
  /-- the last message produced and its addressee (true = to the leader) -/
  outbox : Option (Bool × Message) := none
  /-- the message produced before that -/
  stale : Option Message := none

def hexDigits (bs : Bytes) : String :=
  if bs.isEmpty then "-" else
  let d (n : Nat) : Char := if n < 10 then Char.ofNat (48 + n) else Char.ofNat (87 + n)
  String.ofList (bs.flatMap fun b => [d (b / 16 % 16), d (b % 16)])

def payloads : Message → Bytes × Bytes
  | .init s => (s, s)
  | .cont m s => (m, s)
  | .fin m => (m, m)

/-- apply a mutation to the message about to be delivered; `none` = the bytes no longer decode -/
def mutate (mutation : String) (m : Message) (stale : Option Message) : Option Message :=
  let (a, b) := payloads m
  match mutation with
  | "c" => some m
  | "x" =>
    let e := encodeMessage m
    decodeMessage (e.dropLast ++ [(e.getLastD 0) ^^^ 1])
  | "u" => decodeMessage (encodeMessage m).dropLast
  | "t0" => some (.init b)
  | "t1" => some (.cont a b)
  | "t2" => some (.fin a)
  | "s" => stale
  -- the embedded payload followed by one extra byte: the outer message still decodes, the payload must not
  | "p" => some (match m with
      | .init sh => .init (sh ++ [0])
      | .cont mm sh => .cont mm (sh ++ [0])
      | .fin mm => .fin (mm ++ [0]))
  | _ => none

def showParty : PartySt → String
  | .notStarted => "new"
  | .waiting st => "wait:" ++ hexDigits (encSt st)
  | .finished o => "done:" ++ hexDigits [o.role, o.acc]

/-- deliver `msg` to the leader (`toLeader`) or helper; returns the new world and the event token -/
def deliver (A : Agg St Sh Msg Out) (w : World) (toLeader : Bool) (msg : Message) : World × String :=
  let party := if toLeader then w.leader else w.helper
  let cont : Option (Option (Cont St Msg Out)) :=
    match party with
    | .notStarted => if toLeader then none else some (helperInitialized A msg)
    | .waiting st => some (continued A toLeader st msg)
    | .finished _ => none
  match cont with
  | none => (w, "idle")
  | some none => (w, "err")
  | some (some c) =>
    match evaluate A c with
    | none => (w, "err")
    | some s =>
      let setParty (p : PartySt) (w : World) : World := if toLeader then { w with leader := p } else { w with helper := p }
      match s with
      | .continued st' out =>
        (setParty (.waiting st') { w with outbox := some (!toLeader, out), stale := w.outbox.map (·.2) },
          "C:" ++ hexDigits (encodeMessage out))
      | .finishedWithOutbound o out =>
        (setParty (.finished o) { w with outbox := some (!toLeader, out), stale := w.outbox.map (·.2) },
          "FO:" ++ hexDigits [o.role, o.acc] ++ ":" ++ hexDigits (encodeMessage out))
      | .finished o =>
        (setParty (.finished o) { w with outbox := none, stale := w.outbox.map (·.2) }, "F:" ++ hexDigits [o.role, o.acc])

def step (A : Agg St Sh Msg Out) (w : World) (tok : String) : World × String :=
  if tok == "Li" then
    match leaderInitialized A with
    | some (st, m) => ({ w with leader := .waiting st, outbox := some (false, m) }, "Li:" ++ hexDigits (encodeMessage m))
    | none => (w, "Li:err")
  else
    match w.outbox with
    | none => (w, "nothing")
    | some (toLeader, m) =>
      match mutate tok m w.stale with
      | none => (w, "undecodable")
      | some m' => deliver A w toLeader m'

def runScript (A : Agg St Sh Msg Out) (toks : List String) : String :=
  let rec go (w : World) (toks : List String) (acc : List String) : List String :=
    match toks with
    | [] => (("end:" ++ showParty w.leader ++ "," ++ showParty w.helper) :: acc).reverse
    | t :: ts =>
      let (w', e) := step A w t
      go w' ts (e :: acc)
  " ".intercalate (go {} toks [])

end Prio.Trace
