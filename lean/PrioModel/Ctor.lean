import PrioModel.Flp
import PrioModel.Gen.FpParams

/-! Constructors and measurement encoders of the FLP types (src/flp/types.rs,
    src/flp/types/l1boundsum.rs), `Prio3::new` and `Prio2::new`, with the `usize` arithmetic of the
    Rust code made explicit: every `+`/`*` that the source performs unchecked is a `uadd`/`umul` whose
    overflow is the outcome `panic` (the harness builds with overflow checks on); every
    `checked_*` is an `Option`.  Import-free. -/
namespace Prio.Ctor
open Prio.Flp

def usizeMax : Nat := 2 ^ 64 - 1
def u32Max : Nat := 2 ^ 32 - 1

/-- `Result<T, _>` plus panic -/
inductive CRes (α : Type) where
  | ok (a : α)
  | err
  | panic
  deriving Repr, BEq, DecidableEq

/-- `checked_add` -/
def cadd (a b : Nat) : Option Nat := if a + b ≤ usizeMax then some (a + b) else none
/-- `checked_mul` -/
def cmul (a b : Nat) : Option Nat := if a * b ≤ usizeMax then some (a * b) else none
/-- `checked_next_power_of_two` -/
def cnextPow2 (n : Nat) : Option Nat := if nextPow2 n ≤ usizeMax then some (nextPow2 n) else none

/-- `ilog2(x) + 1` for `x > 0`: the number of bits of `x` -/
def bitsOf (x : Nat) : Nat := Nat.log2 x + 1

/-- `max - ((1 << (bits - 1)) - 1)` -/
def lastWeight (max : Nat) : Nat := max - (2 ^ (bitsOf max - 1) - 1)

/-- `check_parallel_sum_lengths(chunk_length, gadget_calls)` -/
def checkParallelSumLengths (chunk calls : Nat) : Bool :=
  match cmul chunk 2 with
  | none => false
  | some arity =>
    match cadd calls 1 with
    | none => false
    | some c1 =>
      match cnextPow2 c1 with
      | none => false
      | some w =>
        match cmul w 2 with
        | none => false
        | some w2 => (cadd arity w2).isSome

/-- `length / chunk_length`, plus one if it does not divide -/
def callsOf (len chunk : Nat) : Nat := len / chunk + (if len % chunk = 0 then 0 else 1)

/-- `Sum::new(max_measurement)` over the field of modulus `p` -/
def sumNew (p max : Nat) : CRes TypeSpec :=
  if max ≥ p then .err
  else if max = 0 then .err
  else .ok (.sum (bitsOf max))

/-- `Histogram::new(length, chunk_length)` -/
def histNew (len chunk : Nat) : CRes TypeSpec :=
  if len ≥ u32Max then .err
  else if len = 0 then .err
  else if chunk = 0 then .err
  else if checkParallelSumLengths chunk (callsOf len chunk) then .ok (.histogram len chunk)
  else .err

/-- `MultihotCountVec::new(num_buckets, max_weight, chunk_length)` -/
def mhotNew (p buckets maxw chunk : Nat) : CRes TypeSpec :=
  if buckets ≥ u32Max then .err
  else if buckets = 0 then .err
  else if chunk = 0 then .err
  else if maxw = 0 then .err
  else if maxw ≥ p then .err
  else if checkParallelSumLengths chunk (callsOf (buckets + bitsOf maxw) chunk) then
    .ok (.multihot buckets (bitsOf maxw) (lastWeight maxw) chunk)
  else .err

/-- `SumVec::new(max_measurement, len, chunk_length)` -/
def svecNew (p max len chunk : Nat) : CRes TypeSpec :=
  if max ≥ p then .err
  else if max = 0 then .err
  else if len = 0 then .err
  else if chunk = 0 then .err
  else
    match cmul (bitsOf max) len with
    | none => .err
    | some flat =>
      if checkParallelSumLengths chunk (callsOf flat chunk) then .ok (.sumVec len (bitsOf max) (lastWeight max) chunk)
      else .err

/-- `L1BoundSum::new(max_value, measurement_len, chunk_length)` -/
def l1New (p max mlen chunk : Nat) : CRes TypeSpec :=
  if mlen = 0 then .err
  else if chunk = 0 then .err
  else if max = 0 then .err
  else if max ≥ p then .err
  else
    match (cadd mlen 1).bind (cmul (bitsOf max)) with
    | none => .err
    | some flat =>
      if checkParallelSumLengths chunk (callsOf flat chunk) then
        .ok (.l1BoundSum mlen (bitsOf max) (lastWeight max) chunk)
      else .err

/-- the eight length accessors, as the Rust code computes them (including the intermediate
    `chunk_length * 2` and `next_power_of_two`), all fit in a `usize` -/
def Usable (t : TypeSpec) : Prop :=
  t.inputLen ≤ usizeMax ∧ t.chunkLen * 2 ≤ usizeMax ∧ nextPow2 (1 + t.gadgetCalls) ≤ usizeMax ∧
  t.proofLen ≤ usizeMax ∧ t.verifierLen ≤ usizeMax ∧ t.jointRandLen ≤ usizeMax ∧
  t.proveRandLen ≤ usizeMax ∧ t.queryRandLen ≤ usizeMax ∧ t.outputLen ≤ usizeMax

instance (t : TypeSpec) : Decidable (Usable t) := by unfold Usable; infer_instance

def usable (t : TypeSpec) : Bool := decide (Usable t)

/-- `check_num_aggregators` and the `num_proofs` check of `Prio3::new` (arguments are `u8`) -/
def prio3New (numAgg numProofs : Nat) : CRes Unit :=
  if numAgg = 0 then .err
  else if numAgg > 254 then .err
  else if numProofs = 0 then .err
  else .ok ()

/-- `Prio2::new(input_len)`; the generator order of `FieldPrio2` is `1 << NUM_ROOTS` (read from
    src/fp.rs by the translator) -/
def prio2New (inputLen : Nat) : CRes Unit :=
  match ((cadd inputLen 1).bind cnextPow2).bind (fun n => cmul n 2) with
  | none => .err
  | some size =>
    if size > u32Max then .err
    else if size > 2 ^ Gen.FP32.numRoots then .err
    else .ok ()

/-! ### measurement encoders -/

/-- `encode_range_checked_int(value, bits, last_weight)`: bits as 0/1, low first, then the high bit -/
def encodeRangeChecked (v bits lw : Nat) : Option (List Nat) :=
  let threshold := 2 ^ (bits - 1) - 1
  let high := v > threshold
  let toEnc := if high then v - lw else v
  if toEnc / 2 ^ (bits - 1) ≠ 0 then none
  else some ((List.range (bits - 1)).map (fun i => toEnc / 2 ^ i % 2) ++ [if high then 1 else 0])

/-- the largest encodable value of a range-checked integer: `last_weight + 2^(bits-1) - 1` -/
def maxOf (bits lw : Nat) : Nat := lw + (2 ^ (bits - 1) - 1)

/-- `encode_measurement`: the measurement is a list of naturals (one element for the scalar types,
    0/1 for booleans); `aux` is `max_weight` for `MultihotCountVec`.  `none` is `Err`. -/
def encodeMeasurement (t : TypeSpec) (sumLW aux : Nat) (m : List Nat) : Option (List Nat) :=
  match t with
  | .count => match m with
    | [b] => some [b % 2]
    | _ => none
  | .sum bits => match m with
    | [v] => if v > maxOf bits sumLW then none else encodeRangeChecked v bits sumLW
    | _ => none
  | .histogram len _ => match m with
    | [i] => if i ≥ len then none else some ((List.range len).map fun j => if j = i then 1 else 0)
    | _ => none
  | .multihot len bw lw _ =>
    let weight := (m.filter (· % 2 = 1)).length
    if m.length ≠ len then none
    else if weight > aux then none
    else (encodeRangeChecked weight bw lw).map fun w => m.map (· % 2) ++ w
  | .sumVec len bits lw _ =>
    if m.length ≠ len then none
    else (m.mapM fun v => encodeRangeChecked v bits lw).map List.flatten
  | .l1BoundSum mlen bits lw _ =>
    if m.length ≠ mlen then none
    else
      match m.mapM fun v => encodeRangeChecked v bits lw with
      | none => none
      | some es =>
        match encodeRangeChecked m.sum bits lw with
        | none => none
        | some n => some (es.flatten ++ n)

end Prio.Ctor
