/-! Wire formats of libprio-rs as a small grammar (`Fmt`) with one generic encoder and one generic
    decoder.  Every protocol message is a `Fmt` computed from its decoding parameters
    (`PrioModel/Messages.lean`), so round-trip, canonicity, length and totality are proved once, for
    all formats (`PrioProofs/Codec`).  Import-free. -/
namespace Prio

/-- outcome of a fallible operation: value, `Err(..)`, or a Rust panic -/
inductive Res (α : Type) where
  | ok (a : α)
  | err
  | panic
  deriving Repr, BEq, DecidableEq

def Res.bind {α β} (r : Res α) (f : α → Res β) : Res β :=
  match r with
  | .ok a => f a
  | .err => .err
  | .panic => .panic

/-- decoded values -/
inductive Val where
  | unit
  | num (n : Nat)
  | bytes (b : List Nat)
  | bits (b : List Bool)
  | pair (a b : Val)
  deriving Repr, BEq, DecidableEq, Inhabited

/-- wire formats -/
inductive Fmt where
  | unit
  /-- `n` raw bytes (seeds, opaque payloads) -/
  | bytes (n : Nat)
  /-- big-endian unsigned integer of `n` bytes (`u8`, `u16`, `u32`, `u64`) -/
  | uint (n : Nat)
  /-- little-endian field element of `sz` bytes, canonical iff below `p` -/
  | felem (p sz : Nat)
  /-- `n` bits packed least-significant-bit first into `ceil(n/8)` bytes, padding must be zero -/
  | bitsLsb (n : Nat)
  /-- `n` bits packed most-significant-bit first into `ceil(n/8)` bytes, padding must be zero -/
  | bitsMsb (n : Nat)
  | pair (a b : Fmt)
  /-- the rest of the format depends on a value decoded earlier (length prefixes, tags, levels) -/
  | dep (a : Fmt) (k : Val → Fmt)
  /-- extra acceptance condition on the decoded value -/
  | refine (a : Fmt) (ok : Val → Bool)
  /-- always an error (unknown tag, bad role) -/
  | fail
  /-- the Rust code panics here (arithmetic overflow, `unwrap` on `None`, slice index) -/
  | panic

/-- big-endian bytes of `x`, exactly `n` of them -/
def beBytes (x : Nat) : Nat → List Nat
  | 0 => []
  | n + 1 => (x / 256 ^ n % 256) :: beBytes x n

def beNat : List Nat → Nat
  | [] => 0
  | b :: bs => b * 256 ^ bs.length + beNat bs

def leBytesC (n : Nat) : Nat → List Nat
  | 0 => []
  | k + 1 => (n % 256) :: leBytesC (n / 256) k

def leNatC : List Nat → Nat
  | [] => 0
  | b :: bs => b + 256 * leNatC bs

/-- up to 8 bits, least significant first -/
def byteOfBits : List Bool → Nat
  | [] => 0
  | b :: bs => (if b then 1 else 0) + 2 * byteOfBits bs

def bitsOfByte (x : Nat) : Nat → List Bool
  | 0 => []
  | k + 1 => (x % 2 == 1) :: bitsOfByte (x / 2) k

def pad8 (l : List Bool) : List Bool := l ++ List.replicate (8 - l.length) false

/-- pack `bits` into `m` bytes; `msb` selects the bit order inside a byte -/
def packBits (msb : Bool) : Nat → List Bool → List Nat
  | 0, _ => []
  | m + 1, bits =>
    let chunk := pad8 (bits.take 8)
    byteOfBits (if msb then chunk.reverse else chunk) :: packBits msb m (bits.drop 8)

def unpackBits (msb : Bool) : List Nat → List Bool
  | [] => []
  | x :: xs =>
    let c := bitsOfByte x 8
    (if msb then c.reverse else c) ++ unpackBits msb xs

/-- `n` repetitions of `f`.  The tail sits behind a `dep` on the empty format so that it is only
    built when decoding gets there (a count field of 2^32-1 must not build 2^32 nodes). -/
def Fmt.rep : Nat → Fmt → Fmt
  | 0, _ => .unit
  | n + 1, f => .pair f (.dep .unit (fun _ => Fmt.rep n f))

def Fmt.seq : List Fmt → Fmt
  | [] => .unit
  | f :: fs => .pair f (Fmt.seq fs)

def encode : Fmt → Val → List Nat
  | .unit, _ => []
  | .bytes _, .bytes b => b
  | .uint n, .num x => beBytes x n
  | .felem _ sz, .num x => leBytesC x sz
  | .bitsLsb n, .bits b => packBits false ((n + 7) / 8) b
  | .bitsMsb n, .bits b => packBits true ((n + 7) / 8) b
  | .pair a b, .pair va vb => encode a va ++ encode b vb
  | .dep a k, .pair va vb => encode a va ++ encode (k va) vb
  | .refine a _, v => encode a v
  | _, _ => []

def decode : Fmt → List Nat → Res (Val × List Nat)
  | .unit, bs => .ok (.unit, bs)
  | .bytes n, bs => if bs.length < n then .err else .ok (.bytes (bs.take n), bs.drop n)
  | .uint n, bs => if bs.length < n then .err else .ok (.num (beNat (bs.take n)), bs.drop n)
  | .felem p sz, bs =>
    if bs.length < sz then .err
    else
      let x := leNatC (bs.take sz)
      if x < p then .ok (.num x, bs.drop sz) else .err
  | .bitsLsb n, bs =>
    let m := (n + 7) / 8
    if bs.length < m then .err
    else
      let all := unpackBits false (bs.take m)
      if (all.drop n).any id then .err else .ok (.bits (all.take n), bs.drop m)
  | .bitsMsb n, bs =>
    let m := (n + 7) / 8
    if bs.length < m then .err
    else
      let all := unpackBits true (bs.take m)
      if (all.drop n).any id then .err else .ok (.bits (all.take n), bs.drop m)
  | .pair a b, bs =>
    match decode a bs with
    | .ok (va, r) =>
      match decode b r with
      | .ok (vb, r') => .ok (.pair va vb, r')
      | .err => .err
      | .panic => .panic
    | .err => .err
    | .panic => .panic
  | .dep a k, bs =>
    match decode a bs with
    | .ok (va, r) =>
      match decode (k va) r with
      | .ok (vb, r') => .ok (.pair va vb, r')
      | .err => .err
      | .panic => .panic
    | .err => .err
    | .panic => .panic
  | .refine a ok, bs =>
    match decode a bs with
    | .ok (v, r) => if ok v then .ok (v, r) else .err
    | .err => .err
    | .panic => .panic
  | .fail, _ => .err
  | .panic, _ => .panic

/-- `get_decoded_with_param`: the whole input must be consumed -/
def getDecoded (f : Fmt) (bs : List Nat) : Res Val :=
  match decode f bs with
  | .ok (v, []) => .ok v
  | .ok (_, _ :: _) => .err
  | .err => .err
  | .panic => .panic

end Prio
