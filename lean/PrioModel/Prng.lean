import PrioModel.Codec

/-! Seed streams and field sampling: `Prng` (src/prng.rs), `FieldElementExt::generate_random`
    (src/field.rs), the message absorbed by each XOF (src/vdaf/xof.rs) and the block-wise `fill` of
    `SeedStreamFixedKeyAes128`.  The hash functions and block cipher are parameters: a stream is a
    function from byte position to byte.  Import-free. -/
namespace Prio

/-- a seed stream: the byte at each position -/
abbrev Stream := Nat → Nat

/-- `n` bytes from position `pos` (one `fill_bytes` call on a position-determined stream) -/
def Stream.read (S : Stream) (pos n : Nat) : List Nat := (List.range n).map fun i => S (pos + i)

/-- `try_from_random`: little-endian value masked to the modulus bit length; `none` = ModulusOverflow -/
def fromRandom (p mask : Nat) (chunk : List Nat) : Option Nat :=
  let x := leNatC chunk &&& mask
  if x < p then some x else none

/-- state of a `Prng` over a position-determined stream -/
structure PrngState where
  buf : List Nat
  idx : Nat
  /-- number of stream bytes consumed so far -/
  pos : Nat
  deriving Repr

def bufferSizeInElements : Nat := 32

/-- `Prng::from_seed_stream` for a field of encoded size `sz`, stream already at `pos` -/
def PrngState.init (S : Stream) (sz pos : Nat) : PrngState :=
  ⟨S.read pos (bufferSizeInElements * sz), 0, pos + bufferSizeInElements * sz⟩

/-- the inner `for i in (buffer_index..buffer.len()).step_by(ENCODED_SIZE)` loop of `Prng::get`:
    returns the accepted element (if any) and the new `buffer_index` -/
def scanBuffer (p mask sz : Nat) (buf : List Nat) : Nat → Nat → Option Nat × Nat
  | 0, idx => (none, idx)
  | fuel + 1, idx =>
    let j := idx + sz
    if j > buf.length then (none, idx)
    else
      match fromRandom p mask ((buf.drop idx).take sz) with
      | some x => (some x, j)
      | none => scanBuffer p mask sz buf fuel j

/-- `Prng::get`: scan, then move the left-over bytes to the front and refill the rest.  `fuel`
    bounds the number of refills (the real loop is unbounded). -/
def PrngState.get (S : Stream) (p mask sz : Nat) : Nat → PrngState → Option (Nat × PrngState)
  | 0, _ => none
  | fuel + 1, st =>
    match scanBuffer p mask sz st.buf (st.buf.length + 1) st.idx with
    | (some x, j) => some (x, { st with idx := j })
    | (none, j) =>
      let leftOver := st.buf.length - j
      let refill := st.buf.length - leftOver
      let buf' := st.buf.drop j ++ S.read st.pos refill
      PrngState.get S p mask sz fuel ⟨buf', 0, st.pos + refill⟩

/-- `take(n)` on the `Prng` iterator -/
def PrngState.take (S : Stream) (p mask sz fuel : Nat) : Nat → PrngState → Option (List Nat × PrngState)
  | 0, st => some ([], st)
  | n + 1, st =>
    match st.get S p mask sz fuel with
    | none => none
    | some (x, st') =>
      match PrngState.take S p mask sz fuel n st' with
      | none => none
      | some (xs, st'') => some (x :: xs, st'')

/-- `into_field_vec(length)` -/
def intoFieldVec (S : Stream) (p mask sz fuel n : Nat) : Option (List Nat × PrngState) :=
  (PrngState.init S sz 0).take S p mask sz fuel n

/-- `generate_random`: one element, no buffer; returns the element and the new stream position -/
def generateRandom (S : Stream) (p mask sz : Nat) : Nat → Nat → Option (Nat × Nat)
  | 0, _ => none
  | fuel + 1, pos =>
    match fromRandom p mask (S.read pos sz) with
    | some x => some (x, pos + sz)
    | none => generateRandom S p mask sz fuel (pos + sz)

/-- specification: the accepted `sz`-byte chunks of the stream from position `c`, in order -/
def specSample (S : Stream) (p mask sz : Nat) : Nat → Nat → Nat → List Nat
  | 0, _, _ => []
  | _ + 1, _, 0 => []
  | fuel + 1, c, n + 1 =>
    match fromRandom p mask (S.read c sz) with
    | some x => x :: specSample S p mask sz fuel (c + sz) n
    | none => specSample S p mask sz fuel (c + sz) (n + 1)

/-! ### what each XOF absorbs -/

def le16 (n : Nat) : List Nat := [n % 256, n / 256 % 256]

/-- `XofTurboShake128::from_seed_slice` followed by `update(binder part)`s.  `none` = panic
    (dst longer than 65535 bytes or seed longer than 255 bytes). -/
def turboShakeAbsorbed (seed : List Nat) (dstParts binderParts : List (List Nat)) : Option (List Nat) :=
  let dst := dstParts.flatten
  if dst.length ≥ 65536 ∨ seed.length ≥ 256 then none
  else some (le16 dst.length ++ dst ++ [seed.length] ++ seed ++ binderParts.flatten)

/-- `XofFixedKeyAes128::init` + `update`s / `XofFixedKeyAes128Key::new`: what the key deriver absorbs -/
def fixedKeyAbsorbed (dstParts binderParts : List (List Nat)) : Option (List Nat) :=
  let dst := dstParts.flatten
  if dst.length ≥ 65536 then none else some (le16 dst.length ++ dst ++ binderParts.flatten)

/-- `XofHmacSha256Aes128::init` + `update`s: the MAC input (the seed is the MAC key) -/
def hmacAbsorbed (dstParts binderParts : List (List Nat)) : Option (List Nat) :=
  let dst := dstParts.flatten
  if dst.length ≥ 256 then none else some ([dst.length] ++ dst ++ binderParts.flatten)

/-! ### `SeedStreamFixedKeyAes128::fill` over an abstract block function -/

/-- one `fill(buf)` call: `block c` is the 16-byte output block with counter `c` -/
def fixedKeyFillLoop (block : Nat → List Nat) (want : Nat) : Nat → Nat → Nat → List Nat → List Nat
  | 0, _, _, acc => acc
  | fuel + 1, ctr, offset, acc =>
    let read := min (16 - offset) (want - acc.length)
    fixedKeyFillLoop block want fuel (ctr + 1) 0 (acc ++ ((block ctr).drop offset).take read)

def fixedKeyFill (block : Nat → List Nat) (lengthConsumed n : Nat) : List Nat × Nat :=
  let next := lengthConsumed + n
  let blocks := (next + 15) / 16 - lengthConsumed / 16
  (fixedKeyFillLoop block n blocks (lengthConsumed / 16) (lengthConsumed % 16) [], next)

/-- a sequence of reads -/
def fixedKeyReads (block : Nat → List Nat) : Nat → List Nat → List (List Nat)
  | _, [] => []
  | consumed, n :: ns =>
    let (out, next) := fixedKeyFill block consumed n
    out :: fixedKeyReads block next ns

end Prio
