/-! The incremental distributed point function of src/idpf.rs: `generate_correction_word`,
    `eval_next`, `gen_with_random`, `eval_from_node`, `eval` with its cache probe, and the three
    caches.  Seeds are any type with an xor; payloads any type with `+ - neg 0`; the PRGs (`extend`,
    `convert`) are parameters.  Import-free. -/
namespace Prio.Idpf

class XorLike (S : Type) where
  xor : S → S → S

variable {S VI VL V : Type} [XorLike S]

/-- `conditional_xor_seeds` -/
def cxor (a b : S) (c : Bool) : S := if c then XorLike.xor a b else a
/-- `conditional_select` -/
def sel {α : Type} (c : Bool) (l r : α) : α := if c then r else l

/-- `IdpfCorrectionWord` -/
structure CW (S V : Type) where
  seed : S
  cbL : Bool
  cbR : Bool
  value : V

/-- `extend`: seed ↦ ((seed₀, bit₀), (seed₁, bit₁)); `convert`: seed ↦ (next seed, payload) -/
structure Prg (S V : Type) where
  extend : S → (S × Bool) × (S × Bool)
  convert : S → S × V

/-- node state: (seed, control bit) -/
abbrev Node (S : Type) := S × Bool

section level
variable [Add V] [Sub V] [Neg V] [Zero V]

def cneg (v : V) (c : Bool) : V := if c then -v else v

/-- `generate_correction_word` -/
def genLevel (g : Prg S V) (bit : Bool) (value : V) (n0 n1 : Node S) : CW S V × Node S × Node S :=
  let e0 := g.extend n0.1
  let e1 := g.extend n1.1
  let keep := bit
  let lose := !bit
  let cwSeed := XorLike.xor (sel lose e0.1.1 e0.2.1) (sel lose e1.1.1 e1.2.1)
  let cbL := xor (xor (xor e0.1.2 e1.1.2) bit) true
  let cbR := xor (xor e0.2.2 e1.2.2) bit
  let cbKeep := sel keep cbL cbR
  let t0' := xor (sel keep e0.1.2 e0.2.2) (cbKeep && n0.2)
  let t1' := xor (sel keep e1.1.2 e1.2.2) (cbKeep && n1.2)
  let s0 := cxor (sel keep e0.1.1 e0.2.1) cwSeed n0.2
  let s1 := cxor (sel keep e1.1.1 e1.2.1) cwSeed n1.2
  let c0 := g.convert s0
  let c1 := g.convert s1
  let cwv := cneg (value - c0.2 + c1.2) t1'
  (⟨cwSeed, cbL, cbR, cwv⟩, (c0.1, t0'), (c1.1, t1'))

/-- `eval_next` -/
def evalLevel (g : Prg S V) (isLeader : Bool) (cw : CW S V) (bit : Bool) (n : Node S) : V × Node S :=
  let e := g.extend n.1
  let sL := cxor e.1.1 cw.seed n.2
  let tL := xor e.1.2 (cw.cbL && n.2)
  let sR := cxor e.2.1 cw.seed n.2
  let tR := xor e.2.2 (cw.cbR && n.2)
  let s := sel bit sL sR
  let t' := sel bit tL tR
  let c := g.convert s
  let out := c.2 + (if t' then cw.value else 0)
  (cneg out (!isLeader), (c.1, t'))

/-- the inner levels of `gen_with_random` -/
def genLevels (g : Prg S V) : List Bool → List V → Node S → Node S → List (CW S V) × Node S × Node S
  | b :: bs, v :: vs, n0, n1 =>
    let r := genLevel g b v n0 n1
    let rest := genLevels g bs vs r.2.1 r.2.2
    (r.1 :: rest.1, rest.2)
  | _, _, n0, n1 => ([], n0, n1)

/-- walk down the inner levels: the output at every level and the node reached -/
def evalPath (g : Prg S V) (isLeader : Bool) : List (CW S V) → List Bool → Node S → List V × Node S
  | cw :: cws, b :: bs, n =>
    let r := evalLevel g isLeader cw b n
    let rest := evalPath g isLeader cws bs r.2
    (r.1 :: rest.1, rest.2)
  | _, _, n => ([], n)

end level

/-- `IdpfPublicShare` -/
structure PublicShare (S VI VL : Type) where
  inner : List (CW S VI)
  leaf : CW S VL

inductive Output (VI VL : Type) where
  | inner (v : VI)
  | leaf (v : VL)
  deriving Repr, BEq

variable [Add VI] [Sub VI] [Neg VI] [Zero VI] [Add VL] [Sub VL] [Neg VL] [Zero VL]

/-- `gen_with_random`: `none` = InvalidParameter (wrong number of inner values); the caller (`gen`)
    rejects the empty input -/
def gen (gI : Prg S VI) (gL : Prg S VL) (alpha : List Bool) (innerValues : List VI) (leafValue : VL)
    (k0 k1 : S) : Option (PublicShare S VI VL) :=
  match alpha.getLast? with
  | none => none
  | some lastBit =>
    if innerValues.length ≠ alpha.length - 1 then none
    else
      let r := genLevels gI alpha.dropLast innerValues (k0, false) (k1, true)
      let l := genLevel gL lastBit leafValue r.2.1 r.2.2
      some ⟨r.1, l.1⟩

/-- an `IdpfCache` as a state machine -/
structure Cache (C S : Type) where
  get : C → List Bool → Option (Node S)
  insert : C → List Bool → Node S → C

/-- the loop of `eval_from_node`: evaluates inner levels `level, level+1, …` along `bits`, inserting
    each reached node under its prefix; returns the last inner output, the node reached and the cache -/
def evalInnerLoop {C : Type} (cache : Cache C S) (gI : Prg S VI) (isLeader : Bool) (pfx : List Bool) :
    List (CW S VI) → List Bool → Nat → Node S → Option VI → C → Option VI × Node S × C
  | cw :: cws, b :: bs, level, n, _, c =>
    let r := evalLevel gI isLeader cw b n
    let c' := cache.insert c (pfx.take (level + 1)) r.2
    evalInnerLoop cache gI isLeader pfx cws bs (level + 1) r.2 (some r.1) c'
  | _, _, _, n, last, c => (last, n, c)

/-- `eval_from_node`; `none` stands for the `unwrap()` panic on an empty loop (unreachable from `eval`) -/
def evalFromNode {C : Type} (cache : Cache C S) (gI : Prg S VI) (gL : Prg S VL) (isLeader : Bool)
    (ps : PublicShare S VI VL) (startLevel : Nat) (n : Node S) (pfx : List Bool) (c : C) :
    Option (Output VI VL) × C :=
  let bits := ps.inner.length + 1
  let r := evalInnerLoop cache gI isLeader pfx (ps.inner.drop startLevel) (pfx.drop startLevel) startLevel n none c
  if pfx.length = bits then
    let o := evalLevel gL isLeader ps.leaf (pfx.getLastD false) r.2.1
    (some (.leaf o.1), r.2.2)
  else (r.1.map .inner, r.2.2)

/-- the upward cache probe of `eval`: longest proper prefix first -/
def probe {C : Type} (cache : Cache C S) (c : C) (pfx : List Bool) : Nat → Option (Nat × Node S)
  | 0 => none
  | len + 1 =>
    match cache.get c (pfx.take (len + 1)) with
    | some n => some (len + 1, n)
    | none => probe cache c pfx len

/-- `Idpf::eval`: `.error` = InvalidParameter -/
inductive EvalResult (VI VL : Type) where
  | ok (o : Output VI VL)
  | error
  | panic
  deriving Repr

def eval {C : Type} (cache : Cache C S) (gI : Prg S VI) (gL : Prg S VL) (aggId : Nat)
    (ps : PublicShare S VI VL) (key : S) (pfx : List Bool) (c : C) : EvalResult VI VL × C :=
  let bits := ps.inner.length + 1
  if aggId > 1 then (.error, c)
  else if pfx.isEmpty then (.error, c)
  else if pfx.length > bits then (.error, c)
  else
    let isLeader := aggId == 0
    let start : Nat × Node S :=
      match probe cache c pfx (pfx.length - 1) with
      | some hit => hit
      | none => (0, (key, !isLeader))
    match evalFromNode cache gI gL isLeader ps start.1 start.2 pfx c with
    | (some o, c') => (.ok o, c')
    | (none, c') => (.panic, c')

/-! ### the three shipped caches -/

/-- `NoCache` -/
def noCache : Cache Unit S := ⟨fun _ _ => none, fun c _ _ => c⟩

/-- `HashMapCache`: `entry(k).or_insert(v)` keeps the first value -/
def hashMapCache : Cache (List (List Bool × Node S)) S where
  get c k := (c.find? (fun e => e.1 == k)).map (·.2)
  insert c k v := if (c.find? (fun e => e.1 == k)).isSome then c else c ++ [(k, v)]

/-- `RingBufferCache` of capacity `max cap 1`: evict the oldest when full, look up newest first -/
def ringBufferCache (cap : Nat) : Cache (List (List Bool × Node S)) S where
  get c k := (c.reverse.find? (fun e => e.1 == k)).map (·.2)
  insert c k v := (if c.length = max cap 1 then c.drop 1 else c) ++ [(k, v)]

end Prio.Idpf
