/-! The ping-pong topology (src/topology/ping_pong.rs) over an abstract aggregator with any number of
    rounds.  `none` models every `Err(PingPongError::…)`.  Import-free. -/
namespace Prio.PP

abbrev Bytes := List Nat

inductive Transition (St Sh Out : Type) where
  | cont (st : St) (sh : Sh)
  | fin (out : Out)

/-- the operations of `Aggregator` the topology uses, for one fixed report -/
structure Agg (St Sh Msg Out : Type) where
  /-- `verify_init` of the leader (0) / helper (1) -/
  init : Nat → Option (St × Sh)
  /-- `verifier_shares_to_message`, shares in aggregator order -/
  combine : List Sh → Option Msg
  /-- `verify_next` -/
  next : St → Msg → Option (Transition St Sh Out)
  encSh : Sh → Bytes
  decSh : St → Bytes → Option Sh
  encMsg : Msg → Bytes
  decMsg : St → Bytes → Option Msg

inductive Message where
  | init (verifierShare : Bytes)
  | cont (verifierMessage verifierShare : Bytes)
  | fin (verifierMessage : Bytes)
  deriving Repr, BEq, DecidableEq

/-- `PingPongContinuation` -/
inductive Cont (St Msg Out : Type) where
  | outputShare (out : Out)
  | transition (previousState : St) (currentMessage : Msg)

/-- `PingPongState` -/
inductive State (St Out : Type) where
  | continued (st : St) (message : Message)
  | finishedWithOutbound (out : Out) (message : Message)
  | finished (out : Out)

variable {St Sh Msg Out : Type}

/-- `leader_initialized` -/
def leaderInitialized (A : Agg St Sh Msg Out) : Option (St × Message) :=
  match A.init 0 with
  | some (st, sh) => some (st, .init (A.encSh sh))
  | none => none

/-- `helper_initialized` -/
def helperInitialized (A : Agg St Sh Msg Out) (leaderMessage : Message) : Option (Cont St Msg Out) :=
  match A.init 1 with
  | none => none
  | some (st, sh) =>
    match leaderMessage with
    | .init b =>
      match A.decSh st b with
      | none => none
      | some leaderShare =>
        match A.combine [leaderShare, sh] with
        | none => none
        | some m => some (.transition st m)
    | _ => none

/-- `continued` (shared by `leader_continued` and `helper_continued`) -/
def continued (A : Agg St Sh Msg Out) (isLeader : Bool) (hostState : St) (inbound : Message) :
    Option (Cont St Msg Out) :=
  let parts : Option (Bytes × Option Bytes) :=
    match inbound with
    | .init _ => none
    | .cont m sh => some (m, some sh)
    | .fin m => some (m, none)
  match parts with
  | none => none
  | some (mb, peerShare) =>
    match A.decMsg hostState mb with
    | none => none
    | some m =>
      match A.next hostState m, peerShare with
      | none, _ => none
      | some (.cont st' hostShare), some pb =>
        match A.decSh st' pb with
        | none => none
        | some peer =>
          let shares := if isLeader then [hostShare, peer] else [peer, hostShare]
          match A.combine shares with
          | none => none
          | some m' => some (.transition st' m')
      | some (.fin out), none => some (.outputShare out)
      | some (.cont _ _), none => none
      | some (.fin _), some _ => none

/-- `PingPongContinuation::evaluate` -/
def evaluate (A : Agg St Sh Msg Out) (c : Cont St Msg Out) : Option (State St Out) :=
  match c with
  | .outputShare out => some (.finished out)
  | .transition st m =>
    match A.next st m with
    | none => none
    | some (.cont st' sh) => some (.continued st' (.cont (A.encMsg m) (A.encSh sh)))
    | some (.fin out) => some (.finishedWithOutbound out (.fin (A.encMsg m)))

/-- the other party, as seen when a message from it arrives -/
inductive Party (St Out : Type) where
  | waiting (st : St)
  | done (out : Out)

/-- the alternating exchange from the point where `host` receives `inbound`; returns
    (leader output, helper output) -/
def exchange (A : Agg St Sh Msg Out) : Nat → Bool → St → Party St Out → Message → Option (Out × Out)
  | 0, _, _, _, _ => none
  | fuel + 1, isLeader, st, other, inbound =>
    match (continued A isLeader st inbound).bind (evaluate A) with
    | none => none
    | some (.finished out) =>
      match other with
      | .done o' => some (if isLeader then (out, o') else (o', out))
      | .waiting _ => none
    | some (.finishedWithOutbound out msg) =>
      match other with
      | .waiting st' => exchange A fuel (!isLeader) st' (.done out) msg
      | .done _ => none
    | some (.continued st1 msg) =>
      match other with
      | .waiting st' => exchange A fuel (!isLeader) st' (.waiting st1) msg
      | .done _ => none

/-- the whole ping-pong run -/
def run (A : Agg St Sh Msg Out) (fuel : Nat) : Option (Out × Out) :=
  match leaderInitialized A with
  | none => none
  | some (stL, m0) =>
    match (helperInitialized A m0).bind (evaluate A) with
    | none => none
    | some (.finished _) => none
    | some (.finishedWithOutbound out msg) => exchange A fuel true stL (.done out) msg
    | some (.continued stH msg) => exchange A fuel true stL (.waiting stH) msg

/-- the direct broadcast execution: both aggregators apply every verifier message -/
def broadcastFrom (A : Agg St Sh Msg Out) : Nat → St → St → Msg → Option (Out × Out)
  | 0, _, _, _ => none
  | fuel + 1, stL, stH, m =>
    match A.next stL m, A.next stH m with
    | some (.fin oL), some (.fin oH) => some (oL, oH)
    | some (.cont stL' shL), some (.cont stH' shH) =>
      match A.combine [shL, shH] with
      | none => none
      | some m' => broadcastFrom A fuel stL' stH' m'
    | _, _ => none

def broadcast (A : Agg St Sh Msg Out) (fuel : Nat) : Option (Out × Out) :=
  match A.init 0, A.init 1 with
  | some (stL, shL), some (stH, shH) =>
    match A.combine [shL, shH] with
    | none => none
    | some m => broadcastFrom A fuel stL stH m
  | _, _ => none

end Prio.PP
