import PrioModel.Gen.FpOps
import PrioModel.Gen.FpParams

/-! Hand model of the parts of `src/fp/ops.rs` and `src/field.rs` that are not straight-line code:
    the `pow` loop, `inv`, the integer/byte conversions of `make_field!`, and the executable
    mod-`p` instance used by all higher layers.  Import-free (links into the driver). -/
namespace Prio

open Gen

/-- number of significant bits: `W::BITS - exp.leading_zeros()` -/
def bitLen : Nat → Nat
  | 0 => 0
  | n + 1 => Nat.log2 (n + 1) + 1

/-- the body of the `for i in (0..n).rev()` loop of `FieldOps::pow`, from bit `i-1` down to 0 -/
def powLoop (mul : Nat → Nat → Nat) (x exp : Nat) : Nat → Nat → Nat
  | 0, t => t
  | i + 1, t =>
    let t := mul t t
    let t := if exp.testBit i then mul t x else t
    powLoop mul x exp i t

/-- `FieldOps::pow`: `one` is `ROOTS[0]` -/
def fpPow (mul : Nat → Nat → Nat) (one x exp : Nat) : Nat :=
  powLoop mul x exp (bitLen exp) one

end Prio
namespace Gen
open Prio
/-- raw limb operations of a parameter set, as the Rust `FieldOps` methods compute them -/
def FpParams.R (P : FpParams) : Nat := 2 ^ P.bits
def FpParams.B (P : FpParams) : Nat := 2 ^ (P.bits / 2)

def FpParams.mul (P : FpParams) (x y : Nat) : Nat :=
  if P.split then mulSplit P.B P.prime P.mu x y else mulSW P.R P.prime P.mu x y
def FpParams.add (P : FpParams) (x y : Nat) : Nat := Gen.add P.R P.prime x y
def FpParams.sub (P : FpParams) (x y : Nat) : Nat := Gen.sub P.R P.prime x y
def FpParams.neg (P : FpParams) (x : Nat) : Nat := Gen.neg P.R P.prime x
def FpParams.modp (P : FpParams) (x : Nat) : Nat := Gen.modp P.R P.prime x
def FpParams.montgomery (P : FpParams) (x : Nat) : Nat := Gen.montgomery P.mul P.R P.prime P.r2 x
def FpParams.residue (P : FpParams) (x : Nat) : Nat := Gen.residue P.mul P.R P.prime x
def FpParams.one (P : FpParams) : Nat := P.roots.headD 0
def FpParams.pow (P : FpParams) (x e : Nat) : Nat := fpPow P.mul P.one x e
def FpParams.inv (P : FpParams) (x : Nat) : Nat := P.pow x (P.prime - 1 - 1)
end Gen
namespace Prio
open Gen

/-- little-endian bytes of `n`, exactly `k` of them: the loop of `From<$elem> for [u8; N]` -/
def leBytes (n : Nat) : Nat → List Nat
  | 0 => []
  | k + 1 => (n % 256) :: leBytes (n / 256) k

/-- little-endian integer of a byte list: the loop of `try_from_bytes` -/
def leNat : List Nat → Nat
  | [] => 0
  | b :: bs => b % 256 + 256 * leNat bs

end Prio
namespace Gen
open Prio
/-- `make_field!::try_from_bytes(bytes, mask)` on the Montgomery level: `none` = ShortRead or
    ModulusOverflow, otherwise the stored word. `encSize` is `ENCODED_SIZE`. -/
def FpParams.tryFromBytes (P : FpParams) (encSize : Nat) (bytes : List Nat) (mask : Nat) : Option Nat :=
  if encSize > bytes.length then none
  else
    let int := (leNat (bytes.take encSize)) &&& mask
    if int ≥ P.prime then none else some (P.montgomery int)

/-- `Vec<u8>::from(elem)` -/
def FpParams.toBytes (P : FpParams) (encSize : Nat) (a : Nat) : List Nat :=
  leBytes (P.residue a) encSize

end Gen
namespace Prio
open Gen
def findParams (name : String) : Option FpParams :=
  allParams.find? (fun P => P.name == name)

end Prio
