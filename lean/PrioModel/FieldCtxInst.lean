import PrioModel.Field
import PrioModel.FieldInst
import PrioModel.Flp

/-! The field context (`F::root`, `F::half`, `F::from`) of a named NTT field at the executable instance
    `Fin (q + 1)` — what the driver passes to every field-polymorphic model function.  Kept here (not in the
    driver) so that the proofs can state that this very context satisfies the hypotheses of the theorems
    (`PrioProofs/Bridge.lean`).  Import-free. -/
namespace Prio

/-- `F::root(l)` of a named NTT field at the executable instance -/
def rootOf (name : String) (q : Nat) (l : Nat) : Option (Fin (q + 1)) :=
  match findParams name with
  | some P =>
    if l < min (P.roots.length) (P.numRoots + 1) then some (Fin.ofNat (q + 1) (P.residue (P.roots.getD l 0))) else none
  | none => none

/-- `F::half()` -/
def halfOf (name : String) (q : Nat) : Fin (q + 1) :=
  match findParams name with
  | some P => Fin.ofNat (q + 1) (P.residue P.half)
  | none => 0

def fieldCtx (name : String) (q : Nat) : Flp.FieldCtx (Fin (q + 1)) :=
  ⟨rootOf name q, halfOf name q, Fin.ofNat (q + 1)⟩

end Prio
