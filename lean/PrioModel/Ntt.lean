/-! `src/ntt.rs` and `src/polynomial.rs`, loop for loop, over `Array F`.  Generic in the field; the
    roots of unity are a parameter (`root l` = `F::root(l)`).  Import-free. -/
namespace Prio.Ntt

inductive NttError where
  | outputTooSmall
  | sizeTooLarge
  | sizeInvalid
  deriving Repr, BEq, DecidableEq

/-- `Result<_, NttError>` plus the panics of slice indexing / `unwrap` -/
inductive R (α : Type) where
  | ok (a : α)
  | err (e : NttError)
  | panic
  deriving Repr

def maxRoots : Nat := 20

/-- `fp::log2`: ceiling of the base-2 logarithm (for `x ≥ 1`) -/
def log2ceil (x : Nat) : Nat :=
  let y := Nat.log2 x
  y + (if x > 2 ^ y then 1 else 0)

/-- `bitrev(d, i)`: reverse the low `d` bits of `i` -/
def bitrev : Nat → Nat → Nat
  | 0, _ => 0
  | d + 1, i => (i % 2) * 2 ^ d + bitrev d (i / 2)

variable {F : Type} [Add F] [Sub F] [Mul F] [Neg F] [Zero F] [One F]

/-- one butterfly: positions `x` and `x + y` -/
def butterfly (a : Array F) (x y : Nat) (w : F) : Array F :=
  let u := a.getD x 0
  let v := w * a.getD (x + y) 0
  (a.setIfInBounds x (u + v)).setIfInBounds (x + y) (u - v)

/-- `for j in 0..chunk { x = (j << l) + i; … }` -/
def jLoop (l y i : Nat) (w : F) : Nat → Nat → Array F → Array F
  | 0, _, a => a
  | n + 1, j, a => jLoop l y i w n (j + 1) (butterfly a (j * 2 ^ l + i) y w)

/-- `for i in 1..y { w *= r; for j … }` (the first iteration `i = 0` is unrolled in the source) -/
def iLoop (l y chunk : Nat) (r : F) : Nat → Nat → F → Array F → Array F
  | 0, _, _, a => a
  | n + 1, i, w, a =>
    let w' := w * r
    iLoop l y chunk r n (i + 1) w' (jLoop l y i w' chunk 0 a)

/-- `for l in 1..d+1 { … }` -/
def lLoop (root : Nat → Option F) (size : Nat) (setS : Bool) : Nat → Nat → Array F → Option (Array F)
  | 0, _, a => some a
  | n + 1, l, a =>
    let w0 : Option F := if setS then root (l + 1) else some 1
    match w0, root l with
    | some w, some r =>
      let y := 2 ^ (l - 1)
      let chunk := (size / y) / 2
      let a1 := jLoop l y 0 w chunk 0 a
      let a2 := iLoop l y chunk r (y - 1) 1 w a1
      lLoop root size setS n (l + 1) a2
    | _, _ => none

/-- the argument checks of `ntt_internal`, on their own (`none` = the transform proceeds); see
    `Props.C10.nttInternal_err_iff` -/
def nttSizeCheck (outLen size : Nat) (setS : Bool) : Option NttError :=
  if size > outLen then some .outputTooSmall
  else if (setS && decide (size > 2 ^ (maxRoots - 1))) || decide (size > 2 ^ maxRoots) then some .sizeTooLarge
  else if size ≠ 2 ^ log2ceil size then some .sizeInvalid
  else none

/-- `ntt_internal(outp, inp, size, set_s)`; `outp` is given by its length and returned -/
def nttInternal (root : Nat → Option F) (outLen : Nat) (outp : Array F) (inp : Array F) (size : Nat) (setS : Bool) :
    R (Array F) :=
  if size = 0 then .panic            -- `x.leading_zeros()` underflow in log2 for size 0
  else
    let d := log2ceil size
    if size > outLen then .err .outputTooSmall
    else if (setS && decide (size > 2 ^ (maxRoots - 1))) || decide (size > 2 ^ maxRoots) then .err .sizeTooLarge
    else if size ≠ 2 ^ d then .err .sizeInvalid
    else
      let init : Option (Array F) :=
        if d > 0 then
          some ((List.range size).foldl (fun o i =>
            let j := bitrev d i
            o.setIfInBounds i (if j < inp.size then inp.getD j 0 else 0)) outp)
        else if inp.size = 0 then none else some (outp.setIfInBounds 0 (inp.getD 0 0))
      match init with
      | none => .panic
      | some a =>
        match lLoop root size setS d 1 a with
        | some r => .ok r
        | none => .panic

/-- `ntt_inv_finish` -/
def nttInvFinish (outp : Array F) (size : Nat) (sizeInv : F) : Array F :=
  let a := outp.setIfInBounds 0 (outp.getD 0 0 * sizeInv)
  let a := a.setIfInBounds (size / 2) (a.getD (size / 2) 0 * sizeInv)
  (List.range (size / 2 - 1)).foldl (fun a k =>
    let i := k + 1
    let tmp := a.getD i 0 * sizeInv
    let a := a.setIfInBounds i (a.getD (size - i) 0 * sizeInv)
    a.setIfInBounds (size - i) tmp) a

/-- `ntt_inv`: `sizeInv` is `F::from(size).inv()` -/
def nttInv (root : Nat → Option F) (outp inp : Array F) (size : Nat) (sizeInv : F) : R (Array F) :=
  match nttInternal root outp.size outp inp size false with
  | .ok a => .ok (nttInvFinish a size sizeInv)
  | .err e => .err e
  | .panic => .panic

/-- `poly_eval_monomial` (Horner) -/
def polyEvalMonomial (poly : List F) (x : F) : F :=
  match poly.reverse with
  | [] => 0
  | top :: rest => rest.foldl (fun acc c => acc * x + c) top

/-- `nth_root_powers(n)` for `n = 2^log2n` -/
def nthRootPowers (root : Nat → Option F) (log2n : Nat) : Option (Array F) :=
  let n := 2 ^ log2n
  let roots : Array F := (Array.replicate n 0).setIfInBounds 0 1
  if n ≤ 1 then some roots
  else
    let roots := roots.setIfInBounds 1 (-1)
    (List.range (log2n - 1)).foldlM (fun (roots : Array F) k =>
      let i := k + 2
      let mid := 2 ^ (i - 1)
      -- for j in (1..mid).rev() { roots[j << 1] = roots[j] }
      let roots := (List.range (mid - 1)).foldl (fun (r : Array F) t =>
        let j := mid - 1 - t
        r.setIfInBounds (2 * j) (r.getD j 0)) roots
      match root i with
      | none => none
      | some wn =>
        let roots := (roots.setIfInBounds 1 wn).setIfInBounds (1 + mid) (-wn)
        -- for j in (3..mid).step_by(2)
        some ((List.range ((mid - 3 + 1) / 2)).foldl (fun (r : Array F) t =>
          let j := 3 + 2 * t
          if j < mid then
            let v := wn * r.getD (j - 1) 0
            (r.setIfInBounds j v).setIfInBounds (j + mid) (-v)
          else r) roots)) roots

/-- `inv_pow2(n)` with `half = F::half()` -/
def invPow2 (half : F) (log2n : Nat) : F := (List.range log2n).foldl (fun x _ => x * half) 1

/-- `poly_eval_lagrange_batched` for one polynomial given by (possibly fewer than `n`) values `ys` -/
def polyEvalLagrange (roots : Array F) (half : F) (log2n : Nat) (ys : Array F) (x : F) : F :=
  let u0 := ys.getD 0 0
  let d0 := roots.getD 0 0 - x
  let (_, _, u) := (List.range (roots.size - 1)).foldl (fun (st : F × F × F) k =>
    let i := k + 1
    let (l, d, u) := st
    let wn := roots.getD i 0
    let l := l * d
    let d := wn - x
    let t := l * wn
    let u := u * d
    let u := if i < ys.size then u + t * ys.getD i 0 else u
    (l, d, u)) ((1 : F), d0, u0)
  let inv := invPow2 half log2n
  let inv := if roots.size > 1 then -inv else inv
  u * inv

end Prio.Ntt
