/-! Aggregation of output shares (src/field.rs `merge_vector`, src/vdaf.rs `AggregateShare`,
    src/vdaf/poplar1.rs `Poplar1FieldVec`, `aggregate`).  Generic in the field; import-free. -/
namespace Prio

variable {F : Type} [Add F]

/-- `merge_vector`: `none` = `InputSizeMismatch` (the accumulator is left untouched) -/
def mergeVector (acc other : List F) : Option (List F) :=
  if acc.length ≠ other.length then none else some (List.zipWith (· + ·) acc other)

/-- `Aggregator::aggregate`: `aggregate_init` then `accumulate` each output share -/
def aggregate (init : List F) : List (List F) → Option (List F)
  | [] => some init
  | s :: rest =>
    match mergeVector init s with
    | none => none
    | some acc => aggregate acc rest

/-- `Poplar1FieldVec` -/
inductive FieldVec (FI FL : Type) where
  | inner (v : List FI)
  | leaf (v : List FL)
  deriving BEq, Repr

/-- `Poplar1FieldVec::merge` / `accumulate`: kind or length mismatch is an error -/
def FieldVec.merge {FI FL : Type} [Add FI] [Add FL] : FieldVec FI FL → FieldVec FI FL → Option (FieldVec FI FL)
  | .inner a, .inner b => (mergeVector a b).map .inner
  | .leaf a, .leaf b => (mergeVector a b).map .leaf
  | _, _ => none

/-- `Poplar1FieldVec::zero(is_leaf, len)` -/
def FieldVec.zero {FI FL : Type} [Zero FI] [Zero FL] (isLeaf : Bool) (len : Nat) : FieldVec FI FL :=
  if isLeaf then .leaf (List.replicate len 0) else .inner (List.replicate len 0)

/-- the `aggregate(is_leaf, len, shares)` helper behind `Poplar1::unshard`: the shares are added
    into a zero vector of the kind and length the aggregation parameter dictates -/
def FieldVec.aggregate {FI FL : Type} [Add FI] [Add FL] [Zero FI] [Zero FL] (isLeaf : Bool) (len : Nat) :
    List (FieldVec FI FL) → Option (FieldVec FI FL)
  | shares => shares.foldl (fun acc s => acc.bind fun a => FieldVec.merge a s) (some (FieldVec.zero isLeaf len))

/-- a schedule of merges: any tree whose leaves are output shares -/
inductive MergeTree (α : Type) where
  | leaf (s : α)
  | node (l r : MergeTree α)

def MergeTree.leaves {α : Type} : MergeTree α → List α
  | .leaf s => [s]
  | .node l r => l.leaves ++ r.leaves

def MergeTree.eval : MergeTree (List F) → Option (List F)
  | .leaf s => some s
  | .node l r =>
    match l.eval, r.eval with
    | some a, some b => mergeVector a b
    | _, _ => none

end Prio
