import PrioModel.Flp
import PrioModel.Prng
import PrioModel.FieldInst

/-! Prio2 (src/vdaf/prio2.rs, prio2/client.rs, prio2/server.rs) over the NTT model: proof
    construction, the verification message, the decision, the choice of the evaluation point, and
    the sharing between leader and helper.  The AES-CTR seed stream is a `Stream` parameter.
    Import-free. -/
namespace Prio.Prio2
open Prio.Ntt Prio.Flp

variable {F : Type} [Add F] [Sub F] [Mul F] [Neg F] [Zero F] [One F] [Inv F] [BEq F]

/-- `proof_length(dimension)` -/
def proofLength (dim : Nat) : Nat := dim + 3 + nextPow2 (dim + 1)

/-- `interpolate_and_evaluate_at_2n`: `ntt_inv` into a zeroed buffer of `2n`, then `ntt` of size `2n` -/
def interpolateAndEvaluateAt2n (C : FieldCtx F) (n : Nat) (points : Array F) : R (Array F) :=
  match nttInv C.root (Array.replicate (2 * n) 0) points n (C.ofNat n)⁻¹ with
  | .ok coeffs => nttInternal C.root (2 * n) (Array.replicate (2 * n) 0) coeffs (2 * n) false
  | .err e => .err e
  | .panic => .panic

def padTo (n : Nat) (l : List F) : List F := l ++ List.replicate (n - l.length) 0

/-- `ClientMemory::prove_with` / `construct_proof`: data ‖ f0 ‖ g0 ‖ h0 ‖ h at the odd points -/
def constructProof (C : FieldCtx F) (data : List F) (f0 g0 : F) : R (List F) :=
  let dim := data.length
  let n := nextPow2 (dim + 1)
  let pointsF := (padTo n (f0 :: data)).toArray
  let pointsG := (padTo n (g0 :: data.map (· - 1))).toArray
  match interpolateAndEvaluateAt2n C n pointsF, interpolateAndEvaluateAt2n C n pointsG with
  | .ok ef, .ok eg =>
    .ok (data ++ [f0, g0, f0 * g0] ++ (List.range n).map fun j => ef.getD (2 * j + 1) 0 * eg.getD (2 * j + 1) 0)
  | .err e, _ => .err e
  | .panic, _ => .panic
  | _, .err e => .err e
  | _, .panic => .panic

/-- the client's sharing: the leader gets the proof minus the helper's expansion of its seed -/
def leaderShare (proof helper : List F) : List F := List.zipWith (· - ·) proof helper

/-- `poly_interpret_eval(points, eval_at, tmp)`; `none` is the `unwrap()` panic on an NTT error -/
def polyInterpretEval (C : FieldCtx F) (points : Array F) (x : F) : Option F :=
  let n := points.size
  match nttInternal C.root n (Array.replicate n 0) points n false with
  | .ok c => some (polyEvalMonomial ((nttInvFinish c n (C.ofNat n)⁻¹).toList.take n) x)
  | _ => none

structure VerificationMessage (F : Type) where
  fR : F
  gR : F
  hR : F

/-- the points of `h` as the server lays them out: `h0`, then the packed odd-index evaluations, the
    even-index ones (the interpolation nodes of `f` and `g`) being **assumed zero** -/
def hPoints (h0 : F) (packed : List F) : List F :=
  match packed with
  | [] => [h0]
  | p0 :: rest => h0 :: p0 :: rest.flatMap fun x => [0, x]

/-- `generate_verification_message(dimension, eval_at, proof, is_first_server)` -/
def generateVerificationMessage (C : FieldCtx F) (dim : Nat) (evalAt : F) (proof : List F) (isFirst : Bool) :
    Flp.Res (VerificationMessage F) :=
  if proof.length ≠ proofLength dim then .err
  else
    let n := nextPow2 (dim + 1)
    let data := proof.take dim
    let f0 := proof.getD dim 0
    let g0 := proof.getD (dim + 1) 0
    let h0 := proof.getD (dim + 2) 0
    let packed := proof.drop (dim + 3)
    let inF := (padTo n (f0 :: data)).toArray
    let inG := (padTo n (g0 :: (if isFirst then data.map (· - 1) else data))).toArray
    let inH := (padTo (2 * n) (hPoints h0 packed)).toArray
    match polyInterpretEval C inF evalAt, polyInterpretEval C inG evalAt, polyInterpretEval C inH evalAt with
    | some f, some g, some h => .ok ⟨f, g, h⟩
    | _, _, _ => .panic

/-- `is_valid_share` -/
def isValidShare (v1 v2 : VerificationMessage F) : Bool :=
  (v1.fR + v2.fR) * (v1.gR + v2.gR) == v1.hR + v2.hR

/-- `Prio2::choose_eval_at`: draw until the point is not a `2n`-th root of unity.  `fuel` bounds the
    number of draws (the Rust loop is unbounded). -/
def chooseEvalAt (C : FieldCtx F) (S : Stream) (p mask sz : Nat) (inputLen : Nat) : Nat → PrngState → Option (F × PrngState)
  | 0, _ => none
  | fuel + 1, st =>
    match st.get S p mask sz 64 with
    | none => none
    | some (x, st') =>
      let e : F := C.ofNat x
      if fpow e (2 * nextPow2 (inputLen + 1)) != 1 then some (e, st') else chooseEvalAt C S p mask sz inputLen fuel st'

/-- `verify_init_with_query_rand`: verification message plus the truncated state share -/
def verifyInitWithQueryRand (C : FieldCtx F) (dim : Nat) (queryRand : F) (share : List F) (isLeader : Bool) :
    Flp.Res (VerificationMessage F × List F) :=
  match generateVerificationMessage C dim queryRand share isLeader with
  | .ok v => .ok (v, share.take dim)
  | .err => .err
  | .panic => .panic

end Prio.Prio2
