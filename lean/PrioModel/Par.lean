import PrioModel.Flp

/-! `ParallelSumMultithreaded::eval_poly` (src/flp/gadgets.rs): rayon's `par_chunks(..).try_fold(..)
    .try_reduce(..)`.  rayon may split the sequence of chunks into contiguous segments in any way (a
    binary split tree), folds each segment sequentially from a fresh identity state, and combines
    the segment results pairwise, in order, each side starting from the reduction identity.  A
    `Sched` is such a split tree; the schedule is chosen by the thread pool at run time, so the
    theorems quantify over all of them.  Import-free. -/
namespace Prio.Par

/-- a way rayon may split a sequence: process it sequentially, or split at position `k` -/
inductive Sched where
  | leaf
  | split (k : Nat) (l r : Sched)
  deriving Repr

section generic
variable {V C : Type} (add : V → V → V) (zero : V) (g : C → V)

/-- one thread's sequential fold over its segment, from a fresh accumulator -/
def foldSeg (cs : List C) : V := cs.foldl (fun acc c => add acc (g c)) zero

/-- the value computed under schedule `s` -/
def run : Sched → List C → V
  | .leaf, cs => add zero (foldSeg add zero g cs)            -- the reducer's folder starts at the identity
  | .split k l r, cs => add (run l (cs.take k)) (run r (cs.drop k))

/-- what the serial `ParallelSum::eval_poly` computes -/
def serial (cs : List C) : V := foldSeg add zero g cs

end generic

/-- addition lifted to fallible values: an error anywhere makes the whole computation fail -/
def oadd {V : Type} (add : V → V → V) : Option V → Option V → Option V
  | some a, some b => some (add a b)
  | _, _ => none

open Prio.Flp Prio.Ntt
variable {F : Type} [Add F] [Sub F] [Mul F] [Neg F] [Zero F] [One F] [Inv F] [BEq F]

/-- element-wise sum into a buffer of length `n` -/
def vaddN (n : Nat) (a b : Array F) : Array F := Array.ofFn (n := n) fun k => a.getD k.val 0 + b.getD k.val 0

/-- consecutive pairs of wire polynomials: the chunks handed to the inner `Mul` gadget -/
def pairs {α : Type} : List α → List (α × α)
  | a :: b :: rest => (a, b) :: pairs rest
  | _ => []

/-- the inner gadget on one chunk; `none` is an error of the inner `eval_poly` -/
def mulChunk (C : FieldCtx F) (outLen : Nat) (sizeInv : F) (ab : Array F × Array F) : Option (Array F) :=
  match ofR (polyMulLagrange C.root outLen ab.1 ab.2 sizeInv) with
  | .ok p => some p
  | _ => none

/-- `ParallelSumMultithreaded::eval_poly` under schedule `s` (same argument checks as the serial gadget) -/
def evalPolyMT (C : FieldCtx F) (chunks calls outLen : Nat) (s : Sched) (inp : List (Array F)) : Flp.Res (Array F) :=
  let g : Gadget F := ⟨.parallelSumMul chunks, calls⟩
  if inp.length ≠ g.arity ∨ inp.length = 0 then .err
  else
    let len0 := (inp.headD #[]).size
    if inp.any (fun w => w.size != len0) then .err
    else if outLen ≠ nextPow2 (gadgetPolyLen g.degree len0) then .err
    else
      let sizeInv := (C.ofNat len0)⁻¹
      match run (oadd (vaddN outLen)) (some (Array.replicate outLen 0)) (mulChunk C outLen sizeInv) s (pairs inp) with
      | some v => .ok v
      | none => .err

end Prio.Par
