import PrioModel.Idpf
import PrioModel.IdpfExec
import PrioModel.Prng
import PrioModel.Codec

/-! Poplar1 (src/vdaf/poplar1.rs): sharding (IDPF keys, authenticators, correlated randomness),
    `verify_init` (IDPF evaluation and the first-round sketch), the two combination rounds,
    `verify_next`, aggregation and unsharding — over an abstract XOF `(seed, dst, binder) ↦ stream`,
    the abstract IDPF PRGs of `PrioModel.Idpf`, and two fields given by their sampling parameters.
    Import-free. -/
namespace Prio.Poplar1
open Prio.Idpf

abbrev Bytes := List Nat
abbrev Xof := Bytes → Bytes → Bytes → Stream

/-- sampling parameters of a field: modulus, bit mask, encoded size -/
structure FieldP where
  p : Nat
  mask : Nat
  sz : Nat

structure Cfg where
  bits : Nat
  fi : FieldP
  fl : FieldP

def usageShard : Nat := 1
def usageCorrInner : Nat := 2
def usageCorrLeaf : Nat := 3
def usageVerify : Nat := 4

/-- `domain_separation_tag(usage)` (VERSION, class 0, algorithm id 6, usage) followed by the context -/
def dst (usage : Nat) (ctx : Bytes) : Bytes := [18, 0] ++ beBytes 6 4 ++ beBytes usage 2 ++ ctx

/-- a `Prng` over one seed stream -/
structure Rng where
  S : Stream
  st : PrngState

/-- `init_prng(seed, usage, ctx, binder)` for a field of encoded size `sz` -/
def Rng.init (xof : Xof) (seed : Bytes) (usage : Nat) (ctx binder : Bytes) (sz : Nat) : Rng :=
  let S := xof seed (dst usage ctx) binder
  ⟨S, PrngState.init S sz 0⟩

/-- `Prng::get` in the field `fp` (`into_new_field` is the same state read with another `fp`);
    `none` = the rejection loop did not end within the fuel -/
def Rng.get (g : Rng) (fp : FieldP) : Option (Nat × Rng) :=
  match g.st.get g.S fp.p fp.mask fp.sz 16 with
  | some (x, st) => some (x, ⟨g.S, st⟩)
  | none => none

def Rng.take (g : Rng) (fp : FieldP) : Nat → Option (List Nat × Rng)
  | 0 => some ([], g)
  | n + 1 =>
    match g.get fp with
    | none => none
    | some (x, g') =>
      match Rng.take g' fp n with
      | none => none
      | some (xs, g'') => some (x :: xs, g'')

/-- `Result` plus panic -/
inductive Res (α : Type) where
  | ok (a : α)
  | err
  | panic
  deriving Repr

section field
variable {F : Type} [Add F] [Sub F] [Mul F] [Neg F] [Zero F] [One F] [BEq F]

/-- `compute_next_corr_shares`: (corr_0, corr_1) and the three advanced generators -/
def nextCorrShares (ofNat : Nat → F) (fp : FieldP) (prng c0 c1 : Rng) (auth : F) :
    Option ((F × F) × (F × F) × Rng × Rng × Rng) := do
  let (a0, c0) ← c0.get fp
  let (a1, c1) ← c1.get fp
  let (b0, c0) ← c0.get fp
  let (b1, c1) ← c1.get fp
  let (d0, c0) ← c0.get fp
  let (d1, c1) ← c1.get fp
  let a : F := ofNat a0 + ofNat a1
  let b : F := ofNat b0 + ofNat b1
  let c : F := ofNat d0 + ofNat d1
  let two : F := 1 + 1
  let A := -two * a + auth
  let B := a * a + b - a * auth + c
  let (x, prng) ← prng.get fp
  let (y, prng) ← prng.get fp
  let corr1 : F × F := (ofNat x, ofNat y)
  pure ((A - corr1.1, B - corr1.2), corr1, prng, c0, c1)

/-- `finish_sketch` -/
def finishSketch (sketch : F × F × F) (aShare bShare : F) (isLeader : Bool) : F :=
  let s := aShare * sketch.1 + bShare
  if isLeader then s else s + (sketch.1 * sketch.1 - sketch.2.1 - sketch.2.2)

/-- `next_message(share_0, share_1)`: `ok none` = sketch verified, `ok (some s)` = first round done -/
def nextMessage (s0 s1 : List F) : Res (Option (F × F × F)) :=
  if s0.length ≠ s1.length then .err
  else
    let s := List.zipWith (· + ·) s0 s1
    match s with
    | [x] => if x == 0 then .ok none else .err
    | [x, y, z] => .ok (some (x, y, z))
    | _ => .err

/-- the sketch loop of `eval_and_sketch` over the already evaluated IDPF shares `(data, auth)` and
    the verification randomness `rs` -/
def sketchLoop (init : F × F × F) (shares : List (Pair F)) (rs : List F) : F × F × F :=
  (List.zip shares rs).foldl (fun (st : F × F × F) (sr : Pair F × F) =>
    let checked := sr.1.a * sr.2
    (st.1 + checked, st.2.1 + checked * sr.2, st.2.2 + sr.1.b * sr.2)) init

end field

/-! ### messages -/

structure InputShare (FI FL : Type) where
  idpfKey : Bytes
  corrSeed : Bytes
  corrInner : List (FI × FI)
  corrLeaf : FL × FL

inductive FieldVec (FI FL : Type) where
  | inner (v : List FI)
  | leaf (v : List FL)

inductive Sketch (F : Type) where
  | roundOne (aShare bShare : F) (isLeader : Bool)
  | roundTwo

inductive State (FI FL : Type) where
  | inner (sk : Sketch FI) (out : List FI)
  | leaf (sk : Sketch FL) (out : List FL)

inductive Message (FI FL : Type) where
  | sketchInner (s : FI × FI × FI)
  | sketchLeaf (s : FL × FL × FL)
  | done

structure AggParam where
  level : Nat
  prefixes : List (List Bool)

section protocol
variable {FI FL : Type}
  [Add FI] [Sub FI] [Mul FI] [Neg FI] [Zero FI] [One FI] [BEq FI]
  [Add FL] [Sub FL] [Mul FL] [Neg FL] [Zero FL] [One FL] [BEq FL]

abbrev PubShare (FI FL : Type) := PublicShare Bytes (Pair FI) (Pair FL)

/-- the inner-level loop of `shard_with_random`: correlated randomness for each authenticator -/
def corrInnerLoop (ofI : Nat → FI) (fp : FieldP) :
    List FI → Rng → Rng → Rng → Option (List (FI × FI) × List (FI × FI) × Rng)
  | [], prng, _, _ => some ([], [], prng)
  | auth :: rest, prng, c0, c1 =>
    match nextCorrShares ofI fp prng c0 c1 auth with
    | none => none
    | some (x0, x1, prng, c0, c1) =>
      match corrInnerLoop ofI fp rest prng c0 c1 with
      | none => none
      | some (l0, l1, prng) => some (x0 :: l0, x1 :: l1, prng)

/-- `shard_with_random`: `idpfRandom` = the two IDPF keys, `pr0 pr1 pr2` = `poplar_random` -/
def shard (cfg : Cfg) (ofI : Nat → FI) (ofL : Nat → FL) (xof : Xof)
    (gI : Prg Bytes (Pair FI)) (gL : Prg Bytes (Pair FL))
    (ctx : Bytes) (input : List Bool) (nonce k0 k1 pr0 pr1 pr2 : Bytes) :
    Res (PubShare FI FL × InputShare FI FL × InputShare FI FL) :=
  if input.length ≠ cfg.bits then .err
  else if cfg.bits = 0 then .err
  else
    let prng := Rng.init xof pr2 usageShard ctx nonce cfg.fi.sz
    match prng.take cfg.fi (cfg.bits - 1) with
    | none => .panic
    | some (authsN, prng) =>
      let auths : List FI := authsN.map ofI
      match prng.get cfg.fl with
      | none => .panic
      | some (authLeafN, prng) =>
        let authLeaf : FL := ofL authLeafN
        match gen gI gL input (auths.map fun a => ⟨1, a⟩) ⟨1, authLeaf⟩ k0 k1 with
        | none => .err
        | some pub =>
          let c0 := Rng.init xof pr0 usageCorrInner ctx ([0] ++ nonce) cfg.fi.sz
          let c1 := Rng.init xof pr1 usageCorrInner ctx ([1] ++ nonce) cfg.fi.sz
          match corrInnerLoop ofI cfg.fi auths prng c0 c1 with
          | none => .panic
          | some (ci0, ci1, prng) =>
            let l0 := Rng.init xof pr0 usageCorrLeaf ctx ([0] ++ nonce) cfg.fl.sz
            let l1 := Rng.init xof pr1 usageCorrLeaf ctx ([1] ++ nonce) cfg.fl.sz
            match nextCorrShares ofL cfg.fl prng l0 l1 authLeaf with
            | none => .panic
            | some (cl0, cl1, _, _, _) =>
              .ok (pub, ⟨k0, pr0, ci0, cl0⟩, ⟨k1, pr1, ci1, cl1⟩)

/-- IDPF evaluation of every prefix with a ring-buffer cache of capacity `prefixes.len()` -/
def evalPrefixes (gI : Prg Bytes (Pair FI)) (gL : Prg Bytes (Pair FL)) (aggId : Nat) (pub : PubShare FI FL)
    (key : Bytes) (cap : Nat) :
    List (List Bool) → List (List Bool × Node Bytes) → Res (List (Output (Pair FI) (Pair FL)))
  | [], _ => .ok []
  | p :: rest, c =>
    match eval (ringBufferCache cap) gI gL aggId pub key p c with
    | (.ok o, c') =>
      match evalPrefixes gI gL aggId pub key cap rest c' with
      | .ok os => .ok (o :: os)
      | .err => .err
      | .panic => .panic
    | (.error, _) => .err
    | (.panic, _) => .panic

def innerOnly : List (Output (Pair FI) (Pair FL)) → Option (List (Pair FI))
  | [] => some []
  | .inner v :: r => (innerOnly r).map (v :: ·)
  | .leaf _ :: _ => none

def leafOnly : List (Output (Pair FI) (Pair FL)) → Option (List (Pair FL))
  | [] => some []
  | .leaf v :: r => (leafOnly r).map (v :: ·)
  | .inner _ :: _ => none

/-- `verify_init` -/
def verifyInit (cfg : Cfg) (ofI : Nat → FI) (ofL : Nat → FL) (xof : Xof)
    (gI : Prg Bytes (Pair FI)) (gL : Prg Bytes (Pair FL))
    (verifyKey ctx : Bytes) (aggId : Nat) (ap : AggParam) (nonce : Bytes)
    (pub : PubShare FI FL) (share : InputShare FI FL) : Res (State FI FL × FieldVec FI FL) :=
  if aggId > 1 then .err
  else if pub.inner.length + 1 ≠ cfg.bits ∨ share.corrInner.length + 1 ≠ cfg.bits then .err
  else
    let isLeader := aggId == 0
    let binderV := nonce ++ beBytes ap.level 2
    if ap.level + 1 < cfg.bits then
      let corr := Rng.init xof share.corrSeed usageCorrInner ctx ([aggId] ++ nonce) cfg.fi.sz
      match corr.take cfg.fi (3 * ap.level) with
      | none => .panic
      | some (_, corr) =>
        let vprng := Rng.init xof verifyKey usageVerify ctx binderV cfg.fi.sz
        match corr.take cfg.fi 3 with
        | some ([a, b, c], _) =>
          match evalPrefixes gI gL aggId pub share.idpfKey ap.prefixes.length ap.prefixes [] with
          | .err => .err
          | .panic => .panic
          | .ok outs =>
            match innerOnly outs with
            | none => .panic                       -- leaf share converted into the inner field
            | some vals =>
              match vprng.take cfg.fi vals.length with
              | none => .panic
              | some (rs, _) =>
                let sk := sketchLoop (ofI a, ofI b, ofI c) vals (rs.map ofI)
                match share.corrInner[ap.level]? with
                | none => .panic
                | some (aS, bS) =>
                  .ok (.inner (.roundOne aS bS isLeader) (vals.map (·.a)), .inner [sk.1, sk.2.1, sk.2.2])
        | _ => .panic
    else
      let corr := Rng.init xof share.corrSeed usageCorrLeaf ctx ([aggId] ++ nonce) cfg.fl.sz
      let vprng := Rng.init xof verifyKey usageVerify ctx binderV cfg.fl.sz
      match corr.take cfg.fl 3 with
      | some ([a, b, c], _) =>
        match evalPrefixes gI gL aggId pub share.idpfKey ap.prefixes.length ap.prefixes [] with
        | .err => .err
        | .panic => .panic
        | .ok outs =>
          match leafOnly outs with
          | none => .panic
          | some vals =>
            match vprng.take cfg.fl vals.length with
            | none => .panic
            | some (rs, _) =>
              let sk := sketchLoop (ofL a, ofL b, ofL c) vals (rs.map ofL)
              .ok (.leaf (.roundOne share.corrLeaf.1 share.corrLeaf.2 isLeader) (vals.map (·.a)),
                   .leaf [sk.1, sk.2.1, sk.2.2])
      | _ => .panic

/-- `verifier_shares_to_message` -/
def sharesToMessage (shares : List (FieldVec FI FL)) : Res (Message FI FL) :=
  match shares with
  | [.inner a, .inner b] =>
    match nextMessage a b with
    | .ok none => .ok .done
    | .ok (some s) => .ok (.sketchInner s)
    | .err => .err
    | .panic => .panic
  | [.leaf a, .leaf b] =>
    match nextMessage a b with
    | .ok none => .ok .done
    | .ok (some s) => .ok (.sketchLeaf s)
    | .err => .err
    | .panic => .panic
  | _ => .err

inductive Transition (FI FL : Type) where
  | continue (st : State FI FL) (share : FieldVec FI FL)
  | finish (out : FieldVec FI FL)

/-- `verify_next` -/
def verifyNext (st : State FI FL) (msg : Message FI FL) : Res (Transition FI FL) :=
  match st, msg with
  | .inner (.roundOne a b l) out, .sketchInner s => .ok (.continue (.inner .roundTwo out) (.inner [finishSketch s a b l]))
  | .leaf (.roundOne a b l) out, .sketchLeaf s => .ok (.continue (.leaf .roundTwo out) (.leaf [finishSketch s a b l]))
  | .inner .roundTwo out, .done => .ok (.finish (.inner out))
  | .leaf .roundTwo out, .done => .ok (.finish (.leaf out))
  | _, _ => .err

end protocol

end Prio.Poplar1
