import PrioModel.Idpf
import PrioModel.FieldInst

/-! Executable instance of the IDPF model for Poplar1: 16-byte seeds, payloads = pairs of field
    elements, PRGs given by a table recorded from the real run.  Import-free. -/
namespace Prio.Idpf

instance : XorLike (List Nat) := ⟨List.zipWith Nat.xor⟩

/-- `Poplar1IdpfValue<F>`: two field elements, componentwise arithmetic -/
structure Pair (F : Type) where
  a : F
  b : F
  deriving BEq, Repr

instance {F : Type} [Add F] : Add (Pair F) := ⟨fun x y => ⟨x.a + y.a, x.b + y.b⟩⟩
instance {F : Type} [Sub F] : Sub (Pair F) := ⟨fun x y => ⟨x.a - y.a, x.b - y.b⟩⟩
instance {F : Type} [Neg F] : Neg (Pair F) := ⟨fun x => ⟨-x.a, -x.b⟩⟩
instance {F : Type} [Zero F] : Zero (Pair F) := ⟨⟨0, 0⟩⟩

/-- one recorded PRG call: kind (0 extend, 1 convert), leaf mode, input seed, output bytes -/
structure PrgEntry where
  kind : Nat
  leaf : Bool
  seed : List Nat
  out : List Nat

def lookup (tbl : Array PrgEntry) (kind : Nat) (leaf : Bool) (seed : List Nat) : Option (List Nat) :=
  (tbl.find? fun e => e.kind == kind && e.leaf == leaf && e.seed == seed).map (·.out)

def missingSeed : List Nat := [999]

def decodePair (q sz : Nat) (bs : List Nat) : Pair (Fin (q + 1)) :=
  match decodeFieldVec q sz bs with
  | some [x, y] => ⟨x, y⟩
  | _ => ⟨0, 0⟩

/-- the PRG of one mode (inner / leaf) as recorded -/
def tablePrg (tbl : Array PrgEntry) (leaf : Bool) (q sz : Nat) : Prg (List Nat) (Pair (Fin (q + 1))) where
  extend s :=
    match lookup tbl 0 leaf s with
    | some out => ((out.take 16, out.getD 16 0 != 0), ((out.drop 17).take 16, out.getD 33 0 != 0))
    | none => ((missingSeed, false), (missingSeed, false))
  convert s :=
    match lookup tbl 1 leaf s with
    | some out => (out.take 16, decodePair q sz (out.drop 16))
    | none => (missingSeed, ⟨0, 0⟩)

def encodePair {q : Nat} (sz : Nat) (p : Pair (Fin (q + 1))) : List Nat :=
  leBytesC p.a.val sz ++ leBytesC p.b.val sz

/-- `IdpfPublicShare::encode` -/
def encodePublicShare {qi ql : Nat} (szi szl : Nat)
    (ps : PublicShare (List Nat) (Pair (Fin (qi + 1))) (Pair (Fin (ql + 1)))) : List Nat :=
  let bits := ps.inner.length + 1
  let cbs := (ps.inner.flatMap fun cw => [cw.cbL, cw.cbR]) ++ [ps.leaf.cbL, ps.leaf.cbR]
  packBits false ((2 * bits + 7) / 8) cbs
    ++ (ps.inner.flatMap fun cw => cw.seed) ++ ps.leaf.seed
    ++ (ps.inner.flatMap fun cw => encodePair szi cw.value) ++ encodePair szl ps.leaf.value

/-! ### payloads that are single field elements (the blanket `IdpfValue` of src/idpf.rs) -/

def decodeOne (q sz : Nat) (bs : List Nat) : Fin (q + 1) :=
  match decodeFieldVec q sz bs with
  | some [x] => x
  | _ => 0

def tablePrg1 (tbl : Array PrgEntry) (leaf : Bool) (q sz : Nat) : Prg (List Nat) (Fin (q + 1)) where
  extend s :=
    match lookup tbl 0 leaf s with
    | some out => ((out.take 16, out.getD 16 0 != 0), ((out.drop 17).take 16, out.getD 33 0 != 0))
    | none => ((missingSeed, false), (missingSeed, false))
  convert s :=
    match lookup tbl 1 leaf s with
    | some out => (out.take 16, decodeOne q sz (out.drop 16))
    | none => (missingSeed, 0)

def encodePublicShare1 {qi ql : Nat} (szi szl : Nat)
    (ps : PublicShare (List Nat) (Fin (qi + 1)) (Fin (ql + 1))) : List Nat :=
  let bits := ps.inner.length + 1
  let cbs := (ps.inner.flatMap fun cw => [cw.cbL, cw.cbR]) ++ [ps.leaf.cbL, ps.leaf.cbR]
  packBits false ((2 * bits + 7) / 8) cbs
    ++ (ps.inner.flatMap fun cw => cw.seed) ++ ps.leaf.seed
    ++ (ps.inner.flatMap fun cw => leBytesC cw.value.val szi) ++ leBytesC ps.leaf.value.val szl

end Prio.Idpf
