import PrioModel.Ntt

/-! The remaining routines of `src/polynomial.rs`.  Import-free. -/
namespace Prio.Ntt

variable {F : Type} [Add F] [Sub F] [Mul F] [Neg F] [Zero F] [One F] [Inv F] [BEq F]

/-- `poly_deg` -/
def polyDeg (p : List F) : Nat :=
  let rec go : List F → Nat      -- on the reversed list: drop leading zeros, count the rest
    | [] => 0
    | c :: cs => if c == 0 then go cs else (c :: cs).length
  (go p.reverse) - 1

/-- `poly_mul_monomial` -/
def polyMulMonomial (p q : List F) : List F :=
  let ps := polyDeg p + 1
  let qs := polyDeg q + 1
  let out : Array F := Array.replicate (ps + qs) 0
  let out := (List.range ps).foldl (fun (o : Array F) i =>
    (List.range qs).foldl (fun (o : Array F) j =>
      o.setIfInBounds (i + j) (o.getD (i + j) 0 + p.getD i 0 * q.getD j 0)) o) out
  out.toList.take (polyDeg out.toList + 1)

/-- `poly_range_check(start, end)`: the monic polynomial with roots `start..end`; `ofNat` is `F::from` -/
def polyRangeCheck (ofNat : Nat → F) (start stop : Nat) : List F :=
  (List.range (stop - start)).foldl (fun p k => polyMulMonomial p [-(ofNat (start + k)), 1]) [1]

/-- `extend_values_to_power_of_2(polynomial, num_values)` with `root_powers = nth_root_powers(len)` -/
def extendValues (rootPowers : Array F) (poly : Array F) (numValues : Nat) : Array F :=
  let n := poly.size
  let w : Array F := Array.replicate n 0
  let w := (List.range numValues).foldl (fun (w : Array F) i =>
    w.setIfInBounds i ((List.range numValues).foldl (fun acc j =>
      if i != j then acc * (rootPowers.getD i 0 - rootPowers.getD j 0) else acc) 1)) w
  let (_, poly) := (List.range (n - numValues)).foldl (fun (st : Array F × Array F) t =>
    let k := numValues + t
    let (w, poly) := st
    let w := (List.range k).foldl (fun (w : Array F) i =>
      w.setIfInBounds i (w.getD i 0 * (rootPowers.getD i 0 - rootPowers.getD k 0))) w
    let (num, den) := (List.range k).foldl (fun (nd : F × F) i =>
      let (num, den) := nd
      (num * w.getD i 0 + den * poly.getD i 0, den * w.getD i 0)) ((0 : F), (1 : F))
    let wk := (List.range k).foldl (fun acc j => acc * (rootPowers.getD k 0 - rootPowers.getD j 0)) (1 : F)
    let w := w.setIfInBounds k wk
    (w, poly.setIfInBounds k (-wk * num * den⁻¹))) (w, poly)
  poly

/-- `double_evaluations(output, evaluations)`; `sizeInv = F::from(len).inv()`.  Returns the new
    `output` (length `2 * len`). -/
def doubleEvaluations (root : Nat → Option F) (outLen : Nat) (evals : Array F) (sizeInv : F) : R (Array F) :=
  let n := evals.size
  if n = 0 ∨ 2 ^ Nat.log2 n ≠ n then .err .sizeInvalid
  else if outLen ≠ 2 * n then .err .sizeInvalid
  else
    match nttInv root (Array.replicate n 0) evals n sizeInv with
    | .ok front =>
      match nttInternal root n (Array.replicate n 0) front n true with
      | .ok back =>
        .ok (Array.ofFn (n := 2 * n) fun k => if k.val % 2 = 0 then evals.getD (k.val / 2) 0 else back.getD (k.val / 2) 0)
      | .err e => .err e
      | .panic => .panic
    | .err e => .err e
    | .panic => .panic

/-- `poly_mul_lagrange(output, p, q)` -/
def polyMulLagrange (root : Nat → Option F) (outLen : Nat) (p q : Array F) (sizeInv : F) : R (Array F) :=
  if p.size ≠ q.size then .panic
  else if p.size = 0 ∨ 2 ^ Nat.log2 p.size ≠ p.size then .panic
  else
    match doubleEvaluations root outLen p sizeInv with
    | .ok pp =>
      match doubleEvaluations root (2 * q.size) q sizeInv with
      | .ok qq => .ok (Array.ofFn (n := pp.size) fun k => pp.getD k.val 0 * qq.getD k.val 0)
      | .err e => .err e
      | .panic => .panic
    | .err e => .err e
    | .panic => .panic

end Prio.Ntt
