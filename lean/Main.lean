import PrioModel.Field
import PrioModel.Messages
import PrioModel.AggParam
import PrioModel.FieldInst
import PrioModel.Agg
import PrioModel.Prng
import PrioModel.TraceVdaf
import PrioModel.IdpfExec
import PrioModel.Poly
import PrioModel.Flp
import PrioModel.FieldCtxInst
import PrioModel.Prio3
import PrioModel.Ctor
import PrioModel.Par
import PrioModel.Prio2
import PrioModel.Poplar1
import PrioModel.Dp

/-! Line-protocol driver: one request per line on stdin, one answer per line on stdout. -/
open Prio

def natArgs (xs : List String) : Option (List Nat) := xs.mapM String.toNat?

def hexDigit (c : Char) : Option Nat :=
  if '0' ≤ c ∧ c ≤ '9' then some (c.toNat - '0'.toNat)
  else if 'a' ≤ c ∧ c ≤ 'f' then some (c.toNat - 'a'.toNat + 10)
  else none

def parseHex (s : String) : Option (List Nat) :=
  let rec go : List Char → Option (List Nat)
    | [] => some []
    | [_] => none
    | a :: b :: rest => do
      let x ← hexDigit a
      let y ← hexDigit b
      let r ← go rest
      pure ((16 * x + y) :: r)
  if s == "-" then some [] else go s.toList

def toHex (bs : List Nat) : String :=
  if bs.isEmpty then "-" else
  let d (n : Nat) : Char := if n < 10 then Char.ofNat (48 + n) else Char.ofNat (87 + n)
  String.ofList (bs.flatMap fun b => [d (b / 16 % 16), d (b % 16)])

def handleFp (args : List String) : String :=
  match args with
  | field :: op :: rest =>
    match findParams field, natArgs rest with
    | some P, some [x, y] =>
      match op with
      | "add" => toString (P.add x y)
      | "sub" => toString (P.sub x y)
      | "mul" => toString (P.mul x y)
      | "neg" => toString (P.neg x)
      | "modp" => toString (P.modp x)
      | "pow" => toString (P.pow x y)
      | "inv" => toString (P.inv x)
      | "montgomery" => toString (P.montgomery x)
      | "residue" => toString (P.residue x)
      | _ => "bad-op"
    | _, _ => "bad-op"
  | _ => "bad-op"

/-- public field API (`make_field!` types): integers in, integers out -/
def handleFe (args : List String) : String :=
  match args with
  | field :: op :: rest =>
    match findParams field, natArgs rest with
    | some P, some [x, y] =>
      let a := P.montgomery x
      let b := P.montgomery y
      match op with
      | "add" => toString (P.residue (P.add a b))
      | "sub" => toString (P.residue (P.sub a b))
      | "mul" => toString (P.residue (P.mul a b))
      | "neg" => toString (P.residue (P.neg a))
      | "inv" => toString (P.residue (P.inv a))
      | "pow" => toString (P.residue (P.pow a y))
      | "enc" => toHex (P.toBytes (P.bits / 8) a)
      | _ => "bad-op"
    | _, _ => "bad-op"
  | _ => "bad-op"

def handleFeDec (mask : Gen.FpParams → Nat) (args : List String) : String :=
  match args with
  | [field, h] =>
    match findParams field, parseHex h with
    | some P, some bytes =>
      match P.tryFromBytes (P.bits / 8) bytes (mask P) with
      | some a => toString (P.residue a)
      | none => "err"
    | _, _ => "bad-op"
  | _ => "bad-op"

/-- wire format named by the words after `dec`; the last word is the hex input -/
def msgFmt (ws : List String) : Option Fmt :=
  open Msg in
  let b (s : String) : Bool := s == "1"
  match ws with
  | ["u", n] => n.toNat?.map Fmt.uint
  | ["felem", f] => (fieldSpec f).map felem
  | ["seed", n] => n.toNat?.map seed
  | ["fvec", f, n] => do pure (fvec (← fieldSpec f) (← n.toNat?))
  | ["p3pub", ss, na, jr] => do pure (prio3PublicShare (← ss.toNat?) (← na.toNat?) (← jr.toNat?))
  | ["p3in", f, ss, na, id, il, pl, jr] => do
    pure (prio3InputShare (← fieldSpec f) (← ss.toNat?) (← na.toNat?) (← id.toNat?) (← il.toNat?) (← pl.toNat?) (← jr.toNat?))
  | ["p3st", f, ss, na, id, ol, jr] => do
    pure (prio3VerifyState (← fieldSpec f) (← ss.toNat?) (← na.toNat?) (← id.toNat?) (← ol.toNat?) (← jr.toNat?))
  | ["p3vs", f, ss, vl, hj] => do pure (prio3VerifierShare (← fieldSpec f) (← ss.toNat?) (← vl.toNat?) (b hj))
  | ["p3vm", ss, hj] => do pure (prio3VerifierMessage (← ss.toNat?) (b hj))
  | ["p2st", id, il] => do pure (prio2VerifyState (← fieldSpec "FP32") (← id.toNat?) (← il.toNat?))
  | ["p2in", id, pl] => do pure (prio2InputShare (← fieldSpec "FP32") (← id.toNat?) (← pl.toNat?))
  | ["p2vs"] => do pure (prio2VerifierShare (← fieldSpec "FP32"))
  | ["idpfpub", bits] => do pure (idpfPublicShare (← fieldSpec "FP64") (← fieldSpec "F255") (← bits.toNat?) false)
  | ["pop1in", ss, bits] => do
    pure (poplar1InputShare (← fieldSpec "FP64") (← fieldSpec "F255") (← ss.toNat?) (← bits.toNat?) false)
  | ["pop1st"] => do pure (poplar1VerifyState (← fieldSpec "FP64") (← fieldSpec "F255"))
  | ["pop1vm", leaf, r2] => do pure (poplar1VerifierMessage (← fieldSpec "FP64") (← fieldSpec "F255") (b leaf) (b r2))
  | ["pop1vs", leaf, r2] => do pure (poplar1VerifierShare (← fieldSpec "FP64") (← fieldSpec "F255") (b leaf) (b r2))
  | ["pop1cont"] => do pure (poplar1Continuation (← fieldSpec "FP64") (← fieldSpec "F255"))
  | ["pop1agg"] => some (poplar1AggParam false)
  | ["ppmsg"] => some pingPongMessage
  | _ => none

def handleDec (args : List String) : String :=
  match args.reverse with
  | h :: revFmt =>
    match msgFmt revFmt.reverse, parseHex h with
    | some f, some bytes =>
      match getDecoded f bytes with
      | .ok v => "ok " ++ toHex (encode f v)
      | .err => "err"
      | .panic => "panic"
    | _, _ => "bad-op"
  | [] => "bad-op"

/-- the Rust `encoded_len()` formulas of the message types whose length is not a plain product -/
def handleEncLen (args : List String) : String :=
  let some' (n : Nat) := s!"Some({n})"
  match args with
  | ["pop1in", ss, inner] =>
    match ss.toNat?, inner.toNat? with
    | some s, some i => some' (Msg.poplar1InputShareLen 16 s i)
    | _, _ => "bad-op"
  | ["pop1agg", level, n] =>
    match level.toNat?, n.toNat? with
    | some l, some k => some' (Msg.poplar1AggParamLen l k)
    | _, _ => "bad-op"
  | ["idpfpub", bits] =>
    match bits.toNat? with
    | some b => some' (Msg.idpfPublicShareLen b)
    | _ => "bad-op"
  | _ => "bad-op"

def parseBits (s : String) : Option (List Bool) :=
  if s == "e" then some [] else
  s.toList.mapM fun c => if c == '0' then some false else if c == '1' then some true else none

def parsePrefixes (s : String) : Option (List (List Bool)) :=
  if s == "none" then some [] else (s.splitOn ",").mapM parseBits

def parseParam (s : String) : Option AggParam := do
  match AggParam.tryFromPrefixes (← parsePrefixes s) with
  | .ok a => some a
  | _ => none

def handleAggCtor (args : List String) : String :=
  match args with
  | [ps] =>
    match parsePrefixes ps with
    | some l =>
      match AggParam.tryFromPrefixes l with
      | .ok a => s!"ok {a.level} {toHex a.encode}"
      | .err => "err"
      | .panic => "panic"
    | none => "bad-op"
  | _ => "bad-op"

def handleAggValid (args : List String) : String :=
  match args with
  | cur :: prev =>
    match parseParam cur, prev.mapM parseParam with
    | some c, some p => toString (c.isValid p)
    | _, _ => "bad-op"
  | [] => "bad-op"

/-- run `k` at the executable instance `Fin (q+1)` of the named field -/
def withField (name : String) (k : (q : Nat) → (sz : Nat) → String) : String :=
  match Msg.fieldSpec name with
  | some F => match F.p with
    | 0 => "bad-op"
    | q + 1 => k q F.sz
  | none => "bad-op"

def hexVec (q sz : Nat) (h : String) : Option (List (Fin (q + 1))) := do
  decodeFieldVec q sz (← parseHex h)

def showVec {q : Nat} (sz : Nat) (r : Option (List (Fin (q + 1)))) : String :=
  match r with
  | some v => "ok " ++ toHex (encodeFieldVec sz v)
  | none => "err"

def handleMerge (args : List String) : String :=
  match args with
  | [f, a, b] => withField f fun q sz =>
    match hexVec q sz a, hexVec q sz b with
    | some x, some y => showVec sz (mergeVector x y)
    | _, _ => "bad-op"
  | _ => "bad-op"

def handleAgg (args : List String) : String :=
  match args with
  | f :: init :: shares => withField f fun q sz =>
    match hexVec q sz init, shares.mapM (hexVec q sz) with
    | some i, some ss => showVec sz (aggregate i ss)
    | _, _ => "bad-op"
  | _ => "bad-op"

def handleFvMerge (args : List String) : String :=
  match args with
  | [ka, a, kb, b] =>
    withField "FP64" fun qi szi => withField "F255" fun ql szl =>
      let mk (k h : String) : Option (FieldVec (Fin (qi + 1)) (Fin (ql + 1))) :=
        if k == "I" then (hexVec qi szi h).map .inner else (hexVec ql szl h).map .leaf
      match mk ka a, mk kb b with
      | some x, some y =>
        match FieldVec.merge x y with
        | some (.inner v) => "ok I " ++ toHex (encodeFieldVec szi v)
        | some (.leaf v) => "ok L " ++ toHex (encodeFieldVec szl v)
        | none => "err"
      | _, _ => "bad-op"
  | _ => "bad-op"

/-- `Poplar1::unshard`: counts as integers (leaf values must fit in 64 bits) -/
def handlePopUnshard (args : List String) : String :=
  match args with
  | kind :: len :: shares =>
    withField "FP64" fun qi szi => withField "F255" fun ql szl =>
      let dec (h : String) : Option (FieldVec (Fin (qi + 1)) (Fin (ql + 1))) :=
        match h.splitOn ":" with
        | ["I", x] => (hexVec qi szi x).map .inner
        | ["L", x] => (hexVec ql szl x).map .leaf
        | _ => none
      match len.toNat?, (if shares == ["-"] then some [] else shares.mapM dec) with
      | some n, some shs =>
        match FieldVec.aggregate (kind == "L") n shs with
        | some (.inner v) => "ok " ++ ",".intercalate (v.map fun x => toString x.val)
        | some (.leaf v) => if v.all (fun x => x.val < 2 ^ 64) then "ok " ++ ",".intercalate (v.map fun x => toString x.val) else "err"
        | none => "err"
      | _, _ => "bad-op"
  | _ => "bad-op"

/-- a recorded byte tape as a stream; positions beyond the tape read as zero -/
def tapeStream (tape : List Nat) : Stream :=
  let a := tape.toArray
  fun i => a.getD i 0

/-- sampling mask of a field: `2^bitlen(p) - 1` -/
def fieldMask (name : String) : Nat :=
  match name with
  | "FP32" => 2 ^ 32 - 1
  | "FP64" => 2 ^ 64 - 1
  | "FP128" => 2 ^ 128 - 1
  | _ => 2 ^ 255 - 1

def elemsHex (sz : Nat) (xs : List Nat) : String := toHex (xs.flatMap fun x => leBytesC x sz)

def parseParts (s : String) : Option (List (List Nat)) :=
  if s == "none" then some [] else (s.splitOn ",").mapM parseHex

def handlePrng (args : List String) : String :=
  match args with
  | [f, n, tape] =>
    match Msg.fieldSpec f, n.toNat?, parseHex tape with
    | some F, some n, some t =>
      match intoFieldVec (tapeStream t) F.p (fieldMask f) F.sz (t.length + 4) n with
      | some (xs, st) => s!"{elemsHex F.sz xs} {st.pos}"
      | none => "diverges"
    | _, _, _ => "bad-op"
  | _ => "bad-op"

def handlePrng2 (args : List String) : String :=
  match args with
  | [n1, n2, tape] =>
    match Msg.fieldSpec "FP64", Msg.fieldSpec "F255", n1.toNat?, n2.toNat?, parseHex tape with
    | some F1, some F2, some n1, some n2, some t =>
      let S := tapeStream t
      match intoFieldVec S F1.p (fieldMask "FP64") F1.sz (t.length + 4) n1 with
      | some (xs, st) =>
        match st.take S F2.p (fieldMask "F255") F2.sz (t.length + 4) n2 with
        | some (ys, st') => s!"{elemsHex F1.sz xs} {elemsHex F2.sz ys} {st'.pos}"
        | none => "diverges"
      | none => "diverges"
    | _, _, _, _, _ => "bad-op"
  | _ => "bad-op"

def genRandLoop (S : Stream) (p mask sz fuel : Nat) : Nat → Nat → List Nat → Option (List Nat × Nat)
  | 0, pos, acc => some (acc.reverse, pos)
  | n + 1, pos, acc =>
    match generateRandom S p mask sz fuel pos with
    | some (x, pos') => genRandLoop S p mask sz fuel n pos' (x :: acc)
    | none => none

def handleGenRand (args : List String) : String :=
  match args with
  | [f, n, tape] =>
    match Msg.fieldSpec f, n.toNat?, parseHex tape with
    | some F, some n, some t =>
      match genRandLoop (tapeStream t) F.p (fieldMask f) F.sz (t.length + 4) n 0 [] with
      | some (xs, pos) => s!"{elemsHex F.sz xs} {pos}"
      | none => "diverges"
    | _, _, _ => "bad-op"
  | _ => "bad-op"

def handleXofAbs (args : List String) : String :=
  match args with
  | [kind, seed, dst, binder] =>
    match parseHex seed, parseParts dst, parseParts binder with
    | some s, some d, some b =>
      let r := if kind == "ts" then turboShakeAbsorbed s d b
               else if kind == "fk" then fixedKeyAbsorbed d b
               else hmacAbsorbed d b
      match r with
      | some m => toHex m
      | none => "panic"
    | _, _, _ => "bad-op"
  | _ => "bad-op"

def handleFkReads (args : List String) : String :=
  match args with
  | [stream, sizes] =>
    match parseHex stream, (sizes.splitOn ",").mapM String.toNat? with
    | some st, some ns =>
      let a := st.toArray
      let block (c : Nat) : List Nat := (List.range 16).map fun i => a.getD (16 * c + i) 0
      " ".intercalate ((fixedKeyReads block 0 ns).map toHex)
    | _, _ => "bad-op"
  | _ => "bad-op"

def parseTable (s : String) : Option (Array Idpf.PrgEntry) :=
  if s == "none" then some #[] else
  ((s.splitOn ",").mapM fun (e : String) =>
    match e.splitOn ":" with
    | [km, seed, out] =>
      match km.toList, parseHex seed, parseHex out with
      | [k, m], some sd, some o => some (Idpf.PrgEntry.mk (if k == '0' then 0 else 1) (m == '1') sd o)
      | _, _, _ => none
    | _ => none).map List.toArray

/-- run a list of evaluations against one cache kind, threading the cache state per aggregator -/
def runEvals {C : Type} {qi ql : Nat} (szi szl : Nat) (cache : Idpf.Cache C (List Nat)) (empty : C)
    (gI : Idpf.Prg (List Nat) (Idpf.Pair (Fin (qi + 1)))) (gL : Idpf.Prg (List Nat) (Idpf.Pair (Fin (ql + 1))))
    (ps : Idpf.PublicShare (List Nat) (Idpf.Pair (Fin (qi + 1))) (Idpf.Pair (Fin (ql + 1))))
    (k0 k1 : List Nat) (evals : List (Nat × List Bool)) : List String :=
  let rec go (c0 c1 : C) (es : List (Nat × List Bool)) (acc : List String) : List String :=
    match es with
    | [] => acc.reverse
    | (id, pfx) :: rest =>
      let key := if id == 0 then k0 else k1
      let c := if id == 0 then c0 else c1
      let (r, c') := Idpf.eval cache gI gL id ps key pfx c
      let out := match r with
        | .ok (.inner v) => "I:" ++ toHex (Idpf.encodePair szi v)
        | .ok (.leaf v) => "L:" ++ toHex (Idpf.encodePair szl v)
        | .error => "err"
        | .panic => "panic"
      if id == 0 then go c' c1 rest (out :: acc) else if id == 1 then go c0 c' rest (out :: acc) else go c0 c1 rest (out :: acc)
  go empty empty evals []

def handleIdpf (args : List String) : String :=
  match args with
  | [alpha, k0, k1, inner, leaf, cacheKind, evals, table] =>
    withField "FP64" fun qi szi => withField "F255" fun ql szl =>
      match parseBits alpha, parseHex k0, parseHex k1, parseHex inner, parseHex leaf, parseTable table with
      | some al, some k0, some k1, some iv, some lv, some tbl =>
        let gI := Idpf.tablePrg tbl false qi szi
        let gL := Idpf.tablePrg tbl true ql szl
        let innerVals := (List.range (iv.length / (2 * szi))).map fun i =>
          Idpf.decodePair qi szi ((iv.drop (i * 2 * szi)).take (2 * szi))
        let leafVal := Idpf.decodePair ql szl lv
        let evs : Option (List (Nat × List Bool)) :=
          if evals == "none" then some [] else
          (evals.splitOn ";").mapM fun (e : String) =>
            match e.splitOn ":" with
            | [id, p] => do pure (← id.toNat?, ← parseBits p)
            | _ => none
        match Idpf.gen gI gL al innerVals leafVal k0 k1, evs with
        | some ps, some evs =>
          let outs :=
            match cacheKind.splitOn ":" with
            | ["none"] => runEvals szi szl Idpf.noCache () gI gL ps k0 k1 evs
            | ["hash"] => runEvals szi szl Idpf.hashMapCache [] gI gL ps k0 k1 evs
            | ["ring", cap] => runEvals szi szl (Idpf.ringBufferCache (cap.toNat?.getD 0)) [] gI gL ps k0 k1 evs
            | _ => ["bad-cache"]
          " ".intercalate (toHex (Idpf.encodePublicShare szi szl ps) :: outs)
        | none, _ => "gen-err"
        | _, none => "bad-op"
      | _, _, _, _, _, _ => "bad-op"
  | _ => "bad-op"

/-- the IDPF over plain field elements (inner Field64, leaf Field128), ring-buffer cache -/
def handleIdpf1 (args : List String) : String :=
  match args with
  | [alpha, k0, k1, inner, leaf, cacheKind, evals, table] =>
    withField "FP64" fun qi szi => withField "FP128" fun ql szl =>
      match parseBits alpha, parseHex k0, parseHex k1, hexVec qi szi inner, hexVec ql szl leaf, parseTable table with
      | some al, some k0, some k1, some iv, some [lv], some tbl =>
        let gI := Idpf.tablePrg1 tbl false qi szi
        let gL := Idpf.tablePrg1 tbl true ql szl
        let evs : Option (List (Nat × List Bool)) :=
          if evals == "none" then some [] else
          (evals.splitOn ";").mapM fun (e : String) =>
            match e.splitOn ":" with
            | [id, p] => do pure (← id.toNat?, ← parseBits p)
            | _ => none
        let cap := match cacheKind.splitOn ":" with
          | ["ring", c] => c.toNat?.getD 0
          | _ => 0
        match Idpf.gen gI gL al iv lv k0 k1, evs with
        | some ps, some evs =>
          let rec go (c0 c1 : List (List Bool × Idpf.Node (List Nat))) (es : List (Nat × List Bool)) (acc : List String) : List String :=
            match es with
            | [] => acc.reverse
            | (id, pfx) :: rest =>
              let key := if id == 0 then k0 else k1
              let c := if id == 0 then c0 else c1
              let (r, c') := Idpf.eval (Idpf.ringBufferCache cap) gI gL id ps key pfx c
              let out := match r with
                | .ok (.inner v) => "I:" ++ toHex (leBytesC v.val szi)
                | .ok (.leaf v) => "L:" ++ toHex (leBytesC v.val szl)
                | .error => "err"
                | .panic => "panic"
              if id == 0 then go c' c1 rest (out :: acc) else if id == 1 then go c0 c' rest (out :: acc) else go c0 c1 rest (out :: acc)
          " ".intercalate (toHex (Idpf.encodePublicShare1 szi szl ps) :: go [] [] evs [])
        | none, _ => "gen-err"
        | _, none => "bad-op"
      | _, _, _, _, _, _ => "bad-op"
  | _ => "bad-op"

def showR {q : Nat} (sz : Nat) (r : Ntt.R (Array (Fin (q + 1)))) : String :=
  match r with
  | .ok a => "ok " ++ toHex (encodeFieldVec sz a.toList)
  | .err .outputTooSmall => "err OutputTooSmall"
  | .err .sizeTooLarge => "err SizeTooLarge"
  | .err .sizeInvalid => "err SizeInvalid"
  | .panic => "panic"

def sizeInvOf (q : Nat) (n : Nat) : Fin (q + 1) := (Fin.ofNat (q + 1) n)⁻¹

def handlePoly (op : String) (args : List String) : String :=
  match args with
  | f :: rest => withField f fun q sz =>
    let root := rootOf f q
    let vec (h : String) : Option (Array (Fin (q + 1))) := (hexVec q sz h).map List.toArray
    match op, rest with
    | "ntt", [setS, outLen, size, inp] =>
      match outLen.toNat?, size.toNat?, vec inp with
      | some ol, some n, some i => showR sz (Ntt.nttInternal root ol (Array.replicate ol 0) i n (setS == "1"))
      | _, _, _ => "bad-op"
    | "nttclass", [setS, outLen, size] =>
      -- outcome class from the argument check alone (Props.C10.nttInternal_err_iff)
      match outLen.toNat?, size.toNat? with
      | some ol, some n =>
        if n = 0 then "panic"
        else match Ntt.nttSizeCheck ol n (setS == "1") with
          | none => "ok"
          | some .outputTooSmall => "err OutputTooSmall"
          | some .sizeTooLarge => "err SizeTooLarge"
          | some .sizeInvalid => "err SizeInvalid"
      | _, _ => "bad-op"
    | "nttinv", [outLen, size, inp] =>
      match outLen.toNat?, size.toNat?, vec inp with
      | some ol, some n, some i =>
        if n = 0 then "panic" else showR sz (Ntt.nttInv root (Array.replicate ol 0) i n (sizeInvOf q n))
      | _, _, _ => "bad-op"
    | "rootpow", [n] =>
      match n.toNat? with
      | some n =>
        if n = 0 ∨ 2 ^ Nat.log2 n ≠ n then "panic" else
        match Ntt.nthRootPowers root (Nat.log2 n) with
        | some a => "ok " ++ toHex (encodeFieldVec sz a.toList)
        | none => "panic"
      | none => "bad-op"
    | "lageval", [n, ys, x] =>
      match n.toNat?, vec ys, hexVec q sz x with
      | some n, some ys, some [x] =>
        if n = 0 ∨ 2 ^ Nat.log2 n ≠ n then "panic" else
        match Ntt.nthRootPowers root (Nat.log2 n) with
        | some roots => "ok " ++ toHex (encodeFieldVec sz [Ntt.polyEvalLagrange roots (halfOf f q) (Nat.log2 n) ys x])
        | none => "panic"
      | _, _, _ => "bad-op"
    | "extend", [nv, poly] =>
      match nv.toNat?, vec poly with
      | some nv, some p =>
        let n := p.size
        if n = 0 ∨ 2 ^ Nat.log2 n ≠ n ∨ nv > n then "panic" else
        match Ntt.nthRootPowers root (Nat.log2 n) with
        | some roots => "ok " ++ toHex (encodeFieldVec sz (Ntt.extendValues roots p nv).toList)
        | none => "panic"
      | _, _ => "bad-op"
    | "double", [outLen, ev] =>
      match outLen.toNat?, vec ev with
      | some ol, some e => showR sz (Ntt.doubleEvaluations root ol e (sizeInvOf q e.size))
      | _, _ => "bad-op"
    | "mullag", [outLen, p, qq] =>
      match outLen.toNat?, vec p, vec qq with
      | some ol, some p, some q2 => showR sz (Ntt.polyMulLagrange root ol p q2 (sizeInvOf q p.size))
      | _, _, _ => "bad-op"
    | "rangecheck", [a, b] =>
      match a.toNat?, b.toNat? with
      | some a, some b => "ok " ++ toHex (encodeFieldVec sz (Ntt.polyRangeCheck (Fin.ofNat (q + 1)) a b))
      | _, _ => "bad-op"
    | "evalmono", [p, x] =>
      match hexVec q sz p, hexVec q sz x with
      | some p, some [x] => "ok " ++ toHex (encodeFieldVec sz [Ntt.polyEvalMonomial p x])
      | _, _ => "bad-op"
    | "deg", [p] =>
      match hexVec q sz p with
      | some p => toString (Ntt.polyDeg p)
      | none => "bad-op"
    | "mulmono", [p, qq] =>
      match hexVec q sz p, hexVec q sz qq with
      | some p, some q2 => "ok " ++ toHex (encodeFieldVec sz (Ntt.polyMulMonomial p q2))
      | _, _ => "bad-op"
    | _, _ => "bad-op"
  | [] => "bad-op"

def parseTypeSpec (s : String) : Option Flp.TypeSpec :=
  match s.splitOn ":" with
  | ["count"] => some .count
  | ["sum", b] => b.toNat?.map .sum
  | ["hist", l, c] => do pure (.histogram (← l.toNat?) (← c.toNat?))
  | ["mhot", l, bw, lw, c] => do pure (.multihot (← l.toNat?) (← bw.toNat?) (← lw.toNat?) (← c.toNat?))
  | ["svec", l, b, lw, c] => do pure (.sumVec (← l.toNat?) (← b.toNat?) (← lw.toNat?) (← c.toNat?))
  | ["l1", l, b, lw, c] => do pure (.l1BoundSum (← l.toNat?) (← b.toNat?) (← lw.toNat?) (← c.toNat?))
  | _ => none

def showFlp {q : Nat} (sz : Nat) (r : Flp.Res (List (Fin (q + 1)))) : String :=
  match r with
  | .ok v => "ok " ++ toHex (encodeFieldVec sz v)
  | .err => "err"
  | .panic => "panic"

def handleFlp (op : String) (args : List String) : String :=
  match args with
  | f :: ts :: rest =>
    match parseTypeSpec ts with
    | none => "bad-op"
    | some t => withField f fun q sz =>
      let C := fieldCtx f q
      let vec (h : String) : Option (List (Fin (q + 1))) := hexVec q sz h
      match op, rest with
      | "lens", [] =>
        s!"{t.inputLen} {t.proofLen} {t.verifierLen} {t.jointRandLen} {t.evalOutputLen} {t.proveRandLen} {t.queryRandLen} {t.outputLen}"
      | "valid", [inp, jr, ns] =>
        match vec inp, vec jr, ns.toNat? with
        | some i, some j, some n => showFlp sz (Flp.valid C t i j n)
        | _, _, _ => "bad-op"
      | "prove", [inp, pr, jr] =>
        match vec inp, vec pr, vec jr with
        | some i, some p, some j => showFlp sz (Flp.prove C t i p j)
        | _, _, _ => "bad-op"
      | "query", [inp, pf, qr, jr, ns] =>
        match vec inp, vec pf, vec qr, vec jr, ns.toNat? with
        | some i, some p, some qq, some j, some n => showFlp sz (Flp.query C t i p qq j n)
        | _, _, _, _, _ => "bad-op"
      | "decide", [v] =>
        match vec v with
        | some v =>
          match Flp.decide C t v with
          | .ok b => s!"ok {b}"
          | .err => "err"
          | .panic => "panic"
        | none => "bad-op"
      | _, _ => "bad-op"
  | _ => "bad-op"

/-- XOF table recorded from the real run: `seed:dst:binder:out` entries -/
def parseXofTable (s : String) : Option (Array (List Nat × List Nat × List Nat × Array Nat)) :=
  if s == "none" then some #[] else
  ((s.splitOn ",").mapM fun (e : String) =>
    match e.splitOn ":" with
    | [sd, d, b, o] => do pure (← parseHex sd, ← parseHex d, ← parseHex b, (← parseHex o).toArray)
    | _ => none).map List.toArray

/-- positions beyond what the real run read are marked with 0x1ff (never a byte) -/
def tableXof (tbl : Array (List Nat × List Nat × List Nat × Array Nat)) : Prio3.Xof := fun seed d b =>
  match tbl.find? (fun e => e.1 == seed && e.2.1 == d && e.2.2.1 == b) with
  | some e => fun i => e.2.2.2.getD i 511
  | none => fun _ => 511

def splitAt' (bs : List Nat) (n : Nat) : List Nat × List Nat := (bs.take n, bs.drop n)

def handleP3 (args : List String) : String :=
  match args with
  | op :: f :: ts :: na :: np :: alg :: slw :: ctxh :: rest =>
    match parseTypeSpec ts, na.toNat?, np.toNat?, alg.toNat?, slw.toNat?, parseHex ctxh, rest.getLast?.bind parseXofTable with
    | some t, some na, some np, some alg, some slw, some ctx, some tbl =>
      withField f fun q sz =>
        let C := fieldCtx f q
        let cfg : Prio3.Cfg := { t := t, numAgg := na, numProofs := np, algId := alg, p := q + 1, mask := fieldMask f, sz := sz }
        let cv : Prio3.Conv (Fin (q + 1)) := ⟨Fin.ofNat (q + 1), fun x => x.val⟩
        let xof := tableXof tbl
        let jr := t.jointRandLen > 0
        let ss := cfg.seedSize
        let decVec (bs : List Nat) : Option (List (Fin (q + 1))) := decodeFieldVec q sz bs
        -- decode an input share for aggregator `id` (length-exact, canonical elements)
        let decInput (id : Nat) (bs : List Nat) : Option (Prio3.InputShare (Fin (q + 1))) :=
          if id ≥ na then none
          else if id = 0 then
            let ml := t.inputLen * sz
            let pl := t.proofLen * np * sz
            if bs.length ≠ ml + pl + (if jr then ss else 0) then none
            else
              match decVec (bs.take ml), decVec ((bs.drop ml).take pl) with
              | some m, some p => some (.leader m p (if jr then some (bs.drop (ml + pl)) else none))
              | _, _ => none
          else
            if bs.length ≠ ss + (if jr then ss else 0) then none
            else some (.helper (bs.take ss) (if jr then some (bs.drop ss) else none))
        let decPub (bs : List Nat) : Option (Option (List (List Nat))) :=
          if jr then
            if bs.length ≠ na * ss then none else some (some ((List.range na).map fun i => (bs.drop (i * ss)).take ss))
          else if bs.isEmpty then some none else none
        let encState (st : Prio3.VerifyState (Fin (q + 1))) : List Nat :=
          (match st.share with | .inl v => Prio3.encVec cfg cv v | .inr s => s) ++ st.jointRandSeed.getD []
        let encVShare (sh : Prio3.VerifierShare (Fin (q + 1))) : List Nat :=
          Prio3.encVec cfg cv sh.verifiers ++ sh.jointRandPart.getD []
        match op, rest.dropLast with
        | "shard", [nonce, random, encoded] =>
          match parseHex nonce, parseHex random, hexVec q sz encoded with
          | some n, some r, some e =>
            match Prio3.shard C cfg cv xof ctx n r e with
            | .ok out => "ok " ++ " ".intercalate (toHex (Prio3.encodePublicShare out) :: out.shares.map fun s => toHex (Prio3.encodeInputShare cfg cv s))
            | .err => "err"
            | .panic => "panic"
          | _, _, _ => "bad-op"
        | "vinit", [key, id, nonce, pub, inp] =>
          match parseHex key, id.toNat?, parseHex nonce, parseHex pub, parseHex inp with
          | some k, some id, some n, some pb, some ib =>
            match decPub pb, decInput id ib with
            | some pp, some share =>
              match Prio3.verifyInit C cfg cv xof slw k ctx id n pp share with
              | .ok (st, sh) => s!"ok {toHex (encState st)} {toHex (encVShare sh)}"
              | .err => "err"
              | .panic => "panic"
            | _, _ => "undecodable"
          | _, _, _, _, _ => "bad-op"
        | "vmsg", shares =>
          let vl := t.verifierLen * np * sz
          let dec (h : String) : Option (Prio3.VerifierShare (Fin (q + 1))) := do
            let bs ← parseHex h
            if bs.length ≠ vl + (if jr then ss else 0) then none
            else
              let v ← decVec (bs.take vl)
              pure ⟨v, if jr then some (bs.drop vl) else none⟩
          match shares.mapM dec with
          | some shs =>
            match Prio3.sharesToMessage C cfg xof ctx shs with
            | .ok m => "ok " ++ toHex (m.getD [])
            | .err => "err"
            | .panic => "panic"
          | none => "undecodable"
        | "vnext", [id, state, msg] =>
          match id.toNat?, parseHex state, parseHex msg with
          | some id, some sb, some mb =>
            let shareLen := if id = 0 then t.outputLen * sz else ss
            if sb.length ≠ shareLen + (if jr then ss else 0) ∨ mb.length ≠ (if jr then ss else 0) then "undecodable"
            else
              let share : Option (Sum (List (Fin (q + 1))) (List Nat)) :=
                if id = 0 then (decVec (sb.take shareLen)).map .inl else some (.inr (sb.take shareLen))
              match share with
              | some sh =>
                let st : Prio3.VerifyState (Fin (q + 1)) := ⟨sh, if jr then some (sb.drop shareLen) else none, id, t.verifierLen * np⟩
                match Prio3.verifyNext C cfg cv xof slw ctx st (if jr then some mb else none) with
                | .ok o => "ok " ++ toHex (Prio3.encVec cfg cv o)
                | .err => "err"
                | .panic => "panic"
              | none => "undecodable"
          | _, _, _ => "bad-op"
        -- the same operations on structured arguments (C16: shares no codec would produce)
        | "vinitraw", [key, id, nonce, pub, kind, a, b, blind] =>
          let blindO : Option (Option (List Nat)) := if blind == "none" then some none else (parseHex blind).map some
          let share : Option (Prio3.InputShare (Fin (q + 1))) :=
            match kind, blindO with
            | "L", some bl => do pure (.leader (← hexVec q sz a) (← hexVec q sz b) bl)
            | "H", some bl => do pure (.helper (← parseHex a) bl)
            | _, _ => none
          match parseHex key, id.toNat?, parseHex nonce, parseHex pub, share with
          | some k, some id, some n, some pb, some share =>
            let pp : Option (List (List Nat)) :=
              if pb.isEmpty then none else some ((List.range (pb.length / ss)).map fun i => (pb.drop (i * ss)).take ss)
            match Prio3.verifyInit C cfg cv xof slw k ctx id n pp share with
            | .ok (st, sh) => s!"ok {toHex (encState st)} {toHex (encVShare sh)}"
            | .err => "err"
            | .panic => "panic"
          | _, _, _, _, _ => "bad-op"
        | "vmsgraw", shares =>
          let dec (h : String) : Option (Prio3.VerifierShare (Fin (q + 1))) :=
            match h.splitOn "/" with
            | [v, part] => do
              let vs ← hexVec q sz v
              let po ← (if part == "none" then some none else (parseHex part).map some)
              pure ⟨vs, po⟩
            | _ => none
          match (if shares == ["-"] then some [] else shares.mapM dec) with
          | some shs =>
            match Prio3.sharesToMessage C cfg xof ctx shs with
            | .ok m => "ok " ++ toHex (m.getD [])
            | .err => "err"
            | .panic => "panic"
          | none => "bad-op"
        | "vnextraw", [id, kind, shareh, seedh, msgh] =>
          let seedO : Option (Option (List Nat)) := if seedh == "none" then some none else (parseHex seedh).map some
          let msgO : Option (Option (List Nat)) := if msgh == "none" then some none else (parseHex msgh).map some
          let share : Option (Sum (List (Fin (q + 1))) (List Nat)) :=
            if kind == "L" then (hexVec q sz shareh).map .inl else (parseHex shareh).map .inr
          match id.toNat?, share, seedO, msgO with
          | some id, some sh, some sd, some mg =>
            let st : Prio3.VerifyState (Fin (q + 1)) := ⟨sh, sd, id, t.verifierLen * np⟩
            match Prio3.verifyNext C cfg cv xof slw ctx st mg with
            | .ok o => "ok " ++ toHex (Prio3.encVec cfg cv o)
            | .err => "err"
            | .panic => "panic"
          | _, _, _, _ => "bad-op"
        | _, _ => "bad-op"
    | _, _, _, _, _, _, _ => "bad-op"
  | _ => "bad-op"

def showCtor (r : Ctor.CRes Flp.TypeSpec) : String :=
  match r with
  | .ok t =>
    if Ctor.usable t then
      s!"ok {t.inputLen} {t.proofLen} {t.verifierLen} {t.jointRandLen} {t.evalOutputLen} {t.proveRandLen} {t.queryRandLen} {t.outputLen}"
    else "unusable"
  | .err => "err"
  | .panic => "panic"

def showUnit (r : Ctor.CRes Unit) : String :=
  match r with
  | .ok _ => "ok"
  | .err => "err"
  | .panic => "panic"

def parseNatList (s : String) : Option (List Nat) :=
  if s == "-" then some [] else (s.splitOn ",").mapM String.toNat?

def handleC16 (args : List String) : String :=
  match args with
  | ["p3new", na, np] =>
    match na.toNat?, np.toNat? with
    | some a, some b => showUnit (Ctor.prio3New a b)
    | _, _ => "bad-op"
  | ["prio2new", n] =>
    match n.toNat? with
    | some n => showUnit (Ctor.prio2New n)
    | none => "bad-op"
  | "ctor" :: f :: kind :: nums =>
    match nums.mapM String.toNat? with
    | none => "bad-op"
    | some ns => withField f fun q _ =>
      let p := q + 1
      match kind, ns with
      | "sum", [m] => showCtor (Ctor.sumNew p m)
      | "avg", [m] => showCtor (Ctor.sumNew p m)
      | "hist", [l, c] => showCtor (Ctor.histNew l c)
      | "mhot", [b, w, c] => showCtor (Ctor.mhotNew p b w c)
      | "svec", [m, l, c] => showCtor (Ctor.svecNew p m l c)
      | "l1", [m, l, c] => showCtor (Ctor.l1New p m l c)
      | _, _ => "bad-op"
  | ["encm", f, ts, aux, m] =>
    match parseTypeSpec ts, aux.toNat?, parseNatList m with
    | some t, some aux, some m => withField f fun q sz =>
      -- for `Sum` the auxiliary number is the last weight; for `MultihotCountVec`, `max_weight`
      match Ctor.encodeMeasurement t aux aux m with
      | some e => "ok " ++ toHex (encodeFieldVec sz (e.map (Fin.ofNat (q + 1))))
      | none => "err"
    | _, _, _ => "bad-op"
  | _ => "bad-op"

/-- preorder schedule: `L` or `S,k,<left>,<right>` -/
def parseSched : Nat → List String → Option (Par.Sched × List String)
  | 0, _ => none
  | _ + 1, "L" :: rest => some (.leaf, rest)
  | fuel + 1, "S" :: k :: rest => do
    let k ← k.toNat?
    let (l, rest) ← parseSched fuel rest
    let (r, rest) ← parseSched fuel rest
    pure (.split k l r, rest)
  | _, _ => none

def handleC14 (args : List String) : String :=
  match args with
  | ["mt", f, chunks, outLen, sched, polys] =>
    match chunks.toNat?, outLen.toNat?, parseSched ((sched.splitOn ",").length + 1) (sched.splitOn ",") with
    | some ch, some ol, some (s, []) => withField f fun q sz =>
      let C := fieldCtx f q
      match (polys.splitOn ",").mapM (fun h => (hexVec q sz h).map List.toArray) with
      | some inp =>
        let show' (r : Flp.Res (Array (Fin (q + 1)))) : String :=
          match r with
          | .ok v => "ok " ++ toHex (encodeFieldVec sz v.toList)
          | .err => "err"
          | .panic => "panic"
        show' (Flp.Gadget.evalPoly C ⟨.parallelSumMul ch, 1⟩ ol inp) ++ " " ++ show' (Par.evalPolyMT C ch 1 ol s inp)
      | none => "bad-op"
    | _, _, _ => "bad-op"
  | _ => "bad-op"

def handleC19 (args : List String) : String :=
  withField "FP32" fun q sz =>
    let C := fieldCtx "FP32" q
    let vec (h : String) : Option (List (Fin (q + 1))) := hexVec q sz h
    match args with
    | ["plen", d] => match d.toNat? with
      | some d => toString (Prio2.proofLength d)
      | none => "bad-op"
    | ["proof", data, f0, g0] =>
      match vec data, vec f0, vec g0 with
      | some d, some [f], some [g] =>
        match Prio2.constructProof C d f g with
        | .ok p => "ok " ++ toHex (encodeFieldVec sz p)
        | .err _ => "err"
        | .panic => "panic"
      | _, _, _ => "bad-op"
    | ["vmsg", dim, evalAt, share, first] =>
      match dim.toNat?, vec evalAt, vec share with
      | some d, some [r], some sh =>
        match Prio2.verifyInitWithQueryRand C d r sh (first == "1") with
        | .ok (v, st) => s!"ok {toHex (encodeFieldVec sz [v.fR, v.gR, v.hR])} {toHex (encodeFieldVec sz st)}"
        | .err => "err"
        | .panic => "panic"
      | _, _, _ => "bad-op"
    | ["evalat", inputLen, stream] =>
      match inputLen.toNat?, parseHex stream with
      | some n, some bytes =>
        let arr := bytes.toArray
        let S : Stream := fun i => arr.getD i 511
        match Prio2.chooseEvalAt C S (q + 1) (fieldMask "FP32") sz n 64 (PrngState.init S sz 0) with
        | some (e, _) => "ok " ++ toHex (encodeFieldVec sz [e])
        | none => "none"
      | _, _ => "bad-op"
    | ["valid", v1, v2] =>
      match vec v1, vec v2 with
      | some [a, b, c], some [d, e, f] => toString (Prio2.isValidShare ⟨a, b, c⟩ ⟨d, e, f⟩)
      | _, _ => "bad-op"
    | ["leader", proof, helper] =>
      match vec proof, vec helper with
      | some p, some h => "ok " ++ toHex (encodeFieldVec sz (Prio2.leaderShare p h))
      | _, _ => "bad-op"
    | _ => "bad-op"

/-! ### Poplar1 -/

section pop
variable {qi ql : Nat}
abbrev FIq (qi : Nat) := Fin (qi + 1)

def decPairs (q sz : Nat) (bs : List Nat) : Option (List (Fin (q + 1) × Fin (q + 1))) := do
  let v ← decodeFieldVec q sz bs
  if v.length % 2 ≠ 0 then none
  else pure ((List.range (v.length / 2)).map fun i => (v.getD (2 * i) 0, v.getD (2 * i + 1) 0))

/-- `Poplar1InputShare::decode_with_param(bits)` -/
def decPopInput (qi ql bits : Nat) (bs : List Nat) : Option (Poplar1.InputShare (Fin (qi + 1)) (Fin (ql + 1))) :=
  let il := (bits - 1) * 16
  if bits = 0 ∨ bs.length ≠ 16 + 32 + il + 64 then none
  else do
    let ci ← decPairs qi 8 ((bs.drop 48).take il)
    let cl ← decPairs ql 32 (bs.drop (48 + il))
    match cl with
    | [l] => pure ⟨bs.take 16, (bs.drop 16).take 32, ci, l⟩
    | _ => none

def encPopInput (sh : Poplar1.InputShare (Fin (qi + 1)) (Fin (ql + 1))) : List Nat :=
  sh.idpfKey ++ sh.corrSeed ++ (sh.corrInner.flatMap fun p => leBytesC p.1.val 8 ++ leBytesC p.2.val 8)
    ++ leBytesC sh.corrLeaf.1.val 32 ++ leBytesC sh.corrLeaf.2.val 32

/-- `IdpfPublicShare::decode_with_param(bits)` (canonical encodings only) -/
def decPopPublic (qi ql bits : Nat) (bs : List Nat) :
    Option (Idpf.PublicShare (List Nat) (Idpf.Pair (Fin (qi + 1))) (Idpf.Pair (Fin (ql + 1)))) :=
  let cbLen := (2 * bits + 7) / 8
  if bits = 0 ∨ bs.length ≠ cbLen + 16 * bits + 16 * (bits - 1) + 64 then none
  else do
    let cbs := unpackBits false (bs.take cbLen)
    let seeds := (bs.drop cbLen).take (16 * bits)
    let iv ← decPairs qi 8 ((bs.drop (cbLen + 16 * bits)).take (16 * (bits - 1)))
    let lv ← decPairs ql 32 (bs.drop (cbLen + 16 * bits + 16 * (bits - 1)))
    match lv with
    | [l] =>
      let inner := (List.range (bits - 1)).map fun i =>
        (⟨(seeds.drop (16 * i)).take 16, cbs.getD (2 * i) false, cbs.getD (2 * i + 1) false,
          ⟨(iv.getD i (0, 0)).1, (iv.getD i (0, 0)).2⟩⟩ : Idpf.CW (List Nat) (Idpf.Pair (Fin (qi + 1))))
      let b := bits - 1
      pure ⟨inner, ⟨(seeds.drop (16 * b)).take 16, cbs.getD (2 * b) false, cbs.getD (2 * b + 1) false, ⟨l.1, l.2⟩⟩⟩
    | _ => none

def encPopVec (v : Poplar1.FieldVec (Fin (qi + 1)) (Fin (ql + 1))) : List Nat :=
  match v with
  | .inner l => l.flatMap fun x => leBytesC x.val 8
  | .leaf l => l.flatMap fun x => leBytesC x.val 32

def encSketch {q : Nat} (sz : Nat) (s : Poplar1.Sketch (Fin (q + 1))) : List Nat :=
  match s with
  | .roundOne a b _ => [0] ++ leBytesC a.val sz ++ leBytesC b.val sz
  | .roundTwo => [1]

def encPopState (st : Poplar1.State (Fin (qi + 1)) (Fin (ql + 1))) : List Nat :=
  match st with
  | .inner sk out => [0] ++ encSketch 8 sk ++ beBytes out.length 4 ++ out.flatMap fun x => leBytesC x.val 8
  | .leaf sk out => [1] ++ encSketch 32 sk ++ beBytes out.length 4 ++ out.flatMap fun x => leBytesC x.val 32

def decSketch (q sz : Nat) (isLeader : Bool) (bs : List Nat) : Option (Poplar1.Sketch (Fin (q + 1)) × List Nat) :=
  match bs with
  | 0 :: rest => do
    let v ← decodeFieldVec q sz (rest.take (2 * sz))
    match v with
    | [a, b] => pure (.roundOne a b isLeader, rest.drop (2 * sz))
    | _ => none
  | 1 :: rest => some (.roundTwo, rest)
  | _ => none

def decPopState (qi ql : Nat) (aggId : Nat) (bs : List Nat) : Option (Poplar1.State (Fin (qi + 1)) (Fin (ql + 1))) :=
  match bs with
  | 0 :: rest => do
    let (sk, r) ← decSketch qi 8 (aggId == 0) rest
    let n := beNat (r.take 4)
    let out ← decodeFieldVec qi 8 (r.drop 4)
    if r.length < 4 ∨ out.length ≠ n then none else pure (.inner sk out)
  | 1 :: rest => do
    let (sk, r) ← decSketch ql 32 (aggId == 0) rest
    let n := beNat (r.take 4)
    let out ← decodeFieldVec ql 32 (r.drop 4)
    if r.length < 4 ∨ out.length ≠ n then none else pure (.leaf sk out)
  | _ => none

end pop

def handlePop (args : List String) : String :=
  withField "FP64" fun qi szi => withField "F255" fun ql szl =>
    let ofI : Nat → Fin (qi + 1) := Fin.ofNat (qi + 1)
    let ofL : Nat → Fin (ql + 1) := Fin.ofNat (ql + 1)
    let fpI : Poplar1.FieldP := ⟨qi + 1, fieldMask "FP64", szi⟩
    let fpL : Poplar1.FieldP := ⟨ql + 1, fieldMask "F255", szl⟩
    match args with
    | ["shard", bits, ctx, input, nonce, k0, k1, pr0, pr1, pr2, xt, pt] =>
      match bits.toNat?, parseHex ctx, parseBits input, parseHex nonce, parseHex k0, parseHex k1,
            parseHex pr0, parseHex pr1, parseHex pr2, parseXofTable xt, parseTable pt with
      | some bits, some ctx, some inp, some n, some k0, some k1, some p0, some p1, some p2, some xtb, some ptb =>
        let cfg : Poplar1.Cfg := ⟨bits, fpI, fpL⟩
        match Poplar1.shard cfg ofI ofL (tableXof xtb) (Idpf.tablePrg ptb false qi szi) (Idpf.tablePrg ptb true ql szl)
            ctx inp n k0 k1 p0 p1 p2 with
        | .ok (pub, s0, s1) =>
          s!"ok {toHex (Idpf.encodePublicShare szi szl pub)} {toHex (encPopInput s0)} {toHex (encPopInput s1)}"
        | .err => "err"
        | .panic => "panic"
      | _, _, _, _, _, _, _, _, _, _, _ => "bad-op"
    | ["vinit", bits, ctx, key, id, prefixes, nonce, pub, share, xt, pt] =>
      match bits.toNat?, parseHex ctx, parseHex key, id.toNat?, parsePrefixes prefixes, parseHex nonce,
            parseHex pub, parseHex share, parseXofTable xt, parseTable pt with
      | some bits, some ctx, some key, some id, some pfx, some n, some pb, some sb, some xtb, some ptb =>
        let cfg : Poplar1.Cfg := ⟨bits, fpI, fpL⟩
        -- the shares were produced for `shareBits`; the driver recovers that from their lengths
        let shareBits := (sb.length - 112) / 16 + 1
        match decPopPublic qi ql shareBits pb, decPopInput qi ql shareBits sb with
        | some pub, some sh =>
          let ap : Poplar1.AggParam := ⟨(pfx.headD []).length - 1, pfx⟩
          match Poplar1.verifyInit cfg ofI ofL (tableXof xtb) (Idpf.tablePrg ptb false qi szi) (Idpf.tablePrg ptb true ql szl)
              key ctx id ap n pub sh with
          | .ok (st, v) => s!"ok {toHex (encPopState st)} {toHex (encPopVec v)}"
          | .err => "err"
          | .panic => "panic"
        | _, _ => "undecodable"
      | _, _, _, _, _, _, _, _, _, _ => "bad-op"
    | "vmsg" :: shares =>
      let dec (h : String) : Option (Poplar1.FieldVec (Fin (qi + 1)) (Fin (ql + 1))) :=
        match h.splitOn ":" with
        | ["I", x] => (hexVec qi szi x).map .inner
        | ["L", x] => (hexVec ql szl x).map .leaf
        | _ => none
      match (if shares == ["-"] then some [] else shares.mapM dec) with
      | some shs =>
        match Poplar1.sharesToMessage shs with
        | .ok .done => "ok -"
        | .ok (.sketchInner s) => "ok " ++ toHex (encodeFieldVec szi [s.1, s.2.1, s.2.2])
        | .ok (.sketchLeaf s) => "ok " ++ toHex (encodeFieldVec szl [s.1, s.2.1, s.2.2])
        | .err => "err"
        | .panic => "panic"
      | none => "bad-op"
    | ["vnext", id, state, msg] =>
      match id.toNat?, parseHex state, msg.splitOn ":" with
      | some id, some sb, [kind, mh] =>
        let m : Option (Poplar1.Message (Fin (qi + 1)) (Fin (ql + 1))) :=
          match kind with
          | "D" => some .done
          | "I" => match hexVec qi szi mh with
            | some [a, b, c] => some (.sketchInner (a, b, c))
            | _ => none
          | "L" => match hexVec ql szl mh with
            | some [a, b, c] => some (.sketchLeaf (a, b, c))
            | _ => none
          | _ => none
        match decPopState qi ql id sb, m with
        | some st, some m =>
          match Poplar1.verifyNext st m with
          | .ok (.continue st' v) => s!"continue {toHex (encPopState st')} {toHex (encPopVec v)}"
          | .ok (.finish out) => s!"finish {toHex (encPopVec out)}"
          | .err => "err"
          | .panic => "panic"
        | _, _ => "bad-op"
      | _, _, _ => "bad-op"
    | _ => "bad-op"

/-! ### differential privacy samplers -/

def tapeOf (h : String) : Option Stream :=
  (parseHex h).map fun bytes => let arr := bytes.toArray; fun i => arr.getD i 511

def showSamp {α : Type} (sh : α → String) (r : Option (Option α × Nat)) : String :=
  match r with
  | some (some a, pos) => s!"{sh a} {pos}"
  | some (none, _) => "fuel"
  | none => "fuel"

def handleDp (args : List String) : String :=
  let fuel := 64
  match args with
  | ["below", bound, tape] =>
    match bound.toNat?, tapeOf tape with
    | some b, some S =>
      match Dp.below S b 64 0 with
      | some (v, pos) => s!"{v} {pos}"
      | none => "fuel"
    | _, _ => "bad-op"
  | [op, num, den, tape] =>
    match num.toNat?, den.toNat?, tapeOf tape with
    | some n, some d, some S =>
      if d = 0 then "bad-op" else
      let γ := Dp.Q.mk' n d
      match op with
      | "bern" => match Dp.run S (Dp.bernoulli γ) 0 with
        | some (b, pos) => s!"{b} {pos}"
        | none => "fuel"
      | "bexp1" => showSamp toString (Dp.run S (Dp.bexp1 γ fuel 1) 0)
      | "bexp" => showSamp toString (Dp.run S (Dp.bexp γ fuel) 0)
      | "geo" => showSamp toString (Dp.run S (Dp.geometric γ fuel) 0)
      | "lap" => showSamp toString (Dp.run S (Dp.laplace γ fuel fuel) 0)
      | "gauss" => showSamp toString (Dp.run S (Dp.gaussian γ fuel fuel) 0)
      | _ => "bad-op"
    | _, _, _ => "bad-op"
  | ["noise", f, kind, en, ed, vec, tape] =>
    let sens : Option Nat :=
      match kind.splitOn ":" with
      | ["svec", bits, len] => do pure (Dp.sumVecSensitivity (← bits.toNat?) (← len.toNat?))
      | ["hist"] => some Dp.histogramSensitivity
      | ["l1", max] => max.toNat?.map Dp.l1Sensitivity
      | _ => none
    match sens, en.toNat?, ed.toNat?, parseNatList vec, tapeOf tape with
    | some sens, some en, some ed, some v, some S =>
      if ed = 0 then "bad-op" else
      withField f fun q _ =>
      match Dp.laplaceScale sens (Dp.Q.mk' en ed) with
      | none => "err"
      | some scale =>
        match Dp.addIidNoise S (q + 1) (Dp.laplace scale fuel fuel) v 0 with
        | some (out, pos) => s!"ok {",".intercalate (out.map toString)} {pos}"
        | none => "fuel"
    | _, _, _, _, _ => "bad-op"
  | _ => "bad-op"

def handle (line : String) : String :=
  match line.trimAscii.toString.splitOn " " with
  | "fp" :: rest => handleFp rest
  | "dec" :: rest => handleDec rest
  | "p3" :: rest => handleP3 rest
  | "c16" :: rest => handleC16 rest
  | "c14" :: rest => handleC14 rest
  | "c19" :: rest => handleC19 rest
  | "pop" :: rest => handlePop rest
  | "dp" :: rest => handleDp rest
  | "flp" :: op :: rest => handleFlp op rest
  | "poly" :: op :: rest => handlePoly op rest
  | "idpf" :: rest => handleIdpf rest
  | "idpf1" :: rest => handleIdpf1 rest
  | "pp" :: r :: sl :: sh :: toks =>
    match r.toNat?, sl.toNat?, sh.toNat? with
    | some r, some a, some b => Trace.runScript (Trace.agg r a b) toks
    | _, _, _ => "bad-op"
  | "prng" :: rest => handlePrng rest
  | "prng2" :: rest => handlePrng2 rest
  | "genrand" :: rest => handleGenRand rest
  | "xofabs" :: rest => handleXofAbs rest
  | "fkreads" :: rest => handleFkReads rest
  | "merge" :: rest => handleMerge rest
  | "agg" :: rest => handleAgg rest
  | "fvmerge" :: rest => handleFvMerge rest
  | "popunshard" :: rest => handlePopUnshard rest
  | "aggctor" :: rest => handleAggCtor rest
  | "aggvalid" :: rest => handleAggValid rest
  | ["unitvalid", n] => match n.toNat? with
    | some k => toString (unitParamIsValid (List.replicate k ()))
    | none => "bad-op"
  | "enclen" :: rest => handleEncLen rest
  | "fe" :: rest => handleFe rest
  | "fedec" :: rest => handleFeDec (fun P => P.R - 1) rest
  | "ferand" :: rest => handleFeDec (fun P => P.bitMask) rest
  | _ => "bad-op"

partial def loop (h : IO.FS.Stream) (out : IO.FS.Stream) : IO Unit := do
  let line ← h.getLine
  if line.isEmpty then return ()
  out.putStrLn (handle line)
  loop h out

def main : IO Unit := do
  let out ← IO.getStdout
  loop (← IO.getStdin) out
