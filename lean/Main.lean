import PrioModel.Field

/-! Line-protocol driver: one request per line on stdin, one answer per line on stdout. -/
open Prio

def natArgs (xs : List String) : Option (List Nat) := xs.mapM String.toNat?

def hexDigit (c : Char) : Option Nat :=
  if '0' ≤ c ∧ c ≤ '9' then some (c.toNat - '0'.toNat)
  else if 'a' ≤ c ∧ c ≤ 'f' then some (c.toNat - 'a'.toNat + 10)
  else none

def parseHex (s : String) : Option (List Nat) :=
  let rec go : List Char → Option (List Nat)
    | [] => some []
    | [_] => none
    | a :: b :: rest => do
      let x ← hexDigit a
      let y ← hexDigit b
      let r ← go rest
      pure ((16 * x + y) :: r)
  if s == "-" then some [] else go s.toList

def toHex (bs : List Nat) : String :=
  if bs.isEmpty then "-" else
  let d (n : Nat) : Char := if n < 10 then Char.ofNat (48 + n) else Char.ofNat (87 + n)
  String.ofList (bs.flatMap fun b => [d (b / 16 % 16), d (b % 16)])

def handleFp (args : List String) : String :=
  match args with
  | field :: op :: rest =>
    match findParams field, natArgs rest with
    | some P, some [x, y] =>
      match op with
      | "add" => toString (P.add x y)
      | "sub" => toString (P.sub x y)
      | "mul" => toString (P.mul x y)
      | "neg" => toString (P.neg x)
      | "modp" => toString (P.modp x)
      | "pow" => toString (P.pow x y)
      | "inv" => toString (P.inv x)
      | "montgomery" => toString (P.montgomery x)
      | "residue" => toString (P.residue x)
      | _ => "bad-op"
    | _, _ => "bad-op"
  | _ => "bad-op"

/-- public field API (`make_field!` types): integers in, integers out -/
def handleFe (args : List String) : String :=
  match args with
  | field :: op :: rest =>
    match findParams field, natArgs rest with
    | some P, some [x, y] =>
      let a := P.montgomery x
      let b := P.montgomery y
      match op with
      | "add" => toString (P.residue (P.add a b))
      | "sub" => toString (P.residue (P.sub a b))
      | "mul" => toString (P.residue (P.mul a b))
      | "neg" => toString (P.residue (P.neg a))
      | "inv" => toString (P.residue (P.inv a))
      | "pow" => toString (P.residue (P.pow a y))
      | "enc" => toHex (P.toBytes (P.bits / 8) a)
      | _ => "bad-op"
    | _, _ => "bad-op"
  | _ => "bad-op"

def handleFeDec (mask : Gen.FpParams → Nat) (args : List String) : String :=
  match args with
  | [field, h] =>
    match findParams field, parseHex h with
    | some P, some bytes =>
      match P.tryFromBytes (P.bits / 8) bytes (mask P) with
      | some a => toString (P.residue a)
      | none => "err"
    | _, _ => "bad-op"
  | _ => "bad-op"

def handle (line : String) : String :=
  match line.trimAscii.toString.splitOn " " with
  | "fp" :: rest => handleFp rest
  | "fe" :: rest => handleFe rest
  | "fedec" :: rest => handleFeDec (fun P => P.R - 1) rest
  | "ferand" :: rest => handleFeDec (fun P => P.bitMask) rest
  | _ => "bad-op"

partial def loop (h : IO.FS.Stream) (out : IO.FS.Stream) : IO Unit := do
  let line ← h.getLine
  if line.isEmpty then return ()
  out.putStrLn (handle line)
  loop h out

def main : IO Unit := do
  let out ← IO.getStdout
  loop (← IO.getStdin) out
